/-
C16 — WASI file operations behave like a POSIX-style reference model.

Property theorems only (proofs by lemma application; the lemmas live in `Wz/Proofs/C16_*.lean`).
Three cores:
  (1) `descriptor.Table` (bitmap words + dense items) and the descriptor level of `FSContext`
      (`Wz.Model.FdTable`): refinement of a partial map with lowest-free allocation for ALL op sequences,
      validity of a descriptor until it is closed, the specification of renumber and its failure on the
      pinned tree (F17);
  (2) `DirentCache.Read` + `maxDirents` + `writeDirents` (`Wz.Model.Readdir`): completeness of the
      enumeration for every listing, every schedule of buffer lengths ≥ 24 and the client protocol;
  (3) the reference file system (`Wz.Model.RefFS`): one byte list per file under read/write/pread/pwrite/
      seek/tell/append/truncate.
-/
import Wz.Proofs.C16_Table
import Wz.Proofs.C16_Readdir
import Wz.Proofs.C16_Content
import Wz.Model.RefFSTimes

namespace Wz.C16
open Wz.Model.FdTable Wz.Proofs.C16Table

/-! ## (1) descriptor table -/

/-- The regenerated constants the models use are the ones the theorems were proved for. -/
theorem constants : Wz.Gen.WasiFs.DirentSize = 24 ∧ Wz.Gen.WasiFs.FdPreopen = 3 ∧
    Wz.Gen.WasiFs.FILETYPE_DIRECTORY = 3 ∧ Wz.Gen.WasiFs.FILETYPE_REGULAR_FILE = 4 := by decide

/-- `table_refines_map`: for EVERY sequence of Insert / InsertAt / Lookup / Delete / Reset starting from the
empty table, the outputs of the bitmap+slice implementation are the outputs of a partial map `Nat ⇀ α` whose
Insert returns the lowest free key (`ARun` is the run of that specification), and the final table denotes
the final map. -/
theorem table_refines_map {α : Type} [Inhabited α] (ops : List (Op α)) :
    (Table.empty.run ops).1.WF ∧
    ARun (fun _ => none) ops ((Table.empty : Table α).run ops).2 (abs (Table.empty.run ops).1) := by
  have h := run_refines (Table.empty : Table α) ops empty_wf
  rw [empty_abs] at h
  exact h

/-- the specification leaves no choice: outputs and resulting map are determined by the history -/
theorem table_spec_deterministic {α : Type} [Inhabited α] {m m1 m2 : Nat → Option α} {op : Op α} {o1 o2 : Out α}
    (h1 : AStep m op o1 m1) (h2 : AStep m op o2 m2) : o1 = o2 ∧ m1 = m2 :=
  AStep_deterministic h1 h2

/-- Insert returns the lowest free key and changes nothing else (single step, any well-formed table). -/
theorem insert_lowest_free {α : Type} [Inhabited α] (t : Table α) (a : α) (h : t.WF) :
    abs t (t.insert a).2 = none ∧ (∀ j, j < (t.insert a).2 → (abs t j).isSome = true) ∧
    abs (t.insert a).1 = upd (abs t) (t.insert a).2 (some a) :=
  (insert_spec t a h).2

example : (Table.empty : Table Nat).WF := empty_wf
-- TEST (sample): insert, insert, delete 0, insert reuses key 0
example : ((((((Table.empty : Table Nat).insert 7).1.insert 8).1.delete 0).insert 9).2) = 0 := by decide

/-- descriptor-level operations as data -/
inductive COp where
  | openNew (preopen : Bool)
  | close (fd : Int)
  | renumber (a b : Int)

def COp.names (fd : Int) : COp → Bool
  | .openNew _ => false
  | .close f => f == fd
  | .renumber a b => a == fd || b == fd

def stepC (s : Bool) (c : Ctx) : COp → Ctx
  | .openNew p => (c.openNew p).1
  | .close fd => (c.close fd).1
  | .renumber a b => (c.renumber s a b).1

def runC (s : Bool) (c : Ctx) : List COp → Ctx
  | [] => c
  | op :: ops => runC s (stepC s c op) ops

/-- reachable contexts are well-formed with distinct identities -/
theorem ctx_inv_step (s : Bool) (c : Ctx) (op : COp) (h : CtxWF c) (hd : Distinct c) :
    CtxWF (stepC s c op) ∧ Distinct (stepC s c op) := by
  cases op with
  | openNew p => exact ⟨openNew_wf c p h, distinct_openNew c p h hd⟩
  | close fd => exact ⟨close_wf c fd h, distinct_close c fd h hd⟩
  | renumber a b => exact ⟨renumber_wf s c a b h, distinct_renumber s c a b h hd⟩

theorem fd_step_other (s : Bool) (c : Ctx) (op : COp) (fd : Int) (h : CtxWF c) (hd : Distinct c)
    (hl : c.live fd = true) (hn : op.names fd = false) :
    (stepC s c op).live fd = true ∧ (stepC s c op).lookup fd = c.lookup fd := by
  cases op with
  | openNew p =>
    have sp := openNew_spec c p h
    have hne : fd ≠ ((c.openNew p).2 : Int) := by
      intro e
      have h0 := sp.1
      rw [← e] at h0
      unfold Ctx.live Ctx.lookup at hl
      rw [h0] at hl
      simp at hl
    have hlk := sp.2.2.2.1 fd hne
    refine ⟨?_, hlk⟩
    unfold Ctx.live at hl ⊢
    show (match (c.openNew p).1.lookup fd with | none => false | some e => !(c.openNew p).1.closed.contains e.id) = true
    rw [hlk, sp.2.2.2.2]
    exact hl
  | close f =>
    have hne : fd ≠ f := by
      intro e; simp [COp.names, e] at hn
    have r := close_other c fd f h hd hne
    exact ⟨r.2 hl, r.1⟩
  | renumber a b =>
    have h1 : fd ≠ a := by intro e; simp [COp.names, e] at hn
    have h2 : fd ≠ b := by intro e; simp [COp.names, e] at hn
    have r := renumber_other s c fd a b h hd h1 h2
    exact ⟨r.2 hl, r.1⟩

/-- `fd_valid_until_closed`: through ANY history of opens, closes and renumbers that does not name `fd`
(as the closed descriptor, or as source or target of a renumber), a live descriptor stays live and keeps
denoting the same open file — on the pinned tree and on the repaired variant alike. -/
theorem fd_valid_until_closed (s : Bool) (ops : List COp) (c : Ctx) (fd : Int) (h : CtxWF c) (hd : Distinct c)
    (hl : c.live fd = true) (hn : ∀ op ∈ ops, op.names fd = false) :
    (runC s c ops).live fd = true ∧ (runC s c ops).lookup fd = c.lookup fd := by
  induction ops generalizing c with
  | nil => exact ⟨hl, rfl⟩
  | cons op ops ih =>
    have st := fd_step_other s c op fd h hd hl (hn op (List.mem_cons_self ..))
    have iv := ctx_inv_step s c op h hd
    have r := ih (stepC s c op) iv.1 iv.2 st.1 (fun o ho => hn o (List.mem_cons_of_mem _ ho))
    exact ⟨r.1, r.2.trans st.2⟩

-- non-vacuity: the initial context (stdio + one pre-open) meets the hypotheses, descriptor 3 is live
example : CtxWF Ctx.init ∧ Distinct Ctx.init ∧ Ctx.init.live 3 = true := ⟨init_wf, distinct_init, by decide⟩

/-- `renumber_spec` (repaired variant, `selfNoop = true`): a successful renumber moves the entry and closes
the previous target; onto itself it changes nothing. -/
theorem renumber_spec (c : Ctx) (a b : Int) (h : CtxWF c) (hd : Distinct c)
    (hok : (c.renumber true a b).2 = .ok) :
    (a = b → (c.renumber true a b).1 = c) ∧
    (a ≠ b →
      (c.renumber true a b).1.lookup b = c.lookup a ∧
      (c.renumber true a b).1.lookup a = none ∧
      (∀ e, c.lookup b = some e → e.id ∈ (c.renumber true a b).1.closed) ∧
      (c.live a = true → (c.renumber true a b).1.live b = true)) :=
  renumber_spec_fixed c a b h hd hok

/-- FULL STATEMENT that fails on the pinned tree: `renumber_spec` with `selfNoop = false`.
Proved part (pinned tree): everything except `a = b`. -/
theorem renumber_spec_partial (c : Ctx) (a b : Int) (h : CtxWF c) (hd : Distinct c)
    (hok : (c.renumber false a b).2 = .ok) (hne : a ≠ b) :
    (c.renumber false a b).1.lookup b = c.lookup a ∧
    (c.renumber false a b).1.lookup a = none ∧
    (∀ e, c.lookup b = some e → e.id ∈ (c.renumber false a b).1.closed) ∧
    (c.live a = true → (c.renumber false a b).1.live b = true) :=
  renumber_spec_asis_partial c a b h hd hok hne

/-- F17 (witness, pinned tree): path_open → fd 4; fd_renumber(4,4) succeeds, fd 4 stays in the table, its
file is closed.  So `renumber_spec` is false for `selfNoop = false`. -/
theorem renumber_self_witness :
    let c := (Ctx.init.openNew false).1
    c.live 4 = true ∧ (c.renumber false 4 4).2 = .ok ∧
    ((c.renumber false 4 4).1.lookup 4).isSome = true ∧ (c.renumber false 4 4).1.live 4 = false :=
  Wz.Proofs.C16Table.renumber_self_witness

theorem renumber_spec_false_asis :
    ¬ (∀ (c : Ctx) (a b : Int), CtxWF c → Distinct c → (c.renumber false a b).2 = .ok →
        a = b → (c.renumber false a b).1 = c) := by
  intro hall
  have w := renumber_self_witness
  have hwf : CtxWF (Ctx.init.openNew false).1 := openNew_wf _ _ init_wf
  have hdi : Distinct (Ctx.init.openNew false).1 := distinct_openNew _ _ init_wf distinct_init
  have e := hall (Ctx.init.openNew false).1 4 4 hwf hdi w.2.1 rfl
  have l := w.2.2.2
  rw [e] at l
  rw [w.1] at l
  exact Bool.noConfusion l

-- non-vacuity of `renumber_spec`: a successful renumber 4 → 7 exists
example : ((Ctx.init.openNew false).1.renumber true 4 7).2 = .ok := by decide

/-! ## (2) fd_readdir -/

open Wz.Model.Readdir Wz.Proofs.C16Readdir in
/-- `readdir_complete`: for every listing, every directory inode and EVERY sequence of buffer lengths
(each ≥ 24 and a u32), a client that follows the protocol — cookie 0 first, then the `d_next` of the last
complete entry; stop when `bufused < buf_len` — never gets an error, has at every moment received exactly a
prefix of `.`, `..`, listing (in order, each once, `d_next` = index + 1), and when the end is signalled has
received all of it. -/
theorem readdir_complete (listing : List Dirent) (dotIno : Nat) (bs : List Nat)
    (hb : ∀ b ∈ bs, 24 ≤ b ∧ b < 2^32) :
    let c := Cache.fresh listing dotIno
    let cl := (Client.start c).run bs
    cl.failed = none ∧ cl.acc = c.full.take cl.cookie ∧ cl.cookie ≤ c.full.length ∧
    (cl.done = true → cl.acc = c.full) := by
  intro c cl
  have hi := client_run_inv c.full (Client.start c) bs (client_start_inv c (fresh_inv listing dotIno))
    (fun b hbm => hb b hbm)
  exact ⟨hi.2.2.1, hi.2.2.2.1, hi.2.2.2.2.1, hi.2.2.2.2.2.2⟩

open Wz.Model.Readdir Wz.Proofs.C16Readdir in
/-- `rewind_ok`: the same from ANY cache state reachable by fd_readdir calls whatsoever (stale or huge
cookies, too short buffers included): cookie 0 restarts a complete enumeration. `Inv` is kept by every
call (`readdir_call_inv`) and holds initially. -/
theorem rewind_ok (c : Cache) (h : Inv c) (bs : List Nat) (hb : ∀ b ∈ bs, 24 ≤ b ∧ b < 2^32) :
    let cl := (Client.start c).run bs
    cl.failed = none ∧ cl.acc = c.full.take cl.cookie ∧ (cl.done = true → cl.acc = c.full) := by
  intro cl
  have hi := client_run_inv c.full (Client.start c) bs (client_start_inv c h) (fun b hbm => hb b hbm)
  exact ⟨hi.2.2.1, hi.2.2.2.1, hi.2.2.2.2.2.2⟩

open Wz.Model.Readdir Wz.Proofs.C16Readdir in
theorem readdir_call_inv (c : Cache) (bufLen cookie : Nat) (h : Inv c) (hb32 : bufLen < 2^32) :
    Inv (fdReaddirCore c bufLen cookie).1 ∧ (fdReaddirCore c bufLen cookie).1.full = c.full :=
  call_inv c bufLen cookie h hb32

open Wz.Model.Readdir Wz.Proofs.C16Readdir in
/-- `truncated_not_skipped`: one call at a cookie the client may hold. The complete entries are the next
`k` entries; the end is signalled only when nothing is left; if no entry fitted although one is left, the
buffer is reported full and carries that entry's header with its true name length (so the client can grow
the buffer); a buffer that can hold the next entry delivers it. -/
theorem truncated_not_skipped (c : Cache) (bufLen cookie : Nat) (h : Inv c) (hr : Reach c cookie)
    (hb : 24 ≤ bufLen) (hb32 : bufLen < 2^32) :
    ∃ core k, (fdReaddirCore c bufLen cookie).2 = .ok core ∧
      core.complete cookie = numbered ((c.full.drop cookie).take k) cookie ∧
      (core.bufused bufLen < bufLen → cookie + k = c.full.length) ∧
      (k = 0 → cookie < c.full.length →
          core.bufused bufLen = bufLen ∧ core.truncatedHeader = c.full[cookie]?) ∧
      (∀ d, c.full[cookie]? = some d → 24 + d.name.length ≤ bufLen → 1 ≤ k) := by
  obtain ⟨core, k, h1, _, _, h4, _, _, h7, _, h9, h10⟩ := call_spec c bufLen cookie h hr hb hb32
  exact ⟨core, k, h1, h4, h7, h9, h10⟩

open Wz.Model.Readdir Wz.Proofs.C16Readdir in
/-- the enumeration terminates: with buffers that can hold the longest name, `|full| + 1` rounds suffice -/
theorem readdir_terminates (listing : List Dirent) (dotIno : Nat) (bs : List Nat)
    (hb : ∀ b ∈ bs, b < 2^32 ∧ ∀ d ∈ (Cache.fresh listing dotIno).full, 24 + d.name.length ≤ b)
    (hlen : (Cache.fresh listing dotIno).full.length + 1 ≤ bs.length) :
    ((Client.start (Cache.fresh listing dotIno)).run bs).done = true := by
  have := client_terminates (Cache.fresh listing dotIno).full (Client.start (Cache.fresh listing dotIno)) bs
    (client_start_inv _ (fresh_inv listing dotIno)) hb (by simpa [Client.start] using hlen)
  exact this

open Wz.Model.Readdir Wz.Proofs.C16Readdir in
/-- the bytes in the guest buffer are the serialisation of exactly those entries -/
theorem readdir_bytes (k : Core) (cookie : Nat) (hk : k.bufToWrite > 0) (hc : k.direntCount ≤ k.ds.length)
    (hpos : k.truncatedLen > 0 → k.direntCount ≥ 1) :
    k.written cookie =
      (k.complete cookie).flatMap (fun p => header p.1 p.2 ++ p.2.name) ++
      (match k.truncatedHeader with
       | some d => header (cookie + 1 + k.nComplete) d
       | none => []) :=
  written_spec k cookie hk hc hpos

-- TEST (sample): 3 entries, buffers of 30 bytes then large: the client sees ., .., a, bb, ccc
example :
    let l : List Wz.Model.Readdir.Dirent := [⟨[97], 5, 4⟩, ⟨[98, 98], 6, 3⟩, ⟨[99, 99, 99], 7, 4⟩]
    let cl := (Wz.Model.Readdir.Client.start (Wz.Model.Readdir.Cache.fresh l 77)).run [30, 30, 30, 30, 30, 30, 30, 600]
    cl.done = true ∧ cl.acc.map (·.name) = [[46], [46, 46], [97], [98, 98], [99, 99, 99]] := by decide

/-! ## (3) file content -/

open Wz.Model.RefFS Wz.Proofs.C16Content in
/-- `file_content_refinement` (byte level): the three content functions are characterised byte by byte —
a write replaces exactly the written range (a gap reads as zeros), a read returns the bytes at the offset
and is short only at the end of the file, truncate cuts or zero-extends. -/
theorem file_content_refinement (c : List Nat) (off : Nat) (bs : List Nat) (len n i : Nat) :
    (bs ≠ [] → (writeAt c off bs)[i]? =
        if off ≤ i ∧ i < off + bs.length then bs[i - off]?
        else if i < c.length then c[i]? else if i < off then some 0 else none) ∧
    writeAt c off [] = c ∧
    (readAt c off len)[i]? = (if i < len then c[off + i]? else none) ∧
    (readAt c off len).length = min len (c.length - off) ∧
    (truncateTo c n)[i]? = (if i < n then (if i < c.length then c[i]? else some 0) else none) ∧
    readAt (writeAt c off bs) off bs.length = bs ∧
    writeAt c c.length bs = c ++ bs :=
  ⟨writeAt_get c off bs i, writeAt_empty c off, readAt_get c off len i, readAt_length c off len,
   truncateTo_get c n i, read_after_write c off bs, append_write c bs⟩

open Wz.Model.RefFS Wz.Proofs.C16Content in
/-- `file_content_refinement` (descriptor level): fd_write through a live writable description writes into
the single byte list of its inode at the description's offset — at the end of the file in append mode —,
leaves every other file alone and advances the offset; so all descriptions of the same inode see it. -/
theorem write_one_content (fs : FS) (fd : Int) (bs : List Nat) (id : Nat) (d : Desc)
    (hd : fs.desc fd = .ok (id, d)) (hf : d.isDir = false) (hw : d.canWrite = true) (hne : bs ≠ [])
    (hn : (fs.node d.ino).isSome = true) :
    let off := if d.append then (fs.content d.ino).length else d.offset
    (fs.fdWrite fd bs).2 = (.ok, bs.length) ∧
    (fs.fdWrite fd bs).1.content d.ino = writeAt (fs.content d.ino) off bs ∧
    (∀ ino', ino' ≠ d.ino → (fs.fdWrite fd bs).1.content ino' = fs.content ino') ∧
    aget (fs.fdWrite fd bs).1.descs id = some { d with offset := off + bs.length } :=
  fdWrite_spec fs fd bs id d hd hf hw hne hn

open Wz.Model.RefFS Wz.Proofs.C16Content in
theorem pwrite_one_content (fs : FS) (fd : Int) (bs : List Nat) (off id : Nat) (d : Desc)
    (hd : fs.desc fd = .ok (id, d)) (hf : d.isDir = false) (hw : d.canWrite = true) (ha : d.append = false)
    (hne : bs ≠ []) (hn : (fs.node d.ino).isSome = true) :
    (fs.fdPwrite fd bs off).2 = (.ok, bs.length) ∧
    (fs.fdPwrite fd bs off).1.content d.ino = writeAt (fs.content d.ino) off bs ∧
    (∀ ino', ino' ≠ d.ino → (fs.fdPwrite fd bs off).1.content ino' = fs.content ino') ∧
    (fs.fdPwrite fd bs off).1.descs = fs.descs :=
  fdPwrite_spec fs fd bs off id d hd hf hw ha hne hn

open Wz.Model.RefFS Wz.Proofs.C16Content in
theorem read_one_content (fs : FS) (fd : Int) (len id : Nat) (d : Desc)
    (hd : fs.desc fd = .ok (id, d)) (hf : d.isDir = false) (hr : d.canRead = true) (hl : len ≠ 0) :
    (fs.fdRead fd len).2 = (.ok, readAt (fs.content d.ino) d.offset len) ∧
    (∀ ino, (fs.fdRead fd len).1.content ino = fs.content ino) ∧
    aget (fs.fdRead fd len).1.descs id =
      some { d with offset := d.offset + min len ((fs.content d.ino).length - d.offset) } :=
  fdRead_spec fs fd len id d hd hf hr hl

open Wz.Model.RefFS Wz.Proofs.C16Content in
theorem pread_one_content (fs : FS) (fd : Int) (len off id : Nat) (d : Desc)
    (hd : fs.desc fd = .ok (id, d)) (hf : d.isDir = false) (hr : d.canRead = true) (hl : len ≠ 0) :
    fs.fdPread fd len off = (fs, .ok, readAt (fs.content d.ino) off len) :=
  fdPread_spec fs fd len off id d hd hf hr hl

open Wz.Model.RefFS Wz.Proofs.C16Content in
theorem seek_tell_offsets (fs : FS) (fd : Int) (off : Int) (whence id : Nat) (d : Desc)
    (hd : fs.desc fd = .ok (id, d)) (hf : d.isDir = false) (hw : whence ≤ 2) :
    let base : Int := if whence = 0 then 0 else if whence = 1 then d.offset else (fs.content d.ino).length
    (base + off < 0 → fs.fdSeek fd off whence = (fs, .inval, 0)) ∧
    (0 ≤ base + off →
      (fs.fdSeek fd off whence).2 = (.ok, (base + off).toNat) ∧
      aget (fs.fdSeek fd off whence).1.descs id = some { d with offset := (base + off).toNat } ∧
      ∀ ino, (fs.fdSeek fd off whence).1.content ino = fs.content ino) ∧
    (fs.fdTell fd).2 = (.ok, d.offset) :=
  ⟨(fdSeek_spec fs fd off whence id d hd hf hw).1, (fdSeek_spec fs fd off whence id d hd hf hw).2,
   fdTell_spec fs fd id d hd hf⟩

open Wz.Model.RefFS Wz.Proofs.C16Content in
theorem truncate_one_content (fs : FS) (fd : Int) (size : Nat) (id : Nat) (d : Desc)
    (hd : fs.desc fd = .ok (id, d)) (hf : d.isDir = false) (hw : d.canWrite = true)
    (hn : (fs.node d.ino).isSome = true) :
    (fs.fdSetSize fd size).2 = .ok ∧
    (fs.fdSetSize fd size).1.content d.ino = truncateTo (fs.content d.ino) size ∧
    (∀ ino', ino' ≠ d.ino → (fs.fdSetSize fd size).1.content ino' = fs.content ino') ∧
    (fs.fdSetSize fd size).1.descs = fs.descs ∧
    fs.fdStat fd = (.ok, Wz.Gen.WasiFs.FILETYPE_REGULAR_FILE, (fs.content d.ino).length) :=
  ⟨(fdSetSize_spec fs fd size id d hd hf hw hn).1, (fdSetSize_spec fs fd size id d hd hf hw hn).2.1,
   (fdSetSize_spec fs fd size id d hd hf hw hn).2.2.1, (fdSetSize_spec fs fd size id d hd hf hw hn).2.2.2,
   fdStat_size fs fd id d hd hf⟩

-- non-vacuity of the descriptor-level hypotheses: create a file, its descriptor 4 is a live writable
-- regular-file description whose inode exists.
def sampleFS : Wz.Model.RefFS.FS := ((Wz.Model.RefFS.FS.init false).pathOpen 3 ["a"]
  { creat := true, directory := false, excl := false, trunc := false, append := false, rightRead := true, rightWrite := true }).1

example : ∃ id d, sampleFS.desc 4 = .ok (id, d) ∧ d.isDir = false ∧ d.canWrite = true ∧ d.canRead = true ∧
    (sampleFS.node d.ino).isSome = true :=
  ⟨4, { ino := 1, offset := 0, append := false, canRead := true, canWrite := true, isDir := false, name := ["a"] }, by
    refine ⟨?_, rfl, rfl, rfl, ?_⟩ <;> rfl⟩


/-! ## (4) directory changes are visible to later lookups: descriptors denote directories, not names -/

open Wz.Model.RefFS in
/-- the history of finding F24: mkdir a; open a → 4; rename a → b -/
def f24History (byName : Bool) : FS :=
  let fs0 := FS.init false byName
  let fs1 := (fs0.mkdir 3 ["a"]).1
  let fs2 := (fs1.pathOpen 3 ["a"]
    { creat := false, directory := true, excl := false, trunc := false, append := false, rightRead := true, rightWrite := false }).1
  (fs2.rename 3 ["a"] 3 ["b"]).1

open Wz.Model.RefFS in
/-- `dirfd_follows_rename` (repaired variant, `byName = false`): a rename changes neither the descriptor
table nor the open descriptions, so every descriptor denotes the same directory (inode) as before; and a path
relative to a directory descriptor starts from that directory — whatever it is called now — unless the
directory itself has been removed (then nothing can be found in it). -/
theorem dirfd_follows_rename (fs : FS) (h : fs.byName = false) (f1 f2 : Int) (c1 c2 : List String)
    (fd : Int) (comps : List String) :
    (fs.rename f1 c1 f2 c2).1.desc fd = fs.desc fd ∧
    (∀ id d, fs.desc fd = .ok (id, d) → d.isDir = true →
      (((fs.rename f1 c1 f2 c2).1.node d.ino).map (·.dead)).getD false = false →
      (fs.rename f1 c1 f2 c2).1.atPath fd comps = .ok (d.ino, comps)) := by
  have key : (fs.rename f1 c1 f2 c2).1.ctx = fs.ctx ∧ (fs.rename f1 c1 f2 c2).1.descs = fs.descs ∧
      (fs.rename f1 c1 f2 c2).1.byName = fs.byName := by
    unfold FS.rename
    repeat' split
    all_goals (try exact ⟨rfl, rfl, rfl⟩)
    all_goals (simp only [FS.setNode]; repeat' split)
    all_goals exact ⟨rfl, rfl, rfl⟩
  have hdesc : (fs.rename f1 c1 f2 c2).1.desc fd = fs.desc fd := by
    unfold FS.desc
    rw [key.1, key.2.1]
  refine ⟨hdesc, ?_⟩
  intro id d hd hdir hdead
  unfold FS.atPath
  rw [hdesc, hd]
  simp [hdir, key.2.2, h, hdead]

open Wz.Model.RefFS in
/-- F24 (witness, pinned tree `byName = true`): after `mkdir a; open a → 4; rename a b`, creating `x`
through descriptor 4 fails with ENOENT, while in the repaired variant it succeeds and `b/x` exists. -/
theorem dirfd_rename_witness :
    ((f24History true).mkdir 4 ["x"]).2 = .noent ∧
    ((f24History false).mkdir 4 ["x"]).2 = .ok ∧
    (((f24History false).mkdir 4 ["x"]).1.pathStat 3 ["b", "x"]).1 = .ok := by decide

/-! ## explicit modification times through a descriptor (`fd_filestat_set_times`, `Wz.Model.RefFSTimes`) -/

open Wz.Model.RefFS in
/-- Setting times through a descriptor succeeds exactly when the descriptor is open - whatever was done with it
before (a directory listing does not make it stale) - and a successful call is read back through it. -/
theorem set_times_succeeds_iff_open_and_reads_back (fs : FS) (ts : Times) (fd : Int) (t : Nat) :
    ((fs.fdSetTimes ts fd t).2 = .ok ↔ ∃ id d, fs.desc fd = .ok (id, d)) ∧
    ((fs.fdSetTimes ts fd t).2 = .ok → fs.fdMtime (fs.fdSetTimes ts fd t).1 fd = (.ok, some t)) := by
  unfold FS.fdSetTimes FS.fdMtime
  cases h : fs.desc fd with
  | error e =>
    have hne : e ≠ E.ok := by
      intro he
      subst he
      unfold FS.desc at h
      repeat' split at h
      all_goals simp at h
    simp [hne]
  | ok p => simp [aget_aset_same]; exact ⟨p.1, p.2, rfl⟩

open Wz.Model.RefFS in
/-- … and it changes the time of that inode only. -/
theorem set_times_leaves_other_inodes (fs : FS) (ts : Times) (fd fd' : Int) (t : Nat) (id id' : Nat) (d d' : Desc)
    (h : fs.desc fd = .ok (id, d)) (h' : fs.desc fd' = .ok (id', d')) (hne : d'.ino ≠ d.ino) :
    fs.fdMtime (fs.fdSetTimes ts fd t).1 fd' = fs.fdMtime ts fd' := by
  unfold FS.fdSetTimes FS.fdMtime
  simp [h, h', aget_aset_other _ _ _ _ hne]

-- non-vacuity (test on a sample): descriptor 3 (the pre-open) of the initial file system
open Wz.Model.RefFS in
example : ((FS.init false).fdSetTimes [] 3 77).2 = E.ok ∧
    (FS.init false).fdMtime ((FS.init false).fdSetTimes [] 3 77).1 3 = (E.ok, some 77) := by
  decide

end Wz.C16
