/- C16: property theorems (none yet). -/
namespace Wz.C16
end Wz.C16
