import Wz.Gen.Shapes

/-!
# C07 companion: a compilation-cache hit restores every option of the compilation

A compiled module read back from the file cache is machine code only; the options it was compiled under
(termination checks, function listeners) live in fields that `getCompiledModule` restores on the hit.  Whether a call
gets its context watcher is decided by one of those fields (`ensureTermination`), so the restoration has to be the
identity on EVERY combination of options: `restore_is_identity` for the code's form (the termination flag assigned
unconditionally, the listener fields under `len(listeners) > 0`), `exclusive_cases_lose_the_flag_witness` for the form
with the two restorations as exclusive cases of one switch (cache hit + listeners: the flag stays false and nothing
ever stops the guest - seeded change C07-9).  Which fields are assigned unconditionally and which under what condition
is a regenerated shape.
-/

namespace Wz.C07

structure CompileOpts where
  ensureTermination : Bool
  listeners : Bool
  deriving DecidableEq, Repr

/-- the fields of a module fresh from the file cache -/
def blank : CompileOpts := { ensureTermination := false, listeners := false }

/-- the code's form: the flag unconditionally, the listener fields under their own condition -/
def restore (want : CompileOpts) : CompileOpts :=
  let cm := { blank with ensureTermination := want.ensureTermination }
  if want.listeners then { cm with listeners := true } else cm

/-- exclusive cases of one switch -/
def restoreExclusive (want : CompileOpts) : CompileOpts :=
  if want.listeners then { blank with listeners := true }
  else if want.ensureTermination then { blank with ensureTermination := true }
  else blank

theorem restore_is_identity (want : CompileOpts) : restore want = want := by
  cases want with
  | mk e l => cases e <;> cases l <;> rfl

theorem exclusive_cases_lose_the_flag_witness :
    (restoreExclusive { ensureTermination := true, listeners := true }).ensureTermination = false := by decide

set_option maxRecDepth 16384 in
theorem cache_hit_restores_flag_unconditionally :
    Wz.Gen.Shapes.get "c07.cache_hit_restore" =
      some "cm.parent = e; cm.module = module; cm.sharedFunctions = e.sharedFunctions; cm.ensureTermination = ensureTermination; cm.offsets = wazevoapi.NewModuleContextOffsetData(module, len(listeners) > 0) ;; if len(listeners) > 0: cm.listeners, cm.listenerBeforeTrampolines, cm.listenerAfterTrampolines" := by
  decide

end Wz.C07
