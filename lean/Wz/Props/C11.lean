/- C11: property theorems (none yet). -/
namespace Wz.C11
end Wz.C11
