import Wz.Proofs.C11_Isolation
import Wz.Gen.C11Sharing
/-
C11 — Instances are isolated unless explicitly linked.

Model (`Wz.Model.Isolation`): ONE heap holding the read-only objects of compiled modules (segment bytes,
element vectors, function code) and, per instance, six mutable objects (memory, table, globals, data
headers, element headers, system context = fd table + stdout + clocks + random position). `hstep` runs an
op of one instance inside that heap, following the header pointers into the shared segment objects;
`lstep` is the same op on a LONE instance that owns private copies of everything.

Property at full strength (all op lists, all interleavings, any number of instances and modules):
`noninterference`. Tie A: `facts_classified`, `shape_ok`, `shape_asIs` over the facts regenerated from
`Store.instantiate` & co. Not provable here: that the engines' machine code / interpreter loop never writes
through the aliased `d.Init` slices — the model has no op that writes a segment object, the harness hashes
the real segment bytes before/after every run.
-/
namespace Wz.C11
open Wz.Model.Isolation

/-! ## tie A: obligations over the regenerated facts -/

/-- every part of a new `ModuleInstance` that aliases the compiled module is in the read-only class, and the
extractor could classify every assignment (finite regenerated table: `decide` is a proof) -/
theorem facts_classified : classified Wz.Gen.C11Sharing.fields = true := by decide

/-- the six mutable objects of an instance are freshly allocated by `instantiate` -/
theorem shape_ok : Wz.Gen.C11Sharing.shape.ok = true := by decide

/-- the shape the model was written against: only `DataInstances[i]` aliases (`= d.Init`) -/
theorem shape_asIs : Wz.Gen.C11Sharing.shape = Shape.asIs := by decide

/-- instances made by `instantiate` under an ok shape have private mutable objects -/
theorem instantiate_private (sh : Shape) (hs : sh.ok = true) (h : Heap) (mid : Nat) (md : Module) (iid : Nat) :
    Private (instantiate sh h mid md iid).2 ∧ (instantiate sh h mid md iid).2.id = iid := by
  obtain ⟨a, b, c, d, e, f, g, k⟩ := sh
  simp [Shape.ok] at hs
  obtain ⟨⟨⟨⟨⟨h1, h2⟩, h3⟩, h4⟩, h5⟩, h6⟩ := hs
  subst h1 h2 h3 h4 h5 h6
  exact ⟨⟨rfl, rfl, rfl, rfl, rfl, rfl, mid, rfl⟩, rfl⟩

/-! ## one step -/

/-- a step of instance `i` changes only objects owned by `i` … -/
theorem step_frames_instance (env : Env) (h : Heap) (i : Inst) (op : Op) (hp : Private i) (a : Addr)
    (ha : ∀ f, a ≠ .own i.id f) : (hstep env h i op).1.get a = h.get a :=
  hstep_frame env h i op hp a ha

/-- … in particular never an object of a compiled module, nor any instance's segment copy -/
theorem step_never_writes_shared (env : Env) (h : Heap) (i : Inst) (op : Op) (hp : Private i) (mid : Nat) (sl : Slot) :
    (hstep env h i op).1.get (.shared mid sl) = h.get (.shared mid sl) :=
  hstep_frame env h i op hp _ (fun _ e => by cases e)

/-- a step in the shared heap is exactly the step of the lone instance (state and output) -/
theorem step_refines_lone (env : Env) (h : Heap) (i : Inst) (s : LState) (op : Op) (hp : Private i) (r : Rel h i s) :
    Rel (hstep env h i op).1 i (lstep env s op).1 ∧ (hstep env h i op).2 = (lstep env s op).2 := by
  have rm := r.mem; have rt := r.tbl; have rg := r.glob; have rs := r.sys; have rc := r.code
  obtain ⟨dh, rdh, fd⟩ := r.data
  obtain ⟨eh, reh, fe⟩ := r.elem
  cases op with
  | m o => simp only [hstep, lstep, rm]; exact ⟨rel_set_mem hp r _, trivial⟩
  | g o => simp only [hstep, lstep, rg]; exact ⟨rel_set_glob hp r _, trivial⟩
  | t o => simp only [hstep, lstep, rt]; exact ⟨rel_set_tbl hp r _, trivial⟩
  | calli ix => simp only [hstep, lstep, rt, rc, rg]; exact ⟨r, trivial⟩
  | minit k d sO n =>
    simp only [hstep, lstep, rdh, rm]
    cases hk : dh[k]? with
    | none => simp only [forall2_get_none fd k hk]; exact ⟨r, trivial⟩
    | some e =>
      obtain ⟨y, hy, ry⟩ := forall2_get fd k e hk
      simp only [hy, segBytes, seg_of_rel ry]
      exact ⟨rel_set_mem hp r _, trivial⟩
  | ddrop k =>
    simp only [hstep, lstep, rdh, forall2_length fd]
    split
    · exact ⟨rel_drop_data hp r dh rdh k, rfl⟩
    · exact ⟨r, rfl⟩
  | tinit k d sO n =>
    simp only [hstep, lstep, reh, rt]
    cases hk : eh[k]? with
    | none => simp only [forall2_get_none fe k hk]; exact ⟨r, trivial⟩
    | some e =>
      obtain ⟨y, hy, ry⟩ := forall2_get fe k e hk
      simp only [hy, segRefs, seg_of_rel ry]
      exact ⟨rel_set_tbl hp r _, trivial⟩
  | edrop k =>
    simp only [hstep, lstep, reh, forall2_length fe]
    split
    · exact ⟨rel_drop_elem hp r eh reh k, rfl⟩
    · exact ⟨r, rfl⟩
  | s o =>
    simp only [hstep, lstep, rm, rs]
    have r1 := rel_set_mem hp r (sysOp env s.mem s.sys o).1
    have r2 := rel_set_sys hp r1 (sysOp env s.mem s.sys o).2.1
    exact ⟨r2, trivial⟩

/-- a step of instance `i` is invisible to every other instance -/
theorem step_preserves_others (env : Env) (h : Heap) (i j : Inst) (sj : LState) (op : Op)
    (hpi : Private i) (hpj : Private j) (hne : j.id ≠ i.id) (r : Rel h j sj) : Rel (hstep env h i op).1 j sj :=
  rel_frame i.id (fun a ha => hstep_frame env h i op hpi a ha) hpj hne r

/-! ## all interleavings -/

/-- FULL STATEMENT. For every schedule (= every interleaving of the op lists of any number of instances, of the
same or of different compiled modules) run in one heap, the projection to instance `i` — its final state AND its
outputs — is the lone run of `i`'s own ops. `tab` is any instance table whose instances have private mutable
objects (which `instantiate` guarantees for the regenerated shape: `shape_ok`, `instantiate_private`). -/
theorem noninterference (env : Env) (tab : Nat → Option Inst)
    (htab : ∀ k inst, tab k = some inst → inst.id = k ∧ Private inst)
    (i : Inst) (hi : tab i.id = some i) :
    ∀ (sched : List (Nat × Op)) (h : Heap) (s : LState), Rel h i s →
      Rel (hrun env tab h sched).1 i (lrun env s (proj i.id sched)).1 ∧
      projRes i.id (hrun env tab h sched).2 = (lrun env s (proj i.id sched)).2 := by
  have hpi := (htab _ _ hi).2
  intro sched
  induction sched with
  | nil => intro h s r; exact ⟨r, rfl⟩
  | cons e rest ih =>
    intro h s r
    obtain ⟨k, o⟩ := e
    by_cases hk : k = i.id
    · subst hk
      have hpr : proj i.id ((i.id, o) :: rest) = o :: proj i.id rest := by simp [proj]
      simp only [hrun, hi, hpr, lrun]
      obtain ⟨r', ho⟩ := step_refines_lone env h i s o hpi r
      obtain ⟨ihr, iho⟩ := ih (hstep env h i o).1 (lstep env s o).1 r'
      refine ⟨ihr, ?_⟩
      simp only [projRes, List.filter_cons, beq_self_eq_true, ite_true, List.map_cons] at iho ⊢
      rw [ho]; exact congrArg _ iho
    · have hpr : proj i.id ((k, o) :: rest) = proj i.id rest := by simp [proj, hk]
      rw [hpr]
      cases ht : tab k with
      | none => simp only [hrun, ht]; exact ih h s r
      | some inst =>
        obtain ⟨hid, hpj⟩ := htab k inst ht
        simp only [hrun, ht]
        have r' := step_preserves_others env h inst i s o hpj hpi (by rw [hid]; exact fun e => hk e.symm) r
        obtain ⟨ihr, iho⟩ := ih (hstep env h inst o).1 s r'
        refine ⟨ihr, ?_⟩
        have : ((k, (hstep env h inst o).2) :: (hrun env tab (hstep env h inst o).1 rest).2).filter (fun e => e.1 == i.id)
            = ((hrun env tab (hstep env h inst o).1 rest).2).filter (fun e => e.1 == i.id) := by
          simp [List.filter_cons, hk]
        simp only [projRes, this]
        exact iho

/-- dropping a data segment in instance `i` leaves every other instance `j` able to `memory.init` from it:
the `memory.init` of `j` after `i`'s drop has the result and the effect it has for `j` alone -/
theorem drop_is_local (env : Env) (h : Heap) (i j : Inst) (sj : LState) (k k' d s n : Nat)
    (hpi : Private i) (hpj : Private j) (hne : j.id ≠ i.id) (r : Rel h j sj) :
    let h' := (hstep env h i (.ddrop k)).1
    (hstep env h' j (.minit k' d s n)).2 = (lstep env sj (.minit k' d s n)).2 ∧
    Rel (hstep env h' j (.minit k' d s n)).1 j (lstep env sj (.minit k' d s n)).1 := by
  intro h'
  have r' := step_preserves_others env h i j sj (.ddrop k) hpi hpj hne r
  obtain ⟨a, b⟩ := step_refines_lone env h' j sj (.minit k' d s n) hpj r'
  exact ⟨b, a⟩

/-- same for element segments and `table.init` -/
theorem elem_drop_is_local (env : Env) (h : Heap) (i j : Inst) (sj : LState) (k k' d s n : Nat)
    (hpi : Private i) (hpj : Private j) (hne : j.id ≠ i.id) (r : Rel h j sj) :
    let h' := (hstep env h i (.edrop k)).1
    (hstep env h' j (.tinit k' d s n)).2 = (lstep env sj (.tinit k' d s n)).2 ∧
    Rel (hstep env h' j (.tinit k' d s n)).1 j (lstep env sj (.tinit k' d s n)).1 := by
  intro h'
  have r' := step_preserves_others env h i j sj (.edrop k) hpi hpj hne r
  obtain ⟨a, b⟩ := step_refines_lone env h' j sj (.tinit k' d s n) hpj r'
  exact ⟨b, a⟩

/-! ## instantiating later does not disturb, and is not disturbed -/

theorem setMany_frame (mk : Nat → Addr) (mkObj : List Nat → Obj) (a : Addr) (ha : ∀ k, a ≠ mk k) :
    ∀ (xs : List (List Nat)) (h : Heap) (k : Nat), (setMany h mk mkObj k xs).get a = h.get a
  | [], _, _ => rfl
  | x :: xs, h, k => by
    simp only [setMany]
    rw [setMany_frame mk mkObj a ha xs _ (k + 1)]
    exact Heap.get_set_ne _ _ _ _ (ha k)

/-- `instantiate` of a new instance `iid` writes only `iid`'s own objects and segment copies -/
theorem instantiate_frame (sh : Shape) (hs : sh.ok = true) (h : Heap) (mid : Nat) (md : Module) (iid : Nat) (a : Addr)
    (h1 : ∀ f, a ≠ .own iid f) (h2 : ∀ k, a ≠ .ownD iid k) (h3 : ∀ k, a ≠ .ownE iid k) :
    (instantiate sh h mid md iid).1.get a = h.get a := by
  obtain ⟨x1, x2, x3, x4, x5, x6, g, k⟩ := sh
  simp [Shape.ok] at hs
  obtain ⟨⟨⟨⟨⟨e1, e2⟩, e3⟩, e4⟩, e5⟩, e6⟩ := hs
  subst e1 e2 e3 e4 e5 e6
  have hD := setMany_frame (fun k => Addr.ownD iid k) Obj.bytes a h2
  have hE := setMany_frame (fun k => Addr.ownE iid k) Obj.refs a h3
  cases g <;> cases k <;>
    simp [instantiate, setIf, mkInst, fldAddr, Heap.set, h1, hD, hE]

/-- an instance created while others are running leaves every existing instance exactly as it was -/
theorem instantiate_preserves_others (sh : Shape) (hs : sh.ok = true) (h : Heap) (mid : Nat) (md : Module) (iid : Nat)
    (j : Inst) (sj : LState) (hpj : Private j) (hne : j.id ≠ iid) (r : Rel h j sj) :
    Rel (instantiate sh h mid md iid).1 j sj := by
  have fr : ∀ a, (∀ f, a ≠ .own iid f) → (∀ k, a ≠ .ownD iid k) → (∀ k, a ≠ .ownE iid k) →
      (instantiate sh h mid md iid).1.get a = h.get a :=
    fun a h1 h2 h3 => instantiate_frame sh hs h mid md iid a h1 h2 h3
  obtain ⟨id, mem, tbl, glob, dhdr, ehdr, sys, code⟩ := j
  obtain ⟨p1, p2, p3, p4, p5, p6, m', p7⟩ := hpj
  simp only at p1 p2 p3 p4 p5 p6 p7 hne
  subst p1 p2 p3 p4 p5 p6 p7
  have own : ∀ f, (instantiate sh h mid md iid).1.get (.own id f) = h.get (.own id f) := fun f =>
    fr _ (fun g e => by injection e with e1 _; exact hne e1) (fun _ e => by cases e) (fun _ e => by cases e)
  have ro : ∀ a, roFor id a → (instantiate sh h mid md iid).1.get a = h.get a := by
    intro a ha
    refine fr a (fun f => roFor_ne_own ha iid f) ?_ ?_
    · intro k e; subst e; simp [roFor] at ha; exact hne ha.symm
    · intro k e; subst e; simp [roFor] at ha; exact hne ha.symm
  obtain ⟨rm, rt, rg, rs, rc, ⟨dh, rdh, fd⟩, ⟨eh, reh, fe⟩⟩ := r
  exact ⟨by simp only [own]; exact rm, by simp only [own]; exact rt, by simp only [own]; exact rg,
    by simp only [own]; exact rs,
    by rw [fr _ (fun f e => by cases e) (fun _ e => by cases e) (fun _ e => by cases e)]; exact rc,
    ⟨dh, by simp only [own]; exact rdh, forall2_imp (segRel_frame ro) fd⟩,
    ⟨eh, by simp only [own]; exact reh, forall2_imp (segRel_frame ro) fe⟩⟩

/-! ## non-vacuity and the necessity of the shape obligation (samples: tests, not proofs of the property) -/

def exEnv : Env := ⟨[7, 8, 9, 10], [([102, 48], [65, 66, 67])], [120, 121]⟩
def exMod : Module :=
  { memMin := 1, memMax := 2, tblMin := 3, tblMax := 4, globals := [(32, 5)], fns := [(1001, true), (1002, false)],
    dpas := [[11, 12, 13]], dact := [(16, [1, 2])], epas := [[1, 0, 2]], eact := [(0, [2])] }
def exHeap (sh : Shape) : Heap × Inst × Inst :=
  let h := loadModule Heap.empty 0 exMod
  let r0 := instantiate sh h 0 exMod 0
  let r1 := instantiate sh r0.1 0 exMod 1
  (r1.1, r0.2, r1.2)

/-- sample: two instances of one module under the regenerated shape are `Private` and their views are the lone
initial state — the hypotheses of `noninterference` are met by a concrete non-trivial heap -/
example : view (exHeap Wz.Gen.C11Sharing.shape).1 (exHeap Wz.Gen.C11Sharing.shape).2.1 = some (linit exMod) := by decide
example : view (exHeap Wz.Gen.C11Sharing.shape).1 (exHeap Wz.Gen.C11Sharing.shape).2.2 = some (linit exMod) := by decide
example : Private (exHeap Shape.asIs).2.1 := ⟨rfl, rfl, rfl, rfl, rfl, rfl, 0, rfl⟩

/-- sample: the abstraction relation itself holds for both instances of the sample heap (the hypothesis `Rel h i s` of
`noninterference` is met by a concrete heap with an aliased data segment and a per-instance element copy) -/
example : Rel (exHeap Shape.asIs).1 (exHeap Shape.asIs).2.1 (linit exMod) :=
  ⟨by decide +kernel, by decide +kernel, by decide +kernel, by decide +kernel, by decide +kernel,
   ⟨[some (.shared 0 (.dseg 0))], by decide +kernel, .cons ⟨trivial, by decide +kernel⟩ .nil⟩,
   ⟨[some (.ownE 0 0)], by decide +kernel, .cons ⟨rfl, by decide +kernel⟩ .nil⟩⟩
example : Rel (exHeap Shape.asIs).1 (exHeap Shape.asIs).2.2 (linit exMod) :=
  ⟨by decide +kernel, by decide +kernel, by decide +kernel, by decide +kernel, by decide +kernel,
   ⟨[some (.shared 0 (.dseg 0))], by decide +kernel, .cons ⟨trivial, by decide +kernel⟩ .nil⟩,
   ⟨[some (.ownE 1 0)], by decide +kernel, .cons ⟨rfl, by decide +kernel⟩ .nil⟩⟩

/-- sample: instance 0 drops data segment 0 and writes its memory; instance 1 can still `memory.init` from the segment
and reads 0 where instance 0 wrote -/
example :
    let w := exHeap Shape.asIs
    let h1 := (hstep exEnv w.1 w.2.1 (.ddrop 0)).1
    let h2 := (hstep exEnv h1 w.2.1 (.m (.store8 100 77))).1
    (hstep exEnv h2 w.2.1 (.minit 0 200 0 3)).2 = .trap "mem" ∧
    (hstep exEnv h2 w.2.2 (.minit 0 200 0 3)).2 = .ok [] ∧
    (hstep exEnv h2 w.2.2 (.m (.load8 100))).2 = .ok [0] := by decide

/-- WITNESS that the obligation `shape_ok` is what carries the property: were the memory buffer cached on the compiled
module (shape.mem = shared), a store of instance 0 would be read by instance 1 -/
theorem shared_memory_interferes :
    let sh : Shape := { Shape.asIs with mem := .shared }
    let w := exHeap sh
    (hstep exEnv (hstep exEnv w.1 w.2.1 (.m (.store8 100 77))).1 w.2.2 (.m (.load8 100))).2 = .ok [77] := by decide +kernel

/-- … and were the data-instance header list shared (built once per compiled module), a drop would be global -/
theorem shared_headers_interfere :
    let sh : Shape := { Shape.asIs with dhdr := .shared }
    let w := exHeap sh
    (hstep exEnv (hstep exEnv w.1 w.2.1 (.ddrop 0)).1 w.2.2 (.minit 0 200 0 3)).2 = .trap "mem" := by decide +kernel

end Wz.C11
