/-
C18 — Default configuration exposes nothing of the host and runs reproducibly.

All theorems are about `Wz.Model.SysDefault` (see its header for what is modelled) and are stated for
every host record, every random stream `rnd`, and every list of guest calls (any number, any of the
46 WASI functions, any arguments). `defaults_are_fakes` is the obligation over the tables regenerated
from /repo on every run (tie A): if a default is replaced by a real host facility it no longer
evaluates to `allFake`, and every theorem that goes through it breaks with it.
-/
import Wz.Model.SysDefault

namespace Wz.C18
open Wz.Model.SysDefault Wz.Gen.SysDefaults

/-! ### Tie A obligations (decided on the regenerated tables) -/

/-- Every facility a module gets from `wazero.NewModuleConfig()` is the fake one: computed from the
regenerated defaulting tables of `NewModuleConfig`/`toSysContext`/`NewContext`/`stdinFileEntry`/
`stdioWriterFileEntry`/`InitFSContext`. (`decide` over a finite regenerated table: a proof.) -/
theorem defaults_are_fakes : defaultSources = allFake := by decide

/-- The regenerated constants of the fake clocks line up: the first wall-clock reading is the fake
epoch (midnight UTC 2022-01-01), the first monotonic reading is 0, both advance by 1 ms. -/
theorem fake_clock_constants :
    NewFakeWalltime_start + NewFakeWalltime_step = (FakeEpochNanos : Int) ∧
    NewFakeNanotime_start + NewFakeNanotime_step = 0 ∧
    NewFakeWalltime_step = (ms : Int) ∧ NewFakeNanotime_step = (ms : Int) ∧
    FakeEpochNanos = 1640995200 * 1000000000 ∧ ms = 1000000 := by decide

/-- The fake random source is seeded with a compile-time constant. -/
theorem fake_seed_constant : seed = 42 := by decide

/-! ### The default context never looks at the host -/

/-- The facilities of a default context are the closed, host-free `fakeFacilities`. -/
theorem default_fac (rnd : Nat → Nat) (h : Host) : (defaultCtx rnd h).fac = fakeFacilities rnd := by
  simp only [Ctx.fac, defaultCtx, defaults_are_fakes]
  rfl

/-- The whole trace of a default context is a function of the call list and the constant random
stream only. -/
theorem default_trace_closed (rnd : Nat → Nat) (h : Host) (calls : List Call) :
    trace (defaultCtx rnd h) calls = traceF (fakeFacilities rnd) (initSt (fakeFacilities rnd)) calls := by
  simp only [trace, default_fac]

theorem default_final_closed (rnd : Nat → Nat) (h : Host) (calls : List Call) :
    finalSt (defaultCtx rnd h) calls = runF (fakeFacilities rnd) (initSt (fakeFacilities rnd)) calls := by
  simp only [finalSt, default_fac]

/-- **default_ignores_host.** Two hosts that differ in arguments, environment, working directory,
clocks, entropy and standard input produce the same trace for every guest call list. -/
theorem default_ignores_host (rnd : Nat → Nat) (h₁ h₂ : Host) (calls : List Call) :
    trace (defaultCtx rnd h₁) calls = trace (defaultCtx rnd h₂) calls := by
  rw [default_trace_closed, default_trace_closed]

/-- …and leave the context in the same state (clock positions, random position, open descriptors,
effects on the host). -/
theorem default_ignores_host_state (rnd : Nat → Nat) (h₁ h₂ : Host) (calls : List Call) :
    finalSt (defaultCtx rnd h₁) calls = finalSt (defaultCtx rnd h₂) calls := by
  rw [default_final_closed, default_final_closed]

private def hA : Host := ⟨[[97]], [[75, 61, 49]], [47, 97], fun k => 1700000000 + k, fun k => 5 + k, fun i => i % 256, [115]⟩
private def hB : Host := ⟨[[98]], [[75, 61, 50]], [47, 98], fun k => 1800000000 + 2 * k, fun k => 9 + k, fun i => (i + 1) % 256, [116]⟩
private def z : Nat → Nat := fun _ => 0

/-- Non-vacuity (sample, a test): the host parameter is live in the model — a context built from the
real host facilities gives different traces on the two hosts, for each facility. -/
example : trace (hostCtx z hA) [⟨.clock_time_get, [0, 64]⟩] ≠ trace (hostCtx z hB) [⟨.clock_time_get, [0, 64]⟩] := by decide
example : trace (hostCtx z hA) [⟨.clock_time_get, [1, 64]⟩] ≠ trace (hostCtx z hB) [⟨.clock_time_get, [1, 64]⟩] := by decide
example : trace (hostCtx z hA) [⟨.random_get, [64, 2]⟩] ≠ trace (hostCtx z hB) [⟨.random_get, [64, 2]⟩] := by decide
example : trace (hostCtx z hA) [⟨.args_get, [64, 128]⟩] ≠ trace (hostCtx z hB) [⟨.args_get, [64, 128]⟩] := by decide
example : trace (hostCtx z hA) [⟨.environ_get, [64, 128]⟩] ≠ trace (hostCtx z hB) [⟨.environ_get, [64, 128]⟩] := by decide
example : trace (hostCtx z hA) [⟨.fd_read, [0, 8, 1, 64, 4]⟩] ≠ trace (hostCtx z hB) [⟨.fd_read, [0, 8, 1, 64, 4]⟩] := by decide
example : trace (hostCtx z hA) [⟨.fd_prestat_dir_name, [3, 64, 2]⟩] ≠ trace (hostCtx z hB) [⟨.fd_prestat_dir_name, [3, 64, 2]⟩] := by decide
example : (finalSt (hostCtx z hA) [⟨.fd_write, [1, 8, 1, 64, 4]⟩]).hostOut = 4 := by decide
/-- while the default context answers the fixed values (sample, a test) -/
example : trace (defaultCtx z hA) [⟨.clock_time_get, [0, 64]⟩, ⟨.clock_time_get, [0, 64]⟩] =
    [ok [(64, le 8 1640995200000000000)], ok [(64, le 8 1640995200001000000)]] := by decide

/-! ### Every instance starts from the same values -/

/-- **per_instance_fresh.** Whatever the host, a new instance starts with both clocks and the random
stream at position 0 and exactly the descriptors 0, 1, 2; so two instances start from the same values. -/
theorem per_instance_fresh (rnd : Nat → Nat) (h₁ h₂ : Host) :
    initSt (defaultCtx rnd h₁).fac = initSt (defaultCtx rnd h₂).fac ∧
    initSt (defaultCtx rnd h₁).fac =
      { wallK := 0, monoK := 0, randPos := 0, stdinPos := 0,
        fds := [(0, .stdin), (1, .stdout), (2, .stderr)], hostOut := 0, slept := 0, yields := 0 } := by
  simp only [default_fac]
  exact ⟨trivial, rfl⟩

/-! ### Clock values -/

private theorem wt_recombine (wt : Int) : Int.tdiv wt 1000000000 * 1000000000 + Int.tmod wt 1000000000 = wt :=
  Int.tdiv_mul_add_tmod wt 1000000000

/-- closed form of a counter that is advanced before it is read, as the 64-bit value the guest sees -/
private theorem reading_eq (start step : Int) (e m k : Nat) (h1 : start + step = (e : Int)) (h2 : step = (m : Int)) :
    ((counterReading start step k) % (2 ^ 64 : Int)).toNat = (e + k * m) % 2 ^ 64 := by
  have hw : counterReading start step k = ((e + k * m : Nat) : Int) := by
    unfold counterReading
    rw [Int.add_mul, Int.one_mul, Int.add_comm ((k : Int) * step) step, ← Int.add_assoc, h1, h2,
      Int.natCast_add, Int.natCast_mul]
  have h64 : (2 ^ 64 : Int) = ((2 ^ 64 : Nat) : Int) := by rw [Int.natCast_pow]; rfl
  rw [hw, h64, ← Int.natCast_emod, Int.toNat_natCast]

/-- **clock_values (wall).** The k-th wall-clock reading (k = 0, 1, …) is `FakeEpochNanos + k·1ms`
as a 64-bit value — for every k, including after the (sec, nsec) split and recombination. -/
theorem clock_values_wall (k : Nat) : fakeWallNanos k = (FakeEpochNanos + k * ms) % 2 ^ 64 := by
  unfold fakeWallNanos fakeWalltimeSecNsec
  simp only [wt_recombine]
  exact reading_eq _ _ _ _ k fake_clock_constants.1 fake_clock_constants.2.2.1

/-- No wrap-around for the first 1.6·10¹³ readings (more than 500 years of guest time). -/
theorem clock_values_wall_small (k : Nat) (hk : k < 16000000000000) :
    fakeWallNanos k = FakeEpochNanos + k * ms := by
  rw [clock_values_wall]
  apply Nat.mod_eq_of_lt
  have h1 : FakeEpochNanos = 1640995200000000000 := rfl
  have h2 : ms = 1000000 := rfl
  rw [h1, h2]
  omega

/-- **clock_values (monotonic).** The k-th monotonic reading is `k·1ms`. -/
theorem clock_values_mono (k : Nat) : fakeMonoNanos k = (k * ms) % 2 ^ 64 := by
  unfold fakeMonoNanos
  have := reading_eq NewFakeNanotime_start NewFakeNanotime_step 0 ms k fake_clock_constants.2.1 fake_clock_constants.2.2.2.1
  simpa using this

/-- The fake clocks never stand still or go back: within the first 1.6·10¹³ readings each reading of either clock is
strictly larger than every earlier one (so a guest measuring elapsed time never sees zero or a negative span). -/
theorem clock_strictly_increasing (j k : Nat) (hjk : j < k) (hk : k < 16000000000000) :
    fakeWallNanos j < fakeWallNanos k ∧ fakeMonoNanos j < fakeMonoNanos k := by
  have h2 : ms = 1000000 := rfl
  refine ⟨?_, ?_⟩
  · rw [clock_values_wall_small j (by omega), clock_values_wall_small k hk, h2]
    omega
  · rw [clock_values_mono, clock_values_mono, h2, Nat.mod_eq_of_lt (by omega), Nat.mod_eq_of_lt (by omega)]
    omega

example : fakeWallNanos 0 = 1640995200000000000 ∧ fakeWallNanos 3 = 1640995200003000000 ∧ fakeMonoNanos 0 = 0 ∧
    fakeMonoNanos 7 = 7000000 := by decide

/-- What the guest sees: in any state of a default context `clock_time_get` stores the reading whose
index is the number of readings taken so far, and advances that index by one. -/
theorem clock_time_get_wall (rnd : Nat → Nat) (st : St) (p : Nat) :
    step (fakeFacilities rnd) st ⟨.clock_time_get, [0, p]⟩ =
      ({ st with wallK := st.wallK + 1 }, ok [(p, le 8 ((FakeEpochNanos + st.wallK * ms) % 2 ^ 64))]) := by
  simp [step, clockTimeGet, fakeFacilities, clock_values_wall]

theorem clock_time_get_mono (rnd : Nat → Nat) (st : St) (p : Nat) :
    step (fakeFacilities rnd) st ⟨.clock_time_get, [1, p]⟩ =
      ({ st with monoK := st.monoK + 1 }, ok [(p, le 8 ((st.monoK * ms) % 2 ^ 64))]) := by
  simp [step, clockTimeGet, fakeFacilities, clock_values_mono]

/-- Clock resolutions are the fixed 1 µs / 1 ns. -/
theorem clock_res_get_fixed (rnd : Nat → Nat) (st : St) (p : Nat) :
    step (fakeFacilities rnd) st ⟨.clock_res_get, [0, p]⟩ = (st, ok [(p, le 8 1000)]) ∧
    step (fakeFacilities rnd) st ⟨.clock_res_get, [1, p]⟩ = (st, ok [(p, le 8 1)]) := by
  simp [step, pureRes, fakeFacilities]

/-- Random bytes are the next `n` bytes of the constant stream. -/
theorem random_get_stream (rnd : Nat → Nat) (st : St) (buf n : Nat) (hn : n ≠ 0) :
    step (fakeFacilities rnd) st ⟨.random_get, [buf, n]⟩ =
      ({ st with randPos := st.randPos + n },
        ok [(buf, (List.range n).map (fun i => rnd (st.randPos + i) % 256))]) := by
  simp [step, randomGet, fakeFacilities, hn]

/-! ### Arguments and environment are empty -/

theorem args_environ_empty (rnd : Nat → Nat) (st : St) (p q : Nat) :
    step (fakeFacilities rnd) st ⟨.args_sizes_get, [p, q]⟩ = (st, ok [(p, le 4 0), (q, le 4 0)]) ∧
    step (fakeFacilities rnd) st ⟨.environ_sizes_get, [p, q]⟩ = (st, ok [(p, le 4 0), (q, le 4 0)]) ∧
    step (fakeFacilities rnd) st ⟨.args_get, [p, q]⟩ = (st, ok []) ∧
    step (fakeFacilities rnd) st ⟨.environ_get, [p, q]⟩ = (st, ok []) := by
  simp [step, pureRes, fakeFacilities, Wz.Model.SysDefault.sizeOf, nulTerminated, nulTerminated.go]

/-! ### Invariant of every reachable state: stdio only, nothing reaches the host -/

/-- Only stdio descriptors below 3, no byte delivered to the host, no real sleep, no real yield. -/
def Inv (st : St) : Prop :=
  (∀ x ∈ st.fds, x.1 < 3 ∧ isStdio x.2 = true) ∧ st.hostOut = 0 ∧ st.slept = 0 ∧ st.yields = 0

theorem inv_init (rnd : Nat → Nat) : Inv (initSt (fakeFacilities rnd)) := by
  refine ⟨?_, rfl, rfl, rfl⟩
  intro x hx
  simp [initSt, initFds, fakeFacilities] at hx
  rcases hx with rfl | rfl | rfl <;> simp [isStdio]

/-- One call preserves the invariant (the descriptor table can only shrink). -/
theorem step_preserves (rnd : Nat → Nat) (st : St) (c : Call) :
    let s' := (step (fakeFacilities rnd) st c).1
    (∀ x ∈ s'.fds, x ∈ st.fds) ∧ s'.hostOut = st.hostOut ∧ s'.slept = st.slept ∧ s'.yields = st.yields := by
  unfold step
  split
  · unfold clockTimeGet; repeat' split
    all_goals simp
  · unfold randomGet; split <;> simp
  · unfold schedYield; split <;> simp [fakeFacilities]
  · unfold fdRead; repeat' split
    all_goals simp
  · unfold fdWrite; repeat' split
    all_goals simp_all [fakeFacilities]
  · unfold pollOneoff; repeat' split
    all_goals simp_all [fakeFacilities]
  · unfold fdClose; repeat' split
    all_goals simp
    intro a b hm _; exact hm
  · unfold fdFilestatSetTimes; repeat' split
    all_goals simp
  · unfold pathFilestatSetTimes; repeat' split
    all_goals simp
  · simp

theorem step_inv (rnd : Nat → Nat) (st : St) (c : Call) (h : Inv st) : Inv (step (fakeFacilities rnd) st c).1 := by
  obtain ⟨h1, h2, h3, h4⟩ := h
  obtain ⟨p1, p2, p3, p4⟩ := step_preserves rnd st c
  exact ⟨fun x hx => h1 x (p1 x hx), by omega, by omega, by omega⟩

theorem run_inv (rnd : Nat → Nat) (calls : List Call) : ∀ st, Inv st → Inv (runF (fakeFacilities rnd) st calls) := by
  induction calls with
  | nil => intro st h; exact h
  | cons c rest ih =>
    intro st h
    simp only [runF]
    split
    · exact step_inv rnd st c h
    · exact ih _ (step_inv rnd st c h)

/-- Every state a default context can reach satisfies the invariant. -/
theorem reachable_inv (rnd : Nat → Nat) (h : Host) (calls : List Call) : Inv (finalSt (defaultCtx rnd h) calls) := by
  rw [default_final_closed]
  exact run_inv rnd calls _ (inv_init rnd)

/-- **stdout_discarded** (and real sleep / yield never happen): after any guest run nothing was
delivered to the host's stdout/stderr, no nanosecond was really slept, the scheduler was never really
yielded to. -/
theorem stdout_discarded (rnd : Nat → Nat) (h : Host) (calls : List Call) :
    (finalSt (defaultCtx rnd h) calls).hostOut = 0 ∧ (finalSt (defaultCtx rnd h) calls).slept = 0 ∧
    (finalSt (defaultCtx rnd h) calls).yields = 0 :=
  (reachable_inv rnd h calls).2

/-- …while the guest is told that everything was written. -/
theorem fd_write_reports_all (rnd : Nat → Nat) (st : St) (p n : Nat) (iov : List Nat) (iovs : List (Nat × Nat))
    (hp : pairs iov = some iovs) (hk : st.kind? 1 = some .stdout) :
    step (fakeFacilities rnd) st ⟨.fd_write, 1 :: p :: n :: iov⟩ = (st, ok [(p, le 4 ((iovs.map (·.2)).sum))]) := by
  simp [step, fdWrite, hp, hk, fakeFacilities]

private theorem readv_empty (pos : Nat) (iovs : List (Nat × Nat)) : readvFrom [] pos iovs = ([], 0) := by
  induction iovs generalizing pos with
  | nil => rfl
  | cons x rest ih =>
    obtain ⟨p, l⟩ := x
    unfold readvFrom
    by_cases hl : l = 0
    · simp [hl, ih]
    · have : 0 < l := by omega
      simp [hl, this]

/-- **stdin_eof.** Reading standard input returns 0 bytes and writes no data, whatever the iovecs and
however often. -/
theorem stdin_eof (rnd : Nat → Nat) (st : St) (p n : Nat) (iov : List Nat) (iovs : List (Nat × Nat))
    (hp : pairs iov = some iovs) (hk : st.kind? 0 = some .stdin) :
    step (fakeFacilities rnd) st ⟨.fd_read, 0 :: p :: n :: iov⟩ = (st, ok [(p, le 4 0)]) := by
  simp [step, fdRead, hp, hk, fakeFacilities, readv_empty]

example : (initSt (fakeFacilities z)).kind? 0 = some .stdin ∧ pairs [64, 10, 80, 0] = some [(64, 10), (80, 0)] := by decide

/-- No `fd_read`/`fd_pread` on any descriptor, in any state, ever delivers a byte: the only thing
written is a zero count. -/
theorem no_read_delivers_data (rnd : Nat → Nat) (st : St) (a : List Nat) (pread : Bool) :
    let r := (step (fakeFacilities rnd) st ⟨if pread then .fd_pread else .fd_read, a⟩).2
    r.writes = [] ∨ ∃ p, r.writes = [(p, le 4 0)] := by
  cases pread
  · simp only [Bool.false_eq_true, if_false, step]
    unfold fdRead
    repeat' split
    all_goals simp_all [fakeFacilities, readv_empty, ok, err, badCall]
  · simp only [if_true, step]
    cases a with
    | nil => simp [pureRes, badCall]
    | cons fd a =>
    cases a with
    | nil => simp [pureRes, badCall]
    | cons p a =>
    cases a with
    | nil => simp [pureRes, badCall]
    | cons n iov =>
      simp only [pureRes]
      repeat' split
      all_goals simp_all [ok, err, badCall]

/-- **no_preopens.** In every reachable state `fd_prestat_get` of any descriptor ≥ 3 is EBADF: there is
no pre-opened directory. -/
theorem no_preopens (rnd : Nat → Nat) (h : Host) (calls : List Call) (fd p : Nat) (hfd : 3 ≤ fd) :
    (step (fakeFacilities rnd) (finalSt (defaultCtx rnd h) calls) ⟨.fd_prestat_get, [fd, p]⟩).2 = err ErrnoBadf := by
  have hi := (reachable_inv rnd h calls).1
  have hk : (finalSt (defaultCtx rnd h) calls).kind? fd = none := by
    unfold St.kind?
    cases hf : List.find? (fun x => x.1 == fd) (finalSt (defaultCtx rnd h) calls).fds with
    | none => rfl
    | some x =>
      have hm := List.mem_of_find?_eq_some hf
      have he := List.find?_some hf
      have := (hi x hm).1
      simp at he
      omega
  simp [step, pureRes, hk]

private theorem kind_stdio (st : St) (hi : Inv st) (fd : Nat) (k : FdKind) (hk : st.kind? fd = some k) : isStdio k = true := by
  unfold St.kind? at hk
  cases hf : List.find? (fun x => x.1 == fd) st.fds with
  | none => simp [hf] at hk
  | some x =>
    simp [hf] at hk
    have hm := List.mem_of_find?_eq_some hf
    rw [← hk]
    exact (hi.1 x hm).2

private theorem atPath_fails (st : St) (hi : Inv st) (fd : Nat) : atPathErr st fd = ErrnoBadf ∨ atPathErr st fd = ErrnoNotdir := by
  unfold atPathErr
  cases hk : st.kind? fd with
  | none => simp
  | some k =>
    have := kind_stdio st hi fd k hk
    cases k <;> simp_all [isStdio]

/-- **no_files.** In every reachable state `path_open` (on any descriptor, any path) fails with EBADF
or ENOTDIR and opens nothing; so the descriptor table never grows (see `step_preserves`). -/
theorem path_open_fails (rnd : Nat → Nat) (h : Host) (calls : List Call) (fd : Nat) :
    let r := step (fakeFacilities rnd) (finalSt (defaultCtx rnd h) calls) ⟨.path_open, [fd]⟩
    (r.2 = err ErrnoBadf ∨ r.2 = err ErrnoNotdir) ∧ r.1 = finalSt (defaultCtx rnd h) calls := by
  have hi := reachable_inv rnd h calls
  rcases atPath_fails _ hi fd with e | e <;> simp [step, pureRes, e]

/-- **no_sockets.** `sock_accept`/`sock_recv`/`sock_send`/`sock_shutdown` are EBADF in every state. -/
theorem sock_fails (rnd : Nat → Nat) (st : St) (fd : Nat) :
    (step (fakeFacilities rnd) st ⟨.sock_accept, [fd]⟩).2 = err ErrnoBadf ∧
    (step (fakeFacilities rnd) st ⟨.sock_recv, [fd]⟩).2 = err ErrnoBadf ∧
    (step (fakeFacilities rnd) st ⟨.sock_send, [fd]⟩).2 = err ErrnoBadf ∧
    (step (fakeFacilities rnd) st ⟨.sock_shutdown, [fd]⟩).2 = err ErrnoBadf := by
  simp [step, pureRes]

/-- A 5-second `poll_oneoff` clock subscription returns at once with the event and sleeps 0 ns. -/
example : let r := step (fakeFacilities z) (initSt (fakeFacilities z)) ⟨.poll_oneoff, [256, 8, 1, 77, 0, 0, 5000000000, 0]⟩
    r.2.errno = 0 ∧ r.1.slept = 0 := by decide

end Wz.C18
