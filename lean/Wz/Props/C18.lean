/- C18: property theorems (none yet). -/
namespace Wz.C18
end Wz.C18
