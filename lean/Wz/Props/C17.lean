/-
C17 — Read-only mounts cannot be modified by the guest.

Property theorems. The flag decision of `(*ReadFS).OpenFile`, WASI `openFlags`, the `Oflag` constants and the
method tables of `ReadFS`/`readFile`/`AdaptFS`/`fsFile` are the definitions regenerated from the wazero
checkout (`Wz.Gen.ReadFS`); the hand-written part (`Wz.Model.ReadFS`) is the classification of mutating
methods, the interpretation of the tables and the over-approximated request lists of the WASI functions.

OS assumption (not proved): `open` with a word satisfying `readOnlyFlag`, and the non-mutating methods on the
resulting descriptor, do not change the tree.
-/
import Wz.Model.ReadFS

namespace Wz.C17
open Wz.Gen.ReadFS Wz.Model.ReadFS

/-! ## The flag decision over the whole 32-bit Oflag space -/

theorem accMask_eq : accMask = 3#32 := by decide
theorem creatTrunc_eq : creatTrunc = 4112#32 := by decide

/-- `readOnlyFlag` in terms of the two masked words the code looks at. -/
theorem readOnlyFlag_iff (f : BitVec 32) :
    readOnlyFlag f = true ↔ (f &&& 3#32 = 0#32 ∧ f &&& 4112#32 = 0#32) := by
  unfold readOnlyFlag
  rw [accMask_eq, creatTrunc_eq]
  simp [O_RDONLY]

/-- **readfs_open_passes_only_readonly** (full strength, every 32-bit flag word, not only the 13 declared bits):
whenever `ReadFS.OpenFile` calls the wrapped FS, it passes the caller's word unchanged and that word is
read-only: access mode `O_RDONLY`, neither `O_CREAT` nor `O_TRUNC`.
False on the tree without the F18 repair (see `asis_*_witness`). -/
theorem readfs_open_passes_only_readonly (flag f : BitVec 32) (h : ReadFS_OpenFile flag = .ok f) :
    f = flag ∧ readOnlyFlag f = true := by
  unfold ReadFS_OpenFile at h
  repeat' split at h
  all_goals first
    | (simp at h; done)
    | (simp only [Except.ok.injEq] at h
       subst h
       refine ⟨rfl, ?_⟩
       rw [readOnlyFlag_iff]
       simp_all)

/-- Reading keeps working: a read-only word is never refused and is passed on unchanged. -/
theorem readonly_open_delegated_unchanged (flag : BitVec 32) (h : readOnlyFlag flag = true) :
    ReadFS_OpenFile flag = .ok flag := by
  rw [readOnlyFlag_iff] at h
  unfold ReadFS_OpenFile
  simp [h.1, h.2]

/-- The two together: the wrapped FS is reached exactly for the read-only words. -/
theorem readfs_open_delegates_iff (flag : BitVec 32) :
    (∃ f, ReadFS_OpenFile flag = .ok f) ↔ readOnlyFlag flag = true := by
  constructor
  · rintro ⟨f, h⟩
    have := readfs_open_passes_only_readonly flag f h
    rw [← this.1]; exact this.2
  · intro h; exact ⟨flag, readonly_open_delegated_unchanged flag h⟩

/-- Wrapping twice is wrapping once: what a `ReadFS` passes on is passed on unchanged by a second `ReadFS` around the
wrapped FS, and what the first refuses never reaches the second (a read-only mount of a read-only mount neither
widens nor narrows what the guest can open). -/
theorem readfs_open_idempotent (flag : BitVec 32) :
    (ReadFS_OpenFile flag >>= ReadFS_OpenFile) = ReadFS_OpenFile flag := by
  cases h : ReadFS_OpenFile flag with
  | error e => rfl
  | ok f =>
    have := readfs_open_passes_only_readonly flag f h
    show ReadFS_OpenFile f = .ok f
    exact readonly_open_delegated_unchanged f this.2

/-- non-vacuity: plain `O_RDONLY`, and `O_RDONLY|O_DIRECTORY|O_NOFOLLOW`, are delegated. -/
example : ReadFS_OpenFile O_RDONLY = .ok O_RDONLY := by decide
example : ReadFS_OpenFile (O_DIRECTORY ||| O_NOFOLLOW) = .ok (O_DIRECTORY ||| O_NOFOLLOW) := by decide

/-- The regenerated decision is, for every word and including the errno values, the repaired variant. -/
theorem gen_is_repaired (flag : BitVec 32) : ReadFS_OpenFile flag = repairedOpenFile flag := by
  unfold ReadFS_OpenFile repairedOpenFile
  rw [accMask_eq, creatTrunc_eq]
  simp [O_RDONLY, O_WRONLY, O_RDWR, O_DIRECTORY, EISDIR, ENOSYS, EROFS]

/-- Every refusal carries a non-zero errno (a refusal is never mistaken for success). -/
theorem readfs_open_refusal_nonzero (flag : BitVec 32) (e : Nat) (h : ReadFS_OpenFile flag = .error e) : e ≠ 0 := by
  unfold ReadFS_OpenFile at h
  repeat' split at h
  all_goals first
    | (simp at h; done)
    | (simp only [Except.error.injEq] at h; omega)

/-! ### Finding F18: the decision as it is on the pinned tree -/

/-- Witness 1: `O_CREAT|O_RDONLY` reaches the wrapped FS (the host file is created). -/
theorem asis_creat_witness :
    asIsOpenFile (O_CREAT ||| O_RDONLY) = .ok (O_CREAT ||| O_RDONLY) ∧ readOnlyFlag (O_CREAT ||| O_RDONLY) = false := by decide
/-- Witness 2: `O_TRUNC|O_RDONLY` reaches the wrapped FS (the host file is emptied). -/
theorem asis_trunc_witness :
    asIsOpenFile (O_TRUNC ||| O_RDONLY) = .ok (O_TRUNC ||| O_RDONLY) ∧ readOnlyFlag (O_TRUNC ||| O_RDONLY) = false := by decide
/-- Witness 3: the access-mode value 3 (`O_RDWR|O_WRONLY`) passes the check. -/
theorem asis_accmode3_witness :
    asIsOpenFile (O_RDWR ||| O_WRONLY) = .ok (O_RDWR ||| O_WRONLY) ∧ readOnlyFlag (O_RDWR ||| O_WRONLY) = false := by decide
/-- Through WASI: `path_open(oflags=CREAT, rights=FD_READ)` on the as-is wrapper is delegated with `O_CREAT`. -/
theorem asis_wasi_creat_witness :
    pathOpen asIsOpenFile WASI_LOOKUP_SYMLINK_FOLLOW WASI_O_CREAT 0#16 WASI_RIGHT_FD_READ = .delegated O_CREAT := by decide
/-- … and `path_open(oflags=TRUNC, rights=FD_READ)` is delegated with `O_TRUNC`. -/
theorem asis_wasi_trunc_witness :
    pathOpen asIsOpenFile WASI_LOOKUP_SYMLINK_FOLLOW WASI_O_TRUNC 0#16 WASI_RIGHT_FD_READ = .delegated O_TRUNC := by decide

/-- What does hold for the as-is decision (the full statement is `readfs_open_passes_only_readonly`;
missing: `O_CREAT`/`O_TRUNC` clear and access mode ≠ 3): a delegated word is unchanged and its access mode
is neither `O_WRONLY` nor `O_RDWR`. -/
theorem asis_open_partial (flag f : BitVec 32) (h : asIsOpenFile flag = .ok f) :
    f = flag ∧ f &&& accMask ≠ O_WRONLY ∧ f &&& accMask ≠ O_RDWR := by
  unfold asIsOpenFile at h
  repeat' split at h
  all_goals first
    | (simp at h; done)
    | (simp only [Except.ok.injEq] at h
       subst h
       simp_all)

/-! ## The method tables -/

theorem fsMethod_all_complete (m : FSMethod) : m ∈ FSMethod.all := by cases m <;> decide
theorem fileMethod_all_complete (m : FileMethod) : m ∈ FileMethod.all := by cases m <;> decide

/-- Every method of the regenerated interfaces is classified, exactly once (`OpenFile` by its flags).
A method added to `experimental/sys.FS` or `experimental/sys.File` breaks this obligation until it is classified. -/
theorem all_methods_classified :
    (∀ m : FSMethod, m = .OpenFile ∨ (mutatingFS.contains m != nonMutatingFS.contains m) = true) ∧
    (∀ m : FileMethod, (mutatingFile.contains m != nonMutatingFile.contains m) = true) ∧
    mutatingFS.contains .OpenFile = false ∧ nonMutatingFS.contains .OpenFile = false := by
  refine ⟨fun m => ?_, fun m => ?_, by decide, by decide⟩
  · cases m <;> decide
  · cases m <;> decide

/-- An override refuses: it returns a non-zero errno and can only call non-mutating methods of the wrapped value. -/
def refusing {M : Type} (nonMut : M → Bool) : Override M → Bool
  | .constErrno e => e != 0
  | .refuses calls => calls.all nonMut
  | _ => false

/-- **mutating_methods_refused** (decided over the regenerated tables): every mutating method of `sys.FS` is
overridden by `ReadFS`, and every mutating method of `sys.File` by `readFile`, with a body that returns a non-zero
errno and delegates nothing mutating; and `OpenFile` still wraps its result in `readFile`. -/
theorem mutating_methods_refused :
    (∀ m ∈ mutatingFS, refusing (nonMutatingFS.contains ·) (readFSTable m) = true) ∧
    (∀ m ∈ mutatingFile, refusing (nonMutatingFile.contains ·) (readFileTable m) = true) ∧
    ReadFS_OpenFile_wrapsInReadFile = true := by decide

/-- The errno values are the ones the property names: `EROFS` at the FS level, `EBADF`/`EISDIR` at the file level. -/
theorem mutating_methods_errno :
    (∀ m ∈ mutatingFS, readFSTable m = .constErrno EROFS) ∧
    readFileTable .Utimens = .constErrno EBADF := by decide

/-- Reading keeps working: the read-only wrapper does not stand between the guest and the non-mutating
methods (they are inherited, i.e. run on the wrapped value unchanged). -/
theorem reads_pass_through :
    (∀ m ∈ nonMutatingFS, ∀ fl, serve (.fs m fl) = [.fs m]) ∧
    (∀ m ∈ [FileMethod.Read, .Pread, .Seek, .Readdir, .Stat, .IsDir, .Close], serve (.file m) = [.file m]) := by
  refine ⟨?_, by decide⟩
  intro m hm fl
  cases m <;> first | rfl | (exact absurd hm (by decide))

/-- For every method but `OpenFile` the flag argument of a request is ignored. -/
theorem serve_fs_flag_irrelevant (m : FSMethod) (fl : BitVec 32) (h : m ≠ .OpenFile) :
    serve (.fs m fl) = serve (.fs m 0#32) := by
  cases m <;> first | rfl | exact absurd rfl h

/-- Every request on the read-only mount, whatever it is, reaches the wrapped FS only with non-mutating calls. -/
theorem serve_nonMutating (r : Req) : ∀ c ∈ serve r, c.nonMutating = true := by
  cases r with
  | file m => cases m <;> decide
  | fs m fl =>
    cases m
    case OpenFile =>
      intro c hc
      have hs : serve (.fs .OpenFile fl) = openVia ReadFS_OpenFile fl := rfl
      rw [hs] at hc
      unfold openVia at hc
      split at hc
      · simp at hc
      · rename_i f hf
        simp only [List.mem_singleton] at hc
        subst hc
        exact (readfs_open_passes_only_readonly fl f hf).2
    all_goals (rw [serve_fs_flag_irrelevant _ fl (by decide)]; decide)

/-! ## WASI `path_open` -/

/-- **wasi_open_readonly**: for all dirflags, oflags, fdflags and rights, if `path_open` on a read-only mount
reaches the wrapped FS, the flag word it passes is read-only. -/
theorem wasi_open_readonly (d o f : BitVec 16) (r fl : BitVec 32)
    (h : pathOpen ReadFS_OpenFile d o f r = .delegated fl) : readOnlyFlag fl = true := by
  unfold pathOpen at h
  simp only at h
  split at h
  · simp at h
  · split at h
    · simp at h
    · rename_i g hg
      simp only [OpenOutcome.delegated.injEq] at h
      subst h
      exact (readfs_open_passes_only_readonly _ _ hg).2

/-- non-vacuity: a plain read open (`rights = FD_READ`, no oflags) is delegated, with `O_RDONLY`. -/
example : pathOpen ReadFS_OpenFile WASI_LOOKUP_SYMLINK_FOLLOW 0#16 0#16 WASI_RIGHT_FD_READ = .delegated O_RDONLY := by decide
/-- and a directory open without symlink-follow as well. -/
example : pathOpen ReadFS_OpenFile 0#16 WASI_O_DIRECTORY 0#16 0#32 = .delegated (O_DIRECTORY ||| O_NOFOLLOW) := by decide
/-- while create, truncate and write requests are refused (test on samples; the theorem above is the proof). -/
example : pathOpen ReadFS_OpenFile 1#16 WASI_O_CREAT 0#16 WASI_RIGHT_FD_READ = .refused EROFS := by decide
example : pathOpen ReadFS_OpenFile 1#16 WASI_O_TRUNC 0#16 WASI_RIGHT_FD_READ = .refused EROFS := by decide
example : pathOpen ReadFS_OpenFile 1#16 0#16 0#16 WASI_RIGHT_FD_WRITE = .refused ENOSYS := by decide

/-! ### Reading keeps working through `path_open` -/

theorem and66_of (r : BitVec 32) (hw : r &&& 64#32 = 0#32) : r &&& 66#32 ≠ 66#32 := by
  intro h
  have : (r &&& 66#32) &&& 64#32 = 64#32 := by rw [h]; decide
  rw [BitVec.and_assoc] at this
  have h2 : (66#32 &&& 64#32) = 64#32 := by decide
  rw [h2, hw] at this
  exact absurd this (by decide)

/-- For every dirflags, every fdflags (append, nonblock, sync bits …) and every oflags without CREAT and TRUNC:
with the right FD_READ and without FD_WRITE, `openFlags` yields a read-only word. -/
theorem openFlags_read_is_readonly (d o f : BitVec 16) (r : BitVec 32)
    (hc : o &&& WASI_O_CREAT = 0#16) (ht : o &&& WASI_O_TRUNC = 0#16)
    (hw : r &&& WASI_RIGHT_FD_WRITE = 0#32) (hr : r &&& WASI_RIGHT_FD_READ = WASI_RIGHT_FD_READ) :
    readOnlyFlag (openFlags d o f r) = true := by
  unfold WASI_O_CREAT at hc
  unfold WASI_O_TRUNC at ht
  unfold WASI_RIGHT_FD_WRITE at hw
  unfold WASI_RIGHT_FD_READ at hr
  have h66 : (r &&& 66#32 == 66#32) = false := by simpa using and66_of r hw
  rw [readOnlyFlag_iff]
  unfold openFlags
  rw [hc, ht, hw, hr, h66]
  generalize (d &&& 1#16 == 0#16) = b1
  generalize (o &&& 2#16 != 0#16) = b2
  generalize (o &&& 4#16 != 0#16) = b3
  generalize (f &&& 4#16 != 0#16) = b4
  generalize (f &&& 1#16 != 0#16) = b5
  generalize (f &&& 2#16 != 0#16) = b6
  generalize (f &&& 8#16 != 0#16) = b7
  generalize (f &&& 16#16 != 0#16) = b8
  revert b1 b2 b3 b4 b5 b6 b7 b8
  decide

/-- **wasi_read_open_delegated**: the read-only mount never stands in the way of a read: for all dirflags and
fdflags, `path_open` with FD_READ, without FD_WRITE, without CREAT/TRUNC is passed to the wrapped FS (with the
word `openFlags` computed, unchanged). -/
theorem wasi_read_open_delegated (d o f : BitVec 16) (r : BitVec 32)
    (hc : o &&& WASI_O_CREAT = 0#16) (ht : o &&& WASI_O_TRUNC = 0#16)
    (hw : r &&& WASI_RIGHT_FD_WRITE = 0#32) (hr : r &&& WASI_RIGHT_FD_READ = WASI_RIGHT_FD_READ) :
    pathOpen ReadFS_OpenFile d o f r = .delegated (openFlags d o f r) := by
  have h := readonly_open_delegated_unchanged _ (openFlags_read_is_readonly d o f r hc ht hw hr)
  unfold pathOpen
  simp only [hc, h]
  simp

/-- non-vacuity: FD_READ with `O_DIRECTORY`, `FD_APPEND|FD_NONBLOCK` meets the hypotheses. -/
example : (2#16 : BitVec 16) &&& WASI_O_CREAT = 0#16 ∧ (2#16 : BitVec 16) &&& WASI_O_TRUNC = 0#16 ∧
    (2#32 : BitVec 32) &&& WASI_RIGHT_FD_WRITE = 0#32 ∧ (2#32 : BitVec 32) &&& WASI_RIGHT_FD_READ = WASI_RIGHT_FD_READ := by decide

/-! ## All histories -/

/-- **C17** (model level, full strength): over all sequences of WASI calls with any flags and rights on a
read-only mount, every call that reaches the wrapped file system is from the non-mutating set: a non-mutating
`sys.FS` method, `OpenFile` with a read-only word, or a non-mutating `sys.File` method. -/
theorem C17 (ops : List WasiOp) : ∀ c ∈ run ops, c.nonMutating = true := by
  intro c hc
  unfold run at hc
  rw [List.mem_flatMap] at hc
  obtain ⟨r, _, hr⟩ := hc
  exact serve_nonMutating r c hr

/-- The same over arbitrary request sequences on the mount (not only those the WASI layer is known to make). -/
theorem C17_any_client (reqs : List Req) : ∀ c ∈ reqs.flatMap serve, c.nonMutating = true := by
  intro c hc
  rw [List.mem_flatMap] at hc
  obtain ⟨r, _, hr⟩ := hc
  exact serve_nonMutating r c hr

/-- non-vacuity: a history that does reach the wrapped FS (open for reading, read, stat), and only so. -/
example : run [.pathOpen 1#16 0#16 0#16 WASI_RIGHT_FD_READ, .fdRead, .pathCreateDirectory, .fdWrite] =
    [.open O_RDONLY, .file .IsDir, .open O_RDONLY, .file .IsDir, .file .Close, .open O_RDONLY, .file .Read,
     .open O_RDONLY, .file .IsDir, .open O_RDONLY, .file .IsDir] := by decide

/-! ## Go `fs.FS` mounts (`AdaptFS`) -/

/-- **fsmount_mutating_methods_refused_partial**: on an `fs.FS` mount every mutating `sys.FS` method and the file
methods `Truncate` and `Utimens` return a constant non-zero errno and call nothing.
Full statement would add `Write`/`Pwrite`: `fsFile` forwards them to the `fs.File` if it implements
`io.Writer`/`io.WriterAt` (missing: that files returned by `fs.FS.Open` are not writable — an assumption about the
mounted `fs.FS`, monitored by the harness for `os.DirFS` and `fstest.MapFS`). -/
theorem fsmount_mutating_methods_refused_partial :
    (∀ m ∈ mutatingFS, ∀ fl, serveAdapt (.fs m fl) = []) ∧
    serveAdapt (.file .Truncate) = [] ∧ serveAdapt (.file .Utimens) = [] := by
  refine ⟨?_, by decide, by decide⟩
  intro m hm fl
  cases m <;> first | rfl | (exact absurd hm (by decide))

/-! ## The declared flag space -/

/-- All declared `Oflag` constants lie in the low 13 bits (the harness enumerates all 2^13 words; the theorems
above hold for all 2^32). -/
theorem oflag_space : oflagAllBits.toNat < 2 ^ 13 ∧ oflagConsts.all (fun c => c &&& ~~~oflagAllBits == 0#32) = true := by
  decide

end Wz.C17
