/- C17: property theorems (none yet). -/
namespace Wz.C17
end Wz.C17
