import Wz.Gen.Shapes

/-!
# C07 companion: every call watches its own context

"Every in-flight call returns promptly once ITS context is cancelled or its deadline passes": calls nest (a host
function calls back into the guest, possibly with a context of its own).  The engines start the goroutine that closes
the module on a done context per CALL (`CloseModuleOnCanceledOrTimeout(ctx)` in `callWithStack` / `callEngine.call`),
under the condition `ensureTermination` and nothing else.  Model: the stack of calls in flight, each with its context
and whether a watcher was started for it; the module is closed as soon as a watched call's context is done.  With a
watcher per call, any done context of any call in flight closes the module (`watched_calls_close`); watching only
the outermost call does not (`outermost_only_witness`: the seeded change C07-6).  The condition under which a call
starts its watcher is a regenerated shape of both engines (`every_call_with_termination_watches_its_context`).
-/

namespace Wz.C07

structure InFlight where
  ctx : Nat
  watched : Bool
  deriving DecidableEq, Repr

/-- the module gets closed: some call in flight is watched and its context is done -/
def closesModule (stack : List InFlight) (done : Nat → Bool) : Bool :=
  stack.any fun c => c.watched && done c.ctx

/-- **a watcher per call**: whichever call's context is done, the module is closed -/
theorem watched_calls_close (stack : List InFlight) (done : Nat → Bool)
    (hall : ∀ c ∈ stack, c.watched = true) (c : InFlight) (hc : c ∈ stack) (hd : done c.ctx = true) :
    closesModule stack done = true := by
  unfold closesModule
  rw [List.any_eq_true]
  exact ⟨c, hc, by simp [hall c hc, hd]⟩

/-- watching only the first call in flight on the module misses the context of a nested call -/
theorem outermost_only_witness :
    closesModule [⟨0, true⟩, ⟨1, false⟩] (fun k => k == 1) = false := by decide

/-- non-vacuity: outer call under context 0, inner call (from a host callback) under context 1, both watched -/
example : closesModule [⟨0, true⟩, ⟨1, true⟩] (fun k => k == 1) = true := by decide

/-- the rule on the source, regenerated: in both engines the watcher of a call is started under the condition
`ensureTermination` alone (no "first call in flight", no "context differs from the parent's") -/
theorem every_call_with_termination_watches_its_context :
    Wz.Gen.Shapes.get "c07.watch_cond_compiler" = some "ensureTermination" ∧
    Wz.Gen.Shapes.get "c07.watch_cond_interp" = some "ce.f.parent.ensureTermination" := by
  decide

/-! ## noticing the close: the whole closed word, for both modules

`Closed` holds `flag ||| exitCode <<< 32` (flag 1 or 2).  "Closed with exit code 0" and "never closed" differ only in
the flag bits, so running code must test the WHOLE word (`closed_after` in Props/C07.lean proves the word non-zero for
every cause and code, 0 included); a test of the exit-code half alone misses a plain `Close()` (witness, seeded change
C07-7).  The interpreter's exit-code check looks at the module of the running frame AND at the module the call was made
on (they differ when the loop sits in an imported function); both through `FailIfClosed`. -/

/-- the closed word -/
def closedWord (flag code : Nat) : Nat := flag + code * 2 ^ 32

theorem closed_word_nonzero (flag code : Nat) (hf : 0 < flag) : closedWord flag code ≠ 0 := by
  unfold closedWord; omega

theorem closed_word_code (flag code : Nat) (hf : flag < 2 ^ 32) : closedWord flag code / 2 ^ 32 = code := by
  unfold closedWord; omega

/-- looking at the exit-code half only: `Close()` (exit code 0) is invisible -/
theorem exit_code_half_misses_plain_close_witness : closedWord 1 0 ≠ 0 ∧ closedWord 1 0 / 2 ^ 32 = 0 := by decide

set_option maxRecDepth 8192 in
/-- the tests on the source, regenerated -/
theorem closed_is_noticed_on_the_whole_word_for_both_modules :
    Wz.Gen.Shapes.get "c07.closed_test" =
      some "FailIfClosed: closed := m.Closed.Load(); closed != 0 ;; interpreter check: err := m.FailIfClosed(); err != nil | cm := ce.f.moduleInstance; cm != m | err := cm.FailIfClosed(); err != nil" := by
  decide

end Wz.C07
