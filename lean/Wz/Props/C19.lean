/- C19: property theorems (none yet). -/
namespace Wz.C19
end Wz.C19
