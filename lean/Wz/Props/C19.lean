/-
C19 — Configuration values are immutable.

"Every With… method of the runtime, module and file-system configuration returns a new value and leaves
its receiver and every configuration previously derived from it unchanged, so a base configuration can
be reused and extended independently, also from several goroutines.  Instantiating with a configuration
does not change it either."  Quantifier: all trees of derivations and all later uses of each node.

Model: `Wz.Model.Config` (Go structs copied by value, slices as (ptr,len,cap) headers over shared backing
arrays, `append` in place iff len+k ≤ cap, maps as pointers; any capacity growth policy).
The per-method effect lists are REGENERATED from the source on every run (`Wz.Gen.ConfigEffects.methods`,
by translate/facts/c19_effects: every `With…` of runtimeConfig, moduleConfig, fsConfig, sock.Config and the
writes of Runtime.InstantiateModule to the caller's *moduleConfig).

* `C19` (full strength about the model, for EVERY effect table the classifier accepts): in every history —
  constructors, `With…` calls with any arguments on any earlier node, instantiations — the observable
  value of every node that exists at any point is the same after any continuation.
* `all_methods_safe`: the classifier accepts the table regenerated from today's source (`decide`; this is
  the obligation that breaks when a `clone` stops copying a field or a method writes through a shared
  slice/map: it is false on the pinned tree d39ba29 for `WithEnv` (F19) and `InstantiateModule` (F20), and
  true with repo_patches/C19-fix-F19-*.diff and C19-fix-F20-*.diff applied).
* `C19_wazero`: the two combined.
* witnesses on the frozen as-is table of the pinned tree: `withenv_parent_rewrite_witness`,
  `withenv_sibling_alias_witness` (F19), `instantiate_writes_config_witness` (F20).
-/
import Wz.Model.Config
import Wz.Gen.ConfigEffects
import Wz.Proofs.C19_Frame

namespace Wz.C19
open Wz.Model.Config

/-! ## The general theorems (any effect table) -/

/-- A call of a method whose effect list is in the safe class leaves the observable value of every
previously existing configuration unchanged (whatever the arguments, the aliasing between existing
configurations and the capacities are). -/
theorem safe_effects_preserve {tbl : List Method} {st st' : State} {recv id : Nat} {name : String} {a : Args}
    (hs : allSafe tbl = true) (hw : WF st) (h : call tbl st recv name a = some (st', id)) :
    ∀ i, i < st.nodes.length → obs st' i = obs st i :=
  frame_obs hw (call_frame hs hw h).1

/-- Concurrency: a safe call performs no write to any heap object or configuration struct that existed
before the call — everything it writes it has allocated itself.  (Two such calls on shared configurations
therefore have no conflicting accesses: data-race freedom under the Go memory model follows from this
frame property; the scheduling itself is not modelled.) -/
theorem no_shared_writes {tbl : List Method} {st st' : State} {recv id : Nat} {name : String} {a : Args}
    (hs : allSafe tbl = true) (hw : WF st) (h : call tbl st recv name a = some (st', id)) :
    st'.objs.take st.objs.length = st.objs ∧ st'.nodes.take st.nodes.length = st.nodes :=
  (call_frame hs hw h).1

/-- The value returned by a call is a node of the new state. -/
theorem call_returns_node {tbl : List Method} {st st' : State} {recv id : Nat} {name : String} {a : Args}
    (h : call tbl st recv name a = some (st', id)) : id < st'.nodes.length := by
  unfold call at h
  simp only [bind, Option.bind_eq_some_iff] at h
  obtain ⟨c, _, m, _, ps, _, p, _, h⟩ := h
  exact execPath_id_lt h

/-- "returns a new value": a safe call returns a brand-new node (the state grows by exactly that node), or —
only on paths without any effect, e.g. `WithSysFSMount` given an `UnimplementedFS` — the receiver itself with all
nodes unchanged. -/
theorem call_returns_new_or_receiver {tbl : List Method} {st st' : State} {recv id : Nat} {name : String} {a : Args}
    (hs : allSafe tbl = true) (hw : WF st) (h : call tbl st recv name a = some (st', id)) :
    (id = st.nodes.length ∧ st'.nodes.length = st.nodes.length + 1) ∨ (id = recv ∧ st'.nodes = st.nodes) := by
  have hf := (call_frame hs hw h).1
  unfold call at h
  simp only [bind, Option.bind_eq_some_iff] at h
  obtain ⟨c, _, m, _, ps, _, p, _, h⟩ := h
  rcases execPath_result h with ⟨_, rfl, hl⟩ | ⟨_, rfl, hl⟩
  · right
    refine ⟨rfl, ?_⟩
    have := hf.2
    rw [← hl, List.take_length] at this
    exact this
  · left; exact ⟨rfl, hl⟩

/-- **C19** for every history: `pre` is any history from the empty state (constructors and calls, i.e. any
derivation tree: every call may take any earlier node as receiver), `post` any continuation (later
derivations from any node, instantiations).  Every node existing after `pre` has the same observable
value after `post`. -/
theorem C19 (tbl : List Method) (hs : allSafe tbl = true) (pre post : List Step) (st1 st2 : State)
    (h1 : run tbl {} pre = some st1) (h2 : run tbl st1 post = some st2) :
    ∀ i, i < st1.nodes.length → obs st2 i = obs st1 i := by
  have hw1 := (run_frame hs WF_init h1).2
  exact frame_obs hw1 (run_frame hs hw1 h2).1

/-! ## The obligation over the regenerated table -/

/-- Every `With…` method (and InstantiateModule) of today's source is in the safe class.
`decide` over the finite regenerated table. -/
theorem all_methods_safe : allSafe Wz.Gen.ConfigEffects.methods = true := by decide

/-- The table is not trivially safe: it contains index writes, appends and map writes. -/
theorem table_has_reference_writes :
    (Wz.Gen.ConfigEffects.methods.any fun m => m.paths.any fun p => p.effs.any fun e =>
      match e with
      | .indexWrite .. => true
      | _ => false) = true ∧
    (Wz.Gen.ConfigEffects.methods.any fun m => m.paths.any fun p => p.effs.any fun e =>
      match e with
      | .append .. => true
      | _ => false) = true ∧
    (Wz.Gen.ConfigEffects.methods.any fun m => m.paths.any fun p => p.effs.any fun e =>
      match e with
      | .mapWrite .. => true
      | _ => false) = true := by decide

/-- **C19 for wazero's configuration methods as they are in the source today.** -/
theorem C19_wazero (pre post : List Step) (st1 st2 : State)
    (h1 : run Wz.Gen.ConfigEffects.methods {} pre = some st1)
    (h2 : run Wz.Gen.ConfigEffects.methods st1 post = some st2) :
    ∀ i, i < st1.nodes.length → obs st2 i = obs st1 i :=
  C19 _ all_methods_safe pre post st1 st2 h1 h2

/-! ## Witnesses: the as-is table of the pinned tree (frozen copy of what the extractor emits there) -/

def pinnedWithEnv : Method :=
  { recv := "moduleConfig", name := "WithEnv", delegate := none, paths := [
      { guard := [.keyIn "environKeys" "key"], clone := .deep ["environKeys"],
        effs := [.indexWrite "environ" ⟨"environKeys", "key", 1⟩ (.param "value")] },
      { guard := [.keyNotIn "environKeys" "key"], clone := .deep ["environKeys"],
        effs := [.mapWrite "environKeys" "key" "environ", .append "environ" [.param "key", .param "value"]] }] }

def pinnedInstantiate : Method :=
  { recv := "moduleConfig", name := "InstantiateModule", delegate := none, paths := [
      { guard := [.flag "ctxHasSockConfig"], clone := .self, effs := [.assignScalar "sockConfig" (.param "sockConfig")] },
      { guard := [.notFlag "ctxHasSockConfig"], clone := .self, effs := [] }] }

def pinnedTbl : List Method := [pinnedWithEnv, pinnedInstantiate]

/-- `violates tbl pre post i`: node `i` exists after `pre` and its observable value differs after `post`. -/
def violates (tbl : List Method) (pre post : List Step) (i : Nat) : Bool :=
  match run tbl {} pre with
  | some st1 =>
    match run tbl st1 post with
    | some st2 => decide (i < st1.nodes.length) && (obs st2 i != obs st1 i)
    | none => false
  | none => false

theorem violates_sound {tbl : List Method} {pre post : List Step} {i : Nat} (h : violates tbl pre post i = true) :
    ∃ st1 st2, run tbl {} pre = some st1 ∧ run tbl st1 post = some st2 ∧ i < st1.nodes.length ∧ obs st2 i ≠ obs st1 i := by
  unfold violates at h
  split at h
  · rename_i st1 h1
    split at h
    · rename_i st2 h2
      simp only [Bool.and_eq_true, decide_eq_true_eq, bne_iff_ne, ne_eq] at h
      exact ⟨st1, st2, h1, h2, h.1, h.2⟩
    · cases h
  · cases h

def newModuleConfig : Step :=
  .new "moduleConfig" [("name", .scalar ""), ("sockConfig", .scalar "nil"), ("startFunctions", .slice ["_start"] 1),
    ("args", .slice [] 0), ("environ", .slice [] 0), ("environKeys", .map [])]

def withEnv (recv : Nat) (k v : String) (cap : Nat) : Step :=
  .call recv "WithEnv" { vals := [("key", .one k), ("value", .one v)], hints := [("environ", cap)] }

/-- the classifier rejects the pinned table (both methods) -/
theorem pinned_table_rejected :
    methodSafe pinnedTbl pinnedWithEnv = false ∧ methodSafe pinnedTbl pinnedInstantiate = false := by decide

/-- F19, parent rewrite: `p := base.WithEnv("A","1"); p.WithEnv("A","changed")` — `p` now sees A=changed. -/
theorem withenv_parent_rewrite_witness :
    ∃ st1 st2, run pinnedTbl {} [newModuleConfig, withEnv 0 "A" "1" 2] = some st1 ∧
      run pinnedTbl st1 [withEnv 1 "A" "changed" 2] = some st2 ∧ 1 < st1.nodes.length ∧ obs st2 1 ≠ obs st1 1 :=
  violates_sound (by decide)

/-- F19, siblings: after a chain A,B,C (capacities 2,4,8 as Go's runtime chooses) node 3 has len 6 / cap 8;
its children `WithEnv("D","4")` (node 4) and `WithEnv("E","5")` share the array: node 4 now reads E=5. -/
theorem withenv_sibling_alias_witness :
    ∃ st1 st2, run pinnedTbl {} [newModuleConfig, withEnv 0 "A" "1" 2, withEnv 1 "B" "2" 4, withEnv 2 "C" "3" 8,
        withEnv 3 "D" "4" 8] = some st1 ∧
      run pinnedTbl st1 [withEnv 3 "E" "5" 8] = some st2 ∧ 4 < st1.nodes.length ∧ obs st2 4 ≠ obs st1 4 :=
  violates_sound (by decide)

/-- F20: instantiating with a context that carries a sock.Config rewrites the caller's configuration. -/
theorem instantiate_writes_config_witness :
    ∃ st1 st2, run pinnedTbl {} [newModuleConfig] = some st1 ∧
      run pinnedTbl st1 [.call 0 "InstantiateModule"
        { vals := [("sockConfig", .one "sock(127.0.0.1:0)"), ("ctxHasSockConfig", .one "true")] }] = some st2 ∧
      0 < st1.nodes.length ∧ obs st2 0 ≠ obs st1 0 :=
  violates_sound (by decide)

/-! ## Non-vacuity (tests on samples, labelled as such) -/

/-- test: the hypotheses of `C19_wazero` are met by the three witness histories on today's table
(the runs succeed), and — as the theorem says — nothing changes. -/
example :
    (run Wz.Gen.ConfigEffects.methods {} [newModuleConfig, withEnv 0 "A" "1" 2, withEnv 1 "B" "2" 4,
        withEnv 2 "C" "3" 8, withEnv 3 "D" "4" 8]).isSome = true ∧
    violates Wz.Gen.ConfigEffects.methods [newModuleConfig, withEnv 0 "A" "1" 2, withEnv 1 "B" "2" 4,
        withEnv 2 "C" "3" 8, withEnv 3 "D" "4" 8] [withEnv 3 "E" "5" 8] 4 = false ∧
    violates Wz.Gen.ConfigEffects.methods [newModuleConfig, withEnv 0 "A" "1" 2] [withEnv 1 "A" "changed" 2] 1 = false ∧
    (run Wz.Gen.ConfigEffects.methods {} [newModuleConfig, withEnv 0 "A" "1" 2, withEnv 1 "A" "changed" 2,
        .call 2 "InstantiateModule" { vals := [("sockConfig", .one "s"), ("ctxHasSockConfig", .one "true")] }]).isSome = true := by
  decide

/-- test: a state reached by a real history is well-formed and non-trivial (3 nodes, 6 heap objects) -/
example : ∃ st, run Wz.Gen.ConfigEffects.methods {} [newModuleConfig, withEnv 0 "A" "1" 2, withEnv 1 "B" "2" 4] = some st ∧
    st.nodes.length = 3 ∧ st.objs.length > 4 := by
  refine ⟨_, rfl, ?_, ?_⟩ <;> decide

end Wz.C19
