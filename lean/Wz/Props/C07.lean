/-
C07 — Close-on-context-done always stops a running guest.

Full statement (the property): for EVERY guest program, on both engines, once the context is
cancelled / its deadline passes / the module is closed, the running call returns promptly with the
exit error of that cause and the module is closed afterwards.

What is proved here, about the model `Wz.Model.Ctl` (tied to /repo by the structural and behavioural
correspondence of harness hc07 and by the regenerated constants `Wz.Gen.Close`):

* `lowered_wf`, `backward_branch_lands_on_check` — for ALL programs and both variants of the lowering,
  every loop body of the lowered code starts with the exit-code check, so every backward branch lands on it.
* `check_free_segment_terminates` — in well-formed code with checked tail calls there is no infinite
  execution without a check (well-founded measure; the explicit bound (L+2)^D of DESIGN.md is NOT proved).
* `C07_liveness` — repaired variant (`tc = true`), all programs: every infinite execution performs
  infinitely many checks; `C07_stops` — hence with the closed word set, every execution ends, and the
  check that ends it yields the exit code stored in the word; `exit_code_for_cause`, `closed_after`,
  `first_cause_wins` — that code is the one of the cause.
* As-is variant (`tc = false`, the pinned tree): `tailcall_cycle_witness` / `C07_full_fails_as_is`
  (finding F4: `(func $f (return_call $f))` runs forever without a check), and `C07_partial`
  (programs without tail calls).
Missing (assumed, see docs/C07.md): "promptly" in seconds, scheduling of the watcher goroutine, the
machine code below the SSA, host functions that do not return, and guest instructions that BLOCK instead of
cycling (`memory.atomic.wait32/64`): no cycle, so no check is ever reached; hc07's "blocked" stage decides
that case on the real code (finding F49 on the pinned tree).
-/
import Wz.Proofs.C07_Ctl
import Wz.Gen.Shapes
import Wz.Model.Blocking

namespace Wz.C07
open Wz.Model.Ctl Wz.Gen.Close

/-- An infinite execution: states, choices, and whether each step performed a check. -/
def Exec (p : Prog) (D : Nat) (σ : Nat → Stack) (c : Nat → Nat) (e : Nat → Bool) : Prop :=
  ∀ n, step p D (σ n) (c n) = some (σ (n + 1), e n)

/-! ## where the checks are -/

/-- Both variants, all programs: every loop body of the lowered code starts with a check. -/
theorem lowered_wf (tc : Bool) (p : Prog) : wfProg false (lowerCtl tc p) = true :=
  wfProg_lower tc false (by simp) p

/-- Repaired variant, all programs: additionally every tail call is checked. -/
theorem lowered_wf_repaired (p : Prog) : wfProg true (lowerCtl true p) = true :=
  wfProg_lower true true (by simp) p

/-- Every backward branch (a branch whose target label is a loop) lands on a check. -/
theorem backward_branch_lands_on_check (req : Bool) (cur : Seq) (lbls : List Lbl) (rest : Stack)
    (n : Nat) (b after : Seq) (ls : List Lbl) (hl : wfLbls req lbls = true)
    (hd : lbls.drop n = .lp b after :: ls) :
    ∃ fr', branch ⟨cur, lbls⟩ rest n = fr' :: rest ∧ startsWithCheck fr'.cur = true := by
  have hw := wfLbls_drop req n lbls hl
  rw [hd] at hw
  simp only [wfLbls, wfLbl, Bool.and_eq_true] at hw
  refine ⟨⟨b, .lp b after :: ls⟩, ?_, hw.1.1.1⟩
  unfold branch
  simp only [hd]

-- non-vacuity (test on a sample): a loop nested in a block, branch depth 0 from inside the loop
example : wfLbls false [.lp (.cons .check (.cons (.br 0) .nil)) .nil, .blk .nil] = true := by decide

theorem init_wf (req : Bool) (p : Prog) (hp : wfProg req p = true) (f : Nat) :
    wfStack req (initStack p f) = true := by
  unfold initStack
  split
  · rename_i b hb
    simp [wfStack, wfFrame, wfLbls, wfProg_get req p hp f b hb]
  · simp [wfStack]

/-! ## liveness -/

/-- Well-formed code with checked tail calls: no infinite execution without a check, from any
well-formed state, for any depth ceiling and any resolution of the nondeterminism. -/
theorem check_free_segment_terminates (p : Prog) (D : Nat) (hp : wfProg true p = true)
    (σ : Nat → Stack) (c : Nat → Nat) (h0 : wfStack true (σ 0) = true) :
    ¬ (∀ n, step p D (σ n) (c n) = some (σ (n + 1), false)) :=
  no_infinite_of_acc p D (σ 0) (acc_stack p D hp (σ 0) h0) σ c rfl

theorem liveness_of_wf (p : Prog) (D : Nat) (hp : wfProg true p = true) (σ : Nat → Stack)
    (c : Nat → Nat) (e : Nat → Bool) (h0 : wfStack true (σ 0) = true) (hex : Exec p D σ c e) :
    ∀ n, ∃ m, n ≤ m ∧ e m = true := by
  intro n
  apply Classical.byContradiction
  intro hne
  have hall : ∀ m, n ≤ m → e m = false := by
    intro m hm
    cases hem : e m with
    | false => rfl
    | true => exact absurd ⟨m, hm, hem⟩ hne
  have hwf := wf_along p D hp σ c e h0 hex n
  apply check_free_segment_terminates p D hp (fun k => σ (n + k)) (fun k => c (n + k)) hwf
  intro k
  have := hex (n + k)
  rw [hall (n + k) (by omega)] at this
  exact this

/-- Repaired variant, ALL programs, any entry function, depth ceiling and choices: every infinite
execution performs infinitely many exit-code checks. -/
theorem C07_liveness (p : Prog) (D f : Nat) (σ : Nat → Stack) (c : Nat → Nat) (e : Nat → Bool)
    (h0 : σ 0 = initStack (lowerCtl true p) f) (hex : Exec (lowerCtl true p) D σ c e) :
    ∀ n, ∃ m, n ≤ m ∧ e m = true :=
  liveness_of_wf _ D (lowered_wf_repaired p) σ c e
    (by rw [h0]; exact init_wf true _ (lowered_wf_repaired p) f) hex

/-- As-is variant (the pinned tree): the same for programs WITHOUT tail calls.
Full statement `∀ p, …` fails: see `C07_full_fails_as_is`. -/
theorem C07_partial (p : Prog) (hnt : noTailProg p = true) (D f : Nat) (σ : Nat → Stack)
    (c : Nat → Nat) (e : Nat → Bool) (h0 : σ 0 = initStack (lowerCtl false p) f)
    (hex : Exec (lowerCtl false p) D σ c e) : ∀ n, ∃ m, n ≤ m ∧ e m = true :=
  liveness_of_wf _ D (wfProg_lower_noTail false p hnt) σ c e
    (by rw [h0]; exact init_wf true _ (wfProg_lower_noTail false p hnt) f) hex

-- non-vacuity (tests on samples): a program with a loop, a recursive call and an indirect call meets `noTailProg`;
-- an infinite execution exists for it (the loop), so the conclusion is not vacuous.
def sampleLoop : Prog := { funcs := [.cons (.loop (.cons .op (.cons (.br 0) .nil))) .nil], table := [0] }
example : noTailProg sampleLoop = true := by decide
example : wfProg true (lowerCtl false sampleLoop) = true := by decide
example : ∃ s1 s2 s3 s4, step (lowerCtl false sampleLoop) 3 (initStack (lowerCtl false sampleLoop) 0) 0 = some (s1, false)
    ∧ step (lowerCtl false sampleLoop) 3 s1 0 = some (s2, true) ∧ step (lowerCtl false sampleLoop) 3 s2 0 = some (s3, false)
    ∧ step (lowerCtl false sampleLoop) 3 s3 0 = some (s4, false) ∧ step (lowerCtl false sampleLoop) 3 s4 0 = some (s2, true) :=
  ⟨_, _, _, _, rfl, rfl, rfl, rfl, rfl⟩

/-! ## finding F4: the as-is lowering leaves tail-call cycles unchecked -/

/-- `(func $f (return_call $f))` -/
def witness : Prog := { funcs := [.cons (.returnCall false 0) .nil], table := [] }

theorem tailcall_cycle_witness (D : Nat) :
    ∃ (σ : Nat → Stack) (c : Nat → Nat), σ 0 = initStack (lowerCtl false witness) 0 ∧
      ∀ n, step (lowerCtl false witness) D (σ n) (c n) = some (σ (n + 1), false) :=
  ⟨fun _ => initStack (lowerCtl false witness) 0, fun _ => 0, rfl, fun _ => rfl⟩

/-- The full-strength statement is false for the as-is lowering. -/
theorem C07_full_fails_as_is :
    ¬ (∀ (p : Prog) (D f : Nat) (σ : Nat → Stack) (c : Nat → Nat) (e : Nat → Bool),
        σ 0 = initStack (lowerCtl false p) f → Exec (lowerCtl false p) D σ c e →
        ∀ n, ∃ m, n ≤ m ∧ e m = true) := by
  intro h
  obtain ⟨σ, c, h0, hall⟩ := tailcall_cycle_witness 1
  obtain ⟨m, _, hm⟩ := h witness 1 0 σ c (fun _ => false) h0 hall 0
  cases hm

/-- …and the repaired lowering does check the witness. -/
example : step (lowerCtl true witness) 1 (initStack (lowerCtl true witness) 0) 0
    = some (initStack (lowerCtl true witness) 0, true) := rfl

/-! ## the closed word: which exit code a stopped call returns -/

theorem word_facts (code : BitVec 32) (flag : BitVec 64) (hf0 : flag.toNat ≠ 0)
    (hf : flag.toNat < 2 ^ 32) :
    (flag ||| ((code.setWidth 64) <<< 32)) ≠ 0#64 ∧
    ((flag ||| ((code.setWidth 64) <<< 32)) >>> 32).setWidth 32 = code := by
  have hx := code.isLt
  have hw : (flag ||| ((code.setWidth 64) <<< 32)).toNat = code.toNat * 2 ^ 32 + flag.toNat := by
    rw [BitVec.toNat_or, BitVec.toNat_shiftLeft, BitVec.toNat_setWidth]
    have h1 : code.toNat % 2 ^ 64 = code.toNat := Nat.mod_eq_of_lt (by omega)
    rw [h1, Nat.shiftLeft_eq]
    have h2 : code.toNat * 2 ^ 32 % 2 ^ 64 = code.toNat * 2 ^ 32 := Nat.mod_eq_of_lt (by omega)
    rw [h2, Nat.or_comm, ← Nat.shiftLeft_eq, ← Nat.shiftLeft_add_eq_or_of_lt hf, Nat.shiftLeft_eq]
  constructor
  · intro h0
    have := congrArg BitVec.toNat h0
    rw [hw] at this
    simp at this
    omega
  · apply BitVec.eq_of_toNat_eq
    rw [BitVec.toNat_setWidth, BitVec.toNat_ushiftRight, hw, Nat.shiftRight_eq_div_pow]
    omega

theorem flag_facts (watcher : Bool) : (Cause.flag watcher).toNat ≠ 0 ∧ (Cause.flag watcher).toNat < 2 ^ 32 := by
  cases watcher <;> decide

/-- cancel → ExitCodeContextCanceled, deadline → ExitCodeDeadlineExceeded, CloseWithExitCode(c) → c
(for every 32-bit c, on both the watcher path and the direct path), read back by `FailIfClosed`. -/
theorem exit_code_for_cause (cause : Cause) (watcher : Bool) :
    failIfClosed (fire 0#64 cause watcher) = some cause.code := by
  have hf := flag_facts watcher
  have hw := word_facts cause.code (Cause.flag watcher) hf.1 hf.2
  simp only [fire, setExitCode, failIfClosed, if_true]
  rw [if_neg hw.1, hw.2]

/-- The constants are the documented ones (regenerated from sys/error.go on every run). -/
theorem cause_codes : Cause.canceled.code = 0xffffffff#32 ∧ Cause.deadline.code = 0xefffffff#32
    ∧ ∀ c, (Cause.closeWith c).code = c := by
  refine ⟨by decide, by decide, fun _ => rfl⟩

/-- After any cause fired the module is closed (also for exit code 0). -/
theorem closed_after (cause : Cause) (watcher : Bool) : isClosed (fire 0#64 cause watcher) = true := by
  have hf := flag_facts watcher
  have hw := word_facts cause.code (Cause.flag watcher) hf.1 hf.2
  simp only [fire, setExitCode, isClosed, if_true]
  simpa using hw.1

/-- The first cause wins: a closed word is never overwritten. -/
theorem first_cause_wins (closed : BitVec 64) (h : closed ≠ 0#64) (cause : Cause) (watcher : Bool) :
    fire closed cause watcher = closed := by
  simp [fire, setExitCode, h]

/-! ## putting it together: a closed module stops the call, with the stored exit code -/

/-- Well-formed code with checked tail calls, closed word set: every execution of the call ends
(no infinite run of continuing steps), for any state it was in when the word was set. -/
theorem C07_stops (p : Prog) (D : Nat) (hp : wfProg true p = true) (w : BitVec 64) (code : BitVec 32)
    (hw : failIfClosed w = some code) (σ : Nat → Stack) (c : Nat → Nat)
    (h0 : wfStack true (σ 0) = true) :
    ¬ (∀ n, ∃ e, stepC p D w (σ n) (c n) = some (.inl (σ (n + 1), e))) := by
  intro hall
  apply check_free_segment_terminates p D hp σ c h0
  intro n
  obtain ⟨e, he⟩ := hall n
  unfold stepC at he
  split at he
  · simp at he
  · rw [hw] at he; simp at he
  · rename_i st' hstep
    simp only [Option.some.injEq, Sum.inl.injEq, Prod.mk.injEq] at he
    rw [hstep, he.1]

/-- …and when a check ends it, the error carries exactly the code stored in the closed word. -/
theorem C07_stop_code (p : Prog) (D : Nat) (w : BitVec 64) (st : Stack) (c : Nat) (code : BitVec 32)
    (h : stepC p D w st c = some (.inr code)) : failIfClosed w = some code := by
  unfold stepC at h
  split at h
  · simp at h
  · split at h
    · rename_i code' hc
      simp only [Option.some.injEq, Sum.inr.injEq] at h
      rw [hc, h]
    · simp at h
  · simp at h

-- non-vacuity (test on a sample): the repaired lowering of the F4 witness, closed by a cancelled context,
-- stops at its first step with ExitCodeContextCanceled.
example : stepC (lowerCtl true witness) 1 (fire 0#64 .canceled true) (initStack (lowerCtl true witness) 0) 0
    = some (.inr 0xffffffff#32) := rfl


/-- **Regenerated obligation** (wasm/module_instance.go): both places that turn a finished context into an exit
code classify `ctx.Err()` - which is `Canceled` / `DeadlineExceeded` whatever application-level cause was attached
(`context.WithCancelCause` etc.) - and not `context.Cause(ctx)`. -/
theorem context_errors_classified_by_Err :
    Wz.Gen.Shapes.get "c07.watcher_cases" = some "errors.Is(ctx.Err(), context.Canceled) ;; errors.Is(ctx.Err(), context.DeadlineExceeded)" ∧
    Wz.Gen.Shapes.get "c07.ctxerr_cases" = some "errors.Is(ctx.Err(), context.Canceled) ;; errors.Is(ctx.Err(), context.DeadlineExceeded)" := by decide


/-! ## a guest that blocks instead of cycling (`memory.atomic.wait32/64`) -/

open Wz.Model.Blocking in
/-- A wait that listens to the cause returns no later than the cause fires - whatever the guest's timeout and
whether or not anybody notifies. -/
theorem blocked_guest_stops_when_wait_listens (s : Sources) (hs : s.stop = true) (sc : Scenario) (t : Nat)
    (hc : sc.stopAt = some t) : ∃ r, returnsAt s sc = some r ∧ r ≤ t := by
  unfold returnsAt
  simp only [gate, hs, hc, if_true]
  obtain ⟨r1, h1, l1⟩ := minOpt_le_right (if s.timeout = true then sc.timeout else none) t
  rw [h1]
  obtain ⟨r2, h2, l2⟩ := minOpt_le_right (if s.notify = true then sc.notifyAt else none) r1
  exact ⟨r2, h2, Nat.le_trans l2 l1⟩

open Wz.Model.Blocking in
/-- The pinned tree's wait does not depend on the cause at all … -/
theorem blocked_guest_asIs_ignores_cause (sc : Scenario) (x : Option Nat) :
    returnsAt asIs { sc with stopAt := x } = returnsAt asIs sc := by
  simp [returnsAt, asIs, gate]

open Wz.Model.Blocking in
/-- … so it is parked forever exactly when the guest passed timeout -1 and nobody notifies (finding F49; the
5-minute variant of hc07 returns at its own timeout, far beyond "promptly"). -/
theorem blocked_guest_asIs_parked_forever_iff (sc : Scenario) :
    returnsAt asIs sc = none ↔ sc.timeout = none ∧ sc.notifyAt = none := by
  simp [returnsAt, asIs, gate, minOpt_eq_none]
  exact And.comm

open Wz.Model.Blocking in
/-- F49 witness: cause fires at 3, timeout -1, nobody notifies: the as-is wait never returns, a listening one
returns at 3. -/
theorem blocked_guest_witness :
    returnsAt asIs ⟨none, none, some 3⟩ = none ∧ returnsAt repaired ⟨none, none, some 3⟩ = some 3 := by decide

/-- **Regenerated obligation** (wasm/memory.go `MemoryInstance.wait`): the channel receives the parked guest
listens to are either exactly those of the pinned tree (model `Blocking.asIs`: finding F49 applies and hc07's
blocked stage must see the hang) or include a `Done()` channel (model `Blocking.repaired`). -/
theorem wait_sources_known :
    (Wz.Gen.Shapes.get "c07.wait_wakeups" = some "<-ready ;; <-ready ;; <-time.After(time.Duration(timeout))" ∧
      Wz.Gen.Shapes.get "c07.wait_listens_done" = some "false") ∨
    Wz.Gen.Shapes.get "c07.wait_listens_done" = some "true" := by decide

end Wz.C07
