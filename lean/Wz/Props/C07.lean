/- C07: property theorems (none yet). -/
namespace Wz.C07
end Wz.C07
