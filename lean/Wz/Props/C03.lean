/-
C03 — Compilation is total and sound on arbitrary input bytes: property theorems.

Part 1 (this section): the LEB128 decoders and encoders of `internal/leb128` (model `Wz.Model.Leb128`,
tied to the code by the differential run of hc03).
-/
import Wz.Proofs.C03_Leb
import Wz.Proofs.C03_Frame
import Wz.Proofs.C03_Validator
import Wz.Gen.Shapes
namespace Wz.C03
open Wz.Model.Leb128 Wz.C03.Leb Wz.Model.Frame

deriving instance DecidableEq for Except

/-! ## LEB128 -/

/-- Every decoder returns an error or `(v, n)` with `1 ≤ n ≤ 5` (resp. 10), `n ≤ length` (it never
reads past the input — also on unbounded runs of continuation bytes, which the signed decoders walk to
the end) and `v` inside the range of the Go result type. -/
theorem leb_total_bounded (bs : List Byte) :
    (∀ v n, decodeUint32 bs = .ok (v, n) → 1 ≤ n ∧ n ≤ 5 ∧ n ≤ bs.length ∧ v < 2 ^ 32) ∧
    (∀ v n, loadUint64 bs = .ok (v, n) → 1 ≤ n ∧ n ≤ 10 ∧ n ≤ bs.length ∧ v < 2 ^ 64) ∧
    (∀ v n, decodeInt32 bs = .ok (v, n) → 1 ≤ n ∧ n ≤ 5 ∧ n ≤ bs.length ∧ -(2 ^ 31 : Int) ≤ v ∧ v < 2 ^ 31) ∧
    (∀ v n, decodeInt64 bs = .ok (v, n) → 1 ≤ n ∧ n ≤ 10 ∧ n ≤ bs.length ∧ -(2 ^ 63 : Int) ≤ v ∧ v < 2 ^ 63) ∧
    (∀ v n, decodeInt33 bs = .ok (v, n) → 1 ≤ n ∧ n ≤ 5 ∧ n ≤ bs.length ∧ -(2 ^ 32 : Int) ≤ v ∧ v < 2 ^ 32) := by
  refine ⟨?_, ?_, ?_, ?_, ?_⟩
  · intro v n h; have := u32Loop_bounds 5 0 0 bs v n h; omega
  · intro v n h; have := u64Loop_bounds 10 0 0 bs v n h; omega
  · intro v n h; have := i32Loop_bounds bs 0 0 v n h; omega
  · intro v n h; have := i64Loop_bounds bs 0 0 v n h; omega
  · intro v n h
    rw [decodeInt33_eq] at h
    unfold i33Post at h
    split at h
    · simp at h
    · rename_i acc m b heq
      have hb := i33Loop_bounds 5 0 0 0#8 bs acc m b heq
      obtain ⟨hv, hm, _⟩ := i33Final_ok h
      have hr := i33Ret_range (7 * m) acc b
      subst hv; subst hm
      omega

/-- A successful decode depends only on the `n` bytes it consumed: replacing everything after them
changes nothing (so the decoders cannot be influenced by, or read, later bytes). -/
theorem leb_reads_only_consumed (bs sfx : List Byte) :
    (∀ v n, decodeUint32 bs = .ok (v, n) → decodeUint32 (bs.take n ++ sfx) = .ok (v, n)) ∧
    (∀ v n, loadUint64 bs = .ok (v, n) → loadUint64 (bs.take n ++ sfx) = .ok (v, n)) ∧
    (∀ v n, decodeInt32 bs = .ok (v, n) → decodeInt32 (bs.take n ++ sfx) = .ok (v, n)) ∧
    (∀ v n, decodeInt64 bs = .ok (v, n) → decodeInt64 (bs.take n ++ sfx) = .ok (v, n)) ∧
    (∀ v n, decodeInt33 bs = .ok (v, n) → decodeInt33 (bs.take n ++ sfx) = .ok (v, n)) := by
  refine ⟨?_, ?_, ?_, ?_, ?_⟩
  · intro v n h; simpa [decodeUint32] using u32Loop_prefix 5 0 0 bs v n sfx h
  · intro v n h; simpa [loadUint64] using u64Loop_prefix 10 0 0 bs v n sfx h
  · intro v n h; simpa [decodeInt32] using i32Loop_prefix bs 0 0 v n sfx h
  · intro v n h; simpa [decodeInt64] using i64Loop_prefix bs 0 0 v n sfx h
  · intro v n h
    rw [decodeInt33_eq] at h ⊢
    unfold i33Post at h
    split at h
    · simp at h
    · rename_i acc m b heq
      obtain ⟨_, hm, _⟩ := i33Final_ok h
      subst hm
      have := i33Loop_prefix 5 0 0 0#8 bs acc n b sfx heq
      simp only [Nat.sub_zero] at this
      rw [this]
      exact h

/-- Round trip for ALL values of each type and all suffixes: decoding an encoding gives the value back
and consumes exactly the encoding (`EncodeUint32/64` = `encU`, `EncodeInt32/64` = `encS`; the 33-bit
block-type decoder reads what `EncodeInt64` writes for any 33-bit value). -/
theorem leb_roundtrip (sfx : List Byte) :
    (∀ v : Nat, v < 2 ^ 32 → decodeUint32 (encU v ++ sfx) = .ok (v, (encU v).length)) ∧
    (∀ v : Nat, v < 2 ^ 64 → loadUint64 (encU v ++ sfx) = .ok (v, (encU v).length)) ∧
    (∀ v : Int, -(2 ^ 31 : Int) ≤ v → v < 2 ^ 31 → decodeInt32 (encS v ++ sfx) = .ok (v, (encS v).length)) ∧
    (∀ v : Int, -(2 ^ 63 : Int) ≤ v → v < 2 ^ 63 → decodeInt64 (encS v ++ sfx) = .ok (v, (encS v).length)) ∧
    (∀ v : Int, -(2 ^ 32 : Int) ≤ v → v < 2 ^ 32 → decodeInt33 (encS v ++ sfx) = .ok (v, (encS v).length)) :=
  ⟨fun v h => u32_roundtrip v h sfx, fun v h => u64_roundtrip v h sfx, fun v h1 h2 => i32_roundtrip v h1 h2 sfx,
   fun v h1 h2 => i64_roundtrip v h1 h2 sfx, fun v h1 h2 => i33_roundtrip v h1 h2 sfx⟩

/-- Encodings are short: at most 5 bytes for 32-bit and 10 bytes for 64-bit values. -/
theorem leb_encode_length (v : Nat) (w : Int) :
    (v < 2 ^ 32 → (encU v).length ≤ 5) ∧ (v < 2 ^ 64 → (encU v).length ≤ 10) ∧
    (-(2 ^ 31 : Int) ≤ w → w < 2 ^ 31 → (encS w).length ≤ 5) ∧ (-(2 ^ 63 : Int) ≤ w → w < 2 ^ 63 → (encS w).length ≤ 10) := by
  refine ⟨?_, ?_, ?_, ?_⟩
  · intro h
    have r := u32_roundtrip v h []
    have := u32Loop_bounds 5 0 0 _ _ _ r
    omega
  · intro h
    have r := u64_roundtrip v h []
    have := u64Loop_bounds 10 0 0 _ _ _ r
    omega
  · intro h1 h2
    have r := i32_roundtrip w h1 h2 []
    have := i32Loop_bounds _ 0 0 _ _ r
    omega
  · intro h1 h2
    have r := i64_roundtrip w h1 h2 []
    have := i64Loop_bounds _ 0 0 _ _ r
    omega

/-- The encoders are injective on each type's range: two values with the same encoding are the same value
(corollary of `leb_roundtrip`: the decoder is a left inverse). So a module re-encoded from its decoded
form cannot merge two different indices, constants or block types. -/
theorem leb_encode_injective :
    (∀ v w : Nat, v < 2 ^ 64 → w < 2 ^ 64 → encU v = encU w → v = w) ∧
    (∀ v w : Int, -(2 ^ 63 : Int) ≤ v → v < 2 ^ 63 → -(2 ^ 63 : Int) ≤ w → w < 2 ^ 63 → encS v = encS w → v = w) := by
  refine ⟨?_, ?_⟩
  · intro v w hv hw h
    have r1 := u64_roundtrip v hv []
    have r2 := u64_roundtrip w hw []
    rw [h, r2] at r1
    injection r1 with r1
    injection r1 with r1 _
    exact r1.symm
  · intro v w hv1 hv2 hw1 hw2 h
    have r1 := i64_roundtrip v hv1 hv2 []
    have r2 := i64_roundtrip w hw1 hw2 []
    rw [h, r2] at r1
    injection r1 with r1
    injection r1 with r1 _
    exact r1.symm

/-- Use of the theorem on concrete in-range values (the hypotheses are satisfiable). -/
example : encU 127 ≠ encU 128 ∧ encS (-1) ≠ encS 63 :=
  ⟨fun h => absurd (leb_encode_injective.1 127 128 (by decide) (by decide) h) (by decide),
   fun h => absurd (leb_encode_injective.2 (-1) 63 (by decide) (by decide) (by decide) (by decide) h) (by decide)⟩

/-- The 5th byte of an unsigned 32-bit value may only carry 4 bits: with four continuation bytes in
front, a terminating 5th byte is accepted iff it is < 16 (and then all 32 bits are significant). -/
theorem leb_u32_canonical_range (b0 b1 b2 b3 b4 : Byte) (rest : List Byte)
    (h0 : 0x80 ≤ b0.toNat) (h1 : 0x80 ≤ b1.toNat) (h2 : 0x80 ≤ b2.toNat) (h3 : 0x80 ≤ b3.toNat) (h4 : b4.toNat < 0x80) :
    decodeUint32 (b0 :: b1 :: b2 :: b3 :: b4 :: rest) =
      if b4.toNat < 16 then
        .ok (b0.toNat % 128 + b1.toNat % 128 * 2 ^ 7 + b2.toNat % 128 * 2 ^ 14 + b3.toNat % 128 * 2 ^ 21 + b4.toNat * 2 ^ 28, 5)
      else .error .overflow := by
  have n0 : ¬ b0.toNat < 128 := by omega
  have n1 : ¬ b1.toNat < 128 := by omega
  have n2 : ¬ b2.toNat < 128 := by omega
  have n3 : ¬ b3.toNat < 128 := by omega
  have hb4 : b4.toNat < 256 := by omega
  simp only [decodeUint32, u32Loop, n0, n1, n2, n3, h4, if_true, if_false, mask7f, true_and]
  by_cases hc : b4.toNat < 16
  · have : b4 &&& 0xf0#8 = 0#8 := (maskf0 b4).mpr (by omega)
    simp [this, hc]
    omega
  · have : ¬ (b4 &&& 0xf0#8 = 0#8) := fun h => by have := (maskf0 b4).mp h; omega
    simp [this, hc]

/-- … and a 5-byte run of continuation bytes is rejected whatever follows (bounded loop). -/
theorem leb_u32_five_continuations_rejected (b0 b1 b2 b3 b4 : Byte) (rest : List Byte)
    (h0 : 0x80 ≤ b0.toNat) (h1 : 0x80 ≤ b1.toNat) (h2 : 0x80 ≤ b2.toNat) (h3 : 0x80 ≤ b3.toNat) (h4 : 0x80 ≤ b4.toNat) :
    decodeUint32 (b0 :: b1 :: b2 :: b3 :: b4 :: rest) = .error .overflow := by
  have n0 : ¬ b0.toNat < 128 := by omega
  have n1 : ¬ b1.toNat < 128 := by omega
  have n2 : ¬ b2.toNat < 128 := by omega
  have n3 : ¬ b3.toNat < 128 := by omega
  have n4 : ¬ b4.toNat < 128 := by omega
  simp [decodeUint32, u32Loop, n0, n1, n2, n3, n4]

/-- non-vacuity of the hypotheses above, and concrete values (tests by evaluation) -/
example : decodeUint32 [0xff#8, 0xff#8, 0xff#8, 0xff#8, 0x0f#8, 0x00#8] = .ok (4294967295, 5) := by decide
example : decodeUint32 [0xff#8, 0xff#8, 0xff#8, 0xff#8, 0x1f#8] = .error .overflow := by decide
example : decodeUint32 [0x80#8, 0x80#8, 0x80#8, 0x80#8, 0x01#8] = .ok (2 ^ 28, 5) := by decide
example : decodeInt32 [0x7f#8] = .ok (-1, 1) := by decide
example : decodeInt33 [0x40#8] = .ok (-64, 1) := by decide

set_option maxRecDepth 100000 in
/-- Observation (leniency, not a violation of C03): the signed decoders check only SOME of the unused
bits of the last byte — bit 6 is never looked at.  `80 80 80 80 3f` is accepted as an int32 (the
specification requires bits 4–6 of the 5th byte to equal the sign bit, i.e. `7f`), `80 80 80 80 47` as
+1879048192 (bit 6 set on a non-negative value). -/
theorem leb_i32_unused_bit6_unchecked_witness :
    decodeInt32 [0x80#8, 0x80#8, 0x80#8, 0x80#8, 0x3f#8] = .ok (-268435456, 5) ∧
    decodeInt32 [0x80#8, 0x80#8, 0x80#8, 0x80#8, 0x47#8] = .ok (1879048192, 5) := by decide +kernel

set_option maxRecDepth 100000 in
/-- Observation: `DecodeInt33AsInt64` stops after five bytes even when the fifth byte still has its
continuation bit set, and accepts it (`ff ff ff ff ff` decodes to -1 with 5 bytes consumed). -/
theorem leb_i33_fifth_continuation_accepted_witness :
    decodeInt33 [0xff#8, 0xff#8, 0xff#8, 0xff#8, 0xff#8] = .ok (-1, 5) := by decide +kernel

/-! ## Section framing and what the decoder reserves before it reads (finding F3a)

Full statement of the property for this part: `∀ bs, allocUnits bs ≤ K * bs.length` — the memory the
decoder reserves from counts it has merely READ is proportional to the input.  It is FALSE for the
decoder as pinned (`alloc_witness`, `alloc_not_proportional_asIs`) and holds for the repaired decoder
(`alloc_proportional`, variant `.capped` = repo_patches/C03-fix-F3a.diff).  hc03 replays the witness on
every run and ties the variant the code matches.  Partial with respect to the whole property: the model
covers the top-level vector of each section and custom sections; nested vectors (parameter/result types,
names, element/data vectors, code bodies, name maps) follow the same `reserve` rule
(`reserve_capped_le_remaining`) but are not walked by the model, the number of declared locals is not
bounded by anything (finding F3b), and the engines' own allocations are monitored, not modelled. -/

/-- repaired decoder: never more than 3 units per input byte, for every input -/
theorem alloc_proportional (bs : List Byte) : allocUnits .capped bs ≤ 3 * bs.length :=
  Wz.C03.Frame.frame_alloc_capped bs

/-- the rule each (also nested) vector follows in the repaired decoder -/
theorem reserve_capped_le_remaining (n remaining : Nat) : reserve .capped n remaining ≤ remaining :=
  (Wz.C03.Frame.reserve_capped_le n remaining).1

/-- F3a: the 15-byte witness makes the pinned decoder reserve 2^28 elements (× 80 bytes = 20 GiB),
the repaired one none -/
theorem alloc_witness :
    f3aWitness.length = 15 ∧ allocUnits .asIs f3aWitness = 2 ^ 28 ∧ allocUnits .capped f3aWitness = 0 ∧
    (frame .asIs f3aWitness).verdict = "count-exceeds-section" := by
  decide +kernel

/-- hence no bound of the shape the monitor uses (4096 units per byte + 2^26) holds for the pinned decoder -/
theorem alloc_not_proportional_asIs : ¬ ∀ bs : List Byte, allocUnits .asIs bs ≤ 4096 * bs.length + 2 ^ 26 := by
  intro h
  have := h f3aWitness
  have w := alloc_witness
  rw [w.1, w.2.1] at this
  omega

/-- the variants differ ONLY in what they reserve: same verdict, same sections -/
theorem variants_same_walk_witness :
    (frame .asIs f3aWitness).secs = (frame .capped f3aWitness).secs := by decide +kernel

/-- non-vacuity / test by evaluation: a well-formed two-section module is walked to the end -/
example : (frame .capped (magic ++ version ++ [0x01#8, 0x04#8, 0x01#8, 0x60#8, 0x00#8, 0x00#8, 0x03#8, 0x02#8, 0x01#8, 0x00#8])).verdict = "ok" := by
  decide +kernel

/-! ## The function-body validator on fragment W0 (`Wz.Model.Validator`, proofs in `Wz.C03v`)

`check` is the algorithm of `func_validation.go` (operand stack with the unknown marker and stack limits,
control stack) on the nested syntax of W0; `WellTyped` are the declarative typing rules of the
specification.  The model is compared with the real `Module.Validate` on generated bodies and token-level
mutants (accept/reject must agree), and on every numeric instruction with every operand/result typing. -/

open Wz.Model.Validator in
/-- Soundness for ALL W0 bodies.  Finding switch (observation Q3/F43): the validator as pinned accepts
alignment exponents ≥ 63 (`1<<align` is evaluated on a 64-bit int), which the specification rejects; the
repaired validator accepts exactly the bodies with `check = ok ∧ alignSane`, and for those: -/
theorem validate_sound_W0 (C : Ctx) (body : List TI) (hal : alignSane body = true)
    (h : check C body = .ok ()) : WellTyped C body :=
  Wz.C03v.validate_sound_W0 C body hal h

open Wz.Model.Validator in
/-- … and the as-is variant is NOT sound w.r.t. the declarative rules: `i32.const 0; i32.load align=2^64`
is accepted by the algorithm and is not well typed (leniency only: both engines ignore the alignment). -/
theorem validate_asIs_alignment_witness :
    check Wz.C03v.C0 [.const .i32 0, .load .i32 32 false 64 0] = .ok () ∧
    ¬ WellTyped Wz.C03v.C0 [.const .i32 0, .load .i32 32 false 64 0] := by
  refine ⟨rfl, fun h => ?_⟩
  have := Wz.C03v.hasType_load_align h .i32 32 false 64 0 (by simp)
  omega

open Wz.Model.Validator Wz.Spec.Wasm Wz.C03v in
/-- "Engines pop without checks thanks to validation", for W0 and the reference semantics: in a module
whose functions are all well typed, a call with its parameters on the stack NEVER reports the internal
outcome `"stack"` (operand missing), for every fuel, function and store; nor `"unsupported"` when the
numeric names in the code are known to `Num.scalar` (`NumOK`: a hypothesis — `scalar` dispatches on
strings and is not evaluated symbolically; hc01 exercises every name against it). -/
theorem welltyped_progress {m : Module} {tm : TModule} (hok : ModuleOK m tm) (fuel f : Nat) (fr : Frame)
    (st : Store) (hf : f < tm.funcIdx.length) (hargs : (funcType m f).params.length ≤ fr.stack.length) :
    (callFunc m fuel f fr st).1 ≠ .trap "stack" ∧
      (NumOK tm → (callFunc m fuel f fr st).1 ≠ .trap "unsupported") :=
  Wz.C03v.welltyped_progress hok fuel f fr st hf hargs

open Wz.Model.Validator Wz.Spec.Wasm Wz.C03v in
/-- the same for an export call with an argument list of the right length -/
theorem welltyped_progress_invoke {m : Module} {tm : TModule} (hok : ModuleOK m tm) (fuel f : Nat)
    (args : List Nat) (st : Store) (hf : f < tm.funcIdx.length)
    (hargs : args.length = (funcType m f).params.length) :
    (invoke m fuel f args st).1 ≠ .trap "stack" ∧
      (NumOK tm → (invoke m fuel f args st).1 ≠ .trap "unsupported") :=
  Wz.C03v.welltyped_progress_invoke hok fuel f args st hf hargs

open Wz.Model.Validator Wz.Spec.Wasm Wz.C03v in
/-- Composition: what the (repaired) validator ALGORITHM accepts never makes the reference semantics pop
an empty stack.  `m` is the erasure of `tm`; imports have at most one result (the reference `hostResult`
returns at most one value); table entries are function indices. -/
theorem validated_never_pops_empty {m : Module} {tm : TModule}
    (h1 : m.types = tm.types) (h2 : m.imports = tm.imports)
    (h3 : m.funcs = tm.funcs.map (fun f => ⟨f.type, f.locals, erase f.body⟩)) (h4 : m.table = tm.table)
    (himp : ∀ ti, ti ∈ tm.imports → (tm.types.getD ti default).results.length ≤ 1)
    (htab : ∀ fi, fi ∈ tm.table → fi < tm.funcIdx.length)
    (hchk : ∀ f, f ∈ tm.funcs → check (tm.ctx f) f.body = .ok () ∧ alignSane f.body = true)
    (fuel f : Nat) (args : List Nat) (st : Store) (hf : f < tm.funcIdx.length)
    (hargs : args.length = (funcType m f).params.length) :
    (invoke m fuel f args st).1 ≠ .trap "stack" :=
  (Wz.C03v.welltyped_progress_invoke
    ⟨h1, h2, h3, h4, himp, fun g hg => Wz.C03v.validate_sound_W0 _ _ (hchk g hg).2 (hchk g hg).1, htab⟩
    fuel f args st hf hargs).1

open Wz.Model.Validator Wz.Spec.Wasm Wz.C03v in
/-- non-vacuity: the concrete module `m0`/`tm0` (a block, a `br_if`, a recursive call, arithmetic) meets
every hypothesis of `validated_never_pops_empty`; and an ill-typed body really does pop an empty stack. -/
example : ∀ fuel arg st, (invoke m0 fuel 0 [arg] st).1 ≠ .trap "stack" := fun fuel arg st =>
  validated_never_pops_empty (tm := tm0) rfl rfl rfl rfl (by intro ti h; cases h) (by intro fi h; cases h)
    (by intro f hf; simp only [tm0, List.mem_singleton] at hf; subst hf; exact ⟨rfl, by decide⟩)
    fuel 0 [arg] st (by decide) rfl
open Wz.Model.Validator Wz.Spec.Wasm in
example : (execSeq {} 5 (erase [.num "i32.add"]) {} {}).1 = .trap "stack" := by decide


/-- **Regenerated obligation** (wasm/func_validation.go): an `if` without `else` is accepted only when its block
type's parameter and result TYPES are equal (the implicit else arm is the identity) - compared as byte strings,
not by count (a seeded change compared the counts only; the invalid-by-construction stream of hc03 then finds
`[i32] -> [f64]` accepted). -/
theorem if_without_else_compares_types :
    Wz.Gen.Shapes.get "c03.if_without_else" = some "!bytes.Equal(bl.blockType.Results, bl.blockType.Params)" := by decide

end Wz.C03
