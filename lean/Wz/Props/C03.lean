/- C03: property theorems (none yet). -/
namespace Wz.C03
end Wz.C03
