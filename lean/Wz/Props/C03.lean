/-
C03 — Compilation is total and sound on arbitrary input bytes: property theorems.

Part 1 (this section): the LEB128 decoders and encoders of `internal/leb128` (model `Wz.Model.Leb128`,
tied to the code by the differential run of hc03).
-/
import Wz.Proofs.C03_Leb
namespace Wz.C03
open Wz.Model.Leb128 Wz.C03.Leb

deriving instance DecidableEq for Except

/-! ## LEB128 -/

/-- Every decoder returns an error or `(v, n)` with `1 ≤ n ≤ 5` (resp. 10), `n ≤ length` (it never
reads past the input — also on unbounded runs of continuation bytes, which the signed decoders walk to
the end) and `v` inside the range of the Go result type. -/
theorem leb_total_bounded (bs : List Byte) :
    (∀ v n, decodeUint32 bs = .ok (v, n) → 1 ≤ n ∧ n ≤ 5 ∧ n ≤ bs.length ∧ v < 2 ^ 32) ∧
    (∀ v n, loadUint64 bs = .ok (v, n) → 1 ≤ n ∧ n ≤ 10 ∧ n ≤ bs.length ∧ v < 2 ^ 64) ∧
    (∀ v n, decodeInt32 bs = .ok (v, n) → 1 ≤ n ∧ n ≤ 5 ∧ n ≤ bs.length ∧ -(2 ^ 31 : Int) ≤ v ∧ v < 2 ^ 31) ∧
    (∀ v n, decodeInt64 bs = .ok (v, n) → 1 ≤ n ∧ n ≤ 10 ∧ n ≤ bs.length ∧ -(2 ^ 63 : Int) ≤ v ∧ v < 2 ^ 63) ∧
    (∀ v n, decodeInt33 bs = .ok (v, n) → 1 ≤ n ∧ n ≤ 5 ∧ n ≤ bs.length ∧ -(2 ^ 32 : Int) ≤ v ∧ v < 2 ^ 32) := by
  refine ⟨?_, ?_, ?_, ?_, ?_⟩
  · intro v n h; have := u32Loop_bounds 5 0 0 bs v n h; omega
  · intro v n h; have := u64Loop_bounds 10 0 0 bs v n h; omega
  · intro v n h; have := i32Loop_bounds bs 0 0 v n h; omega
  · intro v n h; have := i64Loop_bounds bs 0 0 v n h; omega
  · intro v n h
    rw [decodeInt33_eq] at h
    unfold i33Post at h
    split at h
    · simp at h
    · rename_i acc m b heq
      have hb := i33Loop_bounds 5 0 0 0#8 bs acc m b heq
      obtain ⟨hv, hm, _⟩ := i33Final_ok h
      have hr := i33Ret_range (7 * m) acc b
      subst hv; subst hm
      omega

/-- A successful decode depends only on the `n` bytes it consumed: replacing everything after them
changes nothing (so the decoders cannot be influenced by, or read, later bytes). -/
theorem leb_reads_only_consumed (bs sfx : List Byte) :
    (∀ v n, decodeUint32 bs = .ok (v, n) → decodeUint32 (bs.take n ++ sfx) = .ok (v, n)) ∧
    (∀ v n, loadUint64 bs = .ok (v, n) → loadUint64 (bs.take n ++ sfx) = .ok (v, n)) ∧
    (∀ v n, decodeInt32 bs = .ok (v, n) → decodeInt32 (bs.take n ++ sfx) = .ok (v, n)) ∧
    (∀ v n, decodeInt64 bs = .ok (v, n) → decodeInt64 (bs.take n ++ sfx) = .ok (v, n)) ∧
    (∀ v n, decodeInt33 bs = .ok (v, n) → decodeInt33 (bs.take n ++ sfx) = .ok (v, n)) := by
  refine ⟨?_, ?_, ?_, ?_, ?_⟩
  · intro v n h; simpa [decodeUint32] using u32Loop_prefix 5 0 0 bs v n sfx h
  · intro v n h; simpa [loadUint64] using u64Loop_prefix 10 0 0 bs v n sfx h
  · intro v n h; simpa [decodeInt32] using i32Loop_prefix bs 0 0 v n sfx h
  · intro v n h; simpa [decodeInt64] using i64Loop_prefix bs 0 0 v n sfx h
  · intro v n h
    rw [decodeInt33_eq] at h ⊢
    unfold i33Post at h
    split at h
    · simp at h
    · rename_i acc m b heq
      obtain ⟨_, hm, _⟩ := i33Final_ok h
      subst hm
      have := i33Loop_prefix 5 0 0 0#8 bs acc n b sfx heq
      simp only [Nat.sub_zero] at this
      rw [this]
      exact h

/-- Round trip for ALL values of each type and all suffixes: decoding an encoding gives the value back
and consumes exactly the encoding (`EncodeUint32/64` = `encU`, `EncodeInt32/64` = `encS`; the 33-bit
block-type decoder reads what `EncodeInt64` writes for any 33-bit value). -/
theorem leb_roundtrip (sfx : List Byte) :
    (∀ v : Nat, v < 2 ^ 32 → decodeUint32 (encU v ++ sfx) = .ok (v, (encU v).length)) ∧
    (∀ v : Nat, v < 2 ^ 64 → loadUint64 (encU v ++ sfx) = .ok (v, (encU v).length)) ∧
    (∀ v : Int, -(2 ^ 31 : Int) ≤ v → v < 2 ^ 31 → decodeInt32 (encS v ++ sfx) = .ok (v, (encS v).length)) ∧
    (∀ v : Int, -(2 ^ 63 : Int) ≤ v → v < 2 ^ 63 → decodeInt64 (encS v ++ sfx) = .ok (v, (encS v).length)) ∧
    (∀ v : Int, -(2 ^ 32 : Int) ≤ v → v < 2 ^ 32 → decodeInt33 (encS v ++ sfx) = .ok (v, (encS v).length)) :=
  ⟨fun v h => u32_roundtrip v h sfx, fun v h => u64_roundtrip v h sfx, fun v h1 h2 => i32_roundtrip v h1 h2 sfx,
   fun v h1 h2 => i64_roundtrip v h1 h2 sfx, fun v h1 h2 => i33_roundtrip v h1 h2 sfx⟩

/-- Encodings are short: at most 5 bytes for 32-bit and 10 bytes for 64-bit values. -/
theorem leb_encode_length (v : Nat) (w : Int) :
    (v < 2 ^ 32 → (encU v).length ≤ 5) ∧ (v < 2 ^ 64 → (encU v).length ≤ 10) ∧
    (-(2 ^ 31 : Int) ≤ w → w < 2 ^ 31 → (encS w).length ≤ 5) ∧ (-(2 ^ 63 : Int) ≤ w → w < 2 ^ 63 → (encS w).length ≤ 10) := by
  refine ⟨?_, ?_, ?_, ?_⟩
  · intro h
    have r := u32_roundtrip v h []
    have := u32Loop_bounds 5 0 0 _ _ _ r
    omega
  · intro h
    have r := u64_roundtrip v h []
    have := u64Loop_bounds 10 0 0 _ _ _ r
    omega
  · intro h1 h2
    have r := i32_roundtrip w h1 h2 []
    have := i32Loop_bounds _ 0 0 _ _ r
    omega
  · intro h1 h2
    have r := i64_roundtrip w h1 h2 []
    have := i64Loop_bounds _ 0 0 _ _ r
    omega

/-- The 5th byte of an unsigned 32-bit value may only carry 4 bits: with four continuation bytes in
front, a terminating 5th byte is accepted iff it is < 16 (and then all 32 bits are significant). -/
theorem leb_u32_canonical_range (b0 b1 b2 b3 b4 : Byte) (rest : List Byte)
    (h0 : 0x80 ≤ b0.toNat) (h1 : 0x80 ≤ b1.toNat) (h2 : 0x80 ≤ b2.toNat) (h3 : 0x80 ≤ b3.toNat) (h4 : b4.toNat < 0x80) :
    decodeUint32 (b0 :: b1 :: b2 :: b3 :: b4 :: rest) =
      if b4.toNat < 16 then
        .ok (b0.toNat % 128 + b1.toNat % 128 * 2 ^ 7 + b2.toNat % 128 * 2 ^ 14 + b3.toNat % 128 * 2 ^ 21 + b4.toNat * 2 ^ 28, 5)
      else .error .overflow := by
  have n0 : ¬ b0.toNat < 128 := by omega
  have n1 : ¬ b1.toNat < 128 := by omega
  have n2 : ¬ b2.toNat < 128 := by omega
  have n3 : ¬ b3.toNat < 128 := by omega
  have hb4 : b4.toNat < 256 := by omega
  simp only [decodeUint32, u32Loop, n0, n1, n2, n3, h4, if_true, if_false, mask7f, true_and]
  by_cases hc : b4.toNat < 16
  · have : b4 &&& 0xf0#8 = 0#8 := (maskf0 b4).mpr (by omega)
    simp [this, hc]
    omega
  · have : ¬ (b4 &&& 0xf0#8 = 0#8) := fun h => by have := (maskf0 b4).mp h; omega
    simp [this, hc]

/-- … and a 5-byte run of continuation bytes is rejected whatever follows (bounded loop). -/
theorem leb_u32_five_continuations_rejected (b0 b1 b2 b3 b4 : Byte) (rest : List Byte)
    (h0 : 0x80 ≤ b0.toNat) (h1 : 0x80 ≤ b1.toNat) (h2 : 0x80 ≤ b2.toNat) (h3 : 0x80 ≤ b3.toNat) (h4 : 0x80 ≤ b4.toNat) :
    decodeUint32 (b0 :: b1 :: b2 :: b3 :: b4 :: rest) = .error .overflow := by
  have n0 : ¬ b0.toNat < 128 := by omega
  have n1 : ¬ b1.toNat < 128 := by omega
  have n2 : ¬ b2.toNat < 128 := by omega
  have n3 : ¬ b3.toNat < 128 := by omega
  have n4 : ¬ b4.toNat < 128 := by omega
  simp [decodeUint32, u32Loop, n0, n1, n2, n3, n4]

/-- non-vacuity of the hypotheses above, and concrete values (tests by evaluation) -/
example : decodeUint32 [0xff#8, 0xff#8, 0xff#8, 0xff#8, 0x0f#8, 0x00#8] = .ok (4294967295, 5) := by decide
example : decodeUint32 [0xff#8, 0xff#8, 0xff#8, 0xff#8, 0x1f#8] = .error .overflow := by decide
example : decodeUint32 [0x80#8, 0x80#8, 0x80#8, 0x80#8, 0x01#8] = .ok (2 ^ 28, 5) := by decide
example : decodeInt32 [0x7f#8] = .ok (-1, 1) := by decide
example : decodeInt33 [0x40#8] = .ok (-64, 1) := by decide

set_option maxRecDepth 100000 in
/-- Observation (leniency, not a violation of C03): the signed decoders check only SOME of the unused
bits of the last byte — bit 6 is never looked at.  `80 80 80 80 3f` is accepted as an int32 (the
specification requires bits 4–6 of the 5th byte to equal the sign bit, i.e. `7f`), `80 80 80 80 47` as
+1879048192 (bit 6 set on a non-negative value). -/
theorem leb_i32_unused_bit6_unchecked_witness :
    decodeInt32 [0x80#8, 0x80#8, 0x80#8, 0x80#8, 0x3f#8] = .ok (-268435456, 5) ∧
    decodeInt32 [0x80#8, 0x80#8, 0x80#8, 0x80#8, 0x47#8] = .ok (1879048192, 5) := by decide +kernel

set_option maxRecDepth 100000 in
/-- Observation: `DecodeInt33AsInt64` stops after five bytes even when the fifth byte still has its
continuation bit set, and accepts it (`ff ff ff ff ff` decodes to -1 with 5 bytes consumed). -/
theorem leb_i33_fifth_continuation_accepted_witness :
    decodeInt33 [0xff#8, 0xff#8, 0xff#8, 0xff#8, 0xff#8] = .ok (-1, 5) := by decide +kernel

end Wz.C03
