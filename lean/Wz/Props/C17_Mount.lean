import Wz.Gen.Shapes

/-!
# C17 companion: a read-only directory mount is always the wrapped one

Every theorem of C17 is about `sysfs.ReadFS` and the files it hands out; they protect a mount only if
`WithReadOnlyDirMount` puts that wrapper in front of the directory UNCONDITIONALLY - not depending on the host's
permission bits (which do not bind root and may change later; seeded change C17-6), on whether the directory exists,
or on anything else.  The body of the function is a regenerated shape.
-/

namespace Wz.C17

theorem readonly_dir_mount_always_wraps :
    Wz.Gen.Shapes.get "c17.ro_dir_mount" =
      some "return c.WithSysFSMount(&sysfs.ReadFS{FS: sysfs.DirFS(dir)}, guestPath)" := by
  decide

end Wz.C17
