/-
C12 — Non-semantic configuration does not change guest behaviour.

Part 1 (sizer): theorems about the REGENERATED `Wz.Gen.Memory.memorySizer`/`Validate` (tie A) and the two
hand-written variants behind the finding switch F11.
Part 2 (module identity: regenerated shape facts + injectivity of the hashed encoding) and part 3
(shared cache state machine); lemmas in `Wz.Proofs.C12_*`.
-/
import Wz.Model.Sizer
import Wz.Proofs.C12_ModuleID
import Wz.Proofs.C12_Cache
import Wz.Gen.CallerCtx

namespace Wz.C12
open Wz.Gen.Memory Wz.Model.Memory Wz.Model.Sizer

/-! ## Part 1 — memory capacity from max -/

/-- Tie of the finding switch: the sizer regenerated from /repo on this run is exactly one of the two
variants (as-is = F11 present, or repaired). A tree that matches neither breaks this obligation. -/
theorem sizer_matches_variant :
    (∀ l c m x, memorySizer l c m x = sizerAsIs l c m x) ∨
    (∀ l c m x, memorySizer l c m x = sizerFixed l c m x) := by
  first
  | (left; intro l c m x; cases x <;> cases c <;> simp [memorySizer, sizerAsIs]; done)
  | (right; intro l c m x; cases x <;> cases c <;> simp [memorySizer, sizerFixed]; done)

/-- `Validate` (regenerated) accepts exactly the natural-number constraints. -/
theorem validate_none_iff (l a b c : BitVec 32) :
    Validate l a b c = none ↔ (c.toNat ≤ l.toNat ∧ a.toNat ≤ l.toNat ∧ a.toNat ≤ c.toNat ∧
      a.toNat ≤ b.toNat ∧ b.toNat ≤ l.toNat) := by
  unfold Validate
  simp only [BitVec.ult, decide_eq_true_eq]
  repeat' split
  all_goals (simp; try omega)

theorem decodeWith_eq (sz) (l : BitVec 32) (c : Bool) (m : BitVec 32) (x) :
    decodeWith sz l c m x =
      if Validate l (sz l c m x).1 (sz l c m x).2.1 (sz l c m x).2.2 = none
      then some ((sz l c m x).1, (sz l c m x).2.2) else none := by
  unfold decodeWith
  simp only
  split <;> simp_all

/-- FULL STRENGTH (repaired variant): for every 32-bit limit, minimum and optional maximum,
`WithMemoryCapacityFromMax` changes neither acceptance nor the accepted (min, max). -/
theorem sizerFixed_capacity_independent (limit minP : BitVec 32) (maxP : Option (BitVec 32)) :
    CapacityIndependent sizerFixed limit minP maxP := by
  unfold CapacityIndependent
  rw [decodeWith_eq, decodeWith_eq]
  simp only [validate_none_iff]
  have k : (65536#32 : BitVec 32).toNat = 65536 := by decide
  cases maxP with
  | none => simp [sizerFixed]
  | some mx =>
    by_cases h1 : mx.toNat ≤ 65536 <;> by_cases h2 : limit.toNat < mx.toNat <;>
      simp [sizerFixed, BitVec.ult, BitVec.ule, k, h1, h2, Nat.not_lt.mpr, Nat.lt_of_not_le] <;>
      (repeat' split) <;> first | rfl | (exfalso; omega) | omega

/-- F11 (as-is variant): min 1, max 10, limit 5 is accepted and clamped without the option and
rejected with it. Proof by evaluation of the model (a witness, not a sample test). -/
theorem capfrommax_witness :
    decodeWith sizerAsIs 5#32 false 1#32 (some 10#32) = some (1#32, 5#32) ∧
    decodeWith sizerAsIs 5#32 true 1#32 (some 10#32) = none ∧
    ¬ CapacityIndependent sizerAsIs 5#32 1#32 (some 10#32) := by
  refine ⟨by decide, by decide, by decide⟩

/-- PARTIAL (as-is variant): the option is behaviour-neutral whenever there is no declared maximum, or
it is within the limit, or it is invalid (> 65536; rejected either way).
Missing for the full statement: declared maxima in (limit, 65536] — exactly `capfrommax_witness`. -/
theorem sizerAsIs_capacity_independent_partial (limit minP : BitVec 32) (maxP : Option (BitVec 32))
    (h : ∀ mx, maxP = some mx → mx.toNat ≤ limit.toNat ∨ 65536 < mx.toNat) :
    CapacityIndependent sizerAsIs limit minP maxP := by
  unfold CapacityIndependent
  rw [decodeWith_eq, decodeWith_eq]
  simp only [validate_none_iff]
  have k : (65536#32 : BitVec 32).toNat = 65536 := by decide
  cases maxP with
  | none => simp [sizerAsIs]
  | some mx =>
    have h' := h mx rfl
    by_cases h1 : mx.toNat ≤ 65536 <;> by_cases h2 : limit.toNat < mx.toNat <;>
      simp [sizerAsIs, BitVec.ult, k, h1, h2, Nat.not_lt.mpr, Nat.lt_of_not_le] <;>
      (repeat' split) <;> first | rfl | (exfalso; omega) | omega

/-- non-vacuity of the hypothesis of the partial theorem: a declared max within the limit. -/
example : ∀ mx, (some 3#32 : Option (BitVec 32)) = some mx → mx.toNat ≤ (5#32 : BitVec 32).toNat ∨ 65536 < mx.toNat := by
  intro mx h; cases h; left; decide

/-- The property statement ON THE REGENERATED DEFINITION, adaptive to the tree (finding switch):
either the regenerated sizer is capacity-independent for all inputs (repaired tree), or it is the
as-is variant, for which the witness fails and the partial statement holds. -/
theorem sizer_capacity_independent :
    (∀ l m x, CapacityIndependent memorySizer l m x) ∨
    ((¬ CapacityIndependent memorySizer 5#32 1#32 (some 10#32)) ∧
      ∀ l m x, (∀ mx, x = some mx → mx.toNat ≤ l.toNat ∨ 65536 < mx.toNat) →
        CapacityIndependent memorySizer l m x) := by
  rcases sizer_matches_variant with h | h
  · right
    have e : memorySizer = sizerAsIs := by funext l c m x; exact h l c m x
    rw [e]
    exact ⟨capfrommax_witness.2.2, fun l m x hx => sizerAsIs_capacity_independent_partial l m x hx⟩
  · left
    have e : memorySizer = sizerFixed := by funext l c m x; exact h l c m x
    rw [e]
    exact sizerFixed_capacity_independent

/-- Whatever the variant, an accepted memory keeps the declared minimum and its max is within the limit
(on the regenerated definitions; reuses C14's `decodeMemory`). -/
theorem decodeWith_eq_decodeMemory (l : BitVec 32) (c : Bool) (m : BitVec 32) (x : Option (BitVec 32)) :
    decodeWith memorySizer l c m x =
      match decodeMemory l c m x with
      | .ok r => some (r.1, r.2.2)
      | .error _ => none := by
  unfold decodeWith decodeMemory
  simp only
  split <;> simp_all


/-! ## Part 2 — module identity and the cache keys -/

section ModuleIdentity
open Wz.Model.ModuleID

/-- Tie A (facts): `AssignModuleID` on this tree hashes exactly: the binary, then per local function its
index and listener presence, then the termination flag; `runtime.CompileModule` passes exactly
(binary, listeners, r.ensureTermination); `fileCacheKey` hashes (ID, magic, CPU features).
Dropping e.g. the termination flag from the ID changes the regenerated list and breaks this `decide`. -/
theorem id_shape :
    Wz.Gen.ModuleID.idHashed = expectedIdHashed ∧
    Wz.Gen.ModuleID.idCallArgs = expectedIdCallArgs ∧
    Wz.Gen.ModuleID.fileKeyHashed = expectedFileKeyHashed := by decide

/-- Tie A (facts): the values that reach the decoder, the engines' CompileModule, the wazevo front end
and the interpreter's compiler are exactly those recorded in `CodegenInputs`. A new configuration-dependent
compiler input breaks this `decide`. -/
theorem codegen_inputs_shape :
    Wz.Gen.ModuleID.decodeCallArgs = expectedDecodeCallArgs ∧
    Wz.Gen.ModuleID.engineCallArgs = expectedEngineCallArgs ∧
    Wz.Gen.ModuleID.frontendArgs = expectedFrontendArgs ∧
    Wz.Gen.ModuleID.localFuncArgs = expectedLocalFuncArgs ∧
    Wz.Gen.ModuleID.derivedInputs = expectedDerivedInputs ∧
    Wz.Gen.ModuleID.interpCompilerArgs = expectedInterpCompilerArgs := by decide

/-- FULL STRENGTH (model; SHA-256 injective): two compile requests for the same binary with the same
module ID agree on everything the generated code's semantics may depend on — for every number of
functions, every listener-presence vector, either termination flag. -/
theorem key_determines_codegen (H : List Nat → Nat) (hH : Function.Injective H) (c₁ c₂ : Req)
    (hb : c₁.bin = c₂.bin) (h : moduleID H c₁ = moduleID H c₂) : codegenRelevant c₁ = codegenRelevant c₂ := by
  have := Wz.Proofs.C12.preimage_inj_same_bin c₁ c₂ hb (hH h)
  simp only [codegenRelevant, hb, this.1, this.2]

/-- The same across binaries of equal length. -/
theorem key_determines_codegen_samelen (H : List Nat → Nat) (hH : Function.Injective H) (c₁ c₂ : Req)
    (hl : c₁.bin.length = c₂.bin.length) (h : moduleID H c₁ = moduleID H c₂) :
    codegenRelevant c₁ = codegenRelevant c₂ := by
  have := Wz.Proofs.C12.preimage_inj_same_len c₁ c₂ hl (hH h)
  simp only [codegenRelevant, this.1, this.2.1, this.2.2]

/-- PARTIAL across binaries of different length: the hashed encoding has no length prefix, so it is not
injective even for an injective hash — a binary that ends with the bytes of a listener record collides
with the shorter binary compiled with one listener. (Model-level observation; such a longer byte string
would also have to decode as a valid module.) -/
theorem preimage_collision_witness :
    let r₁ : Req := { bin := [9], listeners := some [some 1], term := false, memLimit := 1, capFromMax := false,
                      debugInfo := false, customSections := false, hasDwarf := false }
    let r₂ : Req := { r₁ with bin := [9, 0, 0, 0, 0, 1], listeners := none }
    preimage r₁ = preimage r₂ ∧ codegenRelevant r₁ ≠ codegenRelevant r₂ := by decide

/-- The file-cache key determines the module ID (and the CPU feature word). -/
theorem filekey_determines_id (H : List Nat → Nat) (hH : Function.Injective H) (cpu₁ cpu₂ : Nat) (c₁ c₂ : Req)
    (h : fileKey H cpu₁ c₁ = fileKey H cpu₂ c₂) : moduleID H c₁ = moduleID H c₂ ∧ cpu₁ = cpu₂ := by
  have := hH h
  simp only [magic, List.cons_append, List.nil_append, List.cons.injEq, true_and, and_true] at this
  exact this

/-- What the key does NOT determine (by design): the decode options and the source-info flag. Two requests
with the same ID whose compiler inputs differ in `needSourceInfo`, capacity and custom sections. That the
generated code's behaviour does not depend on them is the modelling assumption checked by the lattice run. -/
theorem key_ignores_nonsemantic_witness (H : List Nat → Nat) :
    let r₁ : Req := { bin := [0, 97, 115, 109], listeners := none, term := false, memLimit := 5, capFromMax := false,
                      debugInfo := true, customSections := false, hasDwarf := true }
    let r₂ : Req := { r₁ with capFromMax := true, debugInfo := false, customSections := true }
    moduleID H r₁ = moduleID H r₂ ∧ codegenInputs r₁ ≠ codegenInputs r₂ ∧ codegenRelevant r₁ = codegenRelevant r₂ := by
  refine ⟨rfl, by decide, rfl⟩

/-- non-vacuity: two requests that differ only in the termination flag get different preimages. -/
example :
    let r₁ : Req := { bin := [1, 2], listeners := some [some 4, none], term := false, memLimit := 5, capFromMax := false,
                      debugInfo := true, customSections := false, hasDwarf := false }
    preimage r₁ ≠ preimage { r₁ with term := true } := by decide

end ModuleIdentity

/-! ## Part 3 — the shared cache -/

section Cache
open Wz.Model.Cache Wz.Proofs.C12Cache

variable {K C : Type} [DecidableEq K]

/-- PARTIAL (as-is code, and every variant): over ANY history of compiles / instantiates / closes by any
number of runtimes sharing one cache (memory + optional disk), with a sound key, every instantiation that
succeeds runs exactly the code a fresh compile of that request would generate.
Missing for the full statement (see the two witnesses): listener identity (F12) and availability (N1). -/
theorem cache_refines_fresh_partial (P : Params K C) (hk : KeySound P) (v : Variant) (ops : List Op)
    (i rt b : Nat) (c : C) (l : Lst) (hop : ops[i]? = some (Op.instantiate rt b))
    (hout : (run P v St.init ops)[i]? = some (Out.ran c l)) : c = P.code rt b :=
  run_code P hk v ops St.init (codeSound_init P) i rt b c l hop hout

/-- FULL STRENGTH (repaired variant: listeners re-bound per runtime, eviction only when unreferenced):
over any history the shared cache is observationally equal to the specification in which nothing is shared. -/
theorem cache_refines_fresh_repaired (P : Params K C) (hk : KeySound P) (ops : List Op) :
    run P repaired St.init ops = specRun P [] ops :=
  repaired_run P hk ops St.init (codeSound_init P) (live_init P)

/-- … and so is the private (uncached) configuration, hence shared = private for the repaired variant. -/
theorem shared_eq_private_repaired (P : Params K C) (hk : KeySound P) (ops : List Op) :
    run P repaired St.init ops = run (privateParams P) repaired St.init ops := by
  rw [cache_refines_fresh_repaired P hk, cache_refines_fresh_repaired (privateParams P) (privateParams_keySound P hk),
    specRun_private]

/-- two runtimes with the same key-relevant settings, each with its own listener object -/
def twoRuntimes : Params Nat Nat :=
  { key := fun _ b => b, code := fun _ b => b, lst := fun rt _ => [some rt], useDisk := false }

/-- non-vacuity of `KeySound`. -/
example : KeySound twoRuntimes := by intro _ _ _ _ h; exact h

/-- F12 (as-is): runtime 0 compiles, runtime 1 compiles the same binary (in-memory hit) and instantiates:
the instance's events go to runtime 0's listener; uncached, they go to runtime 1's. The code is the same. -/
theorem listener_identity_witness :
    let ops := [Op.compile 0 7, Op.compile 1 7, Op.instantiate 1 7]
    run twoRuntimes asIs St.init ops = [.compiled, .compiled, .ran 7 [some 0]] ∧
    run (privateParams twoRuntimes) asIs St.init ops = [.compiled, .compiled, .ran 7 [some 1]] ∧
    specRun twoRuntimes [] ops = [.compiled, .compiled, .ran 7 [some 1]] := by decide

/-- N1 (as-is): runtime 0 closes ITS compiled module; runtime 1's compiled module of the same binary can
no longer be instantiated. Uncached, it can. -/
theorem close_evicts_witness :
    let ops := [Op.compile 0 7, Op.compile 1 7, Op.closeCompiled 0 7, Op.instantiate 1 7]
    run twoRuntimes asIs St.init ops = [.compiled, .compiled, .closed, .failed] ∧
    run (privateParams twoRuntimes) asIs St.init ops = [.compiled, .compiled, .closed, .ran 7 [some 1]] := by decide

/-- A file-cache hit re-binds the listeners (as-is): after the in-memory entry is gone, runtime 1's compile
hits the disk and its instance reports to runtime 1's listener. -/
theorem disk_hit_rebinds :
    let P := { twoRuntimes with useDisk := true }
    run P asIs St.init [Op.compile 0 7, Op.closeCompiled 0 7, Op.compile 1 7, Op.instantiate 1 7] =
      [.compiled, .closed, .compiled, .ran 7 [some 1]] := by decide

end Cache


/-! ### function listeners are passive: the listener variants of the Go-call handlers -/

/-- **Regenerated obligation** (wazevo/call_engine.go, `callWithStack`): attaching a listener to a host function
switches the exit code from `CallGo[Module]Function` to `…WithListener`.  The two handlers must hand the SAME
module to the host function - the caller's (`c.callerModuleInstance()`), never the module whose export the
embedder called - otherwise attaching a listener changes what a module-aware host function sees (a seeded
change did exactly that for guest modules other than the entry module). -/
theorem listener_variant_passes_same_module :
    Wz.Gen.CallerCtx.goCalls =
      [("ExitCodeCallGoFunction", "-"), ("ExitCodeCallGoFunctionWithListener", "-"),
       ("ExitCodeCallGoModuleFunction", "callerModuleInstance()"),
       ("ExitCodeCallGoModuleFunctionWithListener", "callerModuleInstance()")] := by decide

end Wz.C12
