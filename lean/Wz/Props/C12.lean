/- C12: property theorems (none yet). -/
namespace Wz.C12
end Wz.C12
