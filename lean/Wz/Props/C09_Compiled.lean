import Wz.Gen.Shapes

/-!
# C09 companion: what all instances of a compiled module share

An instance keeps its provider alive through what it owns (its module engine's `importedFunctions`, its tables and
globals); anything kept in the COMPILED module is shared by every instance created from it, so per-instance links
stored there are overwritten by the next instantiation (seeded change C09-6: the imported-function slice moved into
`compiledModule`).  The field lists of the two engines' per-compilation objects are regenerated; every field of the
reviewed lists is decided at compile time (code, offsets, listeners, flags).  A new field breaks this obligation and
with it the check, until it is reviewed (the rebinding stage of hc09 searches for the failing history).
-/

namespace Wz.C09

set_option maxRecDepth 8192 in
theorem compiled_objects_hold_only_compile_time_state :
    Wz.Gen.Shapes.get "c09.compiled_fields" =
      some "wazevo.compiledModule: *executables functionOffsets parent module ensureTermination listeners listenerBeforeTrampolines listenerAfterTrampolines offsets sharedFunctions sourceMap ;; interpreter.compiledFunction: source body listener offsetsInWasmBinary hostFn ensureTermination index" := by
  decide

end Wz.C09
