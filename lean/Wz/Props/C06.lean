/- C06: property theorems (none yet). -/
namespace Wz.C06
end Wz.C06
