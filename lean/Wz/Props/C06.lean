/-
C06 — Traps, exits and host panics are contained and leave the runtime usable.

Property theorems.  Three layers:
  (1) decision logic regenerated from /repo (`Wz.Gen.ExitCodes`, `Wz.Gen.CallEngine`): exit-code table,
      the dispatch switch of `callWithStack`, `FromRecovered`, the deferred functions → `error_kind_correct`,
      `exitcode_roundtrip`;
  (2) the reference semantics of calls with failure outcomes (`Wz.Model.Calls`, tied to both engines by the
      history harness) → `effects_persist`, `failure_propagates_state`, `other_instances_untouched`,
      `closed_instance_reports_exit`;
  (3) the two call engines as state machines (`Wz.Model.CallEngine`, built on the regenerated definitions)
      → `callengine_inv_preserved`, `next_call_independent_partial`, `growstack_terminates_below_ceiling`,
      `interp_inv_preserved`, and the witness of finding F24 `stack_history_dependence_witness`.
-/
import Wz.Gen.CallEngine
import Wz.Proofs.ExitCodeIndex
import Wz.Proofs.C06_CallEngine
import Wz.Proofs.C06_Calls
import Wz.Gen.Cleanup
import Wz.Gen.Shapes

namespace Wz.C06
open Wz.Gen.ExitCodes Wz.Model.CallEngine Wz.Model.Calls

/-! ## (1) error kinds: decision logic over the regenerated tables -/

/-- The documented runtime error per trap exit code (WebAssembly trap ↔ `wasmruntime` error). -/
def documented : List (String × String) := [
  ("ExitCodeUnreachable", "ErrRuntimeUnreachable"),
  ("ExitCodeMemoryOutOfBounds", "ErrRuntimeOutOfBoundsMemoryAccess"),
  ("ExitCodeTableOutOfBounds", "ErrRuntimeInvalidTableAccess"),
  ("ExitCodeIndirectCallNullPointer", "ErrRuntimeInvalidTableAccess"),
  ("ExitCodeIndirectCallTypeMismatch", "ErrRuntimeIndirectCallTypeMismatch"),
  ("ExitCodeIntegerOverflow", "ErrRuntimeIntegerOverflow"),
  ("ExitCodeIntegerDivisionByZero", "ErrRuntimeIntegerDivideByZero"),
  ("ExitCodeInvalidConversionToInteger", "ErrRuntimeInvalidConversionToInteger"),
  ("ExitCodeUnalignedAtomic", "ErrRuntimeUnalignedAtomic")]

/-- The exit code the compiler emits for a trapping instruction of the reference semantics, and the
error variable of its documented class. -/
def trapExitCode : TrapKind → String
  | .unreachable => "ExitCodeUnreachable"
  | .divZero => "ExitCodeIntegerDivisionByZero"
  | .divOverflow => "ExitCodeIntegerOverflow"
  | .truncOverflow => "ExitCodeIntegerOverflow"
  | .invalidConv => "ExitCodeInvalidConversionToInteger"
  | .oobLoad => "ExitCodeMemoryOutOfBounds"
  | .oobStore => "ExitCodeMemoryOutOfBounds"
  | .oobTable => "ExitCodeTableOutOfBounds"
  | .nullTable => "ExitCodeIndirectCallNullPointer"
  | .sigMismatch => "ExitCodeIndirectCallTypeMismatch"
  | .unaligned => "ExitCodeUnalignedAtomic"

def classErr : ErrClass → String × String
  | .unreachable => ("ErrRuntimeUnreachable", "unreachable")
  | .intDivZero => ("ErrRuntimeIntegerDivideByZero", "integer divide by zero")
  | .intOverflow => ("ErrRuntimeIntegerOverflow", "integer overflow")
  | .invalidConv => ("ErrRuntimeInvalidConversionToInteger", "invalid conversion to integer")
  | .oobMemory => ("ErrRuntimeOutOfBoundsMemoryAccess", "out of bounds memory access")
  | .invalidTable => ("ErrRuntimeInvalidTableAccess", "invalid table access")
  | .typeMismatch => ("ErrRuntimeIndirectCallTypeMismatch", "indirect call type mismatch")
  | .unalignedAtomic => ("ErrRuntimeUnalignedAtomic", "unaligned atomic")

def isPanicErr : Action → Bool
  | .panicErr _ => true
  | _ => false

def lookup (name : String) : Option Action := (dispatch.find? (fun p => p.1 == name)).map (·.2)

/-- `error_kind_correct`: every failure kind maps to the documented error class.
(a) each trap exit code panics with exactly the documented `wasmruntime` error, and no other exit
code panics unconditionally with a runtime error; (b) every `ExitCode` constant has its own case
(none reaches `default: panic("BUG")`), the constants are the distinct numbers `0 … exitCodeMax-1`
and fit the 8-bit mask; (c) `ExitCodeOK` returns, `ExitCodeGrowStack` grows or returns the
stack-overflow error, `ExitCodeCheckModuleExitCode` panics with the exit error of a closed module;
(d) `FromRecovered` returns a `*sys.ExitError` unwrapped (exit code preserved at any nesting), wraps
runtime errors and error values with `%w` (so `errors.Is/As` reach the trap error / the panic
value) and formats any other panic value; (e) both deferred functions recover, report the exit
error of a closed module when nothing else failed, and reset the call engine; (f) the error
variables of all classes exist with the documented messages.  `decide` over finite regenerated tables. -/
theorem error_kind_correct :
    (∀ p ∈ documented, lookup p.1 = some (.panicErr p.2)) ∧
    (∀ p ∈ dispatch, isPanicErr p.2 = true → p.1 ∈ documented.map (·.1)) ∧
    (∀ p ∈ exitCodes, (lookup p.1).isSome) ∧
    (exitCodes.map (·.2) = List.range exitCodeMax) ∧ exitCodeMax ≤ exitCodeMask + 1 ∧ exitCodeMask = 255 ∧
    (exitCodes.map (·.1)).Nodup ∧ (dispatch.map (·.1)).Nodup ∧
    lookup "ExitCodeOK" = some .ret ∧ lookup "ExitCodeGrowStack" = some .growStack ∧
    lookup "ExitCodeCheckModuleExitCode" = some .checkExit ∧ dispatchDefault = .panicBug ∧
    fromRecovered = [("*sys.ExitError", "asis"), ("*wasmruntime.Error", "wrap"), ("runtime.Error", "wrap"),
      ("error", "wrap"), ("else", "format")] ∧
    (deferWrapsRecovered && deferFailIfClosedUnlessOverflow && deferResetsExitCodeOnError && entryChecksAlignment
      && interpRecoverTruncates && interpRecoverWrapsRecovered && interpDeferFailIfClosed && interpDeferRecovers) = true ∧
    (∀ c ∈ [ErrClass.unreachable, .intDivZero, .intOverflow, .invalidConv, .oobMemory, .invalidTable,
        .typeMismatch, .unalignedAtomic], classErr c ∈ runtimeErrors) ∧
    ("ErrRuntimeStackOverflow", "stack overflow") ∈ runtimeErrors := by
  decide

/-- Each trapping instruction of the reference semantics reaches the error of its documented class. -/
theorem trap_kind_correct (k : TrapKind) : lookup (trapExitCode k) = some (.panicErr (classErr k.cls).1) := by
  cases k <;> decide

/-- The Go-function index survives the packing into an exit code, and the low byte is the kind
(all indices below 2^24; `ExitCodeMask = 0xff`). About the regenerated definitions. -/
theorem exitcode_roundtrip (i : BitVec 64) (l : Bool) (h : i.toNat < 2 ^ 24) :
    Wz.Gen.CallEngine.GoFunctionIndexFromExitCode (Wz.Gen.CallEngine.ExitCodeCallGoFunctionWithIndex i l) = i ∧
    Wz.Gen.CallEngine.GoFunctionIndexFromExitCode (Wz.Gen.CallEngine.ExitCodeCallGoModuleFunctionWithIndex i l) = i :=
  Wz.Proofs.ExitCode.roundtrip i l h

/-! ## (2) reference semantics: effects persist, other instances untouched -/

/-- `effects_persist`: when a trapping instruction is reached, the call fails with the trap's class and
the state is EXACTLY the state the instructions before it produced (nothing is rolled back); if an
earlier instruction already failed, that failure and its state stand.  For every body, every callee
behaviour, every state. -/
theorem effects_persist (doCall : Nat → Nat → Nat → State → R) (doHost : HostFn → Nat → State → R)
    (inst x : Nat) (pre post : List Instr) (g : Guard) (k : TrapKind) (acc : Nat) (σ : State)
    (hg : g.holds x = true) :
    execBody doCall doHost inst x (pre ++ (g, .trap k) :: post) acc σ =
      match execBody doCall doHost inst x pre acc σ with
      | (.ok _, σ') => (.error (.trap k.cls), σ')
      | (.error e, σ') => (.error e, σ') := by
  rw [Calls.execBody_append]
  rcases execBody doCall doHost inst x pre acc σ with ⟨r, s⟩
  cases r with
  | error e => rfl
  | ok v => simp only [execBody, hg, if_true]

/-- A failing callee (guest function of any instance, or host function: panic, exit, failing re-entrant
call) fails the caller with the same failure and the callee's final state: unwinding changes nothing. -/
theorem failure_propagates_state (doCall : Nat → Nat → Nat → State → R) (doHost : HostFn → Nat → State → R)
    (inst x j f : Nat) (a : ArgE) (g : Guard) (rest : List Instr) (acc : Nat) (σ σ' : State) (e : Failure)
    (hg : g.holds x = true) (hc : doCall j f (evalArg a x) σ = (.error e, σ')) :
    execBody doCall doHost inst x ((g, .call j f a) :: rest) acc σ = (.error e, σ') := by
  simp only [execBody, hg, if_true, hc]

/-- `other_instances_untouched`: a call into instance `i` leaves every instance `j ≠ i` that nothing
outside `j` calls into exactly as it was — whatever the outcome (result, trap, overflow, panic, exit). -/
theorem other_instances_untouched (W : World) (D fuel i f arg j : Nat) (σ : State)
    (hiso : Calls.Isolated W j) (hne : i ≠ j) :
    (apiCall W D fuel i f arg σ).2[j]? = σ[j]? := by
  unfold apiCall
  rw [Calls.closedCheck_snd]
  exact Calls.callFn_untouched W D j hiso fuel 0 i f arg σ hne

/-- non-vacuity: a world where instance 1 is isolated while instance 0 traps after an effect. -/
example : Calls.Isolated [[[(.always, .setg 0 5), (.always, .trap .divZero)]], [[(.always, .addg 0)]]] 1 := by
  intro i f body hne hb ins hm
  match i, f with
  | 0, 0 => simp [World.getFunc] at hb; subst hb; simp at hm; rcases hm with h | h <;> subst h <;> simp [Calls.target]
  | 0, f + 1 => simp [World.getFunc] at hb
  | 1, _ => exact absurd rfl hne
  | i + 2, _ => simp [World.getFunc] at hb

/-- (test, one sample) the effect before the trap is there after the failing call. -/
example : apiCall [[[(.always, .setg 0 5), (.always, .trap .divZero)]]] 2000 10 0 0 7 [{}] =
    (.error (.trap .intDivZero), [{ globals := [5, 0] }]) := by rfl

/-- A call through the API that returns a result left the called instance open; if the instance is
closed when the call ends without another failure, the caller gets the exit error with its code. -/
theorem closed_instance_reports_exit (W : World) (D fuel i f arg : Nat) (σ : State) :
    (∀ v, (apiCall W D fuel i f arg σ).1 = .ok v → (apiCall W D fuel i f arg σ).2.closedOf i = none) ∧
    (∀ v c, (callFn W D fuel 0 i f arg σ).1 = .ok v → (callFn W D fuel 0 i f arg σ).2.closedOf i = some c →
      (apiCall W D fuel i f arg σ).1 = .error (.exit c)) := by
  unfold apiCall
  rcases callFn W D fuel 0 i f arg σ with ⟨r, s⟩
  cases r with
  | error e => simp [closedCheck]
  | ok v =>
    simp only [closedCheck]
    cases h : s.closedOf i with
    | none => simp [h]
    | some c => simp

/-- Finding F25 (witness): the call-depth ceiling `D` is per API call; a guest function that calls a
re-entrant host function which calls the same guest function again restarts at depth 0 every time.
In the reference semantics this recursion is stopped by NOTHING but the model's fuel, for every fuel
and every ceiling: the stack-overflow error is never produced.  On the real engines the Go stack
limit ends the process (reproduced by the harness in a child process). -/
theorem reentrant_recursion_unbounded_witness (D fuel arg : Nat) (σ : State) (hD : 2 ≤ D) :
    callFn [[[(.always, .host (.reenter 0 0 false) .x)]]] D fuel 0 0 0 arg σ = (.error .outOfFuel, σ) := by
  induction fuel with
  | zero => rfl
  | succ n ih =>
    have h1 : ¬ D ≤ 0 := by omega
    have h2 : ¬ D ≤ 0 + 1 := by omega
    simp only [callFn, h1, h2, if_false, World.getFunc, List.getElem?_cons_zero, execBody, Guard.holds, if_true,
      evalArg, hostStep, ih, closedCheck, Bool.false_eq_true]

/-! ## (3) the call engines as state machines -/

open Wz.C06.CE

/-- `growstack_terminates_below_ceiling`, for EVERY starting length and EVERY frame size (as the code
is): each `growStack()` strictly lengthens the stack; no stack ever exceeds `2·ceiling + required + 16`;
and unbounded recursion ends — within the fuel of the model, from every state satisfying the stack
invariant — in `ErrRuntimeStackOverflow`, never anything else. -/
theorem growstack_terminates_below_ceiling (len req : Nat) :
    (∀ n, growLen false len req = some n → len < n ∧ n ≤ 2 * callStackCeiling + req + 16) ∧
    (callStackCeiling < len → growLen false len req = none) ∧
    (∀ alloc ce, J ce → ∃ ce', satisfy false alloc growFuel ce none req = .error (.overflow, ce')) ∧
    (∀ alloc ce bytes, J ce →
      (∃ ce', satisfy false alloc growFuel ce bytes req = .ok ce') ∨
        (∃ ce', satisfy false alloc growFuel ce bytes req = .error (.overflow, ce'))) := by
  refine ⟨fun n h => ⟨growLen_increases _ _ _ _ h, growLen_le _ _ _ h⟩, ?_, ?_, ?_⟩
  · intro h; rw [growLen_asis, if_pos h]
  · intro alloc ce hJ
    obtain ⟨c, h, _⟩ := satisfy_unbounded alloc ce req hJ
    exact ⟨c, h⟩
  · intro alloc ce bytes hJ
    rcases satisfy_total alloc ce bytes req hJ with ⟨ce', h, _⟩ | ⟨ce', h, _⟩
    · exact Or.inl ⟨ce', h⟩
    · exact Or.inr ⟨ce', h⟩

theorem inv_J (ce : CE) (h : Inv ce) : J ce := by
  unfold Wz.Model.CallEngine.Inv at h; unfold J; omega

/-- A new function object satisfies the invariant (for every allocator and function type). -/
theorem fresh_inv (alloc : Nat → Nat) (n : Nat) : Wz.Model.CallEngine.Inv (CE.fresh alloc n) := by
  have hl : 10240 ≤ requiredInitialStackSize n := by
    unfold requiredInitialStackSize initialStackSizeDefault
    simp only
    split <;> omega
  unfold Wz.Model.CallEngine.Inv CE.fresh alignedStackTop
  generalize requiredInitialStackSize n = l at hl
  refine ⟨rfl, ?_, ?_, ?_, ?_, ?_, ?_⟩ <;> simp only <;> omega

/-- `callengine_inv_preserved`: `Inv` (exit code OK ∧ stack top 16-byte aligned, inside the stack and
within 16 bytes of its end ∧ stack at least the required initial size) holds after EVERY outcome of
EVERY call: for all native behaviours (any sequence of exits with any codes, stack demands, host
functions that return, panic with any value, close the module), all allocators, closed or open module. -/
theorem callengine_inv_preserved (alloc : Nat → Nat) (ce : CE) (closed : Option Nat) (evs : List Ev)
    (hinv : Inv ce) (hn : NonOK evs) : Inv (call false alloc ce closed evs).ce := by
  have hJ := inv_J ce hinv
  have h0 : ce.exitCode = 0 := hinv.1
  have hal : (entryChecksAlignment && ce.top % 16 != 0) = false := by
    have := hinv.2.1
    simp [this]
  unfold call
  rw [hal]
  simp only [Bool.false_eq_true, if_false]
  obtain ⟨hJ', hret, hex⟩ := loop_spec alloc evs ce closed hJ h0 hn
  generalize loop false alloc evs ce closed = r at hJ' hret hex
  have hreset : deferResetsExitCodeOnError = true := rfl
  have hwrap : deferWrapsRecovered = true := rfl
  have hfc : deferFailIfClosedUnlessOverflow = true := rfl
  unfold J at hJ'
  cases hr : r.recovered with
  | some e =>
    simp only [deferred, hr, hreset, hwrap, hfc, if_true, Option.isSome_some, Bool.and_true]
    exact ⟨rfl, hJ'⟩
  | none =>
    rcases hret with h | h
    · cases hc : r.closed with
      | none =>
        have := hex hr h
        simp only [deferred, hr, h, hc, hreset, hwrap, hfc]
        exact ⟨this, hJ'⟩
      | some c =>
        simp only [deferred, hr, h, hc, hreset, hwrap, hfc]
        exact ⟨rfl, hJ'⟩
    · simp only [deferred, hr, h, hreset, hwrap, hfc]
      exact ⟨rfl, hJ'⟩

/-- non-vacuity: a fresh engine meets `Inv`, and an event list with traps, host panics and stack
demands meets `NonOK`. -/
example : Inv (CE.fresh (fun _ => 4096) 3) ∧
    NonOK [.need (some 100000) 64, .exit 6 {}, .exit 0x105 { panics := some (.str 1) }, .exit 3 {}] := by
  refine ⟨fresh_inv _ _, ?_⟩
  intro code host hm
  simp at hm
  rcases hm with ⟨h, _⟩ | ⟨h, _⟩ | ⟨h, _⟩ <;> subst h <;> decide

/-- `next_call_independent_partial`.  Full statement wanted: `Inv ce → call ce σ evs = call fresh σ evs`
(the result of a call depends on the instance state only).  Proved: for any two engines satisfying
`Inv` (in particular a used one and a fresh one) the error returned and the module's closed state
agree, for every native behaviour whose BOUNDED stack demands fit below the ceiling (unbounded
recursion allowed: it overflows on both).  Missing — and false for the code as it is, see
`stack_history_dependence_witness` (finding F24): demands between the ceiling and twice the ceiling. -/
theorem next_call_independent_partial (a₁ a₂ : Nat → Nat) (ce₁ ce₂ : CE) (closed : Option Nat) (evs : List Ev)
    (h₁ : Inv ce₁) (h₂ : Inv ce₂) (hn : NonOK evs) (hg : NoRawGrow evs) (hs : Small evs) :
    (call false a₁ ce₁ closed evs).err = (call false a₂ ce₂ closed evs).err ∧
    (call false a₁ ce₁ closed evs).closed = (call false a₂ ce₂ closed evs).closed := by
  have e₁ : (entryChecksAlignment && ce₁.top % 16 != 0) = false := by have := h₁.2.1; simp [this]
  have e₂ : (entryChecksAlignment && ce₂.top % 16 != 0) = false := by have := h₂.2.1; simp [this]
  have ho := loop_indep a₁ a₂ evs ce₁ ce₂ closed (inv_J _ h₁) (inv_J _ h₂) h₁.1 h₂.1 hn hg hs
  unfold call
  rw [e₁, e₂]
  simp only [Bool.false_eq_true, if_false]
  generalize loop false a₁ evs ce₁ closed = r₁ at ho
  generalize loop false a₂ evs ce₂ closed = r₂ at ho
  unfold obs at ho
  simp only [Prod.mk.injEq] at ho
  unfold deferred
  simp only [ho.1, ho.2.1, ho.2.2, and_self]

/-- non-vacuity for the hypotheses of `next_call_independent_partial`. -/
example : NoRawGrow [.need (some 100000) 64, .exit 6 {}, .need none 1696] ∧
    Small [.need (some 100000) 64, .exit 6 {}, .need none 1696] := by
  constructor
  · intro code host hm; simp at hm; rcases hm with ⟨h, _⟩; subst h; decide
  · intro b req hm; simp at hm; rcases hm with ⟨h, _⟩; subst h; decide

/-- Finding F24 (witness; frame sizes and depths as reproduced on the real compiler by the harness):
a function object whose previous call overflowed with 48-byte frames keeps an 84 410 304-byte stack;
a following call that needs 89 888 000 bytes with 1696-byte frames overflows on it, while the same
call on a fresh function object (whose doubling sequence reaches 97 909 072 bytes) succeeds.
So `∀ ce, Inv ce → call ce = call fresh` is FALSE for the code as it is. -/
theorem stack_history_dependence_witness :
    let a : Nat → Nat := fun _ => 65536
    let fresh := CE.fresh a 2
    let used := (call false a fresh none [.need none 48]).ce
    Inv fresh ∧ Inv used ∧ used.len = 84410304 ∧
    (call false a fresh none [.need none 48]).err = some .overflow ∧
    (call false a used none [.need (some 89888000) 1696]).err = some .overflow ∧
    (call false a fresh none [.need (some 89888000) 1696]).err = none ∧
    (call false a fresh none [.need (some 89888000) 1696]).ce.len = 97909072 := by
  decide

/-- `interp_inv_preserved`: after a call of the interpreter's call engine that panicked — trap, stack
overflow at any depth, host panic, exit — there are no frames and no values left (`recoverOnCall`),
whatever was on the stacks; after a call that returned, the same holds when pushes and pops were
balanced (guaranteed by validation; assumed here). -/
theorem interp_inv_preserved (ceiling : Nat) (ce : ICE) (closed : Option Nat) (evs : List IEv) :
    ((irun ceiling evs ce).1 ≠ none → IInv (icall ceiling ce closed evs).2) ∧
    ((irun ceiling evs ce).1 ≠ none → (icall ceiling ce closed evs).1 = (irun ceiling evs ce).1) := by
  unfold icall
  rcases irun ceiling evs ce with ⟨r, ce'⟩
  cases r with
  | none => simp
  | some e =>
    have h1 : interpDeferRecovers = true := rfl
    have h2 : interpRecoverTruncates = true := rfl
    simp [h1, h2, IInv]

/-- The interpreter's frame ceiling: the push that would make the `ceiling+1`-th frame panics with
stack overflow, every earlier one succeeds (regenerated test `callStackCeiling <= len(ce.frames)`). -/
theorem interp_ceiling_exact (frames : Nat) :
    interpPushOverflows interpCallStackCeiling frames = true ↔ 2000 ≤ frames := by
  unfold interpPushOverflows interpCallStackCeiling
  exact decide_eq_true_iff


/-! ### the context watcher of a call (WithCloseOnContextDone) ends with the call, whatever the outcome -/

/-- outcome of the guarded region of a call -/
inductive CallEnd where
  | returned | panicked
deriving DecidableEq, Repr

/-- does the cleanup run? `deferred` = it was registered with `defer` before the region -/
def cleanupRuns (deferred : Bool) : CallEnd → Bool
  | .returned => true
  | .panicked => deferred

/-- With `defer` the watcher is stopped on every outcome; without it a trap, host panic, stack overflow or exit
(all of which unwind by panicking) leaves it running - it then closes the module when the caller later cancels
the context, although no call is in flight (the shape of a seeded change). -/
theorem deferred_cleanup_runs_on_every_outcome :
    (∀ e, cleanupRuns true e = true) ∧ cleanupRuns false .panicked = false := by
  constructor
  · intro e; cases e <;> rfl
  · rfl

/-- **Regenerated obligation**: in both engines the stop function returned by
`CloseModuleOnCanceledOrTimeout` is deferred immediately after it is obtained. -/
theorem context_watcher_stopped_on_every_outcome :
    Wz.Gen.Cleanup.watchers = [("interpreter.go", "call", true), ("call_engine.go", "callWithStack", true)] := by decide


/-- **Regenerated obligation** (wasm/store_module_list.go): `deleteModule` moves the head of the module list only
when the deleted instance IS the head.  An instance that was never registered (start function exited, duplicate
name) also passes through `deleteModule`; with the textbook unlinking (`prev == nil` ⇒ head := next) it would
empty the list, and `Runtime.Close` would then close nothing (a seeded change did that). -/
theorem delete_moves_head_only_for_the_head :
    Wz.Gen.Shapes.get "c06.delete_head" = some "s.moduleList == m" := by decide

end Wz.C06
