import Wz.Gen.ReadFS

/-!
# C16 companion: every WASI open flag reaches the host flag word on its own

`path_open` hands `openFlags(dirflags, oflags, fdflags, rights)` to the file system.  The reference model of C16 gives
each flag its meaning independently of the others (truncate truncates whether or not the descriptor is opened for
appending).  The definition below the theorems is REGENERATED from `imports/wasi_snapshot_preview1/fs.go` on every
run (`Wz.Gen.ReadFS.openFlags`, statement by statement): for ALL 2^80 argument tuples the host bit of a flag is set
exactly when the guest asked for that flag - whatever the other flags, lookup flags and rights are.  (`O_EXCL` is the
one documented exception: `O_DIRECTORY` takes precedence over it.)  Seeded change C16-6 - `O_TRUNC` dropped when
`FD_APPEND` is set - makes `openFlags_truncate_iff_requested` false; the open-flag grid of hc16 supplies the failing
history.
-/

namespace Wz.C16

open Wz.Gen.ReadFS

/-- is host flag bit `m` set in the word `w` -/
def has (w m : BitVec 32) : Bool := (w &&& m) != 0#32

/-- the nine independent flags at once (one case analysis over the conditions of the regenerated definition) -/
theorem openFlags_faithful (d o f : BitVec 16) (r : BitVec 32) :
    has (openFlags d o f r) O_TRUNC = ((o &&& WASI_O_TRUNC) != 0#16) ∧
    has (openFlags d o f r) O_CREAT = ((o &&& WASI_O_CREAT) != 0#16) ∧
    has (openFlags d o f r) O_DIRECTORY = ((o &&& WASI_O_DIRECTORY) != 0#16) ∧
    has (openFlags d o f r) O_EXCL = (((o &&& WASI_O_EXCL) != 0#16) && !((o &&& WASI_O_DIRECTORY) != 0#16)) ∧
    has (openFlags d o f r) O_APPEND = ((f &&& WASI_FD_APPEND) != 0#16) ∧
    has (openFlags d o f r) O_DSYNC = ((f &&& WASI_FD_DSYNC) != 0#16) ∧
    has (openFlags d o f r) O_NONBLOCK = ((f &&& WASI_FD_NONBLOCK) != 0#16) ∧
    has (openFlags d o f r) O_RSYNC = ((f &&& WASI_FD_RSYNC) != 0#16) ∧
    has (openFlags d o f r) O_SYNC = ((f &&& WASI_FD_SYNC) != 0#16) ∧
    has (openFlags d o f r) O_NOFOLLOW = ((d &&& WASI_LOOKUP_SYMLINK_FOLLOW) == 0#16) := by
  unfold has openFlags O_TRUNC O_CREAT O_DIRECTORY O_EXCL O_APPEND O_DSYNC O_NONBLOCK O_RSYNC O_SYNC O_NOFOLLOW
    WASI_O_TRUNC WASI_O_CREAT WASI_O_DIRECTORY WASI_O_EXCL WASI_FD_APPEND WASI_FD_DSYNC WASI_FD_NONBLOCK WASI_FD_RSYNC
    WASI_FD_SYNC WASI_LOOKUP_SYMLINK_FOLLOW
  generalize (d &&& 1#16 == 0#16) = b1
  generalize (o &&& 2#16 != 0#16) = b2
  generalize (o &&& 4#16 != 0#16) = b3
  generalize (o &&& 8#16 != 0#16) = b4
  generalize (o &&& 1#16 != 0#16) = b5
  generalize (f &&& 4#16 != 0#16) = b6
  generalize (f &&& 1#16 != 0#16) = b7
  generalize (f &&& 2#16 != 0#16) = b8
  generalize (f &&& 8#16 != 0#16) = b9
  generalize (f &&& 16#16 != 0#16) = b10
  generalize (r &&& 66#32 == 66#32) = c1
  generalize (r &&& 64#32 == 64#32) = c2
  generalize (r &&& 2#32 == 2#32) = c3
  revert b1 b2 b3 b4 b5 b6 b7 b8 b9 b10 c1 c2 c3
  decide +kernel

/-- **truncation is requested ⇔ it reaches the host**, whatever else is asked for (FD_APPEND included) -/
theorem openFlags_truncate_iff_requested (d o f : BitVec 16) (r : BitVec 32) :
    has (openFlags d o f r) O_TRUNC = ((o &&& WASI_O_TRUNC) != 0#16) :=
  (openFlags_faithful d o f r).1

/-- non-vacuity, the combination of seeded change C16-6: truncate + append + write -/
example : has (openFlags 1#16 WASI_O_TRUNC WASI_FD_APPEND WASI_RIGHT_FD_WRITE) O_TRUNC = true ∧
    has (openFlags 1#16 WASI_O_TRUNC WASI_FD_APPEND WASI_RIGHT_FD_WRITE) O_APPEND = true := by decide

end Wz.C16
