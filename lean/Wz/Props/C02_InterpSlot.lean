import Wz.Gen.Shapes

/-!
# C02 companion: an i32 on the interpreter's stack is a zero-extended 64-bit slot

The interpreter computes an effective address as `offset := op.U2 + ce.popValue()` in 64 bits and traps when the sum
exceeds `MaxUint32` (`popMemoryOffset`).  That is the specification's `i + offset` exactly when the popped slot is the
zero-extended i32: `effective_address_exact` (for every static offset and every 32-bit address the 64-bit sum does not
wrap and equals the sum over the naturals).  A SIGN-extended slot breaks it: `sign_extended_slot_wraps_witness` - with
the slot of a failed `memory.grow` pushed as `uint64(int32(-1))` and static offset 16 the sum wraps to 15, passes the
test, and the access succeeds at address 15 instead of trapping (seeded change C02-9).  What `memory.grow` pushes and
how the offset is added are a regenerated shape.
-/

namespace Wz.C02

/-- `op.U2 + ce.popValue()` -/
def interpEA (staticOff : BitVec 64) (slot : BitVec 64) : BitVec 64 := staticOff + slot

theorem effective_address_exact (off addr : BitVec 32) :
    (interpEA (off.zeroExtend 64) (addr.zeroExtend 64)).toNat = off.toNat + addr.toNat := by
  have h1 := off.isLt
  have h2 := addr.isLt
  simp only [interpEA, BitVec.toNat_add, BitVec.toNat_setWidth]
  omega

/-- the trap test `offset > MaxUint32` is the specification's `i + offset ≥ 2^32` -/
theorem trap_test_exact (off addr : BitVec 32) :
    ((interpEA (off.zeroExtend 64) (addr.zeroExtend 64)).toNat > 0xffffffff) ↔ (off.toNat + addr.toNat ≥ 2 ^ 32) := by
  rw [effective_address_exact]
  omega

/-- a sign-extended -1 in the slot: the sum wraps, the test passes, the access goes to offset - 1 -/
theorem sign_extended_slot_wraps_witness :
    (interpEA 16#64 ((0xffffffff#32).signExtend 64)).toNat = 15 ∧
    ¬ ((interpEA 16#64 ((0xffffffff#32).signExtend 64)).toNat > 0xffffffff) ∧
    (16 + (0xffffffff#32).toNat ≥ 2 ^ 32) := by decide

set_option maxRecDepth 8192 in
theorem interp_grow_pushes_zero_extended :
    Wz.Gen.Shapes.get "c02.interp_grow_slot" =
      some "ce.pushValue(uint64(0xffffffff)) | ce.pushValue(uint64(res)) ;; offset := op.U2 + ce.popValue() ; if offset > math.MaxUint32 ; return uint32(offset)" := by
  decide

end Wz.C02
