import Wz.Gen.Shapes

/-!
# C02 companion: an i32 produced by truncation is zero-extended in its register

The amd64 address-mode lowering folds a single-use `UExtend` of a 32-bit value into the addressing mode by using the
32-bit value's REGISTER as the 64-bit index (`lowerAddendFromInstr`).  That is sound exactly when every producer of an
i32 leaves the upper half of its 64-bit register zero.  32-bit ALU instructions do so architecturally; `i32.wrap_i64`
(`Ireduce`) has to do it explicitly with `movzx.lq` (`mov r32, r32`).  `movzx_index_exact`: with the zero-extending move
the folded address is base + the 32-bit value, for every 64-bit source; `plain_move_escapes_witness`: with a plain 64-bit
move the folded address is 4 GiB beyond the addressed byte for source 0x1_0000_0005 (seeded change C02-8).  The
instruction the lowering emits is a regenerated shape.
-/

namespace Wz.C02

/-- `movzx.lq src, dst`: the low half, zero-extended -/
def movzxLQ (src : BitVec 64) : BitVec 64 := (src.truncate 32).zeroExtend 64

/-- the folded address mode: base + index register (64-bit arithmetic) + displacement -/
def folded (base index : BitVec 64) (disp : BitVec 64) : BitVec 64 := base + index + disp

/-- what WebAssembly asks for: base + zero-extended 32-bit address + displacement -/
def wanted (base : BitVec 64) (addr32 : BitVec 32) (disp : BitVec 64) : BitVec 64 := base + addr32.zeroExtend 64 + disp

theorem movzx_clean (src : BitVec 64) : (movzxLQ src).toNat < 2 ^ 32 := by
  simp only [movzxLQ, BitVec.truncate, BitVec.toNat_setWidth]
  omega

/-- with `movzx.lq` the folded address is the wanted one for EVERY 64-bit source value -/
theorem movzx_index_exact (base src disp : BitVec 64) :
    folded base (movzxLQ src) disp = wanted base (src.truncate 32) disp := rfl

/-- a plain 64-bit move leaves the upper half: the access goes 4 GiB beyond the addressed byte -/
theorem plain_move_escapes_witness :
    folded 0x10000#64 0x100000005#64 0#64 ≠ wanted 0x10000#64 ((0x100000005#64).truncate 32) 0#64 ∧
    (folded 0x10000#64 0x100000005#64 0#64).toNat = (wanted 0x10000#64 ((0x100000005#64).truncate 32) 0#64).toNat + 2 ^ 32 := by
  decide

theorem ireduce_emits_movzx_lq :
    Wz.Gen.Shapes.get "c02.ireduce_amd64" =
      some "panic(\"TODO?: Ireduce to non-i32\") | m.insert(m.allocateInstr().asMovzxRmR(extModeLQ, rn, rd))" := by
  decide

end Wz.C02
