import Wz.Gen.Shapes

/-!
# C10 companion: releasing an instance's resources is idempotent

`ModuleInstance.ensureResourcesClosed` is not guarded against repetition: for an instance closed because the context
of a call in flight was done (`closeWithExitCodeWithoutClosingResource`) it is called by `FailIfClosed` on every
later look at the closed flag.  "Fires its close notification exactly once, releases the resources once" then rests
on one rule: every resource the function releases is detached (set to nil) in the branch that released it.

Model: a resource is present or not; its branch clears it or not.  One run releases (one event per) every present
resource and detaches those whose branch clears.  With the rule, every run after the first is silent
(`release_runs_after_the_first_are_silent`, all resource lists, any number of runs); without it a resource is released
again (`release_without_clearing_fires_again_witness`).  The rule itself is a regenerated shape of the source
(`release_clears_every_resource_it_releases`): per `X != nil` test of the function, the field its body sets to nil.
-/

namespace Wz.C10

structure Res where
  name : String
  present : Bool
  clears : Bool
  deriving DecidableEq, Repr

/-- one run of `ensureResourcesClosed`: (resources afterwards, release events of this run) -/
def releaseOnce (rs : List Res) : List Res × List String :=
  (rs.map fun r => if r.present && r.clears then { r with present := false } else r,
   (rs.filter (·.present)).map (·.name))

/-- the events of `n` consecutive runs, run by run -/
def releaseRuns : Nat → List Res → List (List String)
  | 0, _ => []
  | n + 1, rs => (releaseOnce rs).2 :: releaseRuns n (releaseOnce rs).1

theorem releaseOnce_clears_all (rs : List Res) (h : ∀ r ∈ rs, r.clears = true) :
    ∀ r ∈ (releaseOnce rs).1, r.present = false ∧ r.clears = true := by
  intro r hr
  simp only [releaseOnce, List.mem_map] at hr
  obtain ⟨q, hq, rfl⟩ := hr
  have hc := h q hq
  cases hp : q.present <;> simp [hp, hc]

theorem releaseOnce_silent_of_absent (rs : List Res) (h : ∀ r ∈ rs, r.present = false) :
    (releaseOnce rs).2 = [] ∧ (releaseOnce rs).1 = rs := by
  constructor
  · simp only [releaseOnce, List.map_eq_nil_iff, List.filter_eq_nil_iff]
    intro r hr; simp [h r hr]
  · simp only [releaseOnce]
    conv => rhs; rw [← List.map_id rs]
    apply List.map_congr_left
    intro r hr; simp [h r hr]

/-- **the second run is silent** when every branch clears what it releases -/
theorem release_second_run_silent (rs : List Res) (h : ∀ r ∈ rs, r.clears = true) :
    (releaseOnce (releaseOnce rs).1).2 = [] :=
  (releaseOnce_silent_of_absent _ (fun r hr => (releaseOnce_clears_all rs h r hr).1)).1

theorem releaseRuns_silent_of_absent (n : Nat) (rs : List Res) (h : ∀ r ∈ rs, r.present = false) :
    ∀ ev ∈ releaseRuns n rs, ev = [] := by
  induction n with
  | zero => intro ev hev; simp [releaseRuns] at hev
  | succ n ih =>
    intro ev hev
    have hs := releaseOnce_silent_of_absent rs h
    simp only [releaseRuns, List.mem_cons] at hev
    rcases hev with rfl | hev
    · exact hs.1
    · rw [hs.2] at hev; exact ih ev hev

/-- **exactly once, for any number of runs**: with the rule, all events of `n+1` runs are those of the first run -/
theorem release_runs_after_the_first_are_silent (n : Nat) (rs : List Res) (h : ∀ r ∈ rs, r.clears = true) :
    ∀ ev ∈ (releaseRuns (n + 1) rs).tail, ev = [] := by
  simp only [releaseRuns, List.tail_cons]
  exact releaseRuns_silent_of_absent n _ (fun r hr => (releaseOnce_clears_all rs h r hr).1)

/-- without the rule a resource is released again (the close notifier of seeded change C10-6) -/
theorem release_without_clearing_fires_again_witness :
    (releaseOnce (releaseOnce [⟨"CloseNotifier", true, false⟩, ⟨"Sys", true, true⟩]).1).2 = ["CloseNotifier"] := by
  decide

/-- non-vacuity: the instance as instantiated (all four resources present, all branches clearing) releases each once -/
example : releaseRuns 3 [⟨"CloseNotifier", true, true⟩, ⟨"Sys", true, true⟩, ⟨"expBuffer", true, true⟩, ⟨"CodeCloser", true, true⟩]
    = [["CloseNotifier", "Sys", "expBuffer", "CodeCloser"], [], []] := by decide

set_option maxRecDepth 8192 in
/-- the rule on the source, regenerated: every `X != nil` branch of `ensureResourcesClosed` that releases something
sets that field to nil (`mem != nil` only guards the nested test of the memory's buffer) -/
theorem release_clears_every_resource_it_releases :
    Wz.Gen.Shapes.get "c10.release_clears" =
      some "closeNotifier != nil => m.CloseNotifier ;; sysCtx != nil => m.Sys ;; mem != nil => - ;; mem.expBuffer != nil => mem.expBuffer ;; m.CodeCloser != nil => m.CodeCloser" := by
  decide

end Wz.C10
