import Wz.Gen.Shapes

/-!
# C04 companion: the type of a re-exported imported function

When an export of the exporter is itself an imported function, the linker matches an import against
`typeOfFunction(k)`: the type of the `k`-th FUNCTION import of the exporter, whose import section mixes functions with
globals, memories and tables.  Model: the import section as a list of (is it a function?, type index); `scan` is the
loop of `typeOfFunction` (skip non-functions, compare the running function index, increment).  Started at the head
with counter 0 it returns exactly the `k`-th element of the list of function imports, for every import section and
every `k` (`scan_is_kth_function_import`, by the general statement for any counter value).  Starting it at position `k`
with the counter preset to `k` - seeded change C04-7 - returns a later function's type as soon as a non-function
import precedes (witness).  The loop's shape on the source is regenerated.
-/

namespace Wz.C04

/-- the loop of `typeOfFunction` over (isFunc, typeIdx), with running function index `cur`, looking for `k` -/
def scan : List (Bool × Nat) → Nat → Nat → Option Nat
  | [], _, _ => none
  | (false, _) :: r, cur, k => scan r cur k
  | (true, t) :: r, cur, k => if k = cur then some t else scan r (cur + 1) k

/-- the types of the function imports, in order: index space of imported functions -/
def funcImports (imps : List (Bool × Nat)) : List Nat := (imps.filter (·.1)).map (·.2)

theorem scan_general (imps : List (Bool × Nat)) (cur k : Nat) (h : cur ≤ k) :
    scan imps cur k = (funcImports imps)[k - cur]? := by
  induction imps generalizing cur with
  | nil => simp [scan, funcImports]
  | cons x r ih =>
    obtain ⟨b, t⟩ := x
    cases b with
    | false => simpa [scan, funcImports] using ih cur h
    | true =>
      by_cases hk : k = cur
      · subst hk; simp [scan, funcImports]
      · have h' : cur + 1 ≤ k := by omega
        have e : k - cur = (k - (cur + 1)) + 1 := by omega
        simp only [scan, hk, if_false, funcImports, List.filter_cons_of_pos, List.map_cons]
        rw [e, List.getElem?_cons_succ]
        exact ih (cur + 1) h'

/-- **the scan from the head returns the k-th function import**, whatever else is imported in between -/
theorem scan_is_kth_function_import (imps : List (Bool × Nat)) (k : Nat) :
    scan imps 0 k = (funcImports imps)[k]? := by
  simpa using scan_general imps 0 k (Nat.zero_le k)

/-- the skip-ahead variant: start at position k with the counter preset to k.  Imports (func t0, GLOBAL, func t1,
func t2), k = 1: the right answer is t1, the variant answers t2 -/
theorem skip_ahead_witness :
    let imps := [(true, 10), (false, 99), (true, 11), (true, 12)]
    scan imps 0 1 = some 11 ∧ scan (imps.drop 1) 1 1 = some 11 ∧
    scan imps 0 2 = some 12 ∧ scan (imps.drop 2) 2 2 = some 11 := by decide

/-- non-vacuity: functions interleaved with a global, a memory and a table -/
example : scan [(false, 0), (true, 7), (false, 0), (false, 0), (true, 8), (true, 9)] 0 2 = some 9 := by decide

set_option maxRecDepth 8192 in
/-- the loop on the source, regenerated: counter from 0, over the whole import section, non-functions skipped -/
theorem type_of_import_scans_from_the_head :
    Wz.Gen.Shapes.get "c04.type_of_import" =
      some "cur := Index(0) ;; for i := range m.ImportSection ;; skip if imp.Type != ExternTypeFunc ;; hit if funcIdx == cur ;; cur++" := by
  decide

end Wz.C04
