import Wz.Gen.Shapes

/-!
# C14 companion: memory.size is computed from the page count

`api.Memory.Size()` is a 32-bit BYTE count that wraps to 0 at 65536 pages (known finding F14); `Pages()` is exact.
`memory.size` has to use the latter: `pages_from_byte_count_wraps_witness` shows the byte-count detour returning 0 for a
4 GiB memory (seeded change C14-7).  What the interpreter's `memory.size` pushes is a regenerated shape.
-/

namespace Wz.C14

/-- the detour through the 32-bit byte count -/
def pagesViaSize32 (pages : Nat) : Nat := (pages * 65536 % 2 ^ 32) / 65536

theorem pages_via_size32_exact_below_4GiB (pages : Nat) (h : pages < 65536) : pagesViaSize32 pages = pages := by
  unfold pagesViaSize32
  have : pages * 65536 < 2 ^ 32 := by omega
  rw [Nat.mod_eq_of_lt this]
  omega

theorem pages_from_byte_count_wraps_witness : pagesViaSize32 65536 = 0 := by decide

theorem interp_memory_size_pushes_the_page_count :
    Wz.Gen.Shapes.get "c14.interp_memory_size" = some "ce.pushValue(uint64(memoryInst.Pages()))" := by
  decide

end Wz.C14
