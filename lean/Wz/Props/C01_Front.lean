/-
C01 (front end) — the optimizing compiler's translation of a WebAssembly function body to SSA
(`internal/engine/wazevo/frontend`: `LowerToSSA`, `lowerCurrentOpcode`; `ssa.Builder`) preserves the semantics,
for STRAIGHT-LINE integer code (one basic block).

Model: `Wz.Model.FrontendSL` (`lowerSL : Fn → SsaPass.Func` mirrors frontend.go / lower.go for the fragment; tied
to the real front end by the harness `hfront`: the model predicts the text of `ssaBuilder.Format()` line by line,
value ids included; see docs/C01_front.md).
Source semantics: `runSpec`, i.e. `Wz.Spec.Wasm.invoke` on the embedding of the fragment into
`Wz.Spec.Wasm.Instr` (numeric instructions by NAME through `Wz.Spec.Num.scalar`).
Target semantics: `Wz.Model.SsaPass.run`, the SSA semantics of the pass proofs (`C01_Ssa.lean`).

Proved here for EVERY function `f` of the fragment with `wellTyped f` (decidable stack typing in the style of the
validator), EVERY argument vector that fits the parameter types (`ArgsOK`), every execution-context and
module-context argument, every callee world `w` and every fuel:

* `front_refines`      — `run w (lowerSL f) (ec :: mc :: args) (fuel + 1) = ofSpec (runSpec f args n)` for every
                          reference fuel `n ≥ |body| + 3`: the same result values, or the same trap (division by zero
                          ↔ `ExitCodeIntegerDivisionByZero`, overflow ↔ `ExitCodeIntegerOverflow`), no memory
                          write, no call; and the reference run never exhausts such a fuel;
* `front_refines_spec` — the same read in the vocabulary of the specification (`ofSsa (run …) = runSpec …`);
* `front_wellFormed`   — `SsaPass.wellFormed (lowerSL f)`: what the front end produces satisfies the hypothesis of
                          the pass theorems (strict SSA: every value defined once and before its uses, typed shifts);
* `front_then_passes_refines` — composition with `ssa_passes_sound`: specification → SSA → optimised SSA
                          (`runPasses`, also with the alias table dropped, as the back end sees it).

* `front_refines_ext`  — the front end alone, for the fragment EXTENDED by `i32.extend8_s/16_s`, `i64.extend8_s/16_s`
                          (`Wz.Model.FrontendSLX`: the front end emits `SExtend x, 8->32` etc., which the SSA model of the
                          pass proofs lacks; it is wrapped, `runX`, not edited): same statement as `front_refines`;
* `front_ext_conservative` — on functions of the base fragment the extended translator, the extended reference
                          semantics and the wrapped SSA semantics are the base ones.

Fragment: i32/i64 `const`, `local.get/set/tee`, `drop`, `select`, `add sub mul and or xor shl shr_s shr_u rotl
rotr`, the ten comparisons, `eqz`, `clz ctz popcnt`, `i32.wrap_i64`, `i64.extend_i32_s/u`, `i64.extend32_s`,
the trapping `div_s div_u rem_s rem_u`, `return`, the function's `end`; parameters, locals and (any number of)
results of type i32/i64.
-/
import Wz.Proofs.C01_Front
import Wz.Proofs.C01_Front_WFLower
import Wz.Proofs.C01_FrontX
import Wz.Props.C01_Ssa

namespace Wz.C01
open Wz.Model.SsaPass Wz.Model.FrontendSL Wz.Model.FrontendSLX Wz.Proofs.Front

/-- **The front end preserves the semantics.**  For every well-typed function of the fragment, every argument
vector within the parameter types, every context arguments, callee world and fuel: the SSA function the front
end produces has the outcome of the reference semantics — the same result values, or the same trap —, writes no
memory and makes no call; the reference semantics does not run out of a fuel of `|body| + 3`. -/
theorem front_refines (f : Fn) (hwt : wellTyped f = true) (args : List Nat) (hargs : ArgsOK f args)
    (w : World) (ec mc : Nat) (fuel n : Nat) (hn : f.body.length + 3 ≤ n) :
    run w (lowerSL f) (ec :: mc :: args) (fuel + 1) = ofSpec (runSpec f args n) ∧
    runSpec f args n ≠ .exhausted :=
  ⟨(lower_refines_full f hwt args hargs w ec mc fuel n hn).1, (lower_refines_full f hwt args hargs w ec mc fuel n hn).2.2⟩

/-- the same, read from the SSA side: values ↦ values, exit code ↦ trap kind -/
theorem front_refines_spec (f : Fn) (hwt : wellTyped f = true) (args : List Nat) (hargs : ArgsOK f args)
    (w : World) (ec mc : Nat) (fuel n : Nat) (hn : f.body.length + 3 ≤ n) :
    ofSsa (run w (lowerSL f) (ec :: mc :: args) (fuel + 1)) = runSpec f args n :=
  (lower_refines_full f hwt args hargs w ec mc fuel n hn).2.1

/-- consequence: the outcome of the reference semantics does not depend on the fuel once it is `≥ |body| + 3` -/
theorem front_spec_fuel_irrelevant (f : Fn) (hwt : wellTyped f = true) (args : List Nat) (hargs : ArgsOK f args)
    (n n' : Nat) (hn : f.body.length + 3 ≤ n) (hn' : f.body.length + 3 ≤ n') :
    runSpec f args n = runSpec f args n' := by
  rw [← front_refines_spec f hwt args hargs ⟨fun _ _ _ => none⟩ 0 0 0 n hn,
    ← front_refines_spec f hwt args hargs ⟨fun _ _ _ => none⟩ 0 0 0 n' hn']

/-- **The front end produces well-formed SSA**: the hypothesis of the pass theorems (`ssa_passes_sound`) holds for
every function the front end produces from a well-typed function of the fragment. -/
theorem front_wellFormed (f : Fn) (hwt : wellTyped f = true) : wellFormed (lowerSL f) = true :=
  lower_wellFormed f hwt

/-- **Specification → SSA → optimised SSA.**  The function after the front end AND the optimisation passes
(`runPasses`: dead blocks, redundant block parameters, no-op shifts, dead code) still has the outcome of the
reference semantics; so has the function the back end sees (alias table dropped). -/
theorem front_then_passes_refines (f : Fn) (hwt : wellTyped f = true) (args : List Nat) (hargs : ArgsOK f args)
    (w : World) (ec mc : Nat) (fuel n : Nat) (hn : f.body.length + 3 ≤ n) :
    run w (runPasses (lowerSL f)) (ec :: mc :: args) (fuel + 1) = ofSpec (runSpec f args n) ∧
    run w { runPasses (lowerSL f) with alias := [] } (ec :: mc :: args) (fuel + 1) = ofSpec (runSpec f args n) := by
  have hwf := front_wellFormed f hwt
  have href := (front_refines f hwt args hargs w ec mc fuel n hn).1
  exact ⟨by rw [ssa_passes_sound w _ hwf, href], by rw [ssa_passes_sound_without_alias w _ hwf, href]⟩

/-! ### non-vacuity

`frontExample`: parameters (i32, i64), results (i32, i32), locals (i32, i64, i32):

    local.get 0; local.tee 2; i32.eqz; local.get 3; i64.const -1; i64.add; i32.wrap_i64; local.get 4; select;
    i32.const 7; i32.div_s; local.get 2; i32.const 32; i32.shl          (end)

It reads an uninitialised local of each type (one zero constant per type), materialises the zero of `eqz`, uses a
trapping division, a conversion, `select`, a shift by the width (removed by the passes), and returns two values. -/

def frontExample : Fn :=
  { params := [.i32, .i64], results := [.i32, .i32], locals := [.i32, .i64, .i32],
    body := [.localGet 0, .localTee 2, .eqz .i32, .localGet 3, .const .i64 (2 ^ 64 - 1), .bin .i64 .add, .wrap,
             .localGet 4, .select, .const .i32 7, .div .i32 .divS, .localGet 2, .const .i32 32, .bin .i32 .shl] }

/-- what the front end emits for it, as `ssaBuilder.Format()` prints it (a test of the model on one input; the
harness compares this text with the real front end's on every generated function) -/
example : format frontExample =
    ["blk0: (exec_ctx:i64, module_ctx:i64, v2:i32, v3:i64)",
     "v4:i32 = Iconst_32 0x0", "v5:i64 = Iconst_64 0x0",
     "v6:i32 = Iconst_32 0x0", "v7:i32 = Icmp eq, v2, v6",
     "v8:i64 = Iconst_64 0xffffffffffffffff", "v9:i64 = Iadd v5, v8", "v10:i32 = Ireduce v9",
     "v11:i32 = Select v4, v7, v10", "v12:i32 = Iconst_32 0x7", "v13:i32 = Sdiv v11, v12",
     "v14:i32 = Iconst_32 0x20", "v15:i32 = Ishl v2, v14", "Jump blk_ret, v13, v15"] := by decide

example : wellTyped frontExample = true := by decide
example : ArgsOK frontExample [5, 6] := by decide

/-- the theorems apply to the example, for all arguments -/
example (args : List Nat) (hargs : ArgsOK frontExample args) (w : World) (ec mc fuel : Nat) :
    run w (runPasses (lowerSL frontExample)) (ec :: mc :: args) (fuel + 1) = ofSpec (runSpec frontExample args 17) :=
  (front_then_passes_refines frontExample (by decide) args hargs w ec mc fuel 17 (by decide)).1

/-- a division by zero: `i32.const 1; local.get 0; i32.div_u` with the argument 0 traps in the specification, and
the lowered function exits with `ExitCodeIntegerDivisionByZero` (a test on one input) -/
def frontDivExample : Fn :=
  { params := [.i32], results := [.i32], locals := [], body := [.const .i32 1, .localGet 0, .div .i32 .divU] }

example : wellTyped frontDivExample = true := by decide

example (w : World) : run w (lowerSL frontDivExample) [0xec, 0x3c, 0] 1 = .trap codeDivByZero [] [] := by
  rfl

/-- an explicit `return` with dead code after it: `Return` instead of the jump to the return block, nothing
emitted for the dead code -/
def frontRetExample : Fn :=
  { params := [.i64], results := [.i64], locals := [],
    body := [.localGet 0, .cnt .i64 .popcnt, .ret, .const .i32 1, .drop] }

example : wellTyped frontRetExample = true := by decide

example : format frontRetExample =
    ["blk0: (exec_ctx:i64, module_ctx:i64, v2:i64)", "v3:i64 = Popcnt v2", "Return v3"] := by decide

/-! ### the extension by the narrow sign extensions -/

/-- **The front end preserves the semantics, extended fragment** (`i32.extend8_s`, `i32.extend16_s`, `i64.extend8_s`,
`i64.extend16_s` in addition): the wrapped SSA function `lowerX f` has the outcome of the reference semantics. -/
theorem front_refines_ext (f : FnX) (hwt : wellTypedX f = true) (args : List Nat) (hargs : ArgsOK f.sig args)
    (w : World) (ec mc : Nat) (n : Nat) (hn : f.body.length + 3 ≤ n) :
    runX w (lowerX f) (ec :: mc :: args) = ofSpec (runSpecX f args n) ∧
    ofSsa (runX w (lowerX f) (ec :: mc :: args)) = runSpecX f args n ∧
    runSpecX f args n ≠ .exhausted :=
  lowerX_refines_full f hwt args hargs w ec mc n hn

/-- **The extension is conservative**: on a (well-typed) function of the base fragment the extended translator emits
the same instructions, the extended reference semantics is the base one, and the wrapped SSA semantics of the result is
`SsaPass.run` on `lowerSL f`. -/
theorem front_ext_conservative (f : Fn) (hwt : wellTyped f = true) (w : World) (args : List Nat) (fuel n : Nat) :
    lowerX (toX f) = ⟨entryParams f, (entryInstrs f).map .base⟩ ∧
    runSpecX (toX f) args n = runSpec f args n ∧
    runX w (lowerX (toX f)) args = run w (lowerSL f) args (fuel + 1) := by
  obtain ⟨h1, h2⟩ := lowerX_base f
  have hl : lowerX (toX f) = ⟨entryParams f, (entryInstrs f).map .base⟩ := by
    cases hx : lowerX (toX f) with
    | mk ps is => rw [hx] at h1 h2; simp only at h1 h2; rw [h1, h2]
  refine ⟨hl, ?_, ?_⟩
  · have : (toX f).toModule = f.toModule := by
      simp only [FnX.toModule, Fn.toModule, toX, List.map_map]
      rfl
    simp only [runSpecX, runSpec, this]
  · rw [hl, lowerSL_eq_sb]
    exact runX_base w _ _ (lower_static f hwt).1 args fuel

/-- non-vacuity: `local.get 0; i32.extend8_s; local.get 1; i64.extend16_s` -/
def frontExtExample : FnX :=
  { params := [.i32, .i64], results := [.i32, .i64], locals := [],
    body := [.base (.localGet 0), .ext .i32 .w8, .base (.localGet 1), .ext .i64 .w16] }

example : wellTypedX frontExtExample = true := by decide

example : formatX frontExtExample =
    ["blk0: (exec_ctx:i64, module_ctx:i64, v2:i32, v3:i64)", "v4:i32 = SExtend v2, 8->32",
     "v5:i64 = SExtend v3, 16->64", "Jump blk_ret, v4, v5"] := by decide

/-- a test on one input: 0x80 ↦ 0xffffff80, 0x18000 ↦ 0xffffffffffff8000 -/
example (w : World) : runX w (lowerX frontExtExample) [0xec, 0x3c, 0x80, 0x18000] =
    .values [0xffffff80, 0xffffffffffff8000] [] [] := by rfl

end Wz.C01
