/- C01: property theorems (none yet). -/
namespace Wz.C01
end Wz.C01
