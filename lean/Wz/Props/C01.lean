/-
C01 — Compiler and interpreter agree on every valid program.  (partial; see DESIGN.md)

Proved here, all for EVERY program / operand value / history of the stated fragment:
* `interp_refines_spec_straightline` — on straight-line integer code the interpreter (its step
  functions regenerated from interpreter.go on every run) computes exactly what the specification
  computes, traps exactly when it traps, never raises a Go run-time panic, never underflows;
* `spec_name_table_agrees_*` — the instruction-name table of the reference semantics
  (`Wz.Spec.Num`, used by the oracle of the three-way differential run) denotes the same functions as
  the typed specification the theorem above is about;
* basic facts about the reference semantics `Wz.Spec.Wasm` (totality by fuel, histories are folds).
Not proved (decided by the three-way differential run only): the interpreter's control lowering,
floats, memory, calls, and everything in the compiler.
-/
import Wz.Spec.Wasm
import Wz.Proofs.C01_straight
import Wz.Gen.NopElim
import Wz.Gen.SideEffects

namespace Wz.C01
open Wz.Spec Wz.Spec.Wasm Wz.Model.InterpStraight

/-- **Straight-line refinement** (restated; proof in `Wz.Proofs.C01_straight`). -/
theorem C01_interp_straightline (p : List SInstr) (s : List SVal) (o : IOut)
    (h : expected (specRun p s) = some o) : interpRun p (s.map slot) = o :=
  interp_refines_spec_straightline p s o h

/-- consequence: on validated straight-line code the interpreter never raises a Go panic and never
pops an empty stack -/
theorem interp_no_internal_failure (p : List SInstr) (s : List SVal)
    (hv : specRun p s ≠ .error .illTyped) :
    (∀ w, interpRun p (s.map slot) ≠ .goPanic w) ∧ interpRun p (s.map slot) ≠ .underflow := by
  cases hr : specRun p s with
  | ok s' =>
    have := interp_refines_spec_straightline p s (.ok (s'.map slot)) (by simp [hr, expected])
    simp [this]
  | error e =>
    cases e with
    | trap t =>
      have := interp_refines_spec_straightline p s (.trap (trapName t)) (by simp [hr, expected])
      simp [this]
    | illTyped => exact absurd hr hv

/-- non-vacuity: a concrete program with wrap-around, a shift count ≥ width and a signed division
meets the hypothesis, and the theorem pins the interpreter's result -/
example : interpRun [.const (.i32 0xffffffff#32), .const (.i32 2#32), .bin .i32 .add,
      .const (.i32 33#32), .bin .i32 .shl, .const (.i32 0xffffffff#32), .bin .i32 .divS]
    [] = .ok [0xfffffffe#64] := by decide

example : expected (specRun [.const (.i32 0x80000000#32), .const (.i32 0xffffffff#32), .bin .i32 .divS] [])
    = some (.trap "ErrRuntimeIntegerOverflow") := by decide

/-! ### the name table of the reference semantics denotes the typed specification -/

def IBinOp.name : IBinOp → String
  | .add => "add" | .sub => "sub" | .mul => "mul" | .divS => "div_s" | .divU => "div_u"
  | .remS => "rem_s" | .remU => "rem_u" | .and => "and" | .or => "or" | .xor => "xor"
  | .shl => "shl" | .shrS => "shr_s" | .shrU => "shr_u" | .rotl => "rotl" | .rotr => "rotr"

def IRelOp.name : IRelOp → String
  | .eq => "eq" | .ne => "ne" | .ltS => "lt_s" | .ltU => "lt_u" | .gtS => "gt_s" | .gtU => "gt_u"
  | .leS => "le_s" | .leU => "le_u" | .geS => "ge_s" | .geU => "ge_u"

def resOfBin {n : Nat} (r : Except Trap (BitVec n)) : Num.Res :=
  match r with
  | .ok v => .val v.toNat
  | .error .divByZero => .trap "div0"
  | .error .overflow => .trap "overflow"

theorem bv_toNat {n : Nat} (a : BitVec n) : Num.bv n a.toNat = a := by
  simp [Num.bv]

theorem spec_name_table_agrees_bin (n : Nat) (op : IBinOp) (a b : BitVec n) :
    Num.ibin n (IBinOp.name op) a.toNat b.toNat = some (resOfBin (op.eval a b)) := by
  cases op <;> simp only [IBinOp.name, Num.ibin, bv_toNat, IBinOp.eval, resOfBin, Num.optRes]
  all_goals first
    | rfl
    | (cases Int.idivU a b <;> rfl)
    | (cases Int.iremU a b <;> rfl)
    | (cases Int.iremS a b <;> rfl)
    | skip
  · -- div_s
    by_cases h : b = 0#n
    · subst h; simp
    · have h2 : ¬ b.toNat = 0 := fun hh => h (BitVec.eq_of_toNat_eq (by simpa using hh))
      simp only [h, if_false]
      have : (b.toNat == 0) = false := by simpa using h2
      simp only [this, Bool.false_eq_true, if_false]
      cases Int.idivS a b <;> rfl

theorem spec_name_table_agrees_rel (n : Nat) (op : IRelOp) (a b : BitVec n) :
    Num.ibin n (IRelOp.name op) a.toNat b.toNat = some (.val (op.eval a b).toNat) := by
  cases op <;> simp only [IRelOp.name, Num.ibin, bv_toNat, IRelOp.eval]

/-! ### the compiler's no-op elimination pass (regenerated rule) is sound -/

/-- the regenerated rule only concerns the three shift opcodes -/
theorem nop_elim_opcodes : Wz.Gen.NopElim.opcodes = ["Ishl", "Sshr", "Ushr"] := by decide

/-- `passNopInstElimination` replaces a shift by its first operand when the constant amount `v`
satisfies the regenerated condition: for every operand and every 64-bit constant that is sound,
for i32 and i64 shifts left, right logical and right arithmetic (counts are taken modulo the width). -/
theorem nop_elim_sound32 (x : BitVec 32) (v : Nat) (h : Wz.Gen.NopElim.fires false v = true) :
    Int.ishl x (BitVec.ofNat 32 v) = x ∧ Int.ishrU x (BitVec.ofNat 32 v) = x ∧
      Int.ishrS x (BitVec.ofNat 32 v) = x := by
  have hv : v % 32 = 0 := by simpa [Wz.Gen.NopElim.fires, Wz.Gen.NopElim.mod32] using h
  have h0 : (BitVec.ofNat 32 v).toNat % 32 = 0 := by
    simp only [BitVec.toNat_ofNat]; omega
  simp [Int.ishl, Int.ishrU, Int.ishrS, hv]

theorem nop_elim_sound64 (x : BitVec 64) (v : Nat) (h : Wz.Gen.NopElim.fires true v = true) :
    Int.ishl x (BitVec.ofNat 64 v) = x ∧ Int.ishrU x (BitVec.ofNat 64 v) = x ∧
      Int.ishrS x (BitVec.ofNat 64 v) = x := by
  have hv : v % 64 = 0 := by simpa [Wz.Gen.NopElim.fires, Wz.Gen.NopElim.mod64] using h
  have h0 : (BitVec.ofNat 64 v).toNat % 64 = 0 := by
    simp only [BitVec.toNat_ofNat]; omega
  simp [Int.ishl, Int.ishrU, Int.ishrS, hv]

/-- non-vacuity, and the classic wrong modulus: a 64-bit shift by 32 is NOT a no-op -/
example : Wz.Gen.NopElim.fires true 64 = true ∧ Wz.Gen.NopElim.fires true 32 = false ∧
    Int.ishl (1#64) (BitVec.ofNat 64 32) ≠ 1#64 := by decide

/-! ### dead-code elimination never removes an instruction that can trap, write or transfer control -/

/-- SSA opcodes whose execution is observable even when their result is unused: calls, stores, traps
(`Exit…`), integer division/remainder (trap on zero / overflow), trapping float-to-int conversions,
atomics and control transfers.  `passDeadCodeEliminationOpt` keeps exactly the instructions whose entry
in `instructionSideEffects` is not `sideEffectNone`. -/
def mustKeep : List String :=
  ["Jump", "Call", "CallIndirect", "Store", "Istore8", "Istore16", "Istore32", "ExitWithCode",
   "ExitIfTrueWithCode", "Return", "Brz", "Brnz", "BrTable", "FcvtToSint", "FcvtToUint", "Sdiv", "Srem",
   "Udiv", "Urem", "AtomicRmw", "AtomicStore", "AtomicCas", "Fence", "TailCallReturnCall",
   "TailCallReturnCallIndirect"]

def classOf (op : String) : Option String :=
  (Wz.Gen.SideEffects.table.find? (·.1 == op)).map (·.2)

/-- on the regenerated table: every such opcode is registered and is not eliminable -/
theorem dce_keeps_observable_instructions :
    mustKeep.all (fun op => match classOf op with
      | some c => c != "sideEffectNone"
      | none => false) = true := by decide

/-- non-vacuity: the table does mark pure instructions as eliminable -/
example : classOf "Iadd" = some "sideEffectNone" := by decide

/-! ### the reference semantics -/

/-- with zero fuel every entry point reports `exhausted`: an answer other than `exhausted` was
computed by the rules -/
theorem zero_fuel_exhausted (m : Module) (f : Nat) (fr : Frame) (st : Store) :
    (callFunc m 0 f fr st).1 = .exhausted := by
  simp [callFunc]

theorem invoke_exhausted_of_zero (m : Module) (f : Nat) (args : List Nat) (st : Store) :
    (invoke m 0 f args st).1 = .exhausted := by
  simp [invoke, callFunc]

/-- histories are folds: one outcome per call -/
theorem runHistory_length (m : Module) (fuel : Nat) (h : List (Nat × List Nat)) (st : Store) :
    (runHistory m fuel h st).1.length = h.length := by
  induction h generalizing st with
  | nil => simp [runHistory]
  | cons c rest ih =>
    obtain ⟨f, args⟩ := c
    simp [runHistory, ih]

end Wz.C01
