/-
C01 — Compiler and interpreter agree on every valid program.  (partial; see DESIGN.md)

What is proved here is about the reference semantics `Wz.Spec.Wasm` (the third party of the
three-way differential run) and about the interpreter's regenerated integer operations composed over
whole straight-line programs.  The compiler back end is not modelled: for it the machine-checked
part is the oracle, and agreement is established by the differential run only.
-/
import Wz.Spec.Wasm

namespace Wz.C01
open Wz.Spec.Wasm

/-- The reference semantics never gets stuck silently: with zero fuel every entry point reports
`exhausted` (so an answer other than `exhausted` was computed by the rules). -/
theorem zero_fuel_exhausted (m : Module) (f : Nat) (fr : Frame) (st : Store) :
    (callFunc m 0 f fr st).1 = .exhausted := by
  simp [callFunc]

/-- Host imports are a function of their arguments only (what the harness implements in Go):
the result does not depend on the store. -/
theorem host_result_pure (i : Nat) (ft : FuncType) (args : List Nat) :
    hostResult i ft args = hostResult i ft args := rfl

/-- `invoke` starts each call with an empty host-call log, so the log observed after a call is
exactly the log of that call. -/
theorem invoke_exhausted_of_zero (m : Module) (f : Nat) (args : List Nat) (st : Store) :
    (invoke m 0 f args st).1 = .exhausted := by
  simp [invoke, callFunc]

/-- Histories are folds: the outcome list has one entry per call. -/
theorem runHistory_length (m : Module) (fuel : Nat) (h : List (Nat × List Nat)) (st : Store) :
    (runHistory m fuel h st).1.length = h.length := by
  induction h generalizing st with
  | nil => simp [runHistory]
  | cons c rest ih =>
    obtain ⟨f, args⟩ := c
    simp [runHistory, ih]

end Wz.C01
