/-
C01 — Compiler and interpreter agree on every valid program.  (partial; see DESIGN.md)

Proved here, all for EVERY program / operand value / history of the stated fragment:
* `interp_refines_spec_straightline` — on straight-line integer code the interpreter (its step
  functions regenerated from interpreter.go on every run) computes exactly what the specification
  computes, traps exactly when it traps, never raises a Go run-time panic, never underflows;
* `spec_name_table_agrees_*` — the instruction-name table of the reference semantics
  (`Wz.Spec.Num`, used by the oracle of the three-way differential run) denotes the same functions as
  the typed specification the theorem above is about;
* basic facts about the reference semantics `Wz.Spec.Wasm` (totality by fuel, histories are folds).
Not proved (decided by the three-way differential run only): the interpreter's control lowering,
floats, memory, calls, and everything in the compiler.
-/
import Wz.Spec.Wasm
import Wz.Proofs.C01_straight
import Wz.Gen.NopElim
import Wz.Gen.SideEffects
import Wz.Gen.InstrGroups
import Wz.Proofs.C01_groups
import Wz.Model.CalleeSaved
import Wz.Gen.RegSaved
import Wz.Model.ParMove
import Wz.Proofs.C01_parmove
import Wz.Gen.BlockArgs

namespace Wz.C01
open Wz.Spec Wz.Spec.Wasm Wz.Model.InterpStraight

/-- **Straight-line refinement** (restated; proof in `Wz.Proofs.C01_straight`). -/
theorem C01_interp_straightline (p : List SInstr) (s : List SVal) (o : IOut)
    (h : expected (specRun p s) = some o) : interpRun p (s.map slot) = o :=
  interp_refines_spec_straightline p s o h

/-- consequence: on validated straight-line code the interpreter never raises a Go panic and never
pops an empty stack -/
theorem interp_no_internal_failure (p : List SInstr) (s : List SVal)
    (hv : specRun p s ≠ .error .illTyped) :
    (∀ w, interpRun p (s.map slot) ≠ .goPanic w) ∧ interpRun p (s.map slot) ≠ .underflow := by
  cases hr : specRun p s with
  | ok s' =>
    have := interp_refines_spec_straightline p s (.ok (s'.map slot)) (by simp [hr, expected])
    simp [this]
  | error e =>
    cases e with
    | trap t =>
      have := interp_refines_spec_straightline p s (.trap (trapName t)) (by simp [hr, expected])
      simp [this]
    | illTyped => exact absurd hr hv

/-- non-vacuity: a concrete program with wrap-around, a shift count ≥ width and a signed division
meets the hypothesis, and the theorem pins the interpreter's result -/
example : interpRun [.const (.i32 0xffffffff#32), .const (.i32 2#32), .bin .i32 .add,
      .const (.i32 33#32), .bin .i32 .shl, .const (.i32 0xffffffff#32), .bin .i32 .divS]
    [] = .ok [0xfffffffe#64] := by decide

example : expected (specRun [.const (.i32 0x80000000#32), .const (.i32 0xffffffff#32), .bin .i32 .divS] [])
    = some (.trap "ErrRuntimeIntegerOverflow") := by decide

/-! ### the name table of the reference semantics denotes the typed specification -/

def IBinOp.name : IBinOp → String
  | .add => "add" | .sub => "sub" | .mul => "mul" | .divS => "div_s" | .divU => "div_u"
  | .remS => "rem_s" | .remU => "rem_u" | .and => "and" | .or => "or" | .xor => "xor"
  | .shl => "shl" | .shrS => "shr_s" | .shrU => "shr_u" | .rotl => "rotl" | .rotr => "rotr"

def IRelOp.name : IRelOp → String
  | .eq => "eq" | .ne => "ne" | .ltS => "lt_s" | .ltU => "lt_u" | .gtS => "gt_s" | .gtU => "gt_u"
  | .leS => "le_s" | .leU => "le_u" | .geS => "ge_s" | .geU => "ge_u"

def resOfBin {n : Nat} (r : Except Trap (BitVec n)) : Num.Res :=
  match r with
  | .ok v => .val v.toNat
  | .error .divByZero => .trap "div0"
  | .error .overflow => .trap "overflow"

theorem bv_toNat {n : Nat} (a : BitVec n) : Num.bv n a.toNat = a := by
  simp [Num.bv]

theorem spec_name_table_agrees_bin (n : Nat) (op : IBinOp) (a b : BitVec n) :
    Num.ibin n (IBinOp.name op) a.toNat b.toNat = some (resOfBin (op.eval a b)) := by
  cases op <;> simp only [IBinOp.name, Num.ibin, bv_toNat, IBinOp.eval, resOfBin, Num.optRes]
  all_goals first
    | rfl
    | (cases Int.idivU a b <;> rfl)
    | (cases Int.iremU a b <;> rfl)
    | (cases Int.iremS a b <;> rfl)
    | skip
  · -- div_s
    by_cases h : b = 0#n
    · subst h; simp
    · have h2 : ¬ b.toNat = 0 := fun hh => h (BitVec.eq_of_toNat_eq (by simpa using hh))
      simp only [h, if_false]
      have : (b.toNat == 0) = false := by simpa using h2
      simp only [this, Bool.false_eq_true, if_false]
      cases Int.idivS a b <;> rfl

theorem spec_name_table_agrees_rel (n : Nat) (op : IRelOp) (a b : BitVec n) :
    Num.ibin n (IRelOp.name op) a.toNat b.toNat = some (.val (op.eval a b).toNat) := by
  cases op <;> simp only [IRelOp.name, Num.ibin, bv_toNat, IRelOp.eval]

/-! ### the compiler's no-op elimination pass (regenerated rule) is sound -/

/-- the regenerated rule only concerns the three shift opcodes -/
theorem nop_elim_opcodes : Wz.Gen.NopElim.opcodes = ["Ishl", "Sshr", "Ushr"] := by decide

/-- `passNopInstElimination` replaces a shift by its first operand when the constant amount `v`
satisfies the regenerated condition: for every operand and every 64-bit constant that is sound,
for i32 and i64 shifts left, right logical and right arithmetic (counts are taken modulo the width). -/
theorem nop_elim_sound32 (x : BitVec 32) (v : Nat) (h : Wz.Gen.NopElim.fires false v = true) :
    Int.ishl x (BitVec.ofNat 32 v) = x ∧ Int.ishrU x (BitVec.ofNat 32 v) = x ∧
      Int.ishrS x (BitVec.ofNat 32 v) = x := by
  have hv : v % 32 = 0 := by simpa [Wz.Gen.NopElim.fires, Wz.Gen.NopElim.mod32] using h
  have h0 : (BitVec.ofNat 32 v).toNat % 32 = 0 := by
    simp only [BitVec.toNat_ofNat]; omega
  simp [Int.ishl, Int.ishrU, Int.ishrS, hv]

theorem nop_elim_sound64 (x : BitVec 64) (v : Nat) (h : Wz.Gen.NopElim.fires true v = true) :
    Int.ishl x (BitVec.ofNat 64 v) = x ∧ Int.ishrU x (BitVec.ofNat 64 v) = x ∧
      Int.ishrS x (BitVec.ofNat 64 v) = x := by
  have hv : v % 64 = 0 := by simpa [Wz.Gen.NopElim.fires, Wz.Gen.NopElim.mod64] using h
  have h0 : (BitVec.ofNat 64 v).toNat % 64 = 0 := by
    simp only [BitVec.toNat_ofNat]; omega
  simp [Int.ishl, Int.ishrU, Int.ishrS, hv]

/-- non-vacuity, and the classic wrong modulus: a 64-bit shift by 32 is NOT a no-op -/
example : Wz.Gen.NopElim.fires true 64 = true ∧ Wz.Gen.NopElim.fires true 32 = false ∧
    Int.ishl (1#64) (BitVec.ofNat 64 32) ≠ 1#64 := by decide

/-! ### dead-code elimination never removes an instruction that can trap, write or transfer control -/

/-- SSA opcodes whose execution is observable even when their result is unused: calls, stores, traps
(`Exit…`), integer division/remainder (trap on zero / overflow), trapping float-to-int conversions,
atomics and control transfers.  `passDeadCodeEliminationOpt` keeps exactly the instructions whose entry
in `instructionSideEffects` is not `sideEffectNone`. -/
def mustKeep : List String :=
  ["Jump", "Call", "CallIndirect", "Store", "Istore8", "Istore16", "Istore32", "ExitWithCode",
   "ExitIfTrueWithCode", "Return", "Brz", "Brnz", "BrTable", "FcvtToSint", "FcvtToUint", "Sdiv", "Srem",
   "Udiv", "Urem", "AtomicRmw", "AtomicStore", "AtomicCas", "Fence", "TailCallReturnCall",
   "TailCallReturnCallIndirect"]

def classOf (op : String) : Option String :=
  (Wz.Gen.SideEffects.table.find? (·.1 == op)).map (·.2)

/-- on the regenerated table: every such opcode is registered and is not eliminable -/
theorem dce_keeps_observable_instructions :
    mustKeep.all (fun op => match classOf op with
      | some c => c != "sideEffectNone"
      | none => false) = true := by decide

/-- non-vacuity: the table does mark pure instructions as eliminable -/
example : classOf "Iadd" = some "sideEffectNone" := by decide

/-! ### instruction groups: merging a definition into its consumer never crosses a store or a call

The back ends merge a single-use definition (a load feeding a compare, a compare feeding a branch) into the
instruction that uses it when both carry the same *instruction group id*; that executes the definition at
the consumer's position.  `Wz.Model.InstrGroups` models the numbering of `passDeadCodeEliminationOpt`
(assign, then bump on a strict side effect) and a small machine with loads, pure operations, traps, stores
and calls.  Finding F39 (a load executed after a store it preceded) was a violation of the regenerated
obligation `every_late_instruction_has_a_group` below, not of the rule itself. -/

open Wz.Model.InstrGroups in
/-- **Same group ⇒ nothing with a strict side effect in between.**  For every instruction list numbered from
any start, if the instruction after the prefix `pre` and the one `mid.length + 1` positions later carry the
same group id, then neither the first nor anything between them is a store or a call. -/
theorem same_group_no_strict_between (g : Nat) (pre : List Ins) (a : Ins) (mid : List Ins) (b : Ins) (post : List Ins)
    (h : (gidsFrom g (pre ++ a :: (mid ++ b :: post)))[pre.length]? =
         (gidsFrom g (pre ++ a :: (mid ++ b :: post)))[pre.length + 1 + mid.length]?) :
    a.eff ≠ .strict ∧ ∀ i ∈ mid, i.eff ≠ .strict := by
  have h1 := gid_after_prefix g pre a (mid ++ b :: post)
  have h2 := gid_after_prefix g (pre ++ a :: mid) b post
  have e : pre ++ a :: (mid ++ b :: post) = (pre ++ a :: mid) ++ b :: post := by simp
  rw [e] at h h1
  have hl : (pre ++ a :: mid).length = pre.length + 1 + mid.length := by simp; omega
  rw [hl] at h2
  rw [h1, h2, countStrict_append] at h
  have hz : countStrict (a :: mid) = 0 := by
    have := Option.some.inj h
    omega
  have hall := countStrict_zero hz
  exact ⟨hall a (List.mem_cons_self ..), fun i hi => hall i (List.mem_cons_of_mem _ hi)⟩

open Wz.Model.InstrGroups in
/-- **Merging within a group is sound.**  A load whose group equals the group of its consumer (the head of
`rest`) can be executed at the consumer's position: for every program around it, every start state and every
memory, the two programs end in the same state (or both trap), provided the instructions in between do not
touch the loaded register (SSA: one definition, the consumer is the only use). -/
theorem fusion_within_group_sound (g d addr : Nat) (pre mid : List Ins) (c : Ins) (post : List Ins) (s : State)
    (hg : (gidsFrom g (pre ++ Ins.load d addr :: (mid ++ c :: post)))[pre.length]? =
          (gidsFrom g (pre ++ Ins.load d addr :: (mid ++ c :: post)))[pre.length + 1 + mid.length]?)
    (hi : ∀ i ∈ mid, Indep d i) :
    exec (pre ++ Ins.load d addr :: (mid ++ c :: post)) s = exec (pre ++ (mid ++ Ins.load d addr :: c :: post)) s := by
  have hns := (same_group_no_strict_between g pre (Ins.load d addr) mid c post hg).2
  rw [exec_append, exec_append]
  cases exec pre s with
  | none => rfl
  | some s1 =>
    simp only [Option.bind_some]
    exact sink_load d addr mid (c :: post) s1 (fun i hm => ⟨hns i hm, hi i hm⟩)

open Wz.Model.InstrGroups in
/-- The rule is needed: across a store (another group) sinking the load changes the result.
`r0 := mem[7]; mem[7] := r1; r2 := r0` with `r1 = 5`, `mem[7] = 3`. -/
theorem fusion_across_store_unsound_witness :
    let s0 : State := { regs := fun r => if r = 1 then 5 else 0, mem := fun a => if a = 7 then 3 else 0 }
    let use : Ins := .pure 2 (fun r => r 0)
    gidsFrom 0 [Ins.load 0 7, Ins.store 7 1, use] = [0, 0, 1] ∧
    (exec [Ins.load 0 7, Ins.store 7 1, use] s0).map (·.regs 2) = some 3 ∧
    (exec [Ins.store 7 1, Ins.load 0 7, use] s0).map (·.regs 2) = some 5 := by decide

/-- non-vacuity of `fusion_within_group_sound`: a load, a trap check on another register and the consumer are
one group -/
example : Wz.Model.InstrGroups.gidsFrom 4 [.load 0 7, .trapIf 3, .pure 2 (fun r => r 0)] = [4, 4, 4] := by decide

/-- Regenerated shape of the numbering loop: the id is assigned before the instruction is looked at, and the
counter is bumped in exactly one place, the `sideEffectStrict` case - what `gidsFrom`/`bump` model. -/
theorem numbering_matches_model :
    Wz.Gen.InstrGroups.assignFirst = true ∧ Wz.Gen.InstrGroups.bumpCases = ["sideEffectStrict"] ∧
    Wz.Gen.InstrGroups.bumpStatements = 1 := by decide

/-- Regenerated: both matchers of the back end refuse a definition from another group. -/
theorem matchers_check_group :
    Wz.Gen.InstrGroups.matchers = [("MatchInstr", true), ("MatchInstrOneOf", true)] := by decide

/-- Regenerated: every instruction a pass allocates AFTER the numbering inherits a group from an existing
instruction (F39: `splitCriticalEdge` left its replacement branch in group 0), and nothing but the two
construction-time helpers allocates instructions outside the passes. -/
theorem every_late_instruction_has_a_group :
    Wz.Gen.InstrGroups.passAllocations.all (fun a => a.2.2.2) = true ∧
    Wz.Gen.InstrGroups.builderAllocations.map (fun a => a.2.1) = ["InsertZeroValue", "InsertUndefined"] := by decide

/-- Regenerated side-effect table: what the machine calls `load` is class none, stores and calls are strict
(so they start a new group), and the trapping instructions are not strict. -/
theorem group_classes_match_model :
    classOf "Load" = some "sideEffectNone" ∧ classOf "Uload8" = some "sideEffectNone" ∧
    classOf "Store" = some "sideEffectStrict" ∧ classOf "Istore8" = some "sideEffectStrict" ∧
    classOf "Call" = some "sideEffectStrict" ∧ classOf "CallIndirect" = some "sideEffectStrict" ∧
    classOf "AtomicRmw" = some "sideEffectStrict" ∧ classOf "ExitIfTrueWithCode" = some "sideEffectStrict" ∧
    -- EVERY instruction that writes memory, calls, exits or synchronises is strict (none of them may merely "trap")
    (["Store", "Istore8", "Istore16", "Istore32", "AtomicStore", "AtomicRmw", "AtomicCas", "AtomicLoad", "Fence",
      "Call", "CallIndirect", "TailCallReturnCall", "TailCallReturnCallIndirect", "ExitWithCode", "ExitIfTrueWithCode",
      "Return", "Jump", "Brz", "Brnz", "BrTable"].all (fun o => classOf o == some "sideEffectStrict")) = true := by decide

/-! ### callee-saved registers: what the caller keeps across a call survives it -/

/-- **Every callee-saved register is preserved** by a function whose written registers are all recorded -
for any body, any register contents (model `Wz.Model.CalleeSaved`; the save set is what
`determineCalleeSavedRealRegs` computes). -/
theorem callee_saved_registers_preserved (calleeSaved recorded writes : List Nat) (w : Nat → Nat)
    (rs : Wz.Model.CalleeSaved.Regs) (hrec : ∀ r ∈ writes, r ∈ recorded) :
    ∀ r ∈ calleeSaved, Wz.Model.CalleeSaved.call (Wz.Model.CalleeSaved.savedSet recorded calleeSaved) writes w rs r = rs r :=
  Wz.Model.CalleeSaved.callee_saved_preserved calleeSaved recorded writes w rs hrec

/-- The hypothesis is needed: a scratch register (8, callee-saved) written but not recorded comes back changed
- the shape of a seeded change in `reconcileEdge`. -/
theorem unrecorded_scratch_register_witness :
    Wz.Model.CalleeSaved.call (Wz.Model.CalleeSaved.savedSet [0, 1] [8, 9]) [0, 1, 8] (fun _ => 7) (fun _ => 3) 8 = 7 ∧
    Wz.Model.CalleeSaved.call (Wz.Model.CalleeSaved.savedSet [0, 1, 8] [8, 9]) [0, 1, 8] (fun _ => 7) (fun _ => 3) 8 = 3 := by decide

/-- **Regenerated obligation** (backend/regalloc/regalloc.go): the save set is the recorded set filtered by the
callee-saved registers, and every instruction the allocator inserts that writes a real register (reload, move,
swap - including the swap's scratch register) records that register. -/
theorem every_inserted_register_write_is_recorded :
    Wz.Gen.RegSaved.savedSetShape = "a.state.allocatedRegSet | a.regInfo.CalleeSavedRegisters" ∧
    Wz.Gen.RegSaved.writes.all (fun w => w.2.2.2) = true ∧
    (Wz.Gen.RegSaved.writes.filter (fun w => w.2.1 == "SwapBefore")).length = 3 ∧
    5 ≤ Wz.Gen.RegSaved.writes.length := by decide

/-! ### block arguments are a parallel assignment -/

/-- **Sequential moves implement the parallel assignment** whenever `lowerBlockArguments`' test holds: no
destination register is a source register of any edge (earlier OR later) - for every edge list with distinct
destinations (block parameters) and every register file. -/
theorem block_arguments_sequential_moves_sound (es : List (Nat × Nat)) (ρ : Wz.Model.ParMove.Env)
    (hs : Wz.Model.ParMove.separated es = true) (hd : Wz.Model.ParMove.distinctDsts es) :
    Wz.Model.ParMove.seqMoves es ρ = Wz.Model.ParMove.parMoves es ρ :=
  Wz.Model.ParMove.seq_eq_par es ρ hs hd

/-- The test must look at ALL sources: `prev := cur; cur := new`, as edges (source, destination) `[(new, cur), (cur, prev)]`
- destination `cur` of the first edge is the source of a LATER edge; moved one after the other `prev` receives
the new value (the shape of a seeded change that tested each destination only against the sources seen so far). -/
theorem block_arguments_later_source_witness :
    let ρ : Wz.Model.ParMove.Env := fun r => [16, 5, 0].getD r 0   -- r0 = new value, r1 = cur, r2 = prev
    Wz.Model.ParMove.separated [(0, 1), (1, 2)] = false ∧
    Wz.Model.ParMove.seqMoves [(0, 1), (1, 2)] ρ 2 = 16 ∧ Wz.Model.ParMove.parMoves [(0, 1), (1, 2)] ρ 2 = 5 := by decide

/-- **The temporaries branch is sound as well**: moving every source into a fresh temporary and then every
temporary into its destination implements the parallel assignment on all registers but the temporaries - for
every edge list with distinct destinations and every list of as many distinct temporaries that are neither a
source nor a destination.  Together with the theorem above: whichever branch `lowerBlockArguments` takes, the
jump's arguments arrive as the semantics of block parameters says. -/
theorem block_arguments_via_temporaries_sound (es : List (Nat × Nat)) (temps : List Nat) (ρ : Wz.Model.ParMove.Env)
    (hl : es.length = temps.length) (hd : (es.map (·.2)).Nodup) (ht : temps.Nodup)
    (hfresh : ∀ t ∈ temps, ∀ e ∈ es, e.1 ≠ t ∧ e.2 ≠ t) :
    ∀ r, r ∉ temps → Wz.Model.ParMove.viaTemps es temps ρ r = Wz.Model.ParMove.parMoves es ρ r :=
  Wz.Model.ParMove.viaTemps_eq_par es temps ρ hl hd ht hfresh

/-- non-vacuity: the shift `[(new, cur), (cur, prev)]` through temporaries 7 and 8 -/
example : Wz.Model.ParMove.viaTemps [(0, 1), (1, 2)] [7, 8] (fun r => [16, 5, 0].getD r 0) 2 = 5 := by decide

/-- **Regenerated obligation** (backend/compiler_lower.go): `lowerBlockArguments` first marks the sources of all
edges, then - in a separate loop - tests every destination against that complete set, then emits the moves. -/
theorem block_arguments_test_sees_all_sources :
    Wz.Gen.BlockArgs.phases = ["mark", "test", "move", "move", "move"] := by decide

/-! ### the reference semantics -/

/-- with zero fuel every entry point reports `exhausted`: an answer other than `exhausted` was
computed by the rules -/
theorem zero_fuel_exhausted (m : Module) (f : Nat) (fr : Frame) (st : Store) :
    (callFunc m 0 f fr st).1 = .exhausted := by
  simp [callFunc]

theorem invoke_exhausted_of_zero (m : Module) (f : Nat) (args : List Nat) (st : Store) :
    (invoke m 0 f args st).1 = .exhausted := by
  simp [invoke, callFunc]

/-- histories are folds: one outcome per call -/
theorem runHistory_length (m : Module) (fuel : Nat) (h : List (Nat × List Nat)) (st : Store) :
    (runHistory m fuel h st).1.length = h.length := by
  induction h generalizing st with
  | nil => simp [runHistory]
  | cons c rest ih =>
    obtain ⟨f, args⟩ := c
    simp [runHistory, ih]

end Wz.C01
