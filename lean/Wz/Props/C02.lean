/- C02: property theorems (none yet). -/
namespace Wz.C02
end Wz.C02
