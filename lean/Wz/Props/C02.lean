/-
C02 — Guest memory accesses never leave the linear memory.

Property theorems.  Cores 1 and 4 (interpreter) are about definitions REGENERATED from /repo
(`Wz.Gen.InterpAddr`, `Wz.Gen.Memory`); cores 2 (front-end bounds-check elision) and 3 (amd64
address modes) are hand-written models tied to the real code by the harness (hook + end-to-end run).
-/
import Wz.Proofs.C02_Interp
import Wz.Proofs.C02_Amode
import Wz.Proofs.C02_SafeBounds
import Wz.Gen.FrontendReload
import Wz.Gen.BulkPops

namespace Wz.C02
open Wz.Gen.Memory Wz.Gen.InterpAddr Wz.Model.MemAccess

/-! ## Core 1: interpreter effective address -/

/-- FULL STRENGTH.  For every 32-bit dynamic base and static offset (including ≥ 2^31 and sums that
pass 2^32), every width below 2^63 and every memory length: the interpreter's scalar access succeeds
iff `base+off+w ≤ len` over the naturals, and then it addresses exactly `base+off`. -/
theorem interp_access_exact (base off ea : BitVec 32) (w : Nat) (len : BitVec 64) (hw : w < 2^63) :
    access base off w len = some ea ↔
      base.toNat + off.toNat + w ≤ len.toNat ∧ ea.toNat = base.toNat + off.toNat := by
  unfold access
  have hwn : (BitVec.ofNat 64 w).toNat = w := by simp [BitVec.toNat_ofNat]; omega
  cases hp : popMemoryOffset (off.setWidth 64) (base.setWidth 64) with
  | none =>
    have := (pop_none_iff base off).mp hp
    have hl := len.isLt
    constructor
    · intro h; cases h
    · intro ⟨h1, h2⟩
      have := ea.isLt
      omega
  | some ea' =>
    have ⟨h1, h2⟩ := (pop_iff base off ea').mp hp
    have hs := hasSize_iff' ea' (BitVec.ofNat 64 w) len (by omega)
    rw [hwn] at hs
    by_cases hh : hasSize ea' (BitVec.ofNat 64 w) len = true
    · simp only [hh, if_true]
      constructor
      · intro h
        injection h with h
        subst h
        exact ⟨by have := hs.mp hh; omega, h2⟩
      · intro ⟨_, h4⟩
        congr 1
        apply BitVec.eq_of_toNat_eq
        omega
    · have hh' : hasSize ea' (BitVec.ofNat 64 w) len = false := by simpa using hh
      simp only [hh', Bool.false_eq_true, if_false]
      constructor
      · intro h; cases h
      · intro ⟨h3, _⟩
        exact absurd (hs.mpr (by omega)) hh

/-- The same, against the specification function the oracle prints (memories have at most 2^32 bytes:
65536 pages). -/
theorem interp_access_spec (base off : BitVec 32) (w : Nat) (len : BitVec 64) (hw : w < 2^63)
    (hw0 : 0 < w) (hlen : len.toNat ≤ 2^32) :
    (access base off w len).map (·.toNat) = specAccess base.toNat off.toNat w len.toNat := by
  unfold specAccess
  cases h : access base off w len with
  | some ea =>
    have ⟨h1, h2⟩ := (interp_access_exact base off ea w len hw).mp h
    simp [h1, h2]
  | none =>
    by_cases hc : base.toNat + off.toNat + w ≤ len.toNat
    · exfalso
      have hl := len.isLt
      have : base.toNat + off.toNat < 2^32 ∨ 2^32 ≤ base.toNat + off.toNat := by omega
      rcases this with hlt | hge
      · have := (interp_access_exact base off (BitVec.ofNat 32 (base.toNat + off.toNat)) w len hw).mpr
          ⟨hc, by simp [BitVec.toNat_ofNat]; omega⟩
        rw [h] at this; cases this
      · omega  -- base+off ≥ 2^32 cannot satisfy the spec on a memory of at most 2^32 bytes
    · simp [hc]

/-- trapping leaves memory unchanged: the model has no state to change on `none`; what the real
code does on that path (`panic` before any write) is checked by the harness (bytes of partially
out-of-range stores are compared). -/
theorem interp_trap_is_total (base off : BitVec 32) (w : Nat) (len : BitVec 64) :
    access base off w len = none ∨ ∃ ea, access base off w len = some ea := by
  cases access base off w len <;> simp

/-- non-vacuity: an access ending exactly at the end of a 65536-page memory succeeds; one byte
further traps; a sum that passes 2^32 traps. (tests) -/
example : access 0xfffffffc#32 0#32 4 0x100000000#64 = some 0xfffffffc#32 := by decide
example : access 0xfffffffc#32 1#32 4 0x100000000#64 = none := by decide
example : access 0x80000000#32 0x80000000#32 1 0x100000000#64 = none := by decide
example : access 0x7fffffff#32 0x80000000#32 1 0x100000000#64 = some 0xffffffff#32 := by decide

/-! ## Core 1b: 128-bit accesses made of two 8-byte pieces -/

/-- the store order of the two pieces (upper half first) -/
def piecesRev (offset : BitVec 32) : List (BitVec 32) := [offset + 8#32, offset]

/-- TIE (regenerated): what `v128.load`/`v128.store` do on the current tree is one of the modelled
variants.  `rfl` against `Wz.Gen.InterpAddr`: breaks (broken obligation) if the source changes shape. -/
theorem gen_v128_offsets : v128LoadOffsets = pieces ∧ v128StoreOffsets = piecesRev := ⟨rfl, rfl⟩
theorem gen_v128_store_guard : v128StoreGuard = guardRepaired := rfl
theorem gen_v128_load_guard_variant : v128LoadGuard = guardAsIs ∨ v128LoadGuard = guardRepaired := by
  first
    | exact Or.inl rfl
    | exact Or.inr rfl

theorem guardRepaired_iff (ea : BitVec 32) : guardRepaired ea = true ↔ 2^32 ≤ ea.toNat + 8 := by
  unfold guardRepaired
  have := ea.isLt
  simp only [BitVec.ult, decide_eq_true_eq, BitVec.toNat_add, BitVec.toNat_setWidth, BitVec.toNat_ofNat]
  omega

private theorem all_pieces (ea : BitVec 32) (len : BitVec 64) (h8 : ea.toNat + 8 < 2^32) :
    ((pieces ea).all (fun o => hasSize o 8#64 len) = true ↔ ea.toNat + 16 ≤ len.toNat) ∧
    ((piecesRev ea).all (fun o => hasSize o 8#64 len) = true ↔ ea.toNat + 16 ≤ len.toNat) := by
  have h1 := hasSize_iff' ea 8#64 len (by decide)
  have h2 := hasSize_iff' (ea + 8#32) 8#64 len (by decide)
  have e8 : (8#64).toNat = 8 := by decide
  have hadd : (ea + 8#32).toNat = ea.toNat + 8 := by
    simp only [BitVec.toNat_add, BitVec.toNat_ofNat]; omega
  rw [e8] at h1 h2
  rw [hadd] at h2
  simp only [pieces, piecesRev, List.all_cons, List.all_nil, Bool.and_true, Bool.and_eq_true, h1, h2]
  omega

/-- FULL STRENGTH (repaired variant = v128.store today, v128.load after the fix): with the overflow
guard, a 128-bit access succeeds iff `base+off+16 ≤ len`, for every memory length up to 2^32 bytes
(65536 pages). -/
theorem v128_exact_repaired (base off ea : BitVec 32) (len : BitVec 64) (offs : BitVec 32 → List (BitVec 32))
    (ho : offs = pieces ∨ offs = piecesRev) (hlen : len.toNat ≤ 2^32) :
    multi guardRepaired offs base off len = some ea ↔
      base.toNat + off.toNat + 16 ≤ len.toNat ∧ ea.toNat = base.toNat + off.toNat := by
  unfold multi
  cases hp : popMemoryOffset (off.setWidth 64) (base.setWidth 64) with
  | none =>
    have := (pop_none_iff base off).mp hp
    have := ea.isLt
    constructor
    · intro h; cases h
    · intro ⟨_, _⟩; omega
  | some ea' =>
    have ⟨h1, h2⟩ := (pop_iff base off ea').mp hp
    have hl := len.isLt
    by_cases hg : guardRepaired ea' = true
    · have := (guardRepaired_iff ea').mp hg
      simp only [hg, if_true]
      constructor
      · intro h; cases h
      · intro ⟨h3, h4⟩; omega
    · have hg' : guardRepaired ea' = false := by simpa using hg
      have h8 : ea'.toNat + 8 < 2^32 := by
        have hc : ¬ (2^32 ≤ ea'.toNat + 8) := fun h => hg ((guardRepaired_iff ea').mpr h)
        omega
      have ⟨ha, hb⟩ := all_pieces ea' len h8
      have hall : (offs ea').all (fun o => hasSize o 8#64 len) = true ↔ ea'.toNat + 16 ≤ len.toNat := by
        rcases ho with rfl | rfl
        · exact ha
        · exact hb
      simp only [hg', Bool.false_eq_true, if_false]
      by_cases hh : (offs ea').all (fun o => hasSize o 8#64 len) = true
      · simp only [hh, if_true]
        constructor
        · intro h; injection h with h; subst h
          exact ⟨by have := hall.mp hh; omega, h2⟩
        · intro ⟨_, h4⟩
          congr 1; apply BitVec.eq_of_toNat_eq; omega
      · have hh' : (offs ea').all (fun o => hasSize o 8#64 len) = false := by simpa using hh
        simp only [hh', Bool.false_eq_true, if_false]
        constructor
        · intro h; cases h
        · intro ⟨h3, _⟩; exact absurd (hall.mpr (by omega)) hh

/-- v128.store on the current tree (regenerated guard and offsets): exact. -/
theorem interp_v128_store_exact (base off ea : BitVec 32) (len : BitVec 64) (hlen : len.toNat ≤ 2^32) :
    v128Store base off len = some ea ↔
      base.toNat + off.toNat + 16 ≤ len.toNat ∧ ea.toNat = base.toNat + off.toNat := by
  unfold v128Store
  rw [gen_v128_store_guard, gen_v128_offsets.2]
  exact v128_exact_repaired base off ea len piecesRev (Or.inr rfl) hlen

/-- v128.store never writes one half only: if the first write (upper half) is in range, so is the
second — "a trapping access leaves memory unchanged". -/
theorem interp_v128_store_no_partial_write (ea : BitVec 32) (len : BitVec 64)
    (hg : v128StoreGuard ea = false) (h1 : hasSize (ea + 8#32) 8#64 len = true) :
    hasSize ea 8#64 len = true := by
  rw [gen_v128_store_guard] at hg
  have h8 : ea.toNat + 8 < 2^32 := by
    have hc : ¬ (2^32 ≤ ea.toNat + 8) := fun h => by
      have := (guardRepaired_iff ea).mpr h; rw [hg] at this; cases this
    omega
  have a := (hasSize_iff' (ea + 8#32) 8#64 len (by decide)).mp h1
  have hadd : (ea + 8#32).toNat = ea.toNat + 8 := by
    simp only [BitVec.toNat_add, BitVec.toNat_ofNat]; omega
  have e8 : (8#64).toNat = 8 := by decide
  rw [hadd, e8] at a
  exact (hasSize_iff' ea 8#64 len (by decide)).mpr (by rw [e8]; omega)

/-- PARTIAL (as-is variant of v128.load: no overflow guard).  Exact for every memory of fewer than
65536 pages.  FULL statement (fails on the pinned tree, see the witness): the same with
`len.toNat ≤ 2^32`. -/
theorem interp_v128_load_asis_partial (base off ea : BitVec 32) (len : BitVec 64) (hlen : len.toNat < 2^32) :
    multi guardAsIs pieces base off len = some ea ↔
      base.toNat + off.toNat + 16 ≤ len.toNat ∧ ea.toNat = base.toNat + off.toNat := by
  unfold multi
  cases hp : popMemoryOffset (off.setWidth 64) (base.setWidth 64) with
  | none =>
    have := (pop_none_iff base off).mp hp
    have := ea.isLt
    constructor
    · intro h; cases h
    · intro ⟨_, _⟩; omega
  | some ea' =>
    have ⟨h1, h2⟩ := (pop_iff base off ea').mp hp
    have hs1 := hasSize_iff' ea' 8#64 len (by decide)
    have hs2 := hasSize_iff' (ea' + 8#32) 8#64 len (by decide)
    have e8 : (8#64).toNat = 8 := by decide
    rw [e8] at hs1 hs2
    have hadd : (ea' + 8#32).toNat = (ea'.toNat + 8) % 2^32 := by
      simp only [BitVec.toNat_add, BitVec.toNat_ofNat]
    rw [hadd] at hs2
    have hall : (pieces ea').all (fun o => hasSize o 8#64 len) = true ↔ ea'.toNat + 16 ≤ len.toNat := by
      simp only [pieces, List.all_cons, List.all_nil, Bool.and_true, Bool.and_eq_true, hs1, hs2]
      omega
    simp only [guardAsIs, Bool.false_eq_true, if_false]
    by_cases hh : (pieces ea').all (fun o => hasSize o 8#64 len) = true
    · simp only [hh, if_true]
      constructor
      · intro h; injection h with h; subst h
        exact ⟨by have := hall.mp hh; omega, h2⟩
      · intro ⟨_, h4⟩
        congr 1; apply BitVec.eq_of_toNat_eq; omega
    · have hh' : (pieces ea').all (fun o => hasSize o 8#64 len) = false := by simpa using hh
      simp only [hh', Bool.false_eq_true, if_false]
      constructor
      · intro h; cases h
      · intro ⟨h3, _⟩; exact absurd (hall.mpr (by omega)) hh

/-- WITNESS (finding C02a, as-is variant): on a 65536-page memory `v128.load` at 0xfffffff8 does not
trap although 0xfffffff8+16 > 2^32; its upper half is read from address 0 (offset+8 wraps in uint32). -/
theorem interp_v128_load_wrap_witness :
    multi guardAsIs pieces 0xfffffff8#32 0#32 0x100000000#64 = some 0xfffffff8#32 ∧
    ¬ (0xfffffff8 + 0 + 16 ≤ (0x100000000#64).toNat) ∧
    multiBytes pieces 0xfffffff8#32 =
      [4294967288, 4294967289, 4294967290, 4294967291, 4294967292, 4294967293, 4294967294, 4294967295,
       0, 1, 2, 3, 4, 5, 6, 7] := by decide

/-- The repaired variant traps there. (test of the switch) -/
example : multi guardRepaired pieces 0xfffffff8#32 0#32 0x100000000#64 = none := by decide

/-- v128.load on the CURRENT tree (regenerated): exact below 65536 pages whichever variant the tree is;
exact up to 65536 pages when the tree is the repaired variant. -/
theorem interp_v128_load_current_partial (base off ea : BitVec 32) (len : BitVec 64) (hlen : len.toNat < 2^32) :
    v128Load base off len = some ea ↔
      base.toNat + off.toNat + 16 ≤ len.toNat ∧ ea.toNat = base.toNat + off.toNat := by
  unfold v128Load
  rw [gen_v128_offsets.1]
  rcases gen_v128_load_guard_variant with h | h <;> rw [h]
  · exact interp_v128_load_asis_partial base off ea len hlen
  · exact v128_exact_repaired base off ea len pieces (Or.inl rfl) (by omega)

/-! ## Core 4: bulk operations -/

/-- FULL STRENGTH: memory.copy traps iff source or destination range leaves the memory (ℕ arithmetic;
all 32-bit operand values, every length below 2^63). -/
theorem bulk_copy_exact (n src dst : BitVec 32) (len : BitVec 64) :
    copyTraps n src dst len = true ↔
      len.toNat < src.toNat + n.toNat ∨ len.toNat < dst.toNat + n.toNat := by
  unfold copyTraps memoryCopyTraps
  have := n.isLt; have := src.isLt; have := dst.isLt
  simp only [BitVec.ult, Bool.or_eq_true, decide_eq_true_eq, BitVec.toNat_add, BitVec.toNat_setWidth]
  omega

theorem bulk_fill_exact (n val dst : BitVec 32) (len : BitVec 64) :
    fillTraps n val dst len = true ↔ len.toNat < dst.toNat + n.toNat := by
  unfold fillTraps memoryFillTraps
  have := n.isLt; have := dst.isLt
  simp only [BitVec.ult, decide_eq_true_eq, BitVec.toNat_add, BitVec.toNat_setWidth]
  omega

theorem bulk_init_exact (n src dst : BitVec 32) (len dataLen : BitVec 64) :
    initTraps n src dst len dataLen = true ↔
      dataLen.toNat < src.toNat + n.toNat ∨ len.toNat < dst.toNat + n.toNat := by
  unfold initTraps memoryInitTraps
  have := n.isLt; have := src.isLt; have := dst.isLt
  simp only [BitVec.ult, Bool.or_eq_true, decide_eq_true_eq, BitVec.toNat_add, BitVec.toNat_setWidth]
  omega

/-- Summary name used in DESIGN.md. -/
theorem bulk_range_exact (n src dst : BitVec 32) (len dataLen : BitVec 64) :
    (copyTraps n src dst len = true ↔ len.toNat < src.toNat + n.toNat ∨ len.toNat < dst.toNat + n.toNat) ∧
    (fillTraps n src dst len = true ↔ len.toNat < dst.toNat + n.toNat) ∧
    (initTraps n src dst len dataLen = true ↔ dataLen.toNat < src.toNat + n.toNat ∨ len.toNat < dst.toNat + n.toNat) :=
  ⟨bulk_copy_exact n src dst len, bulk_fill_exact n src dst len, bulk_init_exact n src dst len dataLen⟩

example : copyTraps 0xffffffff#32 1#32 0#32 0x100000000#64 = false := by decide  -- (test) ends exactly at 2^32
example : copyTraps 0xffffffff#32 2#32 0#32 0x100000000#64 = true := by decide   -- (test)

/-! ## Core 3: amd64 address-mode folding -/

open Wz.Model.Amode in
/-- FULL STRENGTH for the REPAIRED variant (`fixed = true`: the tree after swapping the two constant
cases in `lowerAddendFromInstr`): for every pointer expression of the shapes the front end emits,
every static offset in [0,2^32) (including ≥ 2^31), every constant (including ≥ 2^31) and every
content of the 64-bit registers (32-bit values zero-extended in their registers), the lowering does not
panic and the amode it returns evaluates — with x86-64's sign-extended disp32 — to
`pointer + zeroExtend offset`. -/
theorem amode_correct (p : Ptr) (offBase : BitVec 32) (ρ : Nat → BitVec 64)
    (hs : p.frontendShape = true) (hc : p.clean ρ) :
    ∃ am, lowerToAddressMode true p offBase = some am ∧
      am.eval ρ = p.eval ρ + offBase.setWidth 64 :=
  amode_correct_fixed p offBase ρ hs hc

open Wz.Model.Amode in
/-- non-vacuity: `memBase + UExtend(Iconst32 0x80000000)` with a huge offset meets the hypotheses. -/
example : (Ptr.add (.r64 1) (.uext (.c32 0x80000000#32)) 9).frontendShape = true ∧
    (Ptr.add (.r64 1) (.uext (.c32 0x80000000#32)) 9).clean (fun r => if r = 9 then 0x80000000#64 else 0#64) := by
  refine ⟨by decide, trivial, trivial, by decide⟩

open Wz.Model.Amode in
/-- WITNESS (finding F1, as-is variant `fixed = false` = the pinned tree): for
`Iadd(memBase, UExtend(Iconst32 0x8000_0000))`, offset 0, memBase = 0x1_0000_0000_0000 the amode evaluates
2 GiB BELOW memBase instead of 2 GiB above it. -/
theorem amode_bug_witness :
    let p := Ptr.add (.r64 1) (.uext (.c32 0x80000000#32)) 9
    let ρ : Nat → BitVec 64 := fun r => if r = 1 then 0x1000000000000#64 else 0#64
    (lowerToAddressMode false p 0#32).map (·.eval ρ) = some 0xffff80000000#64 ∧
    p.eval ρ + (0#32).setWidth 64 = 0x1000080000000#64 ∧
    (lowerToAddressMode true p 0#32).map (·.eval ρ) = some 0x1000080000000#64 := by decide

open Wz.Model.Amode in
/-- extend-of-constant operands whose top bit is clear (sign- and zero-extension coincide) -/
def extConstSmall : AExpr → Bool
  | .uext (.c32 c) => !c.msb
  | .sext (.c32 c) => !c.msb
  | _ => true

open Wz.Model.Amode in
def ptrExtConstSmall : Ptr → Bool
  | .single a => extConstSmall a
  | .add a b _ => extConstSmall a && extConstSmall b

open Wz.Model.Amode in
private theorem lowerAddend_asis_eq (e : AExpr) (h : extConstSmall e = true) :
    lowerAddend false e = lowerAddend true e := by
  cases e with
  | uext x =>
    cases x with
    | r32 r => rfl
    | c32 c =>
      simp only [extConstSmall, Bool.not_eq_true'] at h
      simp [lowerAddend, lowerAddendFromInstr, sext_small32 c h]
  | sext x =>
    cases x with
    | r32 r => rfl
    | c32 c =>
      simp only [extConstSmall, Bool.not_eq_true'] at h
      simp [lowerAddend, lowerAddendFromInstr, sext_small32 c h]
  | r64 r => rfl
  | k64 c m => cases m <;> rfl
  | k32 c m => cases m <;> rfl
  | shl x a => cases a <;> rfl

open Wz.Model.Amode in
/-- PARTIAL (as-is variant = the pinned tree): correct whenever no constant under an extend has its
top bit set.  FULL statement = `amode_correct` with `fixed = false`; it fails: `amode_bug_witness`. -/
theorem amode_correct_asis_partial (p : Ptr) (offBase : BitVec 32) (ρ : Nat → BitVec 64)
    (hs : p.frontendShape = true) (hc : p.clean ρ) (hk : ptrExtConstSmall p = true) :
    ∃ am, lowerToAddressMode false p offBase = some am ∧
      am.eval ρ = p.eval ρ + offBase.setWidth 64 := by
  have : lowerToAddressMode false p offBase = lowerToAddressMode true p offBase := by
    cases p with
    | single a =>
      simp only [ptrExtConstSmall] at hk
      simp [lowerToAddressMode, lowerAddend_asis_eq a hk]
    | add a b self =>
      simp only [ptrExtConstSmall, Bool.and_eq_true] at hk
      simp [lowerToAddressMode, lowerAddend_asis_eq a hk.1, lowerAddend_asis_eq b hk.2]
  rw [this]
  exact amode_correct_fixed p offBase ρ hs hc

open Wz.Model.Amode in
/-- The shape hypothesis is needed (and is what the Go code silently assumes): a matched `Ishl` by a
constant > 3 is dropped by `lowerAddendFromInstr` (the register of its operand is used unshifted). -/
theorem amode_shape_needed_witness :
    let p := Ptr.add (.r64 1) (.shl (.xr 2) (.ac 4#64)) 9
    let ρ : Nat → BitVec 64 := fun r => if r = 2 then 1#64 else 0#64
    (lowerToAddressMode true p 0#32).map (·.eval ρ) = some 1#64 ∧ p.eval ρ = 16#64 := by decide

/-! ## Core 2: front-end bounds-check elision (known safe bounds) -/

open Wz.Model.SafeBounds in
/-- FULL STRENGTH (about the model).  For EVERY op list along a path (accesses, calls/grows that may
move and enlarge the memory arbitrarily, block entries with arbitrary end states of the other
predecessors, loop back edges), every valuation of the SSA values and every start memory: every access
that is performed (checked or elided) satisfies `val v + off + size ≤ len_now` and uses the host
address `base_now + val v`.  `run = some _` only excludes ill-formed paths (a memory that shrinks, a
loop-back target that carries absolute addresses: loop headers are unsealed when first entered). -/
theorem frontend_elision_sound (val : Nat → Nat) (ops : List Op) (base len : Nat) (evs : List Ev)
    (h : run val ops (init base len) = some evs) :
    ∀ ev ∈ evs, ∀ addr v ceil base' len' chk, ev = Ev.ok addr v ceil base' len' chk →
      val v + ceil ≤ len' ∧ addr = base' + val v := by
  have hI : Inv val (init base len).dyn (init base len).st :=
    ⟨rfl, rfl, by intro e he; cases he⟩
  have hH : HistOK val (init base len).dyn.len (init base len).hist := by
    intro s hs; cases hs
  exact run_sound val ops (init base len) evs hI hH h

open Wz.Model.SafeBounds in
/-- non-vacuity (test): a path with an elided check, a call that moves and grows the memory, a block
merge that lowers the bound, and a loop back edge is well-formed, and the elision really happens
(`false` = no check emitted) and the re-derived address follows the moved base. -/
example :
    run (fun _ => 5) [.access 0 0 8, .access 0 4 4, .call 7000 131072, .access 0 0 8,
        .enterBlock [[⟨0, 4, none⟩]] true, .access 0 0 8, .enterBlock [] false, .access 0 0 4, .loopBack 6, .access 0 0 8]
      (init 1000 65536) =
    some [.ok 1005 0 8 1000 65536 true, .ok 1005 0 8 1000 65536 false, .ok 7005 0 8 7000 131072 false,
          .ok 7005 0 8 7000 131072 true, .ok 7005 0 4 7000 131072 false, .ok 7005 0 8 7000 131072 false] := by decide

open Wz.Model.SafeBounds in
/-- (test) an out-of-range access traps and ends the path. -/
example : run (fun _ => 65533) [.access 0 0 4] (init 1000 65536) = some [.trap 0 4] := by decide


/-! ### what the `call` step of `Wz.Model.SafeBounds` assumes about the front end (regenerated) -/

/-- **Regenerated obligation** (frontend/lower.go).  The model's `.call` step re-reads BOTH SSA variables
(memory base and length) and drops the cached absolute addresses.  The code does that after every call form:
`reloadAfterCall` is invoked by all four call lowerings and calls `reloadMemoryBaseLen` unless the memory is
shared; `reloadMemoryBaseLen` forces both reloads and resets the addresses, in this order; `memory.grow`
reloads directly; and the only other way to skip a reload of the length is the shared-memory case, in which the
length is never answered from the cache at all. -/
theorem frontend_reload_shape :
    Wz.Gen.FrontendReload.reloadGuard = "c.needMemory && !c.memoryShared" ∧
    Wz.Gen.FrontendReload.reloadStatements =
      ["c.getMemoryBaseValue(true)", "c.getMemoryLenValue(true)", "c.resetAbsoluteAddressInSafeBounds()"] ∧
    Wz.Gen.FrontendReload.baseCacheGuard = "!forceReload" ∧
    Wz.Gen.FrontendReload.lenCacheGuard = "!forceReload && !c.memoryShared" ∧
    Wz.Gen.FrontendReload.reloadAfterCallCallers =
      ["lowerCall", "lowerCallIndirect", "lowerTailCallReturnCall", "lowerTailCallReturnCallIndirect"] ∧
    Wz.Gen.FrontendReload.reloadDirectCallers = ["lowerCurrentOpcode"] := by decide


/-! ### the compiler's range checks of bulk instructions happen in 64 bits -/

/-- On zero-extended operands the 64-bit comparison `len < offset + size` is the exact range check: the sum of
two 32-bit values cannot wrap around in 64 bits (all operands, all lengths). -/
theorem bulk_range_check_64_exact (d n : BitVec 32) (len : BitVec 64) :
    (len < d.setWidth 64 + n.setWidth 64) ↔ len.toNat < d.toNat + n.toNat := by
  have hd := d.isLt
  have hn := n.isLt
  rw [BitVec.lt_def, BitVec.toNat_add, BitVec.toNat_setWidth, BitVec.toNat_setWidth]
  have h1 : d.toNat % 2 ^ 64 = d.toNat := Nat.mod_eq_of_lt (by omega)
  have h2 : n.toNat % 2 ^ 64 = n.toNat := Nat.mod_eq_of_lt (by omega)
  rw [h1, h2, Nat.mod_eq_of_lt (by omega)]

/-- Adding first and extending afterwards is NOT a range check: `0xfffffff0 + 32` wraps to 16, which is inside
a one-page memory (the shape of a seeded change to the lowering of `memory.init`). -/
theorem bulk_range_check_32_wraps_witness :
    ((0xfffffff0#32 + 32#32).setWidth 64 ≤ 65536#64) ∧
    ¬ ((0xfffffff0#32).setWidth 64 + (32#32).setWidth 64 ≤ 65536#64) := by decide

/-- **Regenerated obligation** (frontend/lower.go): in the lowering of memory.init/copy/fill and
table.init/copy/fill every i32 operand that takes part in range arithmetic is zero-extended to 64 bits first
(directly or through a variable); no raw 32-bit operand is added, shifted or compared.  (The third operand of the
two fill instructions is the value to store.) -/
theorem compiler_bulk_operands_extended :
    Wz.Gen.BulkPops.table =
      [("OpcodeMiscMemoryInit", 3, 3, 0), ("OpcodeMiscMemoryCopy", 3, 3, 0), ("OpcodeMiscMemoryFill", 3, 2, 0),
       ("OpcodeMiscTableInit", 3, 3, 0), ("OpcodeMiscTableCopy", 3, 3, 0), ("OpcodeMiscTableFill", 3, 2, 0)] := by decide

end Wz.C02
