/- C05: property theorems (none yet). -/
namespace Wz.C05
end Wz.C05
