/-
C05 — Numeric instructions compute the specified function.

Part 1 (this file, full strength, all operand values): the interpreter's integer instructions.
The definitions `Wz.Gen.InterpNum.*` are REGENERATED on every run from the `case operationKind…`
bodies of internal/engine/interpreter/interpreter.go; each theorem says that, on canonical operand
slots (i32 values zero-extended to 64 bits — the engine's invariant, see `*_canonical` below), the
operation pushes exactly the value the specification (`Wz.Spec.Int`) defines, traps exactly when the
specification traps, and never raises a Go run-time panic.

Floating-point and v128 instructions are not proved here: for them the Lean specification
(`Wz.Spec.Float`, `Wz.Spec.Num`) is the oracle of the differential run (tie B) — see DESIGN.md.
-/
import Wz.Proofs.C05_int
import Wz.Model.ConstPool
import Wz.Gen.ConstPool

set_option linter.unusedSimpArgs false

namespace Wz.C05
open Wz.Gen.InterpNum Wz.Spec Wz.Go

/-- the canonical 64-bit slot of an i32 value -/
def z (a : BitVec 32) : BitVec 64 := a.setWidth 64

@[simp] theorem z_trunc (a : BitVec 32) : (z a).setWidth 32 = a := by
  apply BitVec.eq_of_toNat_eq
  simp [z]

theorem z_inj (a b : BitVec 32) : (z a == z b) = (a == b) := by
  have ha := a.isLt; have hb := b.isLt
  by_cases h : a = b
  · simp [h]
  · have : z a ≠ z b := by
      intro hz
      apply h
      have := congrArg (fun x => x.setWidth 32) hz
      simpa using this
    have h1 : (z a == z b) = false := by simpa using this
    have h2 : (a == b) = false := by simpa using h
    rw [h1, h2]

theorem z_zero_iff (a : BitVec 32) : (z a == 0#64) = (a == 0#32) := by
  have := z_inj a 0#32
  simpa [z] using this

/-! ### arithmetic -/

theorem i32_add_eq (a b : BitVec 32) : i32_add (z b) (z a) = .ok [z (Int.iadd a b)] := by
  simp [i32_add, Int.iadd]; rfl
theorem i64_add_eq (a b : BitVec 64) : i64_add b a = .ok [Int.iadd a b] := by
  simp [i64_add, Int.iadd]
theorem i32_sub_eq (a b : BitVec 32) : i32_sub (z b) (z a) = .ok [z (Int.isub a b)] := by
  simp [i32_sub, Int.isub]; rfl
theorem i64_sub_eq (a b : BitVec 64) : i64_sub b a = .ok [Int.isub a b] := by
  simp [i64_sub, Int.isub]
theorem i32_mul_eq (a b : BitVec 32) : i32_mul (z b) (z a) = .ok [z (Int.imul a b)] := by
  simp [i32_mul, Int.imul]; rfl
theorem i64_mul_eq (a b : BitVec 64) : i64_mul b a = .ok [Int.imul a b] := by
  simp [i64_mul, Int.imul]

/-! ### bitwise, shifts, rotates: counts are taken modulo the width -/

theorem i32_and_eq (a b : BitVec 32) : i32_and (z b) (z a) = .ok [z (Int.iand a b)] := by
  simp [i32_and, Int.iand, BitVec.and_comm]; rfl
theorem i64_and_eq (a b : BitVec 64) : i64_and b a = .ok [Int.iand a b] := by
  simp [i64_and, Int.iand, BitVec.and_comm]
theorem i32_or_eq (a b : BitVec 32) : i32_or (z b) (z a) = .ok [z (Int.ior a b)] := by
  simp [i32_or, Int.ior, BitVec.or_comm]; rfl
theorem i64_or_eq (a b : BitVec 64) : i64_or b a = .ok [Int.ior a b] := by
  simp [i64_or, Int.ior, BitVec.or_comm]
theorem i32_xor_eq (a b : BitVec 32) : i32_xor (z b) (z a) = .ok [z (Int.ixor a b)] := by
  simp [i32_xor, Int.ixor, BitVec.xor_comm]; rfl
theorem i64_xor_eq (a b : BitVec 64) : i64_xor b a = .ok [Int.ixor a b] := by
  simp [i64_xor, Int.ixor, BitVec.xor_comm]

theorem i32_shl_eq (a b : BitVec 32) : i32_shl (z b) (z a) = .ok [z (Int.ishl a b)] := by
  simp [i32_shl, Int.ishl]; rfl
theorem i64_shl_eq (a b : BitVec 64) : i64_shl b a = .ok [Int.ishl a b] := by
  simp [i64_shl, Int.ishl]
theorem i32_shr_u_eq (a b : BitVec 32) : i32_shr_u (z b) (z a) = .ok [z (Int.ishrU a b)] := by
  simp [i32_shr_u, Int.ishrU]; rfl
theorem i64_shr_u_eq (a b : BitVec 64) : i64_shr_u b a = .ok [Int.ishrU a b] := by
  simp [i64_shr_u, Int.ishrU]
theorem i32_shr_s_eq (a b : BitVec 32) : i32_shr_s (z b) (z a) = .ok [z (Int.ishrS a b)] := by
  simp [i32_shr_s, Int.ishrS]; rfl
theorem i64_shr_s_eq (a b : BitVec 64) : i64_shr_s b a = .ok [Int.ishrS a b] := by
  simp [i64_shr_s, Int.ishrS]

/-! ### comparisons (rely on canonical slots for i32) -/

theorem i32_eq_eq (a b : BitVec 32) : i32_eq (z b) (z a) = .ok [z (Int.ieq a b)] := by
  by_cases h : a = b <;> simp [i32_eq, Int.ieq, Int.b2i, h] <;> rfl
theorem i64_eq_eq (a b : BitVec 64) : i64_eq b a = .ok [z (Int.ieq a b)] := by
  by_cases h : a = b <;> simp [i64_eq, Int.ieq, Int.b2i, h] <;> rfl
theorem i32_ne_eq (a b : BitVec 32) : i32_ne (z b) (z a) = .ok [z (Int.ine a b)] := by
  have hz := z_inj a b
  by_cases h : a = b
  · subst h; simp [i32_ne, Int.ine, Int.b2i]; rfl
  · have : z a ≠ z b := by
      intro hh; rw [hh] at hz; simp at hz; exact h hz
    simp [i32_ne, Int.ine, Int.b2i, h, this]; rfl
theorem i64_ne_eq (a b : BitVec 64) : i64_ne b a = .ok [z (Int.ine a b)] := by
  by_cases h : a = b <;> simp [i64_ne, Int.ine, Int.b2i, h] <;> rfl

/-! ### ordered comparisons -/

theorem i32_lt_s_eq (a b : BitVec 32) : i32_lt_s (z b) (z a) = .ok [z (Int.iltS a b)] := by
  by_cases h : a.toInt < b.toInt <;>
    simp [i32_lt_s, Int.iltS, Int.b2i, BitVec.slt, BitVec.sle, h] <;> first | rfl | omega
theorem i64_lt_s_eq (a b : BitVec 64) : i64_lt_s b a = .ok [z (Int.iltS a b)] := by
  by_cases h : a.toInt < b.toInt <;>
    simp [i64_lt_s, Int.iltS, Int.b2i, BitVec.slt, BitVec.sle, h] <;> first | rfl | omega
theorem i32_lt_u_eq (a b : BitVec 32) : i32_lt_u (z b) (z a) = .ok [z (Int.iltU a b)] := by
  by_cases h : a.toNat < b.toNat <;>
    simp [i32_lt_u, Int.iltU, Int.b2i, BitVec.ult, BitVec.ule, z, h] <;> first | rfl | omega
theorem i64_lt_u_eq (a b : BitVec 64) : i64_lt_u b a = .ok [z (Int.iltU a b)] := by
  by_cases h : a.toNat < b.toNat <;>
    simp [i64_lt_u, Int.iltU, Int.b2i, BitVec.ult, BitVec.ule, h] <;> first | rfl | omega

theorem i32_gt_s_eq (a b : BitVec 32) : i32_gt_s (z b) (z a) = .ok [z (Int.igtS a b)] := by
  by_cases h : a.toInt > b.toInt <;>
    simp [i32_gt_s, Int.igtS, Int.b2i, BitVec.slt, BitVec.sle, h] <;> first | rfl | omega
theorem i64_gt_s_eq (a b : BitVec 64) : i64_gt_s b a = .ok [z (Int.igtS a b)] := by
  by_cases h : a.toInt > b.toInt <;>
    simp [i64_gt_s, Int.igtS, Int.b2i, BitVec.slt, BitVec.sle, h] <;> first | rfl | omega
theorem i32_gt_u_eq (a b : BitVec 32) : i32_gt_u (z b) (z a) = .ok [z (Int.igtU a b)] := by
  by_cases h : a.toNat > b.toNat <;>
    simp [i32_gt_u, Int.igtU, Int.b2i, BitVec.ult, BitVec.ule, z, h] <;> first | rfl | omega
theorem i64_gt_u_eq (a b : BitVec 64) : i64_gt_u b a = .ok [z (Int.igtU a b)] := by
  by_cases h : a.toNat > b.toNat <;>
    simp [i64_gt_u, Int.igtU, Int.b2i, BitVec.ult, BitVec.ule, h] <;> first | rfl | omega

theorem i32_le_s_eq (a b : BitVec 32) : i32_le_s (z b) (z a) = .ok [z (Int.ileS a b)] := by
  by_cases h : a.toInt ≤ b.toInt <;>
    simp [i32_le_s, Int.ileS, Int.b2i, BitVec.slt, BitVec.sle, h] <;> first | rfl | omega
theorem i64_le_s_eq (a b : BitVec 64) : i64_le_s b a = .ok [z (Int.ileS a b)] := by
  by_cases h : a.toInt ≤ b.toInt <;>
    simp [i64_le_s, Int.ileS, Int.b2i, BitVec.slt, BitVec.sle, h] <;> first | rfl | omega
theorem i32_le_u_eq (a b : BitVec 32) : i32_le_u (z b) (z a) = .ok [z (Int.ileU a b)] := by
  by_cases h : a.toNat ≤ b.toNat <;>
    simp [i32_le_u, Int.ileU, Int.b2i, BitVec.ult, BitVec.ule, z, h] <;> first | rfl | omega
theorem i64_le_u_eq (a b : BitVec 64) : i64_le_u b a = .ok [z (Int.ileU a b)] := by
  by_cases h : a.toNat ≤ b.toNat <;>
    simp [i64_le_u, Int.ileU, Int.b2i, BitVec.ult, BitVec.ule, h] <;> first | rfl | omega

theorem i32_ge_s_eq (a b : BitVec 32) : i32_ge_s (z b) (z a) = .ok [z (Int.igeS a b)] := by
  by_cases h : a.toInt ≥ b.toInt <;>
    simp [i32_ge_s, Int.igeS, Int.b2i, BitVec.slt, BitVec.sle, h] <;> first | rfl | omega
theorem i64_ge_s_eq (a b : BitVec 64) : i64_ge_s b a = .ok [z (Int.igeS a b)] := by
  by_cases h : a.toInt ≥ b.toInt <;>
    simp [i64_ge_s, Int.igeS, Int.b2i, BitVec.slt, BitVec.sle, h] <;> first | rfl | omega
theorem i32_ge_u_eq (a b : BitVec 32) : i32_ge_u (z b) (z a) = .ok [z (Int.igeU a b)] := by
  by_cases h : a.toNat ≥ b.toNat <;>
    simp [i32_ge_u, Int.igeU, Int.b2i, BitVec.ult, BitVec.ule, z, h] <;> first | rfl | omega
theorem i64_ge_u_eq (a b : BitVec 64) : i64_ge_u b a = .ok [z (Int.igeU a b)] := by
  by_cases h : a.toNat ≥ b.toNat <;>
    simp [i64_ge_u, Int.igeU, Int.b2i, BitVec.ult, BitVec.ule, h] <;> first | rfl | omega

/-! ### unary -/

theorem i32_eqz_eq (a : BitVec 32) : ieqz (z a) = .ok [z (Int.ieqz a)] := by
  have hz := z_zero_iff a
  by_cases h : a = 0#32
  · subst h; simp [ieqz, Int.ieqz, Int.b2i, z]
  · have h1 : (z a == 0#64) = false := by rw [hz]; simpa using h
    have h2 : ¬ a.toNat = 0 := fun hh => h (BitVec.eq_of_toNat_eq (by simpa using hh))
    simp [ieqz, Int.ieqz, Int.b2i, h1, h2]; rfl
theorem i64_eqz_eq (a : BitVec 64) : ieqz a = .ok [z (Int.ieqz a)] := by
  by_cases h : a = 0#64
  · subst h; simp [ieqz, Int.ieqz, Int.b2i]; rfl
  · have h2 : ¬ a.toNat = 0 := fun hh => h (BitVec.eq_of_toNat_eq (by simpa using hh))
    simp [ieqz, Int.ieqz, Int.b2i, h, h2]; rfl

theorem i32_wrap_eq (a : BitVec 64) : i32_wrap_i64 a = .ok [z (Int.wrap a)] := by
  simp [i32_wrap_i64, Int.wrap, z]
theorem i64_extend_u_eq (a : BitVec 32) : i64_extend_i32_u (z a) = .ok [Int.extendU a] := by
  simp [i64_extend_i32_u, Int.extendU]
theorem i64_extend_s_eq (a : BitVec 32) : i64_extend_i32_s (z a) = .ok [Int.extendS a] := by
  simp [i64_extend_i32_s, Int.extendS]
theorem i32_extend8_s_eq (a : BitVec 32) : i32_extend8_s (z a) = .ok [z (Int.iextendS 8 a)] := by
  simp [i32_extend8_s, Int.iextendS, z]
theorem i32_extend16_s_eq (a : BitVec 32) : i32_extend16_s (z a) = .ok [z (Int.iextendS 16 a)] := by
  simp [i32_extend16_s, Int.iextendS, z]
theorem i64_extend8_s_eq (a : BitVec 64) : i64_extend8_s a = .ok [Int.iextendS 8 a] := by
  simp [i64_extend8_s, Int.iextendS]
theorem i64_extend16_s_eq (a : BitVec 64) : i64_extend16_s a = .ok [Int.iextendS 16 a] := by
  simp [i64_extend16_s, Int.iextendS]
theorem i64_extend32_s_eq (a : BitVec 64) : i64_extend32_s a = .ok [Int.iextendS 32 a] := by
  simp [i64_extend32_s, Int.iextendS]

/-! ### division and remainder: trap exactly when the specification traps, never a Go run-time panic -/

theorem z_ne_zero (b : BitVec 32) (h : b ≠ 0#32) : (z b == 0#64) = false := by
  rw [z_zero_iff]; simpa using h

theorem i32_div_u_eq (a b : BitVec 32) : i32_div_u (z b) (z a) =
    match Int.idivU a b with
    | none => .trap "ErrRuntimeIntegerDivideByZero"
    | some q => .ok [z q] := by
  by_cases h : b = 0#32
  · subst h; simp [i32_div_u, Int.idivU, z]
  · rw [idivU_of_ne_zero a b h]
    simp [i32_div_u, z_ne_zero b h, h]; rfl
theorem i64_div_u_eq (a b : BitVec 64) : i64_div_u b a =
    match Int.idivU a b with
    | none => .trap "ErrRuntimeIntegerDivideByZero"
    | some q => .ok [q] := by
  by_cases h : b = 0#64
  · subst h; simp [i64_div_u, Int.idivU]
  · rw [idivU_of_ne_zero a b h]
    simp [i64_div_u, h]
theorem i32_rem_u_eq (a b : BitVec 32) : i32_rem_u (z b) (z a) =
    match Int.iremU a b with
    | none => .trap "ErrRuntimeIntegerDivideByZero"
    | some q => .ok [z q] := by
  by_cases h : b = 0#32
  · subst h; simp [i32_rem_u, Int.iremU, z]
  · rw [iremU_of_ne_zero a b h]
    simp [i32_rem_u, z_ne_zero b h, h]; rfl
theorem i64_rem_u_eq (a b : BitVec 64) : i64_rem_u b a =
    match Int.iremU a b with
    | none => .trap "ErrRuntimeIntegerDivideByZero"
    | some q => .ok [q] := by
  by_cases h : b = 0#64
  · subst h; simp [i64_rem_u, Int.iremU]
  · rw [iremU_of_ne_zero a b h]
    simp [i64_rem_u, h]

theorem i32_rem_s_eq (a b : BitVec 32) : i32_rem_s (z b) (z a) =
    match Int.iremS a b with
    | none => .trap "ErrRuntimeIntegerDivideByZero"
    | some q => .ok [z q] := by
  by_cases h : b = 0#32
  · subst h; simp [i32_rem_s, Int.iremS, z]
  · rw [iremS_of_ne_zero a b h]
    simp [i32_rem_s, z_ne_zero b h, h]; rfl
theorem i64_rem_s_eq (a b : BitVec 64) : i64_rem_s b a =
    match Int.iremS a b with
    | none => .trap "ErrRuntimeIntegerDivideByZero"
    | some q => .ok [q] := by
  by_cases h : b = 0#64
  · subst h; simp [i64_rem_s, Int.iremS]
  · rw [iremS_of_ne_zero a b h]
    simp [i64_rem_s, h]

theorem i32_div_s_eq (a b : BitVec 32) : i32_div_s (z b) (z a) =
    if b = 0#32 then .trap "ErrRuntimeIntegerDivideByZero"
    else match Int.idivS a b with
      | none => .trap "ErrRuntimeIntegerOverflow"
      | some q => .ok [z q] := by
  by_cases h : b = 0#32
  · subst h; simp [i32_div_s, z]
  · rw [idivS_of_ne_zero (by decide) a b h]
    have e1 : BitVec.ofInt 32 (-2147483648) = BitVec.intMin 32 := by decide
    have e2 : BitVec.ofInt 32 (-1) = -1#32 := by decide
    simp only [i32_div_s, z_ne_zero b h, z_trunc, e1, e2, h, if_false]
    by_cases hc : a = BitVec.intMin 32 ∧ b = -1#32
    · obtain ⟨ha, hb⟩ := hc; subst ha; subst hb; simp
    · have hc' : ((a == BitVec.intMin 32) && (b == -1#32)) = false := by
        simpa using hc
      have hb0 : (b == 0#32) = false := by simpa using h
      rw [if_neg hc]
      simp only [hc', hb0, Bool.false_eq_true, if_false]
      rfl
theorem i64_div_s_eq (a b : BitVec 64) : i64_div_s b a =
    if b = 0#64 then .trap "ErrRuntimeIntegerDivideByZero"
    else match Int.idivS a b with
      | none => .trap "ErrRuntimeIntegerOverflow"
      | some q => .ok [q] := by
  by_cases h : b = 0#64
  · subst h; simp [i64_div_s]
  · rw [idivS_of_ne_zero (by decide) a b h]
    have e1 : BitVec.ofInt 64 (-9223372036854775808) = BitVec.intMin 64 := by decide
    have e2 : BitVec.ofInt 64 (-1) = -1#64 := by decide
    have hb : (b == 0#64) = false := by simpa using h
    simp only [i64_div_s, hb, e1, e2, h, if_false]
    by_cases hc : a = BitVec.intMin 64 ∧ b = -1#64
    · obtain ⟨ha, hb⟩ := hc; subst ha; subst hb; simp
    · have hc' : ((a == BitVec.intMin 64) && (b == -1#64)) = false := by
        simpa using hc
      rw [if_neg hc]
      simp only [hc', hb, Bool.false_eq_true, if_false]

/-! ### counting and rotation -/

theorem z_ofNat (k : Nat) (h : k < 2 ^ 32) : z (BitVec.ofNat 32 k) = BitVec.ofNat 64 k := by
  apply BitVec.eq_of_toNat_eq
  simp [z]
  omega

theorem i32_clz_eq (a : BitVec 32) : i32_clz (z a) = .ok [z (Int.iclz a)] := by
  have := clzAux_le a 32
  simp [i32_clz, Int.iclz, leadingZeros32, clzAux_eq]
  rw [z_ofNat _ (by omega)]
theorem i64_clz_eq (a : BitVec 64) : i64_clz a = .ok [Int.iclz a] := by
  simp [i64_clz, Int.iclz, leadingZeros64, clzAux_eq]
theorem i32_ctz_eq (a : BitVec 32) : i32_ctz (z a) = .ok [z (Int.ictz a)] := by
  have := ctzAux_le a 0 32
  simp [i32_ctz, Int.ictz, trailingZeros32, ctzAux_eq]
  rw [z_ofNat _ (by omega)]
theorem i64_ctz_eq (a : BitVec 64) : i64_ctz a = .ok [Int.ictz a] := by
  simp [i64_ctz, Int.ictz, trailingZeros64, ctzAux_eq]
theorem i32_popcnt_eq (a : BitVec 32) : i32_popcnt (z a) = .ok [z (Int.ipopcnt a)] := by
  have := popAux_le a 32
  simp [i32_popcnt, Int.ipopcnt, onesCount32, popAux_eq]
  rw [z_ofNat _ (by omega)]
theorem i64_popcnt_eq (a : BitVec 64) : i64_popcnt a = .ok [Int.ipopcnt a] := by
  simp [i64_popcnt, Int.ipopcnt, onesCount64, popAux_eq]

theorem i32_rotl_eq (a b : BitVec 32) : i32_rotl (z b) (z a) = .ok [z (Int.irotl a b)] := by
  simp [i32_rotl, Int.irotl, rotateLeft32, z]
theorem i64_rotl_eq (a b : BitVec 64) : i64_rotl b a = .ok [Int.irotl a b] := by
  simp [i64_rotl, Int.irotl, rotateLeft64]
theorem i32_rotr_eq (a b : BitVec 32) : i32_rotr (z b) (z a) = .ok [z (Int.irotr a b)] := by
  have hk : (-(z b)).toNat % 32 = (32 - b.toNat % 32) % 32 := by
    have := b.isLt
    simp only [BitVec.toNat_neg, z, BitVec.toNat_setWidth]
    omega
  have hr := rotateLeft_neg (by decide : 0 < 32) a b.toNat
  simp only [i32_rotr, Int.irotr, rotateLeft32, z_trunc, hk, hr]
  rw [← BitVec.rotateRight_mod_eq_rotateRight]
  rfl
theorem i64_rotr_eq (a b : BitVec 64) : i64_rotr b a = .ok [Int.irotr a b] := by
  have hk : (-b).toNat % 64 = (64 - b.toNat % 64) % 64 := by
    have := b.isLt
    simp only [BitVec.toNat_neg]
    omega
  have hr := rotateLeft_neg (by decide : 0 < 64) a b.toNat
  simp only [i64_rotr, Int.irotr, rotateLeft64, hk, hr]
  rw [← BitVec.rotateRight_mod_eq_rotateRight]


/-! ### amd64 back end: constants shared between the instructions of one function -/

/-- the regenerated call sites as (index field, data variable) -/
def poolPairs : List (String × String) := Wz.Gen.ConstPool.uses.map (fun u => (u.1, u.2.1))

def functionalB (us : List (String × String)) : Bool :=
  us.all (fun a => us.all (fun b => a.1 != b.1 || a.2 == b.2))

theorem functional_of_functionalB (us : List (String × String)) (h : functionalB us = true) :
    Wz.Model.ConstPool.Functional us := by
  intro a ha b hb hab
  simp only [functionalB, List.all_eq_true] at h
  have := h a ha b hb
  simp only [Bool.or_eq_true, bne_iff_ne, ne_eq, beq_iff_eq] at this
  cases this with
  | inl hne => exact absurd hab hne
  | inr he => exact he

/-- **Regenerated obligation**: over all `getOrAllocateConstLabel` call sites of the amd64 back end, no index
field is paired with two different constants (and no constant is cached under two fields). -/
theorem const_pool_pairs_one_to_one :
    functionalB poolPairs = true ∧ functionalB (poolPairs.map (fun p => (p.2, p.1))) = true := by decide

/-- Consequence, for EVERY sequence of lowerings that can happen in one function (any instructions, any
order, any repetition): each `getOrAllocateConstLabel` call gets the constant it names. -/
theorem every_lowering_gets_its_constant (seq : List (String × String)) (h : ∀ u ∈ seq, u ∈ poolPairs) :
    Wz.Model.ConstPool.runUses [] seq = seq.map (·.2) := by
  apply Wz.Model.ConstPool.each_use_gets_its_constant
  have hf := functional_of_functionalB poolPairs const_pool_pairs_one_to_one.1
  exact fun a ha b hb => hf a (h a ha) b (h b hb)

/-- Without the obligation the conclusion fails: the shape of a seeded change (one field used for two
constants) makes the second instruction compute with the first one's constant. -/
theorem const_pool_shared_field_witness :
    Wz.Model.ConstPool.runUses [] [("constAllOnesI8x16Index", "allOnesI8x16"), ("constAllOnesI8x16Index", "allOnesI16x8")]
      = ["allOnesI8x16", "allOnesI8x16"] := by decide

example : 10 ≤ poolPairs.length := by decide

/-- **Regenerated obligation**: the per-function reset invalidates EVERY index field that some lowering caches
a pool label in (the pool is truncated between functions, so a field that survives points into the next
function's pool: out of range, or at another constant). -/
theorem every_cached_index_is_reset_between_functions :
    (poolPairs.map (·.1)).all (fun f => Wz.Gen.ConstPool.resets.contains f) = true := by decide

end Wz.C05
