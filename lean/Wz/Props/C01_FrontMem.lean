/-
C01 / C02 — the optimizing compiler's FRONT END on straight-line integer code with LINEAR MEMORY ACCESSES
(`Wz.Model.FrontendMem`; tie to the real `frontend.Compiler.LowerToSSA`: `harness/cmd/hfrontmem`).

Property-level statements.  For every well-typed function `f` of the fragment (FrontendSL's instructions, the 12
integer loads and 7 integer stores with static offsets < 2^32, `memory.size`), every argument vector within the
parameter types, every linear memory `bytes` (any size below 4 GiB, any contents), every flat SSA memory `mem0` that
EMBEDS it (`Emb mc base bytes mem0`: base and length words of the module context at `mc + 8`, `mc + 16`; byte `i` at
`base + i`; no overlap, no wrap-around), every callee world, execution-context argument and reference fuel
`n ≥ |body| + 3`:

* `frontmem_refines`: the outcome of the SSA semantics on `lowerMem f` is the outcome of `Wz.Spec.Wasm.invoke`: the
  same result values, or the exit code of the same trap (`ExitCodeMemoryOutOfBounds` exactly when
  `address + offset + width > size` OVER THE NATURALS, also for addresses and offsets ≥ 2^31; the two division traps
  as before), no call, and the final flat memory embeds the specification's final linear memory (a trap keeps
  the stores made before it).
* `frontmem_confined` (C02 through the front end): every memory access of the SSA run — stores and loads, also those
  whose bounds check was ELIDED by the known-safe-bound cache — lies inside `[base, base + size)`, except the loads of
  the two module-context words; stores are always inside.
* `frontmem_writes_confined`: the final memory is the initial one with writes prepended, all inside `[base, base+size)`.
* `frontmem_conservative`: on functions without memory instructions `lowerMem` is `FrontendSL.lowerSL`.
* `frontmem_opt_validated` (and `frontmem_dce_validated`), `frontmem_then_passes_refines`: a verified CHECKER of the
  passes' result (no-op shifts → aliases, alias resolution, dead code; translation validation: the harness runs it on
  the real `RunPasses()` output), composed with the refinement.
* `frontmem_wellFormed`: `lowerMem f` is strict SSA in one block (`WellFormedM`).
* `frontmem_elision_is_model`: the static cache is `Wz.Model.SafeBounds` under an abstraction (same elisions).
* `frontmem_elision_justified`: whenever `memOpSetup` emits NO check, the bound it found in its cache covers the
  access (the static statement behind the elision).
-/
import Wz.Proofs.C01_FrontMem
import Wz.Proofs.C01_FrontMem_Embed
import Wz.Proofs.C01_FrontMem_Cons
import Wz.Proofs.C01_FrontMem_Elide
import Wz.Proofs.C01_FrontMem_WF
import Wz.Proofs.C01_FrontMem_Dce
import Wz.Proofs.C01_FrontMem_Opt
import Wz.Proofs.C01_FrontMem_Writes

namespace Wz.C01
open Wz.Spec Wz.Model.SsaPass Wz.Model.FrontendSL Wz.Model.FrontendMem Wz.Proofs.FrontMem

/-- **The front end preserves the semantics of straight-line code with memory accesses.** -/
theorem frontmem_refines (f : FnM) (hwt : wellTypedM f = true) (args : List Nat) (hargs : ArgsOK f.sig args)
    (w : World) (ec mc base : Nat) (bytes : ByteArray) (mem0 : Mem) (hemb : Emb mc base bytes mem0)
    (n : Nat) (hn : f.body.length + 3 ≤ n) :
    RefinesM mc base (runSpecM f args bytes n) (runM w (lowerMem f) (ec :: mc :: args) mem0).1 :=
  (lowerMem_refines f hwt args hargs w ec mc base bytes mem0 hemb n hn).1

/-- **Compiled code never touches memory outside `[base, base + size)`** (C02, through the front end, including the
accesses whose check was elided): every logged access is inside, or is a load of one of the two context words. -/
theorem frontmem_confined (f : FnM) (hwt : wellTypedM f = true) (args : List Nat) (hargs : ArgsOK f.sig args)
    (w : World) (ec mc base : Nat) (bytes : ByteArray) (mem0 : Mem) (hemb : Emb mc base bytes mem0) :
    Confined mc base bytes.size (runM w (lowerMem f) (ec :: mc :: args) mem0).2 :=
  (lowerMem_refines f hwt args hargs w ec mc base bytes mem0 hemb (f.body.length + 3) (Nat.le_refl _)).2

/-- in particular every STORE is inside the linear memory -/
theorem frontmem_stores_confined (f : FnM) (hwt : wellTypedM f = true) (args : List Nat) (hargs : ArgsOK f.sig args)
    (w : World) (ec mc base : Nat) (bytes : ByteArray) (mem0 : Mem) (hemb : Emb mc base bytes mem0) :
    ∀ a ∈ (runM w (lowerMem f) (ec :: mc :: args) mem0).2, a.store = true →
      base ≤ a.addr ∧ a.addr + a.n ≤ base + bytes.size := by
  intro a ha hs
  rcases frontmem_confined f hwt args hargs w ec mc base bytes mem0 hemb a ha with h | h
  · simpa [Acc.inside] using h
  · simp [Acc.isCtxRead, hs] at h

/-- **Every byte the compiled code writes lies inside `[base, base + size)`**, stated on the memory itself: the final
flat memory (of a run that returns or traps) is the initial memory with a list `W` of writes prepended, and every
written address is inside the linear memory.  (The SSA memory is a write log, so `W` IS the list of all writes.) -/
theorem frontmem_writes_confined (f : FnM) (hwt : wellTypedM f = true) (args : List Nat) (hargs : ArgsOK f.sig args)
    (w : World) (ec mc base : Nat) (bytes : ByteArray) (mem0 : Mem) (hemb : Emb mc base bytes mem0) (mem' : Mem)
    (h : finalMem (runM w (lowerMem f) (ec :: mc :: args) mem0).1 = some mem') :
    ∃ W, mem' = W ++ mem0 ∧ ∀ p ∈ W, base ≤ p.1 ∧ p.1 < base + bytes.size := by
  obtain ⟨W, e, c⟩ := lowerMem_writes w f (ec :: mc :: args) mem0 mem' h
  refine ⟨W, e, ?_⟩
  intro p hp
  obtain ⟨a, ha, hs, h1, h2⟩ := c p hp
  have := frontmem_stores_confined f hwt args hargs w ec mc base bytes mem0 hemb a ha hs
  omega

/-- **The hypothesis is satisfiable for every memory**: the canonical embedding (the two context words, the non-zero
bytes) of any linear memory below 4 GiB, placed anywhere without overlap and wrap-around, is an embedding. -/
theorem frontmem_embedding_exists (mc base : Nat) (bytes : ByteArray)
    (hdis : mc + 24 ≤ base ∨ base + bytes.size ≤ mc + 8) (hmc : mc + 24 ≤ 2 ^ 64) (hbase : base + 2 ^ 34 ≤ 2 ^ 64)
    (hlen : bytes.size < 2 ^ 32) : Emb mc base bytes (embed mc base bytes) :=
  embed_emb mc base bytes hdis hmc hbase hlen

/-- the refinement on the canonical embedding, without an embedding hypothesis -/
theorem frontmem_refines_canonical (f : FnM) (hwt : wellTypedM f = true) (args : List Nat) (hargs : ArgsOK f.sig args)
    (w : World) (ec : Nat) (bytes : ByteArray) (hlen : bytes.size < 2 ^ 32) (n : Nat) (hn : f.body.length + 3 ≤ n) :
    RefinesM 0x3c00 0x100000000000 (runSpecM f args bytes n)
      (runM w (lowerMem f) (ec :: 0x3c00 :: args) (embed 0x3c00 0x100000000000 bytes)).1 :=
  frontmem_refines f hwt args hargs w ec _ _ bytes _
    (embed_emb _ _ bytes (.inl (by omega)) (by omega) (by omega) hlen) n hn

/-- the reference semantics of a well-typed function of the fragment does not depend on the fuel (≥ |body| + 3), and
never runs out of it: both runs are the one SSA run read back -/
theorem frontmem_spec_fuel_irrelevant (f : FnM) (hwt : wellTypedM f = true) (args : List Nat)
    (hargs : ArgsOK f.sig args) (bytes : ByteArray) (hlen : bytes.size < 2 ^ 32) (n n' : Nat)
    (hn : f.body.length + 3 ≤ n) (hn' : f.body.length + 3 ≤ n') :
    (runSpecM f args bytes n).1 = (runSpecM f args bytes n').1 ∧ (runSpecM f args bytes n).1 ≠ .exhausted := by
  have h1 := frontmem_refines_canonical f hwt args hargs ⟨fun _ _ _ => none⟩ 0 bytes hlen n hn
  have h2 := frontmem_refines_canonical f hwt args hargs ⟨fun _ _ _ => none⟩ 0 bytes hlen n' hn'
  generalize (runM ⟨fun _ _ _ => none⟩ (lowerMem f) (0 :: 0x3c00 :: args) (embed 0x3c00 0x100000000000 bytes)).1 = o
    at h1 h2
  generalize runSpecM f args bytes n = sp at h1 ⊢
  generalize runSpecM f args bytes n' = sp' at h2 ⊢
  obtain ⟨o1, b1⟩ := sp
  obtain ⟨o2, b2⟩ := sp'
  simp only [RefinesM] at h1 h2
  cases o1 with
  | exhausted => exact absurd h1 id
  | values vs =>
    obtain ⟨m1, e1, _⟩ := h1
    cases o2 with
    | exhausted => exact absurd h2 id
    | values vs' =>
      obtain ⟨m2, e2, _⟩ := h2
      rw [e1] at e2
      simp only [Outcome.values.injEq] at e2
      exact ⟨by rw [e2.1], by simp⟩
    | trap k' =>
      obtain ⟨m2, e2, _⟩ := h2
      rw [e1] at e2
      cases e2
  | trap k =>
    obtain ⟨m1, e1, _, hk⟩ := h1
    cases o2 with
    | exhausted => exact absurd h2 id
    | values vs' =>
      obtain ⟨m2, e2, _⟩ := h2
      rw [e1] at e2
      cases e2
    | trap k' =>
      obtain ⟨m2, e2, _, hk'⟩ := h2
      rw [e1] at e2
      simp only [Outcome.trap.injEq] at e2
      refine ⟨?_, by simp⟩
      have hc := e2.1
      rcases hk with rfl | rfl | rfl <;> rcases hk' with rfl | rfl | rfl <;> first | rfl | exact absurd hc (by decide)

/-- **Conservativity**: a function without memory instructions is lowered exactly as by `FrontendSL.lowerSL` (the
block of `lowerSL f` has these parameters and these instructions), and printed the same -/
theorem frontmem_conservative (f : Fn) :
    lowerMem (toM f) = { params := entryParams f, instrs := (entryInstrs f).map .base } ∧
    (lowerSL f).blocks = [{ id := 0, key := 0, invalid := false, params := (lowerMem (toM f)).params,
                            instrs := entryInstrs f }] ∧
    formatM (toM f) = format f :=
  ⟨lowerMem_toM f, by rw [lowerMem_toM]; rfl, formatM_toM f⟩

/-- **An elided check is justified**: in a state of the front end that satisfies the invariant of the simulation
(`MInv`: the cache's entries are bounds that were checked, with the value that holds the absolute address),
`memOpSetup` emits NO instruction only if the cache holds, for this address value, a bound ≥ `offset + width`; then
`address + offset + width ≤ size`, the returned value holds `base + address`, and the state is unchanged. -/
theorem frontmem_elision_justified {mc base : Nat} {bytes : ByteArray} {s : MS} {env : Val → Nat} {mem : Mem}
    (h : MInv mc base bytes s env mem) (b ceil : Nat) (hnil : (memOpSetup s b ceil).1 = []) :
    (∃ bound, lookupBound s.bounds b = some (bound, (memOpSetup s b ceil).2.1) ∧ ceil ≤ bound) ∧
    env b + ceil ≤ bytes.size ∧ env (memOpSetup s b ceil).2.1 = base + env b ∧ (memOpSetup s b ceil).2.2 = s :=
  elision_justified h b ceil hnil

/-- **The front end produces strict SSA** (`WellFormedM`, the one-block content of `SsaPass.wellFormed` on the wrapped
instruction set): no branch instruction; the values defined — block parameters, then the results in order — are
0, 1, 2, … (each defined once); every operand is a parameter or the result of an EARLIER instruction — also the
cached memory base / length and the cached absolute addresses that an elided check reuses; the shifted operand of a
shift has the shift's type.  So no run of `runM` on the front end's output reads an undefined value.
(On functions without memory instructions `SsaPass.wellFormed (lowerSL f)` itself holds: `front_wellFormed`, and
`frontmem_conservative`.) -/
theorem frontmem_wellFormed (f : FnM) (hwt : wellTypedM f = true) : WellFormedM (lowerMem f) :=
  lowerMem_wellFormed f hwt

/-- **The validator of dead-code elimination is sound**: if `dceOK [] g.instrs g'.instrs` (only instructions of
side-effect class `none` deleted, no kept instruction uses a deleted result) and the parameters are the same, the two
one-block functions have the same outcome — result values or trap code, final memory, call trace — on every memory
and all arguments, and the accesses of `g'` are among those of `g` (only loads disappear). -/
theorem frontmem_dce_validated (w : World) (g g' : MFunc) (hp : g'.params = g.params)
    (hok : dceOK [] g.instrs g'.instrs = true) (args : List Nat) (mem0 : Mem) :
    (runM w g' args mem0).1 = (runM w g args mem0).1 ∧ (runM w g' args mem0).2.Sublist (runM w g args mem0).2 :=
  dce_validated w g g' hp hok args mem0

/-- **The validator of the passes' result is sound**: if `optValid g g'` (same, duplicate-free block parameters; every
definition fresh; `g'` is `g` with (a) shifts `Ishl/Ushr/Sshr x, c` by an `Iconst` with `c mod 2^64 mod width = 0` on an
operand of the shift's declared type deleted and ALIASED to their resolved operand — `passNopInstElimination` —,
(b) instructions of side-effect class `none` deleted whose results no kept instruction uses —
`passDeadCodeEliminationOpt` —, (c) the operands of the kept instructions resolved through the aliases), the two
one-block functions have the same outcome — result values or trap code, final memory, call trace — on every memory
and all arguments, and the accesses of `g'` are among those of `g`. -/
theorem frontmem_opt_validated (w : World) (g g' : MFunc) (hv : optValid g g' = true) (args : List Nat) (mem0 : Mem) :
    (runM w g' args mem0).1 = (runM w g args mem0).1 ∧ (runM w g' args mem0).2.Sublist (runM w g args mem0).2 :=
  opt_validated w g g' hv args mem0

/-- **Front end, then the passes** (in validated form, instead of the composition with `ssa_passes_sound`, which is
not available for these functions — see docs/C01_frontmem.md): every `g'` that the verified checker accepts as the
passes' result on `lowerMem f` refines the reference semantics and stays inside the memory.  The harness runs the
checker on the REAL output of the front end before / after the REAL `RunPasses()`: accepted on every sampled function. -/
theorem frontmem_then_passes_refines (f : FnM) (hwt : wellTypedM f = true) (args : List Nat)
    (hargs : ArgsOK f.sig args) (w : World) (ec mc base : Nat) (bytes : ByteArray) (mem0 : Mem)
    (hemb : Emb mc base bytes mem0) (n : Nat) (hn : f.body.length + 3 ≤ n)
    (g' : MFunc) (hv : optValid (lowerMem f) g' = true) :
    RefinesM mc base (runSpecM f args bytes n) (runM w g' (ec :: mc :: args) mem0).1 ∧
    Confined mc base bytes.size (runM w g' (ec :: mc :: args) mem0).2 := by
  obtain ⟨h1, h2⟩ := opt_validated w (lowerMem f) g' hv (ec :: mc :: args) mem0
  rw [h1]
  exact ⟨frontmem_refines f hwt args hargs w ec mc base bytes mem0 hemb n hn,
    fun a ha => frontmem_confined f hwt args hargs w ec mc base bytes mem0 hemb a (h2.subset ha)⟩

open Wz.Model in
/-- **The static cache is the path-level model `Wz.Model.SafeBounds`** (the object of `C02.frontend_elision_sound`).
Under the abstraction `Abs` (a lookup in the `SafeBounds` state = the lookup in the front end's static cache, with the
cached absolute-address VALUE read in the SSA environment), one `memOpSetup` is one `SafeBounds.stepAccess` on the
memory `(base, size)`: it traps in the model exactly when the access is out of bounds (and then a check was emitted);
otherwise the model's event is `ok (base + address) … checked` with `checked` = "`memOpSetup` emitted instructions"
(so the two models ELIDE THE SAME CHECKS), and the caches correspond again afterwards, for every environment that
extends the old one and holds the absolute address in the returned value (which is what the emitted instructions
establish: `memOpSetup_ok`). -/
theorem frontmem_elision_is_model {mc base : Nat} {bytes : ByteArray} {s : MS} {env : Val → Nat} {mem : Mem}
    (h : MInv mc base bytes s env mem) (st : SafeBounds.State) (habs : Abs s.bounds env st) (b off size : Nat)
    (hsz : 0 < size) :
    (bytes.size < env b + (off + size) →
      (SafeBounds.stepAccess env st ⟨base, bytes.size, base, bytes.size⟩ b off size).2 = .trap b (off + size) ∧
      (memOpSetup s b (off + size)).1 ≠ []) ∧
    (env b + (off + size) ≤ bytes.size →
      (SafeBounds.stepAccess env st ⟨base, bytes.size, base, bytes.size⟩ b off size).2 =
        .ok (base + env b) b (off + size) base bytes.size (decide ((memOpSetup s b (off + size)).1 ≠ [])) ∧
      ∀ env' : Val → Nat, (∀ v, v < s.ls.next → env' v = env v) →
        env' (memOpSetup s b (off + size)).2.1 = base + env b →
        Abs (memOpSetup s b (off + size)).2.2.bounds env'
          (SafeBounds.stepAccess env st ⟨base, bytes.size, base, bytes.size⟩ b off size).1) :=
  elision_is_model h st habs b off size hsz

/-- at the entry of a function both caches are empty and correspond -/
example (env : Val → Nat) : Abs [] env [] := by
  refine ⟨?_, fun _ => rfl⟩
  intro _ _ _ h
  cases h

/-! ## non-vacuity -/

/-- a store, then a load of ANOTHER WIDTH at an OVERLAPPING address whose check is ELIDED (ceil 5 ≤ 8) -/
def frontMemExample : FnM :=
  { params := [.i32, .i64], results := [.i32]
    locals := []
    body := [.base (.localGet 0), .base (.localGet 1), .store .i64Store 0, .base (.localGet 0), .load .i32Load16S 3] }

def noCalls : World := ⟨fun _ _ _ => none⟩
def bytes16 : ByteArray := ByteArray.mk (Array.replicate 16 7)

example : wellTypedM frontMemExample = true := by decide

/-- the text of `ssaBuilder.Format()`: ONE bounds check for the two accesses -/
example : formatM frontMemExample =
    ["blk0: (exec_ctx:i64, module_ctx:i64, v2:i32, v3:i64)", "v4:i64 = Iconst_64 0x8", "v5:i64 = UExtend v2, 32->64",
     "v6:i64 = Uload32 module_ctx, 0x10", "v7:i64 = Iadd v5, v4", "v8:i32 = Icmp lt_u, v6, v7",
     "ExitIfTrue v8, exec_ctx, memory_out_of_bounds", "v9:i64 = Load module_ctx, 0x8", "v10:i64 = Iadd v9, v5",
     "Store v3, v10, 0x0", "v11:i32 = Sload16 v10, 0x3", "Jump blk_ret, v11"] := by decide

/-- the hypotheses of the theorems hold for the example memory -/
example : Emb 0x3c00 0x100000000000 bytes16 (embed 0x3c00 0x100000000000 bytes16) :=
  frontmem_embedding_exists _ _ _ (.inl (by decide)) (by decide) (by decide) (by decide)

def outVals : Outcome → Option (List Nat)
  | .values vs _ _ => some vs
  | _ => none

def outTrap : Outcome → Option Nat
  | .trap c _ _ => some c
  | _ => none

set_option maxRecDepth 8192 in
/-- at address 4 of 16 bytes: the i64 store of 0x11223384F5667788 at 4…11, then the signed 16-bit load at 7…8 reads
0x84F5 and sign-extends it; four accesses are logged (length word, base word, the store, the load) -/
example :
    let r := runM noCalls (lowerMem frontMemExample) [0xec, 0x3c00, 4, 0x11223384F5667788] (embed 0x3c00 0x100000000000 bytes16)
    outVals r.1 = some [0xFFFF84F5] ∧
    r.2 = [⟨false, 0x3c10, 4⟩, ⟨false, 0x3c08, 8⟩, ⟨true, 0x100000000004, 8⟩, ⟨false, 0x100000000007, 2⟩] := by decide

set_option maxRecDepth 8192 in
example : (runSpecM frontMemExample [4, 0x11223384F5667788] bytes16 8).1 = .values [0xFFFF84F5] := by decide

set_option maxRecDepth 8192 in
/-- at address 9 the store of 8 bytes does not fit into 16 bytes: `ExitCodeMemoryOutOfBounds`, the only access is
the read of the length word, and the specification says `oob-memory` -/
example :
    let r := runM noCalls (lowerMem frontMemExample) [0xec, 0x3c00, 9, 1] (embed 0x3c00 0x100000000000 bytes16)
    outTrap r.1 = some codeMemOOB ∧ r.2 = [⟨false, 0x3c10, 4⟩] := by decide

set_option maxRecDepth 8192 in
example : (runSpecM frontMemExample [9, 1] bytes16 8).1 = .trap "oob-memory" := by decide

/-- an address ≥ 2^31 with an offset ≥ 2^31: the sum does not wrap, the access traps -/
def frontMemBigExample : FnM :=
  { params := [.i32], results := [.i64]
    locals := []
    body := [.base (.localGet 0), .load .i64Load32U 0x80000000] }

set_option maxRecDepth 8192 in
example : wellTypedM frontMemBigExample = true ∧
    outTrap (runM noCalls (lowerMem frontMemBigExample) [0xec, 0x3c00, 0x80000000] (embed 0x3c00 0x100000000000 bytes16)).1 =
      some codeMemOOB ∧
    (runSpecM frontMemBigExample [0x80000000] bytes16 8).1 = .trap "oob-memory" := by decide

/-- a load whose result is dropped: the real `RunPasses()` deletes the `Load` (side-effect class none) and keeps the
bounds check; the checker accepts exactly that -/
def frontMemDeadLoad : FnM :=
  { params := [.i32], results := [.i32]
    locals := []
    body := [.base (.localGet 0), .load .i32Load 0, .base .drop, .base (.localGet 0)] }

example : wellTypedM frontMemDeadLoad = true ∧
    formatM frontMemDeadLoad =
      ["blk0: (exec_ctx:i64, module_ctx:i64, v2:i32)", "v3:i64 = Iconst_64 0x4", "v4:i64 = UExtend v2, 32->64",
       "v5:i64 = Uload32 module_ctx, 0x10", "v6:i64 = Iadd v4, v3", "v7:i32 = Icmp lt_u, v5, v6",
       "ExitIfTrue v7, exec_ctx, memory_out_of_bounds", "v8:i64 = Load module_ctx, 0x8", "v9:i64 = Iadd v8, v4",
       "v10:i32 = Load v9, 0x0", "Jump blk_ret, v2"] ∧
    dceOK [] (lowerMem frontMemDeadLoad).instrs
      [.base (.iconst 3 .i64 4), .base (.un .uextend 4 .i64 2), .extload .uload32 5 .i64 1 16,
       .base (.bin .iadd 6 .i64 4 3), .base (.icmp 7 .i64 .ult 5 6), .base (.exitIf 0 7 4), .base (.ret [2])] = true ∧
    -- deleting the check is NOT accepted
    dceOK [] (lowerMem frontMemDeadLoad).instrs [.base (.ret [2])] = false ∧
    optValid (lowerMem frontMemDeadLoad) ⟨(lowerMem frontMemDeadLoad).params, [.base (.ret [2])]⟩ = false ∧
    optValid (lowerMem frontMemDeadLoad) ⟨(lowerMem frontMemDeadLoad).params,
      [.base (.iconst 3 .i64 4), .base (.un .uextend 4 .i64 2), .extload .uload32 5 .i64 1 16,
       .base (.bin .iadd 6 .i64 4 3), .base (.icmp 7 .i64 .ult 5 6), .base (.exitIf 0 7 4), .base (.ret [2])]⟩ = true := by
  decide

/-- a shift by 32 of an i32 (a no-op) feeding an address: the real passes alias `v4 ↦ v2`, delete the shift and its
constant, and resolve the operand of `UExtend`; the checker accepts that, and rejects the alias for a shift by 31 -/
def frontMemNopShift : FnM :=
  { params := [.i32], results := [.i32]
    locals := []
    body := [.base (.localGet 0), .base (.const .i32 32), .base (.bin .i32 .shl), .load .i32Load8U 0] }

example : wellTypedM frontMemNopShift = true ∧
    formatM frontMemNopShift =
      ["blk0: (exec_ctx:i64, module_ctx:i64, v2:i32)", "v3:i32 = Iconst_32 0x20", "v4:i32 = Ishl v2, v3",
       "v5:i64 = Iconst_64 0x1", "v6:i64 = UExtend v4, 32->64", "v7:i64 = Uload32 module_ctx, 0x10",
       "v8:i64 = Iadd v6, v5", "v9:i32 = Icmp lt_u, v7, v8", "ExitIfTrue v9, exec_ctx, memory_out_of_bounds",
       "v10:i64 = Load module_ctx, 0x8", "v11:i64 = Iadd v10, v6", "v12:i32 = Uload8 v11, 0x0", "Jump blk_ret, v12"] ∧
    optValid (lowerMem frontMemNopShift) ⟨(lowerMem frontMemNopShift).params,
      [.base (.iconst 5 .i64 1), .base (.un .uextend 6 .i64 2), .extload .uload32 7 .i64 1 16,
       .base (.bin .iadd 8 .i64 6 5), .base (.icmp 9 .i64 .ult 7 8), .base (.exitIf 0 9 4),
       .base (.load 10 .i64 1 8), .base (.bin .iadd 11 .i64 10 6), .extload .uload8 12 .i32 11 0, .base (.ret [12])]⟩ = true := by
  decide

/-- **the hypothesis `size < 2^32` of the embedding is needed (finding F13, known)**: when the module context says
that the memory is 2^32 bytes long, the lowered `i32.load8_u` at address 0 — in bounds for such a memory — exits with
`ExitCodeMemoryOutOfBounds`: the length is read with `Uload32`, which sees 0 -/
theorem frontmem_len_4gib_witness :
    outTrap (runM noCalls (lowerMem { params := [.i32], results := [.i32], locals := [],
                                      body := [.base (.localGet 0), .load .i32Load8U 0] })
      [0xec, 0x3c00, 0] (memStore (memStore [] 0x3c08 0x100000000000 8) 0x3c10 (2 ^ 32) 8)).1 = some codeMemOOB := by
  decide

example : WellFormedM (lowerMem frontMemExample) := frontmem_wellFormed _ (by decide)

/-- the theorems instantiated on the example, for all arguments -/
example (a v : Nat) (ha : a < 2 ^ 32) (hv : v < 2 ^ 64) (w : World) :
    RefinesM 0x3c00 0x100000000000 (runSpecM frontMemExample [a, v] bytes16 8)
      (runM w (lowerMem frontMemExample) [0xec, 0x3c00, a, v] (embed 0x3c00 0x100000000000 bytes16)).1 ∧
    Confined 0x3c00 0x100000000000 16 (runM w (lowerMem frontMemExample) [0xec, 0x3c00, a, v] (embed 0x3c00 0x100000000000 bytes16)).2 := by
  have hargs : ArgsOK frontMemExample.sig [a, v] := by
    refine ⟨rfl, ?_⟩
    intro p hp
    simp only [frontMemExample, FnM.sig, List.zip_cons_cons, List.zip_nil_right, List.mem_cons, List.not_mem_nil,
      or_false] at hp
    rcases hp with rfl | rfl
    · exact ha
    · exact hv
  have hemb : Emb 0x3c00 0x100000000000 bytes16 (embed 0x3c00 0x100000000000 bytes16) :=
    frontmem_embedding_exists _ _ _ (.inl (by decide)) (by decide) (by decide) (by decide)
  exact ⟨frontmem_refines _ (by decide) _ hargs w _ _ _ _ _ hemb 8 (by decide),
    frontmem_confined _ (by decide) _ hargs w _ _ _ _ _ hemb⟩

end Wz.C01
