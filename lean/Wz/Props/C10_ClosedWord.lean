import Wz.Gen.Shapes

/-!
# C10 companion: the runtime's closed word

`Runtime.CloseWithExitCode` publishes "closed with exit code c" as ONE 64-bit word that is compared with 0 by every later
operation (`failIfClosed`) and claimed by a compare-and-swap from 0.  The word has to be non-zero for EVERY exit code,
and the exit code has to be recoverable from it.  `1 + c·2^32` does both (`closed_word_ne_zero`,
`closed_word_exit_code`); the tempting shorter encoding `c + 1` computed in 32 bits is 0 for the exit code 0xffffffff
(`sys.ExitCodeContextCanceled`): the runtime would close its store and engine and still believe it is open
(`succ32_word_zero_witness`, seeded change C10-8).  The source text of the definition, of the test and of the recovery
is a regenerated shape.
-/

namespace Wz.C10

/-- `uint64(1) + uint64(exitCode)<<32` -/
def closedWord (c : BitVec 32) : BitVec 64 := 1#64 + (c.zeroExtend 64) <<< 32

/-- `uint64(exitCode + 1)` -/
def succ32Word (c : BitVec 32) : BitVec 64 := (c + 1#32).zeroExtend 64

theorem closed_word_toNat (c : BitVec 32) : (closedWord c).toNat = 1 + c.toNat * 2 ^ 32 := by
  have h := c.isLt
  simp only [closedWord, BitVec.toNat_add, BitVec.toNat_shiftLeft, BitVec.toNat_setWidth, BitVec.toNat_ofNat]
  rw [Nat.shiftLeft_eq]
  omega

/-- the word is non-zero for every exit code: a closed runtime is never mistaken for an open one -/
theorem closed_word_ne_zero (c : BitVec 32) : closedWord c ≠ 0#64 := by
  intro h
  have := congrArg BitVec.toNat h
  rw [closed_word_toNat] at this
  simp at this

/-- `uint32(closed >> 32)` recovers the exit code -/
theorem closed_word_exit_code (c : BitVec 32) : ((closedWord c) >>> 32).truncate 32 = c := by
  apply BitVec.eq_of_toNat_eq
  have h := c.isLt
  simp only [BitVec.truncate, BitVec.toNat_setWidth, BitVec.toNat_ushiftRight, closed_word_toNat, Nat.shiftRight_eq_div_pow]
  omega

/-- two different exit codes give two different words (the first close wins and its code is the one reported) -/
theorem closed_word_injective (a b : BitVec 32) (h : closedWord a = closedWord b) : a = b := by
  rw [← closed_word_exit_code a, ← closed_word_exit_code b, h]

/-- the 32-bit successor encoding loses the exit code 0xffffffff: its word is 0 = "never closed" -/
theorem succ32_word_zero_witness : succ32Word 0xffffffff#32 = 0#64 := by decide

theorem runtime_closed_word_shape :
    Wz.Gen.Shapes.get "c10.runtime_closed_word" =
      some "closed := uint64(1) + uint64(exitCode)<<32 ;; closed := r.closed.Load(); closed != 0 ;; uint32(closed >> 32)" := by
  decide

end Wz.C10
