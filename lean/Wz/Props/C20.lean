/- C20: property theorems (none yet). -/
namespace Wz.C20
end Wz.C20
