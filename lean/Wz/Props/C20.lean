/-
C20 — Function listeners see every call, correctly bracketed.

Theorems about `Wz.Model.Listener.run` (the event stream of a call forest as each engine produces it).
Engine variants (`Engine` record = the finding switches): `interpAsIs`, `wazevoAsIs` (the code as it is) and
`repaired`.  The harness selects, per engine, the variant that the real code is tied to on each run.
-/
import Wz.Model.Listener
import Wz.Proofs.C20_Bracket
import Wz.Proofs.C20_Project
import Wz.Proofs.C20_Params

namespace Wz.C20
open Wz.Model.Listener

/-! ### Bracketing -/

/-- General form: any engine variant brackets its events on every forest that meets `good`
(no in-place/jump tail call, overflow panics without announcing the call, chains within the abort cap). -/
theorem events_bracketed_of_good (E : Engine) (C : Cfg) (fr : Forest) (h : good E C 0 fr = true) :
    WellBracketed (events E C fr) := by
  have := run_post E C fr true [] [] 0 h rfl
  unfold WellBracketed events
  simp only [Post, if_true] at this
  cases hr : (run E C true [] fr).2 with
  | none => rw [hr] at this; exact this
  | some fl => rw [hr] at this; exact this

theorem good_repaired (C : Cfg) : ∀ fr d, good repaired C d fr = true := by
  intro fr
  induction fr with
  | done => intro d; rfl
  | call tail f args body out next ihb ihn =>
    intro d
    have hb := ihb (if C.host f = true then 0 else d + 1)
    have hn := ihn d
    unfold repaired at hb hn
    simp only [good, repaired, Bool.or_self, Bool.and_false, Bool.not_false, Bool.not_false, Bool.and_self,
      Bool.or_true, Bool.true_and, hb, hn]

/-- FULL STRENGTH (repaired variant): for every call forest (every call form, nesting, traps, exits, host
panics, overflow, tail calls), every host/listener assignment: every `Before` is matched by exactly one
`After`/`Abort`, properly nested. -/
theorem events_bracketed (C : Cfg) (fr : Forest) : WellBracketed (events repaired C fr) :=
  events_bracketed_of_good repaired C fr (good_repaired C fr 0)

theorem good_of_syntactic (E : Engine) (C : Cfg) (c : Nat) (hc : E.abortCap = some c) :
    ∀ fr d, noTail fr = true → noOverflow fr = true → fits C c d fr = true → good E C d fr = true := by
  intro fr
  induction fr with
  | done => intro d _ _ _; rfl
  | call tail f args body out next ihb ihn =>
    intro d ht ho hf
    simp only [noTail, noOverflow, fits, Bool.and_eq_true, Bool.not_eq_true', bne_iff_ne, ne_eq, decide_eq_true_eq] at ht ho hf
    obtain ⟨⟨ht1, ht2⟩, ht3⟩ := ht
    obtain ⟨⟨ho1, ho2⟩, ho3⟩ := ho
    obtain ⟨⟨hf1, hf2⟩, hf3⟩ := hf
    simp only [good, hc, ht1, Bool.false_and, Bool.not_false, Bool.true_and, Bool.and_eq_true, Bool.or_eq_true,
      bne_iff_ne, ne_eq, decide_eq_true_eq]
    exact ⟨⟨⟨Or.inl ho1, hf1⟩, ihb _ ht2 ho2 hf2⟩, ihn _ ht3 ho3 hf3⟩

/-- PARTIAL (interpreter as it is).  Full statement: `∀ C fr, WellBracketed (events interpAsIs C fr)` — false:
`deep_unwind_witness`, `interp_overflow_witness`, `interp_tail_witness`.  Proved under: no call chain inside
one call engine deeper than 30 frames, no stack overflow, no tail call. -/
theorem events_bracketed_interp_partial (C : Cfg) (fr : Forest)
    (ht : noTail fr = true) (ho : noOverflow fr = true) (hf : fits C 30 0 fr = true) :
    WellBracketed (events interpAsIs C fr) :=
  events_bracketed_of_good _ C fr (good_of_syntactic _ C 30 rfl fr 0 ht ho hf)

/-- PARTIAL (compiler as it is).  Full statement false: `wazevo_deep_unwind_witness`,
`overflow_no_abort_witness`, `wazevo_tail_witness`. Same hypotheses as for the interpreter. -/
theorem events_bracketed_wazevo_partial (C : Cfg) (fr : Forest)
    (ht : noTail fr = true) (ho : noOverflow fr = true) (hf : fits C 30 0 fr = true) :
    WellBracketed (events wazevoAsIs C fr) :=
  events_bracketed_of_good _ C fr (good_of_syntactic _ C 30 rfl fr 0 ht ho hf)

/-! ### Witnesses of the findings (concrete counterexamples, evaluated by the kernel) -/

def allOn : Cfg := { host := fun f => f == 3, lsn := fun _ => true }

/-- 31 nested calls (f1/f2 alternating), the innermost executes `unreachable`. -/
def deep31 : Forest := chain 1 2 30 (.node 1 [0] .done (.fail .unreachable))
/-- unbounded recursion cut off by the engine after 5 frames (the depth is implementation-defined). -/
def overflow5 : Forest := chain 1 2 5 (.node 2 [0] .done (.fail .overflow))
/-- f1 leaves through `return_call f2`. -/
def tail12 : Forest := .node 1 [] (.call true 2 [3] .done (.ret [10]) .done) (.ret [10])

/-- F22: the interpreter as it is leaves the outermost of 31 frames open. -/
theorem deep_unwind_witness : ¬ WellBracketed (events interpAsIs allOn deep31) := by decide
/-- F22 (compiler): same cap through `UnwindStack`. -/
theorem wazevo_deep_unwind_witness : ¬ WellBracketed (events wazevoAsIs allOn deep31) := by decide
/-- F21: the compiler as it is delivers no `Abort` at all on stack overflow. -/
theorem overflow_no_abort_witness : ¬ WellBracketed (events wazevoAsIs allOn overflow5) := by decide
/-- F22b: the interpreter announces the call that overflows (Before) although it never gets a frame. -/
theorem interp_overflow_witness : ¬ WellBracketed (events interpAsIs allOn overflow5) := by decide
/-- F31: interpreter, in-place tail call: the callee gets no events at all (here the stream stays
bracketed but the call of f2 is invisible) ... -/
theorem interp_tail_witness :
    events interpAsIs allOn tail12 = [.before 1 [] [1], .after 1 [10]] := by decide
/-- F32: compiler, tail call as a jump: the caller is never closed. -/
theorem wazevo_tail_witness : ¬ WellBracketed (events wazevoAsIs allOn tail12) := by decide
/-- F30: the compiler's stack iterator lists 29 of the 31 frames at the innermost `Before`. -/
theorem wazevo_stack_truncated_witness :
    ((events wazevoAsIs allOn deep31).filterMap (fun e => match e with
      | .before _ [0] s => some s.length | _ => none)) = [29] := by decide
/-- the repaired variant on the same inputs (test, not a proof of the general statement) -/
example : WellBracketed (events repaired allOn deep31) := by decide
example : WellBracketed (events repaired allOn overflow5) := by decide
example : events repaired allOn tail12 = [.before 1 [] [1], .before 2 [3] [2, 1], .after 2 [10], .after 1 [10]] := by decide

/-- non-vacuity of the `_partial` hypotheses: a 30-frame chain with a host call-back that traps meets them -/
example : noTail (chain 1 2 29 (.node 3 [] (.node 1 [7] .done (.fail .divZero)) (.ret []))) = true ∧
    noOverflow (chain 1 2 29 (.node 3 [] (.node 1 [7] .done (.fail .divZero)) (.ret []))) = true ∧
    fits allOn 30 0 (chain 1 2 29 (.node 3 [] (.node 1 [7] .done (.fail .divZero)) (.ret []))) = true := by decide

/-! ### Listener subsets: results and events -/

/-- `results_independent_of_listeners`: the outcome of a run (which failure, if any, and the frames unwound)
is the same for every listener assignment — for every engine variant and forest. (The values returned are tree data;
that the real engines return the same values with and without listeners is checked by the harness monitor.) -/
theorem results_independent_of_listeners (E : Engine) (host : Nat → Bool) (S S' : Nat → Bool) (fr : Forest) :
    result E ⟨host, S⟩ fr = result E ⟨host, S'⟩ fr := by
  unfold result
  rw [(run_project E host S fr true []).2, (run_project E host S' fr true []).2]

/-- `subset_events_are_projection`: what a listener subset `S` sees is exactly the projection of what all listeners
see — same order, same parameters/results, same stack snapshots. For every engine variant and forest. -/
theorem subset_events_are_projection (E : Engine) (host : Nat → Bool) (S : Nat → Bool) (fr : Forest) :
    events E ⟨host, S⟩ fr = (events E ⟨host, fun _ => true⟩ fr).filter (fun e => S e.fn) :=
  (run_project E host S fr true []).1

/-- `events_carry_actual_params_results`: for EVERY engine variant, listener assignment and forest, each `Before`
in the stream carries the function and the arguments of a call node of the forest, and each `After` the function and
the returned values of a node that returns: no event is invented, none carries another call's values. (Which node
the values are compared with on the real engines is tie B: the reference evaluator.) -/
theorem events_carry_actual_params_results (E : Engine) (C : Cfg) (fr : Forest) :
    (∀ f a s, Event.before f a s ∈ events E C fr → (f, a) ∈ calls fr) ∧
    (∀ f v, Event.after f v ∈ events E C fr → (f, Outcome.ret v) ∈ outs fr) :=
  ⟨fun f a s h => (run_isEventOf E C fr true [] (.before f a s) h).1,
   fun f v h => run_isEventOf E C fr true [] (.after f v) h⟩

/-- `stack_iterator_starts_at_callee` (a first part of `stack_iterator_is_chain`): for every engine variant whose stack
iterator yields at least one frame (`stackCap ≠ some 0`; all three variants), every forest and listener assignment, the
first frame the iterator handed to `Before` yields is the function being called. -/
theorem stack_iterator_starts_at_callee (E : Engine) (C : Cfg) (fr : Forest) (hc : E.stackCap ≠ some 0) :
    ∀ f a s, Event.before f a s ∈ events E C fr → s.head? = some f :=
  fun f a s h => (run_isEventOf E C fr true [] (.before f a s) h).2 hc

/-- the hypothesis holds for the three engine variants of the model -/
example : interpAsIs.stackCap ≠ some 0 ∧ wazevoAsIs.stackCap ≠ some 0 ∧ repaired.stackCap ≠ some 0 := by decide

/-- the statement is not vacuous: the stream of the tail-call sample has both kinds of event -/
example : Event.before 2 [3] [2, 1] ∈ events repaired allOn tail12 ∧ Event.after 2 [10] ∈ events repaired allOn tail12 := by
  decide

/-
Not proved here (left out for time; covered by ties B and C on the real code):
* `stack_iterator_is_chain` (beyond `stack_iterator_starts_at_callee` above): in the model the snapshot at a `Before` is `snapshot E (f :: st)` where `st` is the chain of the
  enclosing calls of the same call engine, all frames with or without listener, by construction of `run`;
  `subset_events_are_projection` shows it does not depend on the listener set, `wazevo_stack_truncated_witness` shows the
  as-is compiler truncates it (F30). The harness monitor `chainMonitor` checks it against the open-call stack of the real stream.
* (`params_results_actual` is now `events_carry_actual_params_results` above.)
* `engines_same_events`: the as-is variants differ only in `beforeAtOverflow/overflowPanics/tail*/stackCap`; equality of the two
  real engines' streams is checked directly by the harness (`C20:engines-differ`).
-/

end Wz.C20
