/-
C01 (front end, structured control flow) — the optimizing compiler's translation of a WebAssembly function body with
`block`, `loop`, `if`/`else`, `br`, `br_if`, `return`, `unreachable` to SSA basic blocks
(`internal/engine/wazevo/frontend`: `LowerToSSA`, `lowerCurrentOpcode`; `ssa.Builder`: `findValue`, `Seal`, block
parameters for variables).

Model: `Wz.Model.FrontendCF` (`lowerCF : Function → SsaPass.Func`: the control frames, the blocks in allocation
order, `findValue` with placeholders / temporaries / aliases / added block parameters, sealing, unreachable code; tied
to the real front end by the harness `hfrontcf`: the model predicts the text of `ssaBuilder.Format()` line by line
- block ids, block parameters, predecessor lists, value ids, branch arguments - and the alias table; see
docs/C01_frontcf.md).
Source semantics: `FrontendCF.runSpec`, i.e. `Wz.Spec.Wasm.invoke` on the embedding.  Target semantics:
`Wz.Model.SsaPass.run`.

What is proved.

* `frontcf_refines_validated`, `frontcf_refines_validated_backward`, `frontcf_diverges_validated`
  (together: `frontcf_refines_validated_full`): for EVERY function `f` that the decidable checker
  `FrontendCFCheck.validate` accepts (a translation validator: it re-walks `f` against `lowerCF f` with a certificate
  read off the builder's final state; it contains the stack typing of live code, block types without parameters), every
  argument vector within the parameter types, context arguments, callee world: if the reference semantics TERMINATES
  with fuel `n` (values, or a trap: unreachable / division by zero / overflow), the SSA run of `lowerCF f` has exactly
  that outcome for every fuel from some `k` on - loops, branches out of nested blocks, early returns, joins of
  different definitions of a local included; conversely every outcome of the SSA run other than "out of fuel" is the
  outcome of the reference semantics for some fuel; and the reference semantics diverges iff the SSA run does.
  `validate f` is NOT proved for all well-typed `f` (that is the correctness of the SSA-construction algorithm
  `findValue` itself); the harness evaluates it on every generated function (it never failed: docs/C01_frontcf.md).
  `frontcf_refines_partial` is the same theorem under the name the conventions ask for.
* `frontcf_conservative`: on straight-line functions `lowerCF` IS `lowerSL`; `frontcf_refines_straightline`,
  `frontcf_wellFormed_straightline`: the UNCONDITIONAL theorems of `C01_Front` therefore hold for `lowerCF` on that
  fragment.
* `frontcf_passes_sound`: `runPasses` preserves the outcome of every function that passes `wellFormedA` (`SsaPass.WF`
  for the certificate extended to the temporaries `findValue` aliases: `SsaPass.wellFormed` itself rejects them,
  see `frontcf_wellFormed_rejects_alias`); `frontcf_then_passes_refines`: specification → SSA → optimised SSA for
  functions that pass both checks.
* `frontcf_resolve_sound`: resolving all operands through the alias table does not change the outcome.

The full statements `frontcf_refines` / `frontcf_wellFormed` (for all well-typed functions, no checker) are kept as
comments at the end with what is missing.
-/
import Wz.Proofs.C01_FrontCF
import Wz.Proofs.C01_FrontCF_Div
import Wz.Proofs.C01_FrontCF_Cons
import Wz.Props.C01_Front

namespace Wz.C01
open Wz.Model.SsaPass Wz.Model.FrontendSL Wz.Model.FrontendCF Wz.Proofs.FrontCF Wz.Proofs.Front Wz.Spec

/-! ### validated refinement -/

/-- **The front end preserves the semantics of every function the checker accepts** (forward direction): if the
reference semantics terminates - with result values or with a trap - then from some fuel on the SSA function the
front end produces has exactly that outcome (same values, or the exit code of the same trap; no memory write, no
call). -/
theorem frontcf_refines_validated (f : Function) (hv : validate f = true) (args : List Nat)
    (hargs : ArgsOK f.sig args) (w : World) (ec mc : Nat) (n : Nat)
    (hterm : Wz.Model.FrontendCF.runSpec f args n ≠ .exhausted) :
    ∃ k, ∀ fuel, run w (lowerCF f) (ec :: mc :: args) (fuel + k) = ofSpecCF (Wz.Model.FrontendCF.runSpec f args n) :=
  refines_validated f hv args hargs w ec mc n hterm

/-- **Backward direction**: whatever the SSA run of the front end's output ends with (result values, or a trap) is
what the reference semantics ends with, for some fuel. -/
theorem frontcf_refines_validated_backward (f : Function) (hv : validate f = true) (args : List Nat)
    (hargs : ArgsOK f.sig args) (w : World) (ec mc : Nat) (fuel : Nat) (o : Outcome)
    (h : run w (lowerCF f) (ec :: mc :: args) fuel = o) (ho : o ≠ .outOfFuel) :
    ∃ n, Wz.Model.FrontendCF.runSpec f args n ≠ .exhausted ∧
      ofSpecCF (Wz.Model.FrontendCF.runSpec f args n) = o :=
  refines_validated_backward f hv args hargs w ec mc fuel o h ho

/-- **Divergence is preserved**: the reference semantics exhausts every fuel iff the SSA run exhausts every fuel. -/
theorem frontcf_diverges_validated (f : Function) (hv : validate f = true) (args : List Nat)
    (hargs : ArgsOK f.sig args) (w : World) (ec mc : Nat) :
    (∀ n, Wz.Model.FrontendCF.runSpec f args n = .exhausted) ↔
    (∀ fuel, run w (lowerCF f) (ec :: mc :: args) fuel = .outOfFuel) := by
  constructor
  · exact diverges_validated f hv args hargs w ec mc
  · intro hdiv n
    cases hn : Wz.Model.FrontendCF.runSpec f args n with
    | exhausted => rfl
    | values vs =>
      obtain ⟨k, hk⟩ := frontcf_refines_validated f hv args hargs w ec mc n (by rw [hn]; simp)
      have := hk 0
      rw [hdiv, hn] at this
      cases this
    | trap kd =>
      obtain ⟨k, hk⟩ := frontcf_refines_validated f hv args hargs w ec mc n (by rw [hn]; simp)
      have := hk 0
      rw [hdiv, hn] at this
      cases this

/-- **Refinement for functions the checker accepts, all three parts**: forward, backward, divergence. -/
theorem frontcf_refines_validated_full (f : Function) (hv : validate f = true) (args : List Nat)
    (hargs : ArgsOK f.sig args) (w : World) (ec mc : Nat) :
    (∀ n, Wz.Model.FrontendCF.runSpec f args n ≠ .exhausted →
      ∃ k, ∀ fuel, run w (lowerCF f) (ec :: mc :: args) (fuel + k) =
        ofSpecCF (Wz.Model.FrontendCF.runSpec f args n)) ∧
    (∀ fuel o, run w (lowerCF f) (ec :: mc :: args) fuel = o → o ≠ .outOfFuel →
      ∃ n, Wz.Model.FrontendCF.runSpec f args n ≠ .exhausted ∧
        ofSpecCF (Wz.Model.FrontendCF.runSpec f args n) = o) ∧
    ((∀ n, Wz.Model.FrontendCF.runSpec f args n = .exhausted) ↔
      (∀ fuel, run w (lowerCF f) (ec :: mc :: args) fuel = .outOfFuel)) :=
  ⟨fun n h => frontcf_refines_validated f hv args hargs w ec mc n h,
   fun fuel o h ho => frontcf_refines_validated_backward f hv args hargs w ec mc fuel o h ho,
   frontcf_diverges_validated f hv args hargs w ec mc⟩


/-- `frontcf_refines`, PARTIAL: the full statement (see the end of the file) with the decidable hypothesis
`validate f = true` in place of `wellTyped f = true`.  Missing for the full statement: `wellTyped f → validate f`. -/
theorem frontcf_refines_partial (f : Function) (hv : validate f = true) (args : List Nat)
    (hargs : ArgsOK f.sig args) (w : World) (ec mc : Nat) :
    (∀ n, Wz.Model.FrontendCF.runSpec f args n ≠ .exhausted →
      ∃ k, ∀ fuel, run w (lowerCF f) (ec :: mc :: args) (fuel + k) =
        ofSpecCF (Wz.Model.FrontendCF.runSpec f args n)) ∧
    (∀ fuel o, run w (lowerCF f) (ec :: mc :: args) fuel = o → o ≠ .outOfFuel →
      ∃ n, Wz.Model.FrontendCF.runSpec f args n ≠ .exhausted ∧
        ofSpecCF (Wz.Model.FrontendCF.runSpec f args n) = o) ∧
    ((∀ n, Wz.Model.FrontendCF.runSpec f args n = .exhausted) ↔
      (∀ fuel, run w (lowerCF f) (ec :: mc :: args) fuel = .outOfFuel)) :=
  frontcf_refines_validated_full f hv args hargs w ec mc

theorem frontcf_ofSsaCF_ofSpecCF (o : Wz.Spec.Wasm.Outcome)
    (h : ∀ k, o = .trap k → k = "unreachable" ∨ k = "div0" ∨ k = "overflow") : ofSsaCF (ofSpecCF o) = o := by
  cases o with
  | values vs => rfl
  | exhausted => rfl
  | trap k =>
    rcases h k rfl with rfl | rfl | rfl <;> decide

/-- the outcome of the reference semantics does not depend on the fuel, once it terminates (a consequence of the
refinement: both outcomes are the outcome of the same SSA run) -/
theorem frontcf_spec_deterministic (f : Function) (hv : validate f = true) (args : List Nat)
    (hargs : ArgsOK f.sig args) (n n' : Nat)
    (h : Wz.Model.FrontendCF.runSpec f args n ≠ .exhausted)
    (h' : Wz.Model.FrontendCF.runSpec f args n' ≠ .exhausted) :
    ofSpecCF (Wz.Model.FrontendCF.runSpec f args n) = ofSpecCF (Wz.Model.FrontendCF.runSpec f args n') := by
  obtain ⟨k, hk⟩ := frontcf_refines_validated f hv args hargs ⟨fun _ _ _ => none⟩ 0 0 n h
  obtain ⟨k', hk'⟩ := frontcf_refines_validated f hv args hargs ⟨fun _ _ _ => none⟩ 0 0 n' h'
  have h1 := hk k'
  have h2 := hk' k
  rw [Nat.add_comm] at h2
  rw [← h1, ← h2]

/-! ### conservativity over the straight-line front end -/

/-- **On straight-line functions the structured translation is the straight-line one** (`lowerSL` of
`Wz.Model.FrontendSL`, for which the refinement and well-formedness are proved unconditionally). -/
theorem frontcf_conservative (f : Fn) (hwt : Wz.Model.FrontendSL.wellTyped f = true) : lowerCF (ofFn f) = lowerSL f :=
  lowerCF_ofFn f hwt

theorem frontcf_toInstrs_ops (l : List SI) : toInstrs (l.map CI.op) = l.map SI.toInstr := by
  induction l with
  | nil => rfl
  | cons i is ih => simp only [List.map_cons, toInstrs, CI.toInstr, ih]

/-- … and so is the reference semantics -/
theorem frontcf_runSpec_ofFn (f : Fn) (args : List Nat) (n : Nat) :
    Wz.Model.FrontendCF.runSpec (ofFn f) args n = Wz.Model.FrontendSL.runSpec f args n := by
  simp only [Wz.Model.FrontendCF.runSpec, Wz.Model.FrontendSL.runSpec, Function.toModule, Fn.toModule, ofFn,
    frontcf_toInstrs_ops]

/-- **Unconditional refinement on the straight-line fragment**, for `lowerCF` (from `front_refines`). -/
theorem frontcf_refines_straightline (f : Fn) (hwt : Wz.Model.FrontendSL.wellTyped f = true) (args : List Nat)
    (hargs : ArgsOK f args) (w : World) (ec mc : Nat) (fuel n : Nat) (hn : f.body.length + 3 ≤ n) :
    run w (lowerCF (ofFn f)) (ec :: mc :: args) (fuel + 1) = ofSpec (Wz.Model.FrontendCF.runSpec (ofFn f) args n) ∧
    Wz.Model.FrontendCF.runSpec (ofFn f) args n ≠ .exhausted := by
  rw [frontcf_conservative f hwt, frontcf_runSpec_ofFn]
  exact front_refines f hwt args hargs w ec mc fuel n hn

/-- **Unconditional well-formedness on the straight-line fragment** (from `front_wellFormed`). -/
theorem frontcf_wellFormed_straightline (f : Fn) (hwt : Wz.Model.FrontendSL.wellTyped f = true) :
    wellFormed (lowerCF (ofFn f)) = true := by
  rw [frontcf_conservative f hwt]
  exact front_wellFormed f hwt

/-- `frontcf_wellFormed`, PARTIAL: unconditional on the straight-line fragment (with `SsaPass.wellFormed` itself).  For
control flow the statement is false for `SsaPass.wellFormed` (`frontcf_wellFormed_rejects_alias` below) and not proved
for `wellFormedA` (it is a decidable hypothesis of `frontcf_then_passes_refines`, evaluated by the harness on every
function). -/
theorem frontcf_wellFormed_partial (f : Fn) (hwt : Wz.Model.FrontendSL.wellTyped f = true) :
    wellFormed (lowerCF (ofFn f)) = true ∧ wellFormedA (lowerCF (ofFn f)) = true := by
  refine ⟨frontcf_wellFormed_straightline f hwt, ?_⟩
  have h := frontcf_wellFormed_straightline f hwt
  have hal : (lowerCF (ofFn f)).alias = [] := by rw [frontcf_conservative f hwt]; rfl
  -- without aliases the extended certificate is the computed one
  have hd : (deadBlockElim (lowerCF (ofFn f))).alias = [] := by
    unfold deadBlockElim
    cases reachable (lowerCF (ofFn f)) <;> simp [hal]
  have hc : certA (deadBlockElim (lowerCF (ofFn f))) = computeCert (deadBlockElim (lowerCF (ofFn f))) := by
    simp only [certA, hd, aliasGet]
  simp only [wellFormedA, hc]
  exact h

/-! ### composition with the SSA passes -/

/-- resolving every operand through the alias table (what the passes do on the fly) keeps the outcome -/
theorem frontcf_resolve_sound (w : World) (g : Func) (args : List Nat) (fuel : Nat) :
    run w (resolveOps g) args fuel = run w g args fuel :=
  resolveOps_run w g args fuel

/-- **The passes preserve the outcome of every function that passes `wellFormedA`** (`SsaPass.WF` with the
certificate `certA`, which also ranks and types the temporaries `findValue` aliased); also with the alias table
dropped, as the back end sees it. -/
theorem frontcf_passes_sound (w : World) (g : Func) (h : wellFormedA g = true) (args : List Nat) (fuel : Nat) :
    run w (runPasses g) args fuel = run w g args fuel ∧
    run w { runPasses g with alias := [] } args fuel = run w g args fuel :=
  passes_sound_of_wellFormedA w g h args fuel

/-- **Specification → SSA → optimised SSA**, for functions that pass both checks. -/
theorem frontcf_then_passes_refines (f : Function) (hv : validate f = true)
    (hwf : wellFormedA (lowerCF f) = true) (args : List Nat) (hargs : ArgsOK f.sig args) (w : World) (ec mc : Nat)
    (n : Nat) (hterm : Wz.Model.FrontendCF.runSpec f args n ≠ .exhausted) :
    ∃ k, ∀ fuel,
      run w (runPasses (lowerCF f)) (ec :: mc :: args) (fuel + k) =
        ofSpecCF (Wz.Model.FrontendCF.runSpec f args n) ∧
      run w { runPasses (lowerCF f) with alias := [] } (ec :: mc :: args) (fuel + k) =
        ofSpecCF (Wz.Model.FrontendCF.runSpec f args n) := by
  obtain ⟨k, hk⟩ := frontcf_refines_validated f hv args hargs w ec mc n hterm
  refine ⟨k, fun fuel => ?_⟩
  obtain ⟨h1, h2⟩ := frontcf_passes_sound w (lowerCF f) hwf (ec :: mc :: args) (fuel + k)
  exact ⟨by rw [h1, hk], by rw [h2, hk]⟩

/-- … in all three parts: forward, backward, divergence (the passes do not change the outcome at any fuel) -/
theorem frontcf_then_passes_refines_full (f : Function) (hv : validate f = true)
    (hwf : wellFormedA (lowerCF f) = true) (args : List Nat) (hargs : ArgsOK f.sig args) (w : World) (ec mc : Nat) :
    (∀ n, Wz.Model.FrontendCF.runSpec f args n ≠ .exhausted →
      ∃ k, ∀ fuel, run w (runPasses (lowerCF f)) (ec :: mc :: args) (fuel + k) =
        ofSpecCF (Wz.Model.FrontendCF.runSpec f args n)) ∧
    (∀ fuel o, run w (runPasses (lowerCF f)) (ec :: mc :: args) fuel = o → o ≠ .outOfFuel →
      ∃ n, Wz.Model.FrontendCF.runSpec f args n ≠ .exhausted ∧
        ofSpecCF (Wz.Model.FrontendCF.runSpec f args n) = o) ∧
    ((∀ n, Wz.Model.FrontendCF.runSpec f args n = .exhausted) ↔
      (∀ fuel, run w (runPasses (lowerCF f)) (ec :: mc :: args) fuel = .outOfFuel)) := by
  have hp : ∀ fuel, run w (runPasses (lowerCF f)) (ec :: mc :: args) fuel = run w (lowerCF f) (ec :: mc :: args) fuel :=
    fun fuel => (frontcf_passes_sound w (lowerCF f) hwf (ec :: mc :: args) fuel).1
  obtain ⟨h1, h2, h3⟩ := frontcf_refines_validated_full f hv args hargs w ec mc
  refine ⟨fun n hn => ?_, fun fuel o h ho => ?_, ?_⟩
  · obtain ⟨k, hk⟩ := h1 n hn
    exact ⟨k, fun fuel => by rw [hp, hk]⟩
  · exact h2 fuel o (by rw [← hp]; exact h) ho
  · rw [h3]
    constructor
    · intro h fuel; rw [hp]; exact h fuel
    · intro h fuel; rw [← hp]; exact h fuel

/-- the alias table the front end hands to the passes is in the resolved form the pass model keeps (no target of an
entry is itself a key), for EVERY function -/
theorem frontcf_alias_normal_form (f : Function) : AliasNF (lowerCF f).alias := by
  show AliasNF (aliasTable (build f).aliases)
  unfold aliasTable
  generalize (build f).aliases = as
  suffices h : ∀ (al : List (Val × Val)), AliasNF al → AliasNF (as.foldl (fun al p => aliasInsert al p.1 p.2) al) from
    h [] aliasNF_nil
  induction as with
  | nil => intro al h; exact h
  | cons p ps ih => intro al h; exact ih _ (aliasNF_insert h p.1 p.2)

/-! ### non-vacuity -/

/-- the callee world of the tests below (the fragment has no calls) -/
def frontcfWorld : World := ⟨fun _ _ _ => none⟩

theorem frontcf_sadd (a b : Nat) (hb : b < 2 ^ 32) :
    Num.scalar "i32.add" [a, b] = some (.val (evalBin .iadd .i32 a b)) := scalar_bin .i32 .add a b hb
theorem frontcf_sltu (a b : Nat) : Num.scalar "i32.lt_u" [a, b] = some (.val (evalCond .ult .i32 a b)) :=
  scalar_rel .i32 .ltU a b
theorem frontcf_sgeu (a b : Nat) : Num.scalar "i32.ge_u" [a, b] = some (.val (evalCond .uge .i32 a b)) :=
  scalar_rel .i32 .geU a b

/-- evaluation of the reference semantics on a concrete input (a test) -/
macro "frontcf_eval" : tactic => `(tactic|
  simp +decide [Wz.Model.FrontendCF.runSpec, Wasm.invoke, Wasm.callFunc, Wasm.funcType, Function.toModule,
    toInstrs, CI.toInstr, SI.toInstr, Wasm.execSeq, Wasm.execInstr, Wasm.splitTop, binName, relName, frontcf_sadd,
    frontcf_sltu, frontcf_sgeu, Wasm.numResult, evalBin, evalCond, Ty.bits])

/-- a counted loop: `do { c = c + 1 } while (c < n); return c`.  The loop header gets one block parameter per local
(the placeholders of `findValue` in the unsealed header, made parameters by `Seal`), the back edge passes the new
counter. -/
def frontcfLoop : Function := Function.mk [.i32] [.i32] [.i32]
  [.loop ⟨[], []⟩ [.op (.localGet 1), .op (.const .i32 1), .op (.bin .i32 .add), .op (.localTee 1),
      .op (.localGet 0), .op (.rel .i32 .ltU), .brIf 0],
   .op (.localGet 1)]

/-- what the front end emits for it, as `ssaBuilder.Format()` prints it (a test of the model on one input; the harness
compares this text with the real front end's on every generated function) -/
example : format frontcfLoop =
    ["blk0: (exec_ctx:i64, module_ctx:i64, v2:i32)", "v3:i32 = Iconst_32 0x0", "Jump blk1, v3, v2",
     "blk1: (v4:i32,v7:i32) <-- (blk0,blk1)", "v5:i32 = Iconst_32 0x1", "v6:i32 = Iadd v4, v5",
     "v8:i32 = Icmp lt_u, v6, v7", "Brnz v8, blk1, v6, v7", "Jump blk3",
     "blk2: () <-- (blk3)", "Jump blk_ret, v6",
     "blk3: () <-- (blk1)", "Jump blk2"] := by decide +kernel

theorem frontcf_loop_validate : validate frontcfLoop = true := by decide +kernel
theorem frontcf_loop_wellFormedA : wellFormedA (lowerCF frontcfLoop) = true := by decide +kernel
example : wellTyped frontcfLoop = true := by decide +kernel
example : ArgsOK frontcfLoop.sig [3] := by decide

/-- the theorems apply to it, for all arguments -/
example (args : List Nat) (hargs : ArgsOK frontcfLoop.sig args) (w : World) (ec mc n : Nat)
    (hterm : Wz.Model.FrontendCF.runSpec frontcfLoop args n ≠ .exhausted) :
    ∃ k, ∀ fuel, run w (runPasses (lowerCF frontcfLoop)) (ec :: mc :: args) (fuel + k) =
      ofSpecCF (Wz.Model.FrontendCF.runSpec frontcfLoop args n) := by
  obtain ⟨k, hk⟩ := frontcf_then_passes_refines frontcfLoop frontcf_loop_validate frontcf_loop_wellFormedA args hargs
    w ec mc n hterm
  exact ⟨k, fun fuel => (hk fuel).1⟩

/-- tests on one input: three iterations; the specification and the SSA run agree -/
example : Wz.Model.FrontendCF.runSpec frontcfLoop [3] 40 = .values [3] := by unfold frontcfLoop; frontcf_eval
example : run frontcfWorld (lowerCF frontcfLoop) [0xec, 0x3c, 3] 10 = .values [3] [] [] := by decide +kernel

/-- the same loop with the counter passed as a Wasm-level block PARAMETER (`loop (param i32) (result i32)`): the header
`blk1` gets the parameter `v5` at once (`addBlockParamsFromWasmTypes`) and `v9` for the local at `Seal`; the block after
the loop gets the result parameter `v6`.  Model and textual tie only: the reference semantics `Wz.Spec.Wasm` has no
block parameters, so the checker (and `wellTyped`) refuse it; the SSA run is a test on one input. -/
def frontcfLoopParam : Function := Function.mk [.i32] [.i32] [.i32]
  [.op (.const .i32 0),
   .loop ⟨[.i32], [.i32]⟩ [.op (.const .i32 1), .op (.bin .i32 .add), .op (.localTee 1), .op (.localGet 1),
      .op (.localGet 0), .op (.rel .i32 .ltU), .brIf 0]]

example : format frontcfLoopParam =
    ["blk0: (exec_ctx:i64, module_ctx:i64, v2:i32)", "v3:i32 = Iconst_32 0x0", "v4:i32 = Iconst_32 0x0",
     "Jump blk1, v4, v2", "blk1: (v5:i32,v9:i32) <-- (blk0,blk1)", "v7:i32 = Iconst_32 0x1", "v8:i32 = Iadd v5, v7",
     "v10:i32 = Icmp lt_u, v8, v9", "Brnz v10, blk1, v8, v9", "Jump blk3",
     "blk2: (v6:i32) <-- (blk3)", "Jump blk_ret, v6", "blk3: () <-- (blk1)", "Jump blk2, v8"] := by decide +kernel

example : validate frontcfLoopParam = false ∧ wellFormedA (lowerCF frontcfLoopParam) = true :=
  ⟨by decide +kernel, by decide +kernel⟩
example : run frontcfWorld (lowerCF frontcfLoopParam) [0xec, 0x3c, 3] 10 = .values [3] [] [] := by decide +kernel

/-- an `if`/`else` that joins two definitions of a local: `if (x) y = 1 else y = 2; return y`.  The read after the
join makes `findValue` add a parameter to the join block and an argument to the jump of each arm. -/
def frontcfJoin : Function := Function.mk [.i32] [.i32] [.i32]
  [.op (.localGet 0),
   .ite ⟨[], []⟩ true [.op (.const .i32 1), .op (.localSet 1)] [.op (.const .i32 2), .op (.localSet 1)],
   .op (.localGet 1)]

example : format frontcfJoin =
    ["blk0: (exec_ctx:i64, module_ctx:i64, v2:i32)", "v3:i32 = Iconst_32 0x0", "Brz v2, blk2", "Jump blk1",
     "blk1: () <-- (blk0)", "v4:i32 = Iconst_32 0x1", "Jump blk3, v4",
     "blk2: () <-- (blk0)", "v5:i32 = Iconst_32 0x2", "Jump blk3, v5",
     "blk3: (v6:i32) <-- (blk1,blk2)", "Jump blk_ret, v6"] := by decide +kernel

theorem frontcf_join_validate : validate frontcfJoin = true := by decide +kernel
theorem frontcf_join_wellFormedA : wellFormedA (lowerCF frontcfJoin) = true := by decide +kernel
example : Wz.Model.FrontendCF.runSpec frontcfJoin [0] 20 = .values [2] := by unfold frontcfJoin; frontcf_eval
example : Wz.Model.FrontendCF.runSpec frontcfJoin [7] 20 = .values [1] := by unfold frontcfJoin; frontcf_eval
example : run frontcfWorld (lowerCF frontcfJoin) [0xec, 0x3c, 7] 10 = .values [1] [] [] := by decide +kernel

/-- the same value on both arms: `y = 5; if (x) {} else {}; return y + y`.  `findValue` finds one definition on
both predecessors, ALIASES its temporary `v7` (which has no definition) to it and returns the definition for the first
read; the second read finds the temporary: the text uses `v7`, which only the alias table explains. -/
def frontcfAlias : Function := Function.mk [.i32] [.i32] [.i32]
  [.op (.const .i32 5), .op (.localSet 1), .op (.localGet 0), .ite ⟨[], []⟩ true [] [],
   .op (.localGet 1), .op (.localGet 1), .op (.bin .i32 .add)]

example : format frontcfAlias =
    ["blk0: (exec_ctx:i64, module_ctx:i64, v2:i32)", "v3:i32 = Iconst_32 0x0", "v4:i32 = Iconst_32 0x5",
     "Brz v2, blk2", "Jump blk1", "blk1: () <-- (blk0)", "Jump blk3", "blk2: () <-- (blk0)", "Jump blk3",
     "blk3: () <-- (blk1,blk2)", "v6:i32 = Iadd v4, v5", "Jump blk_ret, v6"] ∧
    (lowerCF frontcfAlias).alias = [(5, 4)] := by decide +kernel

theorem frontcf_alias_validate : validate frontcfAlias = true := by decide +kernel

/-- `SsaPass.wellFormed` (certificate for defined values only) REJECTS this output of the front end, because of the
alias entry for a value without a definition; `wellFormedA` accepts it.  So `front_wellFormed` does not extend to
control flow as it stands: the hypothesis of the pass theorem has to be `wellFormedA` (`frontcf_passes_sound`). -/
theorem frontcf_wellFormed_rejects_alias :
    wellFormed (lowerCF frontcfAlias) = false ∧ wellFormedA (lowerCF frontcfAlias) = true :=
  ⟨by decide +kernel, by decide +kernel⟩

/-- an early return out of a loop nested in a block, unreachable code after `br`, a trap -/
def frontcfEarly : Function := Function.mk [.i32] [.i32] [.i32]
  [.block ⟨[], []⟩
     [.loop ⟨[], []⟩
        [.op (.localGet 1), .op (.const .i32 1), .op (.bin .i32 .add), .op (.localTee 1), .op (.const .i32 4),
         .op (.rel .i32 .geU), .ite ⟨[], []⟩ false [.op (.localGet 1), .op .ret] [],
         .op (.localGet 0), .brIf 1, .br 0, .op (.const .i32 9), .op .drop],
      .unreachable],
   .unreachable]

theorem frontcf_early_validate : validate frontcfEarly = true := by decide +kernel
example : Wz.Model.FrontendCF.runSpec frontcfEarly [0] 60 = .values [4] := by unfold frontcfEarly; frontcf_eval
example : Wz.Model.FrontendCF.runSpec frontcfEarly [1] 60 = .trap "unreachable" := by unfold frontcfEarly; frontcf_eval
example : run frontcfWorld (lowerCF frontcfEarly) [0xec, 0x3c, 1] 10 = .trap codeUnreachable [] [] := by decide +kernel
example : run frontcfWorld (lowerCF frontcfEarly) [0xec, 0x3c, 0] 40 = .values [4] [] [] := by decide +kernel

/-!
### the full statements (NOT proved)

    [not proved] theorem frontcf_refines (f : Function) (hwt : wellTyped f = true) (args) (hargs : ArgsOK f.sig args) w ec mc :
        (∀ n, runSpec f args n ≠ .exhausted → ∃ k, ∀ fuel, run w (lowerCF f) (ec :: mc :: args) (fuel + k) = ofSpecCF (runSpec f args n)) ∧
        (∀ fuel o, run w (lowerCF f) (ec :: mc :: args) fuel = o → o ≠ .outOfFuel → ∃ n, ofSpecCF (runSpec f args n) = o)
    [not proved] theorem frontcf_wellFormed (f : Function) (hwt : wellTyped f = true) : wellFormedA (lowerCF f) = true

Missing: `wellTyped f → validate f = true` and `wellTyped f → wellFormedA (lowerCF f) = true`, i.e. the correctness
of the incremental SSA construction `findValue` / `Seal` (Braun et al.): that the values the builder finds for a
variable at the entry of every block form a consistent certificate, and that every use is dominated by its
definition.  Both are decidable per function and evaluated by the harness on every generated function.
-/

end Wz.C01
