/- C04: property theorems (none yet). -/
namespace Wz.C04
end Wz.C04
