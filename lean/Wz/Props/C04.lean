/-
C04 — Linked modules share state exactly as the specification says.
Property theorems about the store model `Wz.Model.Store` (tied to /repo by correspondence, tie B).
-/
import Wz.Model.Store
import Wz.Model.CallerSlot
import Wz.Gen.CallerCtx

namespace Wz.C04
open Wz.Model.Store

/-! ## 1. An accepted import is compatible (spec: external-type matching) -/

/-- The specification's limits matching: an import declaring `{min n, max m?}` matches an object of
current size `cur` and maximum `amax?` iff `n ≤ cur` and (`m` absent, or `amax` present and `≤ m`). -/
def LimitsMatch (cur : Nat) (amax : Option Nat) (n : Nat) (m : Option Nat) : Prop :=
  n ≤ cur ∧ (m = none ∨ ∃ a b, amax = some a ∧ m = some b ∧ a ≤ b)

theorem func_match_sound (e a : FT) (h : matchFunc e a = true) : a = e := by
  simpa [matchFunc] using h

theorem global_match_sound (e : GT) (g : GlobalInst) (h : matchGlobal e g = true) : e = g.ty := by
  unfold matchGlobal at h
  simp only [Bool.and_eq_true, beq_iff_eq] at h
  cases e; cases hg : g.ty; simp_all

/-- Tables: the code compares with the DECLARED minimum; sound because a table never shrinks
(`t.min ≤ t.refs.length` is an invariant, see `tableGrow_inv`). -/
theorem table_match_sound (e : TT) (t : TableInst) (hinv : t.min ≤ t.refs.length)
    (h : matchTable e t = true) : e.rt = t.rt ∧ LimitsMatch t.refs.length t.max e.min e.max := by
  unfold matchTable at h
  simp only [Bool.and_eq_true, beq_iff_eq, Bool.not_eq_true', decide_eq_false_iff_not] at h
  obtain ⟨⟨h1, h2⟩, h3⟩ := h
  refine ⟨h1, by omega, ?_⟩
  cases hem : e.max with
  | none => exact Or.inl rfl
  | some em =>
    right
    rw [hem] at h3
    cases htm : t.max with
    | none => rw [htm] at h3; simp at h3
    | some am =>
      rw [htm] at h3
      simp only [Bool.not_eq_true', decide_eq_false_iff_not] at h3
      exact ⟨am, em, rfl, rfl, by omega⟩

/-- Memories: the importer's limits as the decoder leaves them (`decodeMT`: a missing maximum becomes
the configured limit, a declared one is clamped); the exporter's maximum is its EFFECTIVE maximum
(`m.max ≤ limit`, what the instance can actually reach). -/
theorem mem_match_sound (limit n : Nat) (declared : Option Nat) (m : MemInst)
    (h : matchMem (decodeMT limit n declared) m = true) :
    LimitsMatch m.pages (some m.max) n declared := by
  cases declared with
  | none =>
    unfold matchMem decodeMT at h
    simp only [Bool.and_eq_true, Bool.not_eq_true', decide_eq_false_iff_not] at h
    exact ⟨by omega, Or.inl rfl⟩
  | some d =>
    unfold matchMem decodeMT at h
    simp only [Bool.and_eq_true, Bool.not_eq_true', decide_eq_false_iff_not] at h
    obtain ⟨⟨h1, h2⟩, _⟩ := h
    have h3 : Nat.min d limit ≤ d := Nat.min_le_left d limit
    exact ⟨by omega, Or.inr ⟨m.max, d, rfl, rfl, Nat.le_trans (Nat.le_of_not_lt h2) h3⟩⟩

/-- **Shared flags agree** (threads proposal: memory types match only if both are shared or both are not).
Finding F47: the pinned tree compared the limits only. -/
theorem mem_match_shared (mt : MT) (m : MemInst) (h : matchMem mt m = true) : mt.shared = m.shared := by
  unfold matchMem at h
  simp only [Bool.and_eq_true, beq_iff_eq] at h
  exact h.2

/-- F47 witness: the as-is matcher accepts a non-shared one-page memory for an import declared shared - the
compiler then treats the memory's base as fixed and keeps using the old buffer after a grow moved it. -/
theorem shared_mismatch_accepted_asIs_witness :
    matchMemAsIs { min := 1, max := 4, shared := true } { pages := 1, max := 4, bytes := [] } = true ∧
    matchMem { min := 1, max := 4, shared := true } { pages := 1, max := 4, bytes := [] } = false := by decide

/-- what it means for a resolved address to be a spec-compatible provider of an import -/
def SpecMatch (s : Store) (imp : Import) : Extern → Prop
  | .func a => ∃ (f : FuncInst), s.funcs[a]? = some f ∧ imp.desc = .func f.ft
  | .table a => ∃ (t : TableInst) (tt : TT), s.tables[a]? = some t ∧ imp.desc = .table tt ∧ tt.rt = t.rt ∧
      LimitsMatch t.refs.length t.max tt.min tt.max
  | .mem a => ∃ (m : MemInst) (mt : MT), s.mems[a]? = some m ∧ imp.desc = .mem mt ∧ mt.min ≤ m.pages ∧ m.max ≤ mt.max ∧ mt.shared = m.shared
  | .global a => ∃ (g : GlobalInst), s.globals[a]? = some g ∧ imp.desc = .global g.ty

@[reducible] def TablesInv (s : Store) : Prop := ∀ (a : Nat) (t : TableInst), s.tables[a]? = some t → t.min ≤ t.refs.length

/-- pointwise relation between the import list and the resolved addresses -/
def AllMatch (s : Store) : List Import → List Extern → Prop
  | [], [] => True
  | i :: is, e :: es => SpecMatch s i e ∧ AllMatch s is es
  | _, _ => False

theorem resolveOne_sound (s : Store) (hinv : TablesInv s) (imp : Import) (ext : Extern)
    (h : resolveOne s imp = some ext) : SpecMatch s imp ext := by
  unfold resolveOne at h
  split at h
  · contradiction
  · split at h
    · contradiction
    · split at h
      · -- func
        rename_i ft hd
        split at h
        · split at h
          · rename_i a _ f hf
            split at h
            · rename_i hm
              cases h
              have := func_match_sound _ _ hm
              exact ⟨f, hf, by rw [hd, this]⟩
            · contradiction
          · contradiction
        · contradiction
      · -- table
        rename_i tt hd
        split at h
        · split at h
          · rename_i a _ t ht
            split at h
            · rename_i hm
              cases h
              have := table_match_sound _ _ (hinv _ _ ht) hm
              exact ⟨t, tt, ht, hd, this.1, this.2⟩
            · contradiction
          · contradiction
        · contradiction
      · -- mem
        rename_i mt hd
        split at h
        · split at h
          · rename_i a _ m hm'
            split at h
            · rename_i hm
              cases h
              unfold matchMem at hm
              simp only [Bool.and_eq_true, Bool.not_eq_true', decide_eq_false_iff_not, beq_iff_eq] at hm
              exact ⟨m, mt, hm', hd, by omega, by omega, hm.2⟩
            · contradiction
          · contradiction
        · contradiction
      · -- global
        rename_i gt hd
        split at h
        · split at h
          · rename_i a _ g hg
            split at h
            · rename_i hm
              cases h
              have := global_match_sound _ _ hm
              exact ⟨g, hg, by rw [hd, this]⟩
            · contradiction
          · contradiction
        · contradiction

theorem resolveAll_sound (s : Store) (hinv : TablesInv s) :
    ∀ (imps : List Import) (exts : List Extern), resolveAll s imps = some exts →
      AllMatch s imps exts := by
  intro imps
  induction imps with
  | nil => intro exts h; simp [resolveAll] at h; subst h; trivial
  | cons imp rest ih =>
    intro exts h
    unfold resolveAll at h
    split at h
    · contradiction
    · rename_i e he
      split at h
      · contradiction
      · rename_i es hes
        cases h
        exact ⟨resolveOne_sound s hinv imp e he, ih es hes⟩

/-- **import_match_sound** — whenever instantiation gets past import resolution (any outcome other
than `invalid`/`importErr`), EVERY import was resolved to an object that is compatible by the
specification's external-type matching: equal function types, limits matching against the
table's current size / the memory's current size and effective maximum, equal global type
(mutability and value type). -/
theorem import_match_sound (s : Store) (hinv : TablesInv s) (name : String) (d : ModDesc)
    (h : (instantiate s name d).2 ≠ .invalid ∧ (instantiate s name d).2 ≠ .importErr) :
    ∃ exts, resolveAll s d.imports = some exts ∧ AllMatch s d.imports exts := by
  unfold instantiate at h
  split at h
  · exact absurd rfl h.1
  · split at h
    · exact absurd rfl h.2
    · rename_i exts hexts
      exact ⟨exts, hexts, resolveAll_sound s hinv _ _ hexts⟩

/-- sample (test): the hypothesis is met by a concrete store with a grown table -/
example : TablesInv { tables := [{ refs := [0, 0, 0], min := 1, max := some 5, rt := .funcref }] } := by
  intro a t h
  match a with
  | 0 => simp at h; subst h; decide
  | n + 1 => simp at h

/-- the table invariant is kept by growth (tables never shrink) -/
theorem tableGrow_inv (t : TableInst) (delta : Nat) (h : t.min ≤ t.refs.length) :
    (tableGrow t delta).1.min ≤ (tableGrow t delta).1.refs.length := by
  unfold tableGrow
  dsimp only
  repeat' split
  all_goals first
    | exact h
    | (simp only [List.length_append, List.length_replicate]; omega)

/-- Deviation (recorded, not a violation; the property states only "accepted ONLY IF compatible"): the
converse fails for grown tables — a spec-compatible import is rejected because the code compares
with the declared minimum. Witness: `(table 1 funcref)` grown to 10, import with min 5. -/
theorem import_match_incomplete_witness :
    let t : TableInst := { refs := List.replicate 10 0, min := 1, max := none, rt := .funcref }
    let e : TT := { rt := .funcref, min := 5, max := none }
    LimitsMatch t.refs.length t.max e.min e.max ∧ matchTable e t = false := by
  refine ⟨⟨by decide, Or.inl rfl⟩, by decide⟩

/-- **import_match_complete_partial** — for tables that were never grown (size = declared minimum) the
check is also complete. Missing for the full converse: grown tables (see the witness above). -/
theorem import_match_complete_partial (e : TT) (t : TableInst) (hsz : t.refs.length = t.min)
    (hrt : e.rt = t.rt) (h : LimitsMatch t.refs.length t.max e.min e.max) : matchTable e t = true := by
  unfold matchTable
  obtain ⟨h1, h2⟩ := h
  simp only [Bool.and_eq_true, beq_iff_eq, Bool.not_eq_true', decide_eq_false_iff_not]
  refine ⟨⟨hrt, by omega⟩, ?_⟩
  rcases h2 with h2 | ⟨a, b, ha, hb, hab⟩
  · rw [h2]
  · rw [hb, ha]; simp only [Bool.not_eq_true', decide_eq_false_iff_not]; omega

/-! ## 2. One shared cell per global, on both storage schemes -/

/-- the store is well-formed for globals: every global address has its module-context slot -/
def LiveWF (s : Store) : Prop := s.live.length = s.globals.length

/-- **the cell law**: after `SetValue`/`global.set` of address `a`, a read of any address `b` — through
`Value()`, generated code, any instance — gives the written value if `b = a` and the old value
otherwise; for BOTH schemes (`me = true`: owner's module context; `me = false`: the `.Val` field). -/
theorem gvalue_gset (s : Store) (hwf : LiveWF s) (a v b : Nat) (ha : a < s.globals.length) :
    gvalue (gset s a v) b = if b = a then v else gvalue s b := by
  unfold LiveWF at hwf
  unfold gset
  have hga : s.globals[a]? = some s.globals[a] := List.getElem?_eq_getElem ha
  rw [hga]
  by_cases hme : s.globals[a].me = true
  · simp only [hme, if_true]
    unfold gvalue
    simp only []
    by_cases hba : b = a
    · subst hba
      simp only [hga, hme, if_true]
      rw [List.getD_eq_getElem?_getD, List.getElem?_set]
      simp [hwf, ha]
    · simp only [hba, if_false]
      cases hgb : s.globals[b]? with
      | none => rfl
      | some g =>
        simp only []
        rw [List.getD_eq_getElem?_getD, List.getElem?_set, List.getD_eq_getElem?_getD]
        have : ¬ a = b := fun h => hba h.symm
        simp [this]
  · have hme' : s.globals[a].me = false := by simpa using hme
    simp only [hme', Bool.false_eq_true, if_false]
    unfold gvalue
    dsimp only
    rw [List.getElem?_set]
    by_cases hba : b = a
    · subst hba
      simp [ha, hme']
    · have : ¬ a = b := fun h => hba h.symm
      simp only [this, if_false, hba]

theorem gset_wf (s : Store) (hwf : LiveWF s) (a v : Nat) : LiveWF (gset s a v) := by
  unfold LiveWF at *
  unfold gset
  split
  · split <;> simp [hwf]
  · exact hwf

theorem gset_insts (s : Store) (a v : Nat) : (gset s a v).insts = s.insts := by
  unfold gset; split
  · split <;> rfl
  · rfl

theorem gset_len (s : Store) (a v : Nat) : (gset s a v).globals.length = s.globals.length := by
  unfold gset; split
  · split <;> simp
  · rfl

/-- operations on globals: through an instance (guest code of instance `i`, global index `k`) or through
the host API (`api.Global` of global address `a`) -/
inductive GOp where
  | guestGet (i k : Nat)
  | guestSet (i k v : Nat)
  | apiGet (a : Nat)
  | apiSet (a v : Nat)

/-- implementation: both schemes, through the instance's address table -/
def gstep (s : Store) : GOp → Store × Option Nat
  | .guestGet i k => (s, (instGaddr s i k).map (gvalue s))
  | .guestSet i k v => match instGaddr s i k with
    | some a => (gset s a v, none)
    | none => (s, none)
  | .apiGet a => (s, some (gvalue s a))
  | .apiSet a v => (gset s a v, none)

def grun (s : Store) : List GOp → List (Option Nat)
  | [] => []
  | op :: rest => (gstep s op).2 :: grun (gstep s op).1 rest

/-- specification: ONE cell per global address (`cells[a]`), nothing else -/
def cstep (addr : Nat → Nat → Option Nat) (c : List Nat) : GOp → List Nat × Option Nat
  | .guestGet i k => (c, (addr i k).map (c.getD · 0))
  | .guestSet i k v => match addr i k with
    | some a => (c.set a v, none)
    | none => (c, none)
  | .apiGet a => (c, some (c.getD a 0))
  | .apiSet a v => (c.set a v, none)

def crun (addr : Nat → Nat → Option Nat) (c : List Nat) : List GOp → List (Option Nat)
  | [] => []
  | op :: rest => (cstep addr c op).2 :: crun addr (cstep addr c op).1 rest

/-- abstraction: the current value of every global address -/
def cells (s : Store) : List Nat := (List.range s.globals.length).map (gvalue s)

theorem cells_getD (s : Store) (a : Nat) : (cells s).getD a 0 = gvalue s a := by
  unfold cells
  rw [List.getD_eq_getElem?_getD, List.getElem?_map]
  by_cases ha : a < s.globals.length
  · rw [List.getElem?_range ha]; rfl
  · have h1 : s.globals[a]? = none := List.getElem?_eq_none (by omega)
    have h2 : (List.range s.globals.length)[a]? = none := List.getElem?_eq_none (by simp; omega)
    rw [h2]
    simp [gvalue, h1]

theorem cells_getElem_getD (s : Store) (a : Nat) : (cells s)[a]?.getD 0 = gvalue s a := by
  rw [← List.getD_eq_getElem?_getD]; exact cells_getD s a

theorem cells_gset (s : Store) (hwf : LiveWF s) (a v : Nat) : cells (gset s a v) = (cells s).set a v := by
  by_cases ha : a < s.globals.length
  · apply List.ext_getElem
    · simp [cells, gset_len]
    · intro n h1 h2
      simp only [cells, gset_len, List.getElem_map, List.getElem_range, List.getElem_set]
      rw [gvalue_gset s hwf a v n ha]
      by_cases hna : n = a
      · simp [hna]
      · have : ¬ a = n := fun h => hna h.symm
        simp [hna, this]
  · have h1 : s.globals[a]? = none := List.getElem?_eq_none (by omega)
    have : gset s a v = s := by unfold gset; rw [h1]
    rw [this, List.set_eq_of_length_le]
    simp [cells]; omega

/-- **global_sharing_refines_cell** — for EVERY interleaving of reads and writes through any instance that
holds the global (defining or importing, any depth of re-export) and through the host API, on both
storage schemes, the observable outputs equal those of a store with exactly one cell per global:
every read returns the last write. (Induction over the operation list; no bound on its length.) -/
theorem global_sharing_refines_cell (s : Store) (hwf : LiveWF s) (ops : List GOp) :
    grun s ops = crun (instGaddr s) (cells s) ops := by
  induction ops generalizing s with
  | nil => rfl
  | cons op rest ih =>
    unfold grun crun
    have hstep : (gstep s op).2 = (cstep (instGaddr s) (cells s) op).2 ∧
        cells (gstep s op).1 = (cstep (instGaddr s) (cells s) op).1 ∧
        LiveWF (gstep s op).1 ∧ instGaddr (gstep s op).1 = instGaddr s := by
      cases op with
      | guestGet i k =>
        refine ⟨?_, rfl, hwf, rfl⟩
        simp only [gstep, cstep]
        cases instGaddr s i k <;> simp [cells_getElem_getD]
      | guestSet i k v =>
        simp only [gstep, cstep]
        cases h : instGaddr s i k with
        | none => exact ⟨rfl, rfl, hwf, rfl⟩
        | some a =>
          refine ⟨rfl, cells_gset s hwf a v, gset_wf s hwf a v, ?_⟩
          funext i' k'; simp [instGaddr, gset_insts]
      | apiGet a =>
        exact ⟨by simp [gstep, cstep, cells_getElem_getD], rfl, hwf, rfl⟩
      | apiSet a v =>
        refine ⟨rfl, cells_gset s hwf a v, gset_wf s hwf a v, ?_⟩
        funext i' k'; simp [gstep, instGaddr, gset_insts]
    obtain ⟨h1, h2, h3, h4⟩ := hstep
    rw [h1, ih _ h3, h2, h4]

/-- sample (test): a compiler-scheme store with one mutable global shared by two instances -/
def sampleShared : Store :=
  { compiler := true, globals := [{ ty := { vt := .i32, mutable := true }, val := 1, me := true }], live := [1],
    insts := [{ name := "A", faddrs := [], taddrs := [], maddr := none, gaddrs := [0], exports := [] },
              { name := "B", faddrs := [], taddrs := [], maddr := none, gaddrs := [0], exports := [] }] }

example : LiveWF sampleShared := rfl
example : grun sampleShared [.guestSet 0 0 5, .guestGet 1 0, .apiGet 0, .apiSet 0 7, .guestGet 0 0]
    = [none, some 5, some 5, none, some 7] := by decide

/-! ## 3. Values captured at instantiation -/

/-- immutable globals keep their initial value: `.Val` and the live value coincide for them -/
def ImmStable (s : Store) : Prop :=
  ∀ a g, s.globals[a]? = some g → g.ty.mutable = false → gvalue s a = g.val

/-- `Validated`: every `global.get` of the expression refers to an IMMUTABLE global (what the
specification requires and what the repaired validator, `constMutOK = false`, enforces) -/
def Validated (s : Store) (gaddrs : List Nat) (e : ConstExpr) : Prop :=
  ∀ k, e = .globalGet k → ∃ g, s.globals[gaddrs.getD k 0]? = some g ∧ g.ty.mutable = false

/-- **init_captures_current_value** — under `Validated`, the value an initialiser / segment offset captures
at instantiation (`evalConst`, which reads the field `.Val`) equals the CURRENT value of the referenced
global (`evalConstLive`, which reads through `Value()`), on both storage schemes. -/
theorem init_captures_current_value (s : Store) (hinv : ImmStable s) (gaddrs faddrs : List Nat)
    (e : ConstExpr) (hv : Validated s gaddrs e) :
    evalConst s gaddrs faddrs e = evalConstLive s gaddrs faddrs e := by
  cases e with
  | globalGet k =>
    obtain ⟨g, hg, hm⟩ := hv k rfl
    simp only [evalConst, evalConstLive, gfield, hg]
    exact (hinv _ g hg hm).symm
  | _ => rfl

/-- the repaired validator establishes `Validated` for resolved imports -/
theorem validated_of_constOK (s : Store) (imps : List GT) (gaddrs : List Nat) (e : ConstExpr)
    (hok : constOK false imps e = true)
    (hres : ∀ k gt, imps[k]? = some gt → ∃ g, s.globals[gaddrs.getD k 0]? = some g ∧ g.ty = gt) :
    Validated s gaddrs e := by
  intro k hk
  subst hk
  unfold constOK at hok
  cases hi : imps[k]? with
  | none => simp [hi] at hok
  | some gt =>
    simp [hi] at hok
    obtain ⟨g, hg, hty⟩ := hres k gt hi
    exact ⟨g, hg, by rw [hty]; exact hok⟩

/-- on the interpreter scheme the captured value is current even WITHOUT `Validated` -/
theorem init_captures_interpreter (s : Store) (hme : ∀ (a : Nat) (g : GlobalInst), s.globals[a]? = some g → g.me = false)
    (gaddrs faddrs : List Nat) (e : ConstExpr) :
    evalConst s gaddrs faddrs e = evalConstLive s gaddrs faddrs e := by
  cases e with
  | globalGet k =>
    simp only [evalConst, evalConstLive, gfield, gvalue]
    cases hg : s.globals[gaddrs.getD k 0]? with
    | none => rfl
    | some g => simp [hme _ g hg]
  | _ => rfl

/-- **stale_global_witness (F2)** — without `Validated`, on the compiler scheme: A's mutable global g = 1,
`set(5)`, then `(global i32 (global.get $g))` captures 1 while the current value is 5. -/
theorem stale_global_witness :
    let s := gset sampleShared 0 5
    evalConst s [0] [] (.globalGet 0) = 1 ∧ evalConstLive s [0] [] (.globalGet 0) = 5 ∧
    constOK true [{ vt := .i32, mutable := true }] (.globalGet 0) = true ∧
    constOK false [{ vt := .i32, mutable := true }] (.globalGet 0) = false := by decide

/-- `ImmStable` is an invariant of well-typed writes (a `global.set`/`Set` only targets mutable globals) -/
theorem immStable_gset (s : Store) (hwf : LiveWF s) (hinv : ImmStable s) (a v : Nat) (g : GlobalInst)
    (hg : s.globals[a]? = some g) (hmut : g.ty.mutable = true) : ImmStable (gset s a v) := by
  have ha : a < s.globals.length := by
    rcases Nat.lt_or_ge a s.globals.length with h | h
    · exact h
    · rw [List.getElem?_eq_none h] at hg; contradiction
  intro b gb hb hm
  rw [gvalue_gset s hwf a v b ha]
  by_cases hba : b = a
  · subst hba
    -- the global at `a` stays mutable
    exfalso
    unfold gset at hb
    rw [hg] at hb
    by_cases hme : g.me = true
    · simp only [hme, if_true] at hb
      rw [hg] at hb; cases hb; rw [hmut] at hm; contradiction
    · have hme' : g.me = false := by simpa using hme
      simp only [hme', Bool.false_eq_true, if_false] at hb
      rw [List.getElem?_set] at hb
      simp [ha] at hb
      subst hb; simp at hm; rw [hmut] at hm; contradiction
  · simp only [hba, if_false]
    have : s.globals[b]? = some gb := by
      unfold gset at hb
      rw [hg] at hb
      by_cases hme : g.me = true
      · simp only [hme, if_true] at hb; exact hb
      · have hme' : g.me = false := by simpa using hme
        simp only [hme', Bool.false_eq_true, if_false] at hb
        rw [List.getElem?_set] at hb
        have : ¬ a = b := fun h => hba h.symm
        simpa [this] using hb
    exact hinv b gb this hm

example : ImmStable sampleShared := by
  intro a g h hm
  match a with
  | 0 => simp [sampleShared] at h; subst h; simp at hm
  | n + 1 => simp [sampleShared] at h

/-! ## 4. A failed instantiation leaves the earlier instances usable and consistent -/

theorem writeBytes_shape (bs : List Nat) : ∀ (m : MemInst) (off : Nat),
    (writeBytes m off bs).pages = m.pages ∧ (writeBytes m off bs).max = m.max := by
  induction bs with
  | nil => intro m off; exact ⟨rfl, rfl⟩
  | cons b rest ih => intro m off; unfold writeBytes; exact ih (m.write off b) (off + 1)

/-- a segment's copy changes only the addresses `off ≤ addr < off + len` -/
theorem writeBytes_read_outside (bs : List Nat) : ∀ (m : MemInst) (off addr : Nat),
    (addr < off ∨ off + bs.length ≤ addr) → (writeBytes m off bs).read addr = m.read addr := by
  induction bs with
  | nil => intro m off addr _; rfl
  | cons b rest ih =>
    intro m off addr h
    unfold writeBytes
    rw [ih (m.write off b) (off + 1) addr (by simp only [List.length_cons] at h; omega)]
    unfold MemInst.read MemInst.write
    have hne : ¬ off = addr := by simp only [List.length_cons] at h; omega
    have hb : (off == addr) = false := by simp [hne]
    simp [List.find?, hb]

/-- the shape of a memory cell: current size and maximum -/
def SameMemShape (s r : Store) : Prop :=
  ∀ (ma : Nat) (m : MemInst), s.mems[ma]? = some m → ∃ m', r.mems[ma]? = some m' ∧ m'.pages = m.pages ∧ m'.max = m.max

/-- the shape of a table cell: current size, limits, element type -/
def SameTableShape (s r : Store) : Prop :=
  ∀ (ta : Nat) (t : TableInst), s.tables[ta]? = some t →
    ∃ t', r.tables[ta]? = some t' ∧ t'.refs.length = t.refs.length ∧ t'.min = t.min ∧ t'.max = t.max ∧ t'.rt = t.rt

theorem applyDatas_frame (maddr : Option Nat) (gaddrs faddrs : List Nat) : ∀ (ds : List Data) (s : Store),
    (applyDatas s maddr gaddrs faddrs ds).1.insts = s.insts ∧
    (applyDatas s maddr gaddrs faddrs ds).1.globals = s.globals ∧
    (applyDatas s maddr gaddrs faddrs ds).1.live = s.live ∧
    (applyDatas s maddr gaddrs faddrs ds).1.tables = s.tables ∧
    SameMemShape s (applyDatas s maddr gaddrs faddrs ds).1 := by
  intro ds
  induction ds with
  | nil => intro s; exact ⟨rfl, rfl, rfl, rfl, fun ma m h => ⟨m, h, rfl, rfl⟩⟩
  | cons d rest ih =>
    intro s
    have triv : SameMemShape s s := fun ma m h => ⟨m, h, rfl, rfl⟩
    unfold applyDatas
    split
    · exact ⟨rfl, rfl, rfl, rfl, triv⟩
    · rename_i ma
      split
      · exact ⟨rfl, rfl, rfl, rfl, triv⟩
      · rename_i m hm
        split
        · exact ⟨rfl, rfl, rfl, rfl, triv⟩
        · rename_i m' hm'
          obtain ⟨h1, h2, h3, h4, h5⟩ := ih { s with mems := s.mems.set ma m' }
          refine ⟨h1, h2, h3, h4, ?_⟩
          intro a x hx
          -- shape of m' = shape of m
          have hshape : m'.pages = m.pages ∧ m'.max = m.max := by
            unfold applyData1 at hm'
            dsimp only at hm'
            split at hm'
            · contradiction
            · cases hm'; exact writeBytes_shape _ _ _
          by_cases hax : a = ma
          · subst hax
            have hlt : a < s.mems.length := by
              rcases Nat.lt_or_ge a s.mems.length with h | h
              · exact h
              · rw [List.getElem?_eq_none h] at hm; contradiction
            have : ({ s with mems := s.mems.set a m' } : Store).mems[a]? = some m' := by
              simp [List.getElem?_set, hlt]
            obtain ⟨y, hy, hp, hmx⟩ := h5 a m' this
            rw [hm] at hx; cases hx
            exact ⟨y, hy, by rw [hp, hshape.1], by rw [hmx, hshape.2]⟩
          · have : ({ s with mems := s.mems.set ma m' } : Store).mems[a]? = some x := by
              have hne : ¬ ma = a := fun h => hax h.symm
              simp [List.getElem?_set, hne, hx]
            exact h5 a x this

theorem writeRefs_length (items : List (Option Nat)) : ∀ (refs : List Nat) (off : Nat) (faddrs : List Nat),
    (writeRefs refs off faddrs items).length = refs.length := by
  induction items with
  | nil => intro refs off faddrs; rfl
  | cons it rest ih =>
    intro refs off faddrs
    cases it with
    | none => unfold writeRefs; exact ih refs (off + 1) faddrs
    | some f => unfold writeRefs; rw [ih]; simp

theorem applyElems_frame (taddrs gaddrs faddrs : List Nat) : ∀ (es : List Elem) (s : Store),
    (applyElems s taddrs gaddrs faddrs es).insts = s.insts ∧
    (applyElems s taddrs gaddrs faddrs es).globals = s.globals ∧
    (applyElems s taddrs gaddrs faddrs es).live = s.live ∧
    (applyElems s taddrs gaddrs faddrs es).mems = s.mems ∧
    SameTableShape s (applyElems s taddrs gaddrs faddrs es) := by
  intro es
  induction es with
  | nil => intro s; exact ⟨rfl, rfl, rfl, rfl, fun ta t h => ⟨t, h, rfl, rfl, rfl, rfl⟩⟩
  | cons e rest ih =>
    intro s
    have triv : SameTableShape s s := fun ta t h => ⟨t, h, rfl, rfl, rfl, rfl⟩
    unfold applyElems
    split
    · exact ih s
    · split
      · exact ⟨rfl, rfl, rfl, rfl, triv⟩
      · rename_i ta hta
        split
        · exact ⟨rfl, rfl, rfl, rfl, triv⟩
        · rename_i t ht
          dsimp only
          split
          · exact ⟨rfl, rfl, rfl, rfl, triv⟩
          · obtain ⟨h1, h2, h3, h4, h5⟩ := ih ({ s with tables := s.tables.set ta ({ t with refs := writeRefs t.refs (evalConst s gaddrs faddrs e.off % 4294967296) faddrs e.items } : TableInst) } : Store)
            refine ⟨h1, h2, h3, h4, ?_⟩
            intro a x hx
            by_cases hax : a = ta
            · subst hax
              have hlt : a < s.tables.length := by
                rcases Nat.lt_or_ge a s.tables.length with h | h
                · exact h
                · rw [List.getElem?_eq_none h] at ht; contradiction
              rw [ht] at hx; cases hx
              obtain ⟨y, hy, hl, hmn, hmx, hrt⟩ := h5 a _ (by simp [List.getElem?_set, hlt]; rfl)
              exact ⟨y, hy, by rw [hl]; exact writeRefs_length _ _ _ _, hmn, hmx, hrt⟩
            · have hne : ¬ ta = a := fun h => hax h.symm
              exact h5 a x (by simp [List.getElem?_set, hne, hx])

theorem getElem_append_some {α} (l r : List α) (i : Nat) (x : α) (h : l[i]? = some x) : (l ++ r)[i]? = some x := by
  have hlt : i < l.length := by
    rcases Nat.lt_or_ge i l.length with h' | h'
    · exact h'
    · rw [List.getElem?_eq_none h'] at h; contradiction
  rw [List.getElem?_append_left hlt]; exact h

/-- allocation only appends: every earlier cell is where it was, with the value it had -/
theorem alloc_frame (s : Store) (name : String) (d : ModDesc) (ext : List Extern) (hwf : LiveWF s) :
    (alloc s name d ext).store.insts = s.insts ∧
    SameMemShape s (alloc s name d ext).store ∧ SameTableShape s (alloc s name d ext).store ∧
    (∀ (ma : Nat) (m : MemInst), s.mems[ma]? = some m → (alloc s name d ext).store.mems[ma]? = some m) ∧
    (∀ (ta : Nat) (t : TableInst), s.tables[ta]? = some t → (alloc s name d ext).store.tables[ta]? = some t) ∧
    (∀ a, a < s.globals.length → gvalue (alloc s name d ext).store a = gvalue s a) := by
  unfold alloc
  dsimp only
  refine ⟨rfl, ?_, ?_, ?_, ?_, ?_⟩
  · intro ma m h; exact ⟨m, getElem_append_some _ _ _ _ h, rfl, rfl⟩
  · intro ta t h; exact ⟨t, getElem_append_some _ _ _ _ h, rfl, rfl, rfl, rfl⟩
  · intro ma m h; exact getElem_append_some _ _ _ _ h
  · intro ta t h; exact getElem_append_some _ _ _ _ h
  · intro a ha
    unfold gvalue
    dsimp only
    rw [List.getElem?_append_left ha]
    cases hg : s.globals[a]? with
    | none => rfl
    | some g =>
      dsimp only
      have hl : a < s.live.length := by unfold LiveWF at hwf; omega
      rw [List.getD_eq_getElem?_getD, List.getD_eq_getElem?_getD, List.getElem?_append_left hl]

theorem sameMemShape_trans {a b c : Store} (h1 : SameMemShape a b) (h2 : SameMemShape b c) : SameMemShape a c := by
  intro ma m h
  obtain ⟨m', hm', hp, hx⟩ := h1 ma m h
  obtain ⟨m'', hm'', hp', hx'⟩ := h2 ma m' hm'
  exact ⟨m'', hm'', by rw [hp', hp], by rw [hx', hx]⟩

theorem sameTableShape_trans {a b c : Store} (h1 : SameTableShape a b) (h2 : SameTableShape b c) : SameTableShape a c := by
  intro ta t h
  obtain ⟨t', ht', a1, a2, a3, a4⟩ := h1 ta t h
  obtain ⟨t'', ht'', b1, b2, b3, b4⟩ := h2 ta t' ht'
  exact ⟨t'', ht'', by rw [b1, a1], by rw [b2, a2], by rw [b3, a3], by rw [b4, a4]⟩

theorem gset_shapes (s : Store) (a v : Nat) : (gset s a v).mems = s.mems ∧ (gset s a v).tables = s.tables := by
  unfold gset; split
  · split <;> exact ⟨rfl, rfl⟩
  · exact ⟨rfl, rfl⟩

theorem runStart_frame (s : Store) (gaddrs : List Nat) (st : Start) :
    (runStart s gaddrs st).1.insts = s.insts ∧ (runStart s gaddrs st).1.mems = s.mems ∧
    (runStart s gaddrs st).1.tables = s.tables := by
  cases st with
  | none => exact ⟨rfl, rfl, rfl⟩
  | trap => exact ⟨rfl, rfl, rfl⟩
  | set k v => exact ⟨gset_insts _ _ _, (gset_shapes _ _ _).1, (gset_shapes _ _ _).2⟩
  | setTrap k v => exact ⟨gset_insts _ _ _, (gset_shapes _ _ _).1, (gset_shapes _ _ _).2⟩

/-- **failed_instantiation_preserves** — whatever way an instantiation fails (for every store, every module
descriptor):
 * no instance is registered and the earlier instances (their address tables) are untouched;
 * rejected at validation or import resolution ⇒ the store is unchanged altogether (no segment of the
   module has been applied);
 * otherwise every earlier memory keeps its size and maximum and every earlier table its size, limits
   and element type (contents change only through `applyDatas`/`applyElems`, i.e. by the segments already
   applied — byte-level frame: `writeBytes_read_outside`);
 * a data-segment failure changes no global of an earlier instance and no table at all. -/
theorem failed_instantiation_preserves (s : Store) (hwf : LiveWF s) (name : String) (d : ModDesc) :
    let r := instantiate s name d
    r.2 ≠ .ok →
      r.1.insts = s.insts ∧
      ((r.2 = .invalid ∨ r.2 = .importErr) → r.1 = s) ∧
      SameMemShape s r.1 ∧ SameTableShape s r.1 ∧
      (r.2 = .dataErr → (∀ a, a < s.globals.length → gvalue r.1 a = gvalue s a) ∧
        (∀ (ta : Nat) (t : TableInst), s.tables[ta]? = some t → r.1.tables[ta]? = some t)) := by
  intro r hne
  have trivM : SameMemShape s s := fun ma m h => ⟨m, h, rfl, rfl⟩
  have trivT : SameTableShape s s := fun ta t h => ⟨t, h, rfl, rfl, rfl, rfl⟩
  have hr : r = instantiate s name d := rfl
  unfold instantiate at hr
  split at hr
  · rw [hr]; exact ⟨rfl, fun _ => rfl, trivM, trivT, fun h => by cases h⟩
  · split at hr
    · rw [hr]; exact ⟨rfl, fun _ => rfl, trivM, trivT, fun h => by cases h⟩
    · rename_i ext hext
      obtain ⟨a1, a2, a3, a4, a5, a6⟩ := alloc_frame s name d ext hwf
      dsimp only at hr
      obtain ⟨b1, b2, b3, b4, b5⟩ := applyDatas_frame (alloc s name d ext).inst.maddr (alloc s name d ext).inst.gaddrs
        (alloc s name d ext).inst.faddrs d.datas (alloc s name d ext).store
      split at hr
      · -- data error
        rename_i s2 hs2
        have e2 : s2 = (applyDatas (alloc s name d ext).store (alloc s name d ext).inst.maddr (alloc s name d ext).inst.gaddrs
            (alloc s name d ext).inst.faddrs d.datas).1 := by rw [hs2]
        rw [hr]
        dsimp only
        subst e2
        refine ⟨by rw [b1, a1], ?_, sameMemShape_trans a2 b5, ?_, ?_⟩
        · intro h; rcases h with h | h <;> cases h
        · intro ta t h; rw [b4]; exact a3 ta t h
        · intro _
          refine ⟨?_, ?_⟩
          · intro a ha
            have : gvalue (applyDatas (alloc s name d ext).store (alloc s name d ext).inst.maddr (alloc s name d ext).inst.gaddrs
                (alloc s name d ext).inst.faddrs d.datas).1 a = gvalue (alloc s name d ext).store a := by
              unfold gvalue; rw [b2, b3]
            rw [this]; exact a6 a ha
          · intro ta t h; rw [b4]; exact a5 ta t h
      · rename_i s2 hs2
        have e2 : s2 = (applyDatas (alloc s name d ext).store (alloc s name d ext).inst.maddr (alloc s name d ext).inst.gaddrs
            (alloc s name d ext).inst.faddrs d.datas).1 := by rw [hs2]
        subst e2
        obtain ⟨c1, c2, c3, c4, c5⟩ := applyElems_frame (alloc s name d ext).inst.taddrs (alloc s name d ext).inst.gaddrs
          (alloc s name d ext).inst.faddrs d.elems (applyDatas (alloc s name d ext).store (alloc s name d ext).inst.maddr
            (alloc s name d ext).inst.gaddrs (alloc s name d ext).inst.faddrs d.datas).1
        obtain ⟨d1, d2, d3⟩ := runStart_frame (applyElems (applyDatas (alloc s name d ext).store (alloc s name d ext).inst.maddr
            (alloc s name d ext).inst.gaddrs (alloc s name d ext).inst.faddrs d.datas).1 (alloc s name d ext).inst.taddrs
            (alloc s name d ext).inst.gaddrs (alloc s name d ext).inst.faddrs d.elems) (alloc s name d ext).inst.gaddrs d.start
        split at hr
        · -- start error
          rename_i s4 hs4
          have e4 : s4 = (runStart (applyElems (applyDatas (alloc s name d ext).store (alloc s name d ext).inst.maddr
            (alloc s name d ext).inst.gaddrs (alloc s name d ext).inst.faddrs d.datas).1 (alloc s name d ext).inst.taddrs
            (alloc s name d ext).inst.gaddrs (alloc s name d ext).inst.faddrs d.elems) (alloc s name d ext).inst.gaddrs d.start).1 := by
            rw [hs4]
          rw [hr]
          dsimp only
          subst e4
          refine ⟨by rw [d1, c1, b1, a1], ?_, ?_, ?_, ?_⟩
          · intro h; rcases h with h | h <;> cases h
          rotate_right
          · intro h; cases h
          · intro ma m h
            obtain ⟨m', hm', hp, hx⟩ := sameMemShape_trans a2 b5 ma m h
            exact ⟨m', by rw [d2, c4]; exact hm', hp, hx⟩
          · intro ta t h
            have h' := a3 ta t h
            obtain ⟨t1, ht1, x1, x2, x3, x4⟩ := h'
            rw [← b4] at ht1
            obtain ⟨t2, ht2, y1, y2, y3, y4⟩ := c5 ta t1 ht1
            exact ⟨t2, by rw [d3]; exact ht2, by rw [y1, x1], by rw [y2, x2], by rw [y3, x3], by rw [y4, x4]⟩
        · -- ok: excluded
          rw [hr] at hne
          exact absurd rfl hne

/-- sample (test): a failing instantiation (out-of-bounds second data segment) against a concrete store —
the first segment's byte is there, sizes are unchanged, no instance was added -/
def sampleA : Store :=
  (instantiate {} "A" { mem := some { min := 1, max := 2 }, exports := [{ name := "mem", kind := .mem, idx := 0 }] }).1

def sampleBad : ModDesc :=
  { imports := [{ mod := "A", name := "mem", desc := .mem { min := 1, max := 65536 } }],
    datas := [{ off := .const 10, bytes := [7] }, { off := .const 65535, bytes := [1, 2] }] }

example : (instantiate sampleA "B" sampleBad).2 = .dataErr ∧
    (instantiate sampleA "B" sampleBad).1.insts.length = 1 ∧
    ((instantiate sampleA "B" sampleBad).1.mems.map (fun m => (m.pages, m.read 10, m.read 65535))) = [(1, 7, 0)] := by decide


/-! ### the compiler's caller-module slot (shared by all modules on one call stack) -/

open Wz.Model.CallerSlot in
/-- **The right instance is used.**  For every trace of stores / slot-reading exits of any modules, interleaved in
any way, starting from any slot content: if every slot-reading exit is immediately preceded by the executing
module's own store, every Go handler observes exactly the module that is executing. -/
theorem caller_slot_discipline_suffices (es : List Ev) (slot : Nat) (h : Disciplined es) :
    ∀ p ∈ run es slot, p.2 = p.1 := disciplined_sees_own es slot h

open Wz.Model.CallerSlot in
/-- The discipline is needed: module 1 stores, calls into module 2 (which stores its own context), and then
exits to a handler without storing again - the handler acts on module 2 (the shape of a seeded change that
elided "redundant" stores). -/
theorem caller_slot_stale_witness :
    run [.store 1, .exit 1, .other, .store 2, .exit 2, .other, .exit 1] 0 = [(1, 1), (2, 2), (1, 2)] ∧
    ¬ Disciplined [.store 1, .exit 1, .other, .store 2, .exit 2, .other, .exit 1] := by decide

/-- non-vacuity: a three-module trace that follows the discipline -/
example : Wz.Model.CallerSlot.Disciplined [.store 1, .exit 1, .other, .store 2, .exit 2, .other, .store 1, .exit 1, .store 3, .other] := by decide

/-- which lowering sites produce the exit handled under each exit code -/
def sitesOfExit : List (String × List String) :=
  [("ExitCodeCallGoFunctionWithListener", ["call:imported-function", "call:prepareCallIndirect"]),
   ("ExitCodeCallGoModuleFunction", ["call:imported-function", "call:prepareCallIndirect"]),
   ("ExitCodeCallGoModuleFunctionWithListener", ["call:imported-function", "call:prepareCallIndirect"]),
   ("ExitCodeCallListenerBefore", ["call:callListenerBefore"]),
   ("ExitCodeCallListenerAfter", ["call:callListenerAfter"]),
   ("ExitCodeGrowMemory", ["trampoline:MemoryGrow"]),
   ("ExitCodeTableGrow", ["trampoline:TableGrow"]),
   ("ExitCodeRefFunc", ["trampoline:RefFunc"]),
   ("ExitCodeMemoryWait32", ["trampoline:MemoryWait32"]),
   ("ExitCodeMemoryWait64", ["trampoline:MemoryWait64"]),
   ("ExitCodeMemoryNotify", ["trampoline:MemoryNotify"])]

def siteStored (name : String) : Bool :=
  let hits := Wz.Gen.CallerCtx.sites.filter (·.1 == name)
  !hits.isEmpty && hits.all (·.2.2)

/-- **Regenerated obligation** (handlers from `callWithStack`, sites from `frontend/lower.go`): every exit
code whose Go handler reads the caller module is known here, and every lowering site that produces such an
exit is preceded by an UNCONDITIONAL `storeCallerModuleContext()` - the discipline of the model. -/
theorem caller_context_stored_before_every_go_exit :
    (Wz.Gen.CallerCtx.handlers.filter (·.2)).all (fun h =>
      match sitesOfExit.find? (·.1 == h.1) with
      | some (_, ss) => ss.all siteStored
      | none => false) = true := by decide

/-- non-vacuity: the regenerated tables do list slot-reading handlers and storing sites -/
example : (Wz.Gen.CallerCtx.handlers.filter (·.2)).length = 11 ∧ siteStored "trampoline:RefFunc" = true ∧
    siteStored "trampoline:CheckModuleExitCode" = false := by decide

end Wz.C04
