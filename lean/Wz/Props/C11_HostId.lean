import Wz.Gen.Shapes

/-!
# C11 companion: a host module's identity is the identity of its compilation

Engines key compiled modules by `Module.ID`; the interpreter keeps the Go functions of a host module inside the
compiled entry.  Two host modules built from closures of one function literal agree on name, export names, signatures
and code address and differ only in the state they captured - so an ID derived from those would make the second
module run the first one's closures (seeded change C11-6).  The ID must separate every two live host modules; the code
derives it from the address of the freshly allocated `*wasm.Module`.

Model: a host module = (what two modules of one helper have in common, the state it captured, its address).
`id_of_address_separates`: IDs that are an injective function of the address separate all modules with distinct
addresses.  `id_of_common_part_collides_witness`: IDs computed from the common part identify two modules with
different state.  The source's choice is a regenerated shape (`host_module_id_is_the_fresh_modules_address`).
-/

namespace Wz.C11

structure HostMod where
  common : Nat   -- name, export names, signatures, code addresses of the closures
  state : Nat    -- what the closures captured
  addr : Nat     -- address of the *wasm.Module allocated by this compilation
  deriving DecidableEq, Repr

theorem id_of_address_separates (f : Nat → Nat) (hf : ∀ a b, f a = f b → a = b)
    (m₁ m₂ : HostMod) (hne : m₁.addr ≠ m₂.addr) : f m₁.addr ≠ f m₂.addr :=
  fun h => hne (hf _ _ h)

theorem id_of_common_part_collides_witness :
    ∃ m₁ m₂ : HostMod, m₁.state ≠ m₂.state ∧ m₁.addr ≠ m₂.addr ∧ (fun m : HostMod => m.common) m₁ = (fun m : HostMod => m.common) m₂ :=
  ⟨⟨7, 1, 100⟩, ⟨7, 2, 200⟩, by decide, by decide, rfl⟩

/-- the rule on the source, regenerated: `NewHostModule` derives the ID from `%p` of the module it just allocated -/
theorem host_module_id_is_the_fresh_modules_address :
    Wz.Gen.Shapes.get "c11.host_module_id" = some "[]byte(fmt.Sprintf(\"@@@@@@@@%p\", m))" := by
  decide

end Wz.C11
