/-
C13 — The on-disk compilation cache is deterministic and crash-safe.

Property theorems (statements + proofs by lemma application; the work is in Wz/Proofs/C13_FS.lean,
Wz/Proofs/C13_Entry.lean, Wz/Proofs/C13_EntryFixed.lean).  Models: Wz/Model/FileCache.lean (directory,
temp files, write/sync/close/rename/remove, `fileCache.Add` as the REGENERATED step list
`Wz.Gen.FileCache.addSteps`, writers under arbitrary schedules, injected call failures, power loss) and
Wz/Model/CacheEntry.lean (`serializeCompiledModule`/`deserializeCompiledModule`/`getCompiledModuleFromCache`
of engine_cache.go, byte for byte, over an ABSTRACT checksum function `crc`).

What is NOT proved here (the partial part of C13, monitored by harness/cmd/hc13 instead):
  * determinism of the compiler's output (`serialize` is a function, so the entry is determined by the compiled
    module; that the compiled module is the same in every process is observed, not proved);
  * the kernel's guarantees assumed by the model: rename is atomic, data written before a successful fsync
    survives, O_EXCL temp names are unique.
-/
import Wz.Proofs.C13_FS
import Wz.Proofs.C13_Entry
import Wz.Proofs.C13_EntryFixed

namespace Wz.C13
open Wz.Model.FileCache
open Wz.Model.CacheEntry (CM Res serialize deserialize deserializeFixed deserializeSw getFromCache)
open Wz.Gen.FileCache (AddStep)

/-! ## 1. `fileCache.Add` -/

/-- Tie A: the step list regenerated from file_cache.go is the one the theorems below speak about; temp names
come from a pattern with a random part and a literal suffix; `Rename(file.Name(), path)`. This is the obligation
that breaks when someone reorders or drops a call of `Add`. -/
theorem add_steps_as_modelled :
    Wz.Gen.FileCache.addSteps = [.createTemp, .copy, .sync, .close, .rename] ∧
    Wz.Gen.FileCache.addCleanup = [.close, .remove] ∧
    Wz.Gen.FileCache.tempNamesFresh = true ∧
    Wz.Gen.FileCache.renameFromTemp = true ∧ Wz.Gen.FileCache.renameToFinal = true := by
  refine ⟨rfl, rfl, rfl, rfl, rfl⟩

/-- `add_concurrent` (full strength): ANY number of writers (writer `w` adds `(spec w).2` under key
`(spec w).1`), ANY interleaving of their file-system calls with byte-granular writes, ANY calls failing, ANY
`Delete`s, stopped at ANY point (a dead process is one that is not scheduled again), then a power loss that drops
an arbitrary part of all unsynced data: under every final name there is nothing, or what was there initially, or
the COMPLETE content of some writer of that key. -/
theorem add_concurrent (fs0 : FS) (h0 : fs0.WF0) (spec : Nat → Nat × Bytes)
    (evs : List Ev) (keep : Nat → Nat) (key : Nat) :
    FS.Allowed fs0 spec key
      ((((Sys.init fs0 spec).run evs).fs.powerLoss keep).content (.final key)) :=
  FS.add_concurrent_powerloss fs0 h0 spec evs keep key

/-- the same when only processes die (no power loss) -/
theorem add_concurrent_process_death (fs0 : FS) (h0 : fs0.WF0) (spec : Nat → Nat × Bytes)
    (evs : List Ev) (key : Nat) :
    FS.Allowed fs0 spec key (((Sys.init fs0 spec).run evs).fs.content (.final key)) :=
  FS.add_concurrent fs0 h0 spec evs key

/-- non-vacuity of `FS.WF0`: the empty directory -/
theorem empty_wf0 : FS.empty.WF0 where
  inoBound := by intro n i h; simp [FS.empty] at h
  nonceBound := by intro k n _; rfl
  finalsDurable := by intro k i h; simp [FS.empty] at h

/-- `add_crash_safe` (full strength): one writer of `content` into an empty directory, dying after ANY number `n`
of micro-steps (every crash point, every partially written prefix), then ANY power loss: the final name maps to
nothing or to the complete content. -/
theorem add_crash_safe (key : Nat) (content : Bytes) (n : Nat) (keep : Nat → Nat) :
    let c := ((((Sys.init FS.empty (fun _ => (key, content))).run (List.replicate n (.run 0))).fs.powerLoss keep).content
      (.final key))
    c = none ∨ c = some content := by
  intro c
  have h := FS.add_concurrent_powerloss FS.empty empty_wf0 (fun _ => (key, content)) (List.replicate n (.run 0)) keep key
  rcases h with h | h | ⟨w, _, h⟩
  · exact Or.inl h
  · exact Or.inl h
  · exact Or.inr h

/-- temp names are never final names (in the model by construction; for the code: `tempNamesFresh` above and the
harness, which matches every real file name against `<64 hex>` / `<64 hex>.<digits>.tmp`) -/
theorem temp_name_never_final (fs : FS) (key k' : Nat) : (fs.createTemp key).2.1 ≠ Name.final k' := by
  simp [FS.createTemp]

/-- progress (the safety theorems are not vacuous): a writer scheduled alone for all its steps publishes its content -/
theorem add_completes (fs0 : FS) (h0 : fs0.WF0) (spec : Nat → Nat × Bytes) (w : Nat) :
    ((Sys.init fs0 spec).run (List.replicate ((spec w).2.length + 4) (Ev.run w))).fs.content
      (.final (spec w).1) = some (spec w).2 :=
  FS.add_completes fs0 h0 spec w

/-- the theorems depend on the ORDER of the calls: with `Rename` before `Sync` a power loss leaves a partial entry
under the final name, and without `Sync` an empty one (witnesses by evaluation of the model: tests). -/
theorem add_order_matters :
    (((Sys.initWith [.createTemp, .copy, .rename, .sync, .close] [.close, .remove] FS.empty
        (fun _ => (0, [1, 2, 3]))).run (List.replicate 5 (.run 0))).fs.powerLoss
      (fun _ => 1)).content (.final 0) = some [1] ∧
    (((Sys.initWith [.createTemp, .copy, .close, .rename] [.close, .remove] FS.empty
        (fun _ => (0, [1, 2, 3]))).run (List.replicate 7 (.run 0))).fs.powerLoss
      (fun _ => 0)).content (.final 0) = some [] :=
  ⟨FS.rename_before_sync_breaks, FS.no_sync_breaks⟩

/-! ## 2. the entry codec -/

/-- `deser_ser`: a serialized module is read back unchanged (any checksum function; for a module WITHOUT code the
reader skips the checksum field and takes its first byte for the source-map flag, hence the side condition — the real
CRC-32C of the empty string is 0). -/
theorem deser_ser (crc : Bytes → Nat) (magic ver : Bytes) (cm : CM)
    (hwf : cm.WF) (hv : ver.length < 256) (hx : cm.exec = [] → crc [] % 256 ≠ 1) :
    deserialize crc magic ver (serialize crc magic ver cm) = .ok cm :=
  Entry.deser_ser crc magic ver cm hwf hv hx

/-- non-vacuity of the hypotheses -/
example : Entry.cm1.WF := Entry.cm1_wf

/-- FULL STATEMENT (false for the code as it is, see the witness):
      ∀ cm WF, ∀ k < |serialize cm|, deserialize (take k (serialize cm)) is an error.
`truncation_rejected_partial`: it holds for every module that has code: every strict prefix of its entry is refused
with an error. Missing: modules without code (exec = []). -/
theorem truncation_rejected_partial (crc : Bytes → Nat) (magic ver : Bytes) (cm : CM)
    (hwf : cm.WF) (hv : ver.length < 256) (hx : cm.exec ≠ []) (k : Nat)
    (hk : k < (serialize crc magic ver cm).length) :
    ∃ m, deserialize crc magic ver ((serialize crc magic ver cm).take k) = .err m :=
  Entry.truncation_rejected crc magic ver cm hwf hv hx k hk

/-- WITNESS of the finding: the entry of a module without functions, cut by 1 or by 4 bytes, is accepted -/
theorem truncation_accepted_witness :
    deserialize Entry.crc0 Entry.magic0 Entry.ver0
        ((serialize Entry.crc0 Entry.magic0 Entry.ver0 Entry.cm0).take
          ((serialize Entry.crc0 Entry.magic0 Entry.ver0 Entry.cm0).length - 1)) = .ok Entry.cm0 ∧
    deserialize Entry.crc0 Entry.magic0 Entry.ver0
        ((serialize Entry.crc0 Entry.magic0 Entry.ver0 Entry.cm0).take
          ((serialize Entry.crc0 Entry.magic0 Entry.ver0 Entry.cm0).length - 4)) = .ok Entry.cm0 :=
  Entry.truncation_accepted_witness

/-- … but for EVERY valid entry an accepted prefix can only yield exactly the module that was written: a truncated
entry is never read back as different code. -/
theorem truncation_harmless (crc : Bytes → Nat) (magic ver : Bytes) (cm cm' : CM)
    (hwf : cm.WF) (hv : ver.length < 256) (hx : cm.exec = [] → crc [] % 256 ≠ 1) (k : Nat)
    (h : deserialize crc magic ver ((serialize crc magic ver cm).take k) = .ok cm') :
    cm' = cm :=
  Entry.truncation_harmless crc magic ver cm cm' hwf hv hx k h

/-- REPAIRED variant (finding switch `crcAlways = true`: the checksum field is always read and compared):
`truncation_rejected` at full strength, for every well-formed module and every checksum function. -/
theorem truncation_rejected_repaired (crc : Bytes → Nat) (magic ver : Bytes) (cm : CM)
    (hwf : cm.WF) (hv : ver.length < 256) (k : Nat)
    (hk : k < (serialize crc magic ver cm).length) :
    ∃ m, deserializeSw true crc magic ver ((serialize crc magic ver cm).take k) = .err m := by
  simpa [deserializeSw] using Entry.truncation_rejected_fixed crc magic ver cm hwf hv k hk

theorem deser_ser_repaired (crc : Bytes → Nat) (magic ver : Bytes) (cm : CM)
    (hwf : cm.WF) (hv : ver.length < 256) :
    deserializeSw true crc magic ver (serialize crc magic ver cm) = .ok cm := by
  simpa [deserializeSw] using Entry.deser_ser_fixed crc magic ver cm hwf hv

/-- The entry codec is injective on well-formed modules: two modules with the same entry bytes are the same module,
for every checksum function (corollary of `deser_ser_repaired`: a reader that inverts the writer exists). So one
cache entry never stands for two different pieces of code, whatever the checksum collides on. -/
theorem serialize_injective (crc : Bytes → Nat) (magic ver : Bytes) (cm cm' : CM)
    (hwf : cm.WF) (hwf' : cm'.WF) (hv : ver.length < 256)
    (h : serialize crc magic ver cm = serialize crc magic ver cm') : cm = cm' := by
  have r1 := deser_ser_repaired crc magic ver cm hwf hv
  have r2 := deser_ser_repaired crc magic ver cm' hwf' hv
  rw [h, r2] at r1
  injection r1 with r1
  exact r1.symm

/-- `other_version_stale`: an entry written by ANOTHER version (of length < 256) is stale — or, when the whole entry
is shorter than this version's header, an error — never accepted. -/
theorem other_version_stale (crc : Bytes → Nat) (magic ver ver' : Bytes) (cm : CM)
    (hne : ver ≠ ver') (hv' : ver'.length < 256) :
    deserialize crc magic ver (serialize crc magic ver' cm) = .stale ∨
    deserialize crc magic ver (serialize crc magic ver' cm) = .err "invalid header length" :=
  Entry.other_version_stale crc magic ver ver' cm hne hv'

/-- `never_executed`: `getCompiledModuleFromCache` hands out code only when `deserialize` said ok; a stale entry is
deleted and the module recompiled; an error is returned to the caller of `CompileModule` and nothing is executed. -/
theorem never_executed (crc : Bytes → Nat) (magic ver : Bytes) (entry : Option Bytes) :
    let o := getFromCache crc magic ver entry
    (∀ cm, o.code = some cm → ∃ e, entry = some e ∧ deserialize crc magic ver e = .ok cm) ∧
    (∀ e, entry = some e → deserialize crc magic ver e = .stale → o.code = none ∧ o.deleted = true ∧ o.recompiled = true) ∧
    (∀ e m, entry = some e → deserialize crc magic ver e = .err m → o.code = none ∧ o.error = some m ∧ o.recompiled = false) := by
  intro o
  refine ⟨?_, ?_, ?_⟩
  · intro cm h
    cases entry with
    | none => simp [o, getFromCache] at h
    | some e =>
      refine ⟨e, rfl, ?_⟩
      cases hd : deserialize crc magic ver e <;> simp [o, getFromCache, hd] at h
      subst h; rfl
  · intro e he hd; subst he; simp [o, getFromCache, hd]
  · intro e m he hd; subst he; simp [o, getFromCache, hd]

/-- truncated entries of modules with code, and entries of other versions, never reach execution -/
theorem truncated_or_other_version_never_executed (crc : Bytes → Nat) (magic ver ver' : Bytes) (cm : CM)
    (hwf : cm.WF) (hv : ver.length < 256) (hv' : ver'.length < 256) :
    (cm.exec ≠ [] → ∀ k, k < (serialize crc magic ver cm).length →
        (getFromCache crc magic ver (some ((serialize crc magic ver cm).take k))).code = none) ∧
    (ver ≠ ver' → (getFromCache crc magic ver (some (serialize crc magic ver' cm))).code = none) := by
  constructor
  · intro hx k hk
    obtain ⟨m, hm⟩ := Entry.truncation_rejected crc magic ver cm hwf hv hx k hk
    simp [getFromCache, hm]
  · intro hne
    rcases Entry.other_version_stale crc magic ver ver' cm hne hv' with h | h <;> simp [getFromCache, h]

/-- `serialize_deterministic` is trivial (a function): the entry is determined by version and compiled module; what
is NOT provable here is that the compiler produces the same `cm` in every process (monitored). -/
theorem serialize_deterministic (crc : Bytes → Nat) (magic ver : Bytes) (cm cm' : CM) (h : cm = cm') :
    serialize crc magic ver cm = serialize crc magic ver cm' := by rw [h]

/-- what the checksum does NOT cover (second finding, beyond the letter of C13): changing a byte of a function
offset gives an entry of the same length that is accepted and yields a different module with the same code. -/
theorem offsets_not_checksummed :
    ∃ e' cm', e' ≠ serialize Entry.crcSum Entry.magic0 Entry.ver0 Entry.cm1 ∧
      e'.length = (serialize Entry.crcSum Entry.magic0 Entry.ver0 Entry.cm1).length ∧
      deserialize Entry.crcSum Entry.magic0 Entry.ver0 e' = .ok cm' ∧ cm' ≠ Entry.cm1 ∧ cm'.exec = Entry.cm1.exec :=
  Entry.offsets_not_checksummed

end Wz.C13
