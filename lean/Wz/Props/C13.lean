/- C13: property theorems (none yet). -/
namespace Wz.C13
end Wz.C13
