/-
C01 (lowering) — the interpreter's lowering of structured control flow to flat code with labels, branch
targets, drop ranges and stack-relative local accesses preserves the semantics.

Model: `Wz.Model.FlatLower` (`lower` mirrors compiler.go + lowerIR, `runFlat` mirrors callNativeFunc; tied to
the real code by the harness `hlower`, see docs/C01_lower.md).  Reference: `runStruct`, i.e.
`Wz.Spec.Wasm.invoke` on the embedding of the fragment into `Wz.Spec.Wasm.Instr`.

Proved here for EVERY function `f` of the fragment with `wellTyped f` (decidable stack typing of live code),
`Small f` (fewer than 2^64-1 lowered operations) and EVERY argument vector that fits the parameter types:

* `C01_lower_refines`  — forward (a structured run that finishes with fuel `n` is matched by the flat run for
  every sufficiently large flat fuel: same result values / same trap), backward (a flat run that finishes is
  matched by a structured run), and divergence (the structured run exhausts every fuel iff the flat run does);
* `C01_lower_no_panic` — the flat executor never evaluates an out-of-range slice or index expression
  (`Pick`/`Set` depths, drop ranges, `popValue` on an empty stack, the result slice): the outcome `panic` is
  impossible;
* `C01_lower_targets_valid` — every branch target in `lower f` (of `Br`, `BrIf`, `BrTable`) is the return
  address or the index of a `Label` operation (for every `f`, typed or not);
* `C01_lower_labels_unique` — no label is defined twice.
-/
import Wz.Proofs.C01_FlatLower
import Wz.Proofs.C01_FlatLower_Refs

namespace Wz.C01
open Wz.Spec.Wasm Wz.Model.FlatLower Wz.Proofs.FlatLower

/-- the arguments fit the parameter types: right number, an i32 argument is `< 2^32`, an i64 argument `< 2^64` -/
abbrev ArgsOK (f : Fn) (args : List Nat) : Prop := ValsOK f.params args

instance (f : Fn) : Decidable (Small f) := inferInstanceAs (Decidable ((lowerSym f).length < retAddr))

/-- **Refinement, both directions and divergence.** -/
theorem C01_lower_refines (f : Fn) (hwt : wellTyped f = true) (hsmall : Small f) (args : List Nat)
    (hargs : ArgsOK f args) :
    (∀ n, runStruct f args n ≠ .exhausted →
      ∃ m, ∀ m', m ≤ m' → runFlat f args m' = FlatOut.ofSpec (runStruct f args n)) ∧
    (∀ m, runFlat f args m ≠ .exhausted →
      ∃ n, FlatOut.ofSpec (runStruct f args n) = runFlat f args m) ∧
    ((∀ n, runStruct f args n = .exhausted) ↔ (∀ m, runFlat f args m = .exhausted)) := by
  refine ⟨fun n hn => lower_forward f hwt hsmall args hargs n hn,
    fun m hm => lower_backward f hwt hsmall args hargs m hm,
    lower_diverges f hwt hsmall args hargs, fun hflat n => ?_⟩
  by_cases h : runStruct f args n = .exhausted
  · exact h
  · obtain ⟨m, hm⟩ := lower_forward f hwt hsmall args hargs n h
    have := hm m (Nat.le_refl _)
    rw [hflat m] at this
    cases hs : runStruct f args n <;> rw [hs] at this h <;> simp [FlatOut.ofSpec] at this h

/-- consequence: result values agree (for the structured fuel `n` there is a flat fuel `m` and vice versa) -/
theorem C01_lower_values (f : Fn) (hwt : wellTyped f = true) (hsmall : Small f) (args : List Nat)
    (hargs : ArgsOK f args) (vs : List Nat) :
    (∃ n, runStruct f args n = .values vs) ↔ (∃ m, runFlat f args m = .values vs) := by
  obtain ⟨hf, hb, _⟩ := C01_lower_refines f hwt hsmall args hargs
  constructor
  · rintro ⟨n, hn⟩
    obtain ⟨m, hm⟩ := hf n (by rw [hn]; simp)
    exact ⟨m, by rw [hm m (Nat.le_refl _), hn]; rfl⟩
  · rintro ⟨m, hm⟩
    obtain ⟨n, hn⟩ := hb m (by rw [hm]; simp)
    refine ⟨n, ?_⟩
    rw [hm] at hn
    cases hs : runStruct f args n <;> rw [hs] at hn <;> simp [FlatOut.ofSpec] at hn
    rw [hn]

/-- consequence: traps agree -/
theorem C01_lower_traps (f : Fn) (hwt : wellTyped f = true) (hsmall : Small f) (args : List Nat)
    (hargs : ArgsOK f args) (k : String) :
    (∃ n, runStruct f args n = .trap k) ↔ (∃ m, runFlat f args m = .trap k) := by
  obtain ⟨hf, hb, _⟩ := C01_lower_refines f hwt hsmall args hargs
  constructor
  · rintro ⟨n, hn⟩
    obtain ⟨m, hm⟩ := hf n (by rw [hn]; simp)
    exact ⟨m, by rw [hm m (Nat.le_refl _), hn]; rfl⟩
  · rintro ⟨m, hm⟩
    obtain ⟨n, hn⟩ := hb m (by rw [hm]; simp)
    refine ⟨n, ?_⟩
    rw [hm] at hn
    cases hs : runStruct f args n <;> rw [hs] at hn <;> simp [FlatOut.ofSpec] at hn
    rw [hn]

/-- **Safety of the executor**: no out-of-range slice / index expression is ever evaluated. -/
theorem C01_lower_no_panic (f : Fn) (hwt : wellTyped f = true) (hsmall : Small f) (args : List Nat)
    (hargs : ArgsOK f args) (m : Nat) (w : String) : runFlat f args m ≠ .panic w :=
  lower_no_panic f hwt hsmall args hargs m w

/-- **Branch targets**: every target of a `Br` / `BrIf` / `BrTable` of the lowered code is the return address or
the index of a `Label` operation. -/
theorem C01_lower_targets_valid (f : Fn) (op : FlatOp) (hop : op ∈ lower f) (t : Nat) (ht : t ∈ refsOf op) :
    t = retAddr ∨ ∃ l, (lower f)[t]? = some (.label l) :=
  lower_targets_valid f op hop t ht

/-- label definitions are unique -/
theorem C01_lower_labels_unique (f : Fn) : (labelsOf (lowerSym f)).Nodup := lowerSym_nodup f

/-! ### non-vacuity -/

/-- a loop with `br_if` and a local counter: count up to the argument
`block (loop (local.get 1; i32.const 1; i32.add; local.tee 1; local.get 0; i32.ge_u; br_if 1; br 0)); local.get 1` -/
def countTo : Fn :=
  { params := [.i32], results := [.i32], locals := [.i32],
    body := [.block none [.loop none [.localGet 1, .const .i32 1, .num2 "i32.add", .localTee 1, .localGet 0,
      .num2 "i32.ge_u", .brIf 1, .br 0]], .localGet 1] }

example : wellTyped countTo = true := by decide
example : Small countTo := by decide

/-- its lowering: locals' default value, `Br`/`Label` of the loop header (frame 3), the body with `Pick`/`Set`
depths relative to the static height, the `br_if` with its own else-label (frame 4), the back edge, the
continuation label of the block (frame 2), and the function's `end`: drop parameters and locals under the result -/
example : lower countTo =
    [.const .i32 0, .br 2, .label ⟨.header, 3⟩, .pick 0, .const .i32 1, .num2 "i32.add", .pick 0, .set 2,
     .pick 2, .num2 "i32.ge_u", .brIf 15 11 none, .label ⟨.header, 4⟩, .br 2, .label ⟨.cont, 3⟩, .br 15,
     .label ⟨.cont, 2⟩, .pick 0, .drop ⟨1, 2⟩, .br retAddr] := by rfl


/-! the two runs on the argument 2, evaluated by `simp` (the numeric table dispatches on `name.splitOn "."`,
which the kernel cannot evaluate by `decide`; the two splits are evaluated explicitly) -/

theorem split_add : "i32.add".splitOn "." = ["i32", "add"] := by
  simp +decide [String.splitOn, String.splitOnAux.eq_1]
theorem split_geu : "i32.ge_u".splitOn "." = ["i32", "ge_u"] := by
  simp +decide [String.splitOn, String.splitOnAux.eq_1]

theorem scalar_add (a b : Nat) :
    Wz.Spec.Num.scalar "i32.add" [a, b] =
      some (.val (Wz.Spec.Int.iadd (Wz.Spec.Num.bv 32 a) (Wz.Spec.Num.bv 32 b)).toNat) := by
  rw [scalar2_eq split_add]; simp [sc2, Wz.Spec.Num.ibin]
theorem scalar_geu (a b : Nat) :
    Wz.Spec.Num.scalar "i32.ge_u" [a, b] =
      some (.val (Wz.Spec.Int.igeU (Wz.Spec.Num.bv 32 a) (Wz.Spec.Num.bv 32 b)).toNat) := by
  rw [scalar2_eq split_geu]; simp [sc2, Wz.Spec.Num.ibin]

/-- the flat run counts to 2 … -/
example : runFlat countTo [2] 40 = .values [2] := by
  have hl : lower countTo =
    [.const .i32 0, .br 2, .label ⟨.header, 3⟩, .pick 0, .const .i32 1, .num2 "i32.add", .pick 0, .set 2,
     .pick 2, .num2 "i32.ge_u", .brIf 15 11 none, .label ⟨.header, 4⟩, .br 2, .label ⟨.cont, 3⟩, .br 15,
     .label ⟨.cont, 2⟩, .pick 0, .drop ⟨1, 2⟩, .br retAddr] := by rfl
  simp only [runFlat, runCode, hl]
  simp +decide [runFrom, step, numStep, scalar_add, scalar_geu, numResult, applyDrop, Wz.Spec.Int.iadd,
    Wz.Spec.Int.igeU, Wz.Spec.Int.b2i, Wz.Spec.Num.bv, retAddr, countTo]

/-- … and so does the structured reference semantics -/
example : runStruct countTo [2] 40 = .values [2] := by
  simp +decide [runStruct, invoke, callFunc, funcType, Fn.toModule, countTo, toInstrs, FI.toInstr, execSeq,
    execInstr, scalar_add, scalar_geu, numResult, Wz.Spec.Int.iadd, Wz.Spec.Int.igeU, Wz.Spec.Int.b2i,
    Wz.Spec.Num.bv, splitTop, arity]

/-- the theorems apply to it, for every argument -/
example (a : Nat) (ha : a < 2 ^ 32) (m : Nat) (w : String) : runFlat countTo [a] m ≠ .panic w :=
  C01_lower_no_panic countTo (by decide) (by decide) [a] ⟨ha, trivial⟩ m w

example (a : Nat) (ha : a < 2 ^ 32) (vs : List Nat) :
    (∃ n, runStruct countTo [a] n = .values vs) ↔ (∃ m, runFlat countTo [a] m = .values vs) :=
  C01_lower_values countTo (by decide) (by decide) [a] ⟨ha, trivial⟩ vs

/-- nested blocks with a branch out of two levels that carries a value over a pending operand:
`block i32 (i64.const 1; block (i32.const 7; br 1); drop; i32.const 9)` -/
def brOut : Fn :=
  { params := [], results := [.i32], locals := [],
    body := [.block (some .i32) [.const .i64 1, .block none [.const .i32 7, .br 1], .drop, .const .i32 9]] }

example : wellTyped brOut = true := by decide
example : Small brOut := by decide

/-- the branch drops the pending i64 under the carried value (`Drop 1..1`); the code after it is not emitted up
to the inner `end`, whose continuation label is emitted because the end is unreachable -/
example : lower brOut =
    [.const .i64 1, .const .i32 7, .drop ⟨1, 1⟩, .br 8, .label ⟨.cont, 3⟩, .drop ⟨0, 0⟩, .const .i32 9, .br 8,
     .label ⟨.cont, 2⟩, .br retAddr] := by rfl

/-- both semantics return 7 (computed by the kernel), as the theorem says they must agree -/
example : runStruct brOut [] 10 = .values [7] ∧ runFlat brOut [] 10 = .values [7] := by decide

example : (∃ n, runStruct brOut [] n = .values [7]) ↔ (∃ m, runFlat brOut [] m = .values [7]) :=
  C01_lower_values brOut (by decide) (by decide) [] trivial [7]

end Wz.C01
