import Wz.Gen.Shapes

/-!
# C04 companion: table.grow fills the WHOLE new region, for every delta

`TableInstance.Grow` - the one Go helper behind `table.grow` on both engines and the only place where the reference
slice shared by the exporter and the importers of a table is extended - fills the `n` new slots with the initial
reference by the copy-doubling trick: seed slot 0, then `for i := 1; i < n; i *= 2 { copy(new[i:], new[:i]) }`.
`copy` moves `min(len dst, len src)` elements, so the last round copies a partial chunk.  `grow_fill_all`: for EVERY
`n ≥ 1` and every previous content, all `n` slots hold the initial reference afterwards (`grow_fill_frame`: nothing at
or beyond `n` is written).  The tidy-looking variant that copies exact doubling chunks (`for i := 1; 2i ≤ n; i *= 2
{ copy(new[i:2i], new[:i]) }`) stops at the largest power of two: `exact_chunks_leave_tail_witness` (n = 3, seeded change
C04-9).  The seeding assignment and the loop are a regenerated shape.
-/

namespace Wz.C04

/-- `copy(new[i:], new[:i])` on a region of `n` slots: `min (n-i) i` elements move -/
def copyStep (n i : Nat) (f : Nat → α) : Nat → α :=
  fun j => if i ≤ j ∧ j < n ∧ j - i < i then f (j - i) else f j

/-- `for i := 1; i < n; i *= 2 { copy(new[i:], new[:i]) }` (the fuel is the loop's own bound: see `fillLoop_all`) -/
def fillLoop (n : Nat) : Nat → Nat → (Nat → α) → (Nat → α)
  | 0, _, f => f
  | fuel + 1, i, f => if i < n then fillLoop n fuel (2 * i) (copyStep n i f) else f

/-- the new region after `Grow(n, v)`: slot 0 seeded, then the loop -/
def growFill (n : Nat) (v : α) (old : Nat → α) : Nat → α :=
  fillLoop n n 1 (fun j => if j = 0 then v else old j)

theorem fillLoop_all (n : Nat) (v : α) : ∀ (fuel i : Nat) (f : Nat → α), 1 ≤ i → n < fuel + i →
    (∀ j, j < i → j < n → f j = v) → ∀ j, j < n → fillLoop n fuel i f j = v := by
  intro fuel
  induction fuel with
  | zero =>
    intro i f _ hfi hinv j hj
    simp only [fillLoop]
    exact hinv j (by omega) hj
  | succ fuel ih =>
    intro i f hi hfi hinv j hj
    simp only [fillLoop]
    by_cases hlt : i < n
    · rw [if_pos hlt]
      apply ih (2 * i) (copyStep n i f) (by omega) (by omega) _ j hj
      intro k hk2 hkn
      unfold copyStep
      by_cases hik : i ≤ k
      · rw [if_pos ⟨hik, hkn, by omega⟩]
        exact hinv (k - i) (by omega) (by omega)
      · rw [if_neg (fun h => hik h.1)]
        exact hinv k (by omega) hkn
    · rw [if_neg hlt]
      exact hinv j (by omega) hj

/-- every one of the `n` new slots holds the initial reference, for every `n` and every previous content -/
theorem grow_fill_all (n : Nat) (v : α) (old : Nat → α) (j : Nat) (hj : j < n) : growFill n v old j = v := by
  unfold growFill
  apply fillLoop_all n v n 1 _ (by omega) (by omega) _ j hj
  intro k hk _
  have : k = 0 := by omega
  simp [this]

theorem copyStep_frame (n i : Nat) (f : Nat → α) (j : Nat) (hj : n ≤ j) : copyStep n i f j = f j := by
  unfold copyStep
  rw [if_neg (fun h => by omega)]

theorem fillLoop_frame (n : Nat) : ∀ (fuel i : Nat) (f : Nat → α) (j : Nat), n ≤ j → fillLoop n fuel i f j = f j := by
  intro fuel
  induction fuel with
  | zero => intro i f j _; rfl
  | succ fuel ih =>
    intro i f j hj
    simp only [fillLoop]
    split
    · rw [ih _ _ j hj, copyStep_frame n i f j hj]
    · rfl

/-- nothing at or beyond the new region is written -/
theorem grow_fill_frame (n : Nat) (v : α) (old : Nat → α) (j : Nat) (hj : n ≤ j) (h0 : j ≠ 0) : growFill n v old j = old j := by
  unfold growFill
  rw [fillLoop_frame n n 1 _ j hj]
  simp [h0]

/-- the variant with exact doubling chunks: `for i := 1; 2i ≤ n; i *= 2 { copy(new[i:2i], new[:i]) }` -/
def exactLoop (n : Nat) : Nat → Nat → (Nat → α) → (Nat → α)
  | 0, _, f => f
  | fuel + 1, i, f =>
    if 2 * i ≤ n then exactLoop n fuel (2 * i) (fun j => if i ≤ j ∧ j < 2 * i then f (j - i) else f j) else f

theorem exact_chunks_leave_tail_witness :
    exactLoop 3 3 1 (fun j => if j = 0 then 42 else 0) 2 = 0 ∧ growFill 3 42 (fun _ => 0) 2 = 42 := by decide

theorem table_grow_fill_shape :
    Wz.Gen.Shapes.get "c04.table_grow_fill" =
      some "newRegion[0] = initialRef ;; for i := 1; i < len(newRegion); i *= 2 { copy(newRegion[i:], newRegion[:i]) }" := by
  decide

end Wz.C04
