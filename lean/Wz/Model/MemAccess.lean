/-
C02, core 1 and 4: the interpreter's effective-address computation and range checks.

Nothing that decides in-range/out-of-range is written here: `popMemoryOffset`, the bulk-operation
conditions and the v128 guard/offset lists come from `Wz.Gen.InterpAddr` (regenerated from
internal/engine/interpreter/interpreter.go on every run), `hasSize` from `Wz.Gen.Memory`
(regenerated from internal/wasm/memory.go).  This file only composes them the way
`callNativeFunc` does (`memoryInst.ReadXxx(ce.popMemoryOffset(op))`) and states the specification.
-/
import Wz.Gen.Memory
import Wz.Gen.InterpAddr

namespace Wz.Model.MemAccess
open Wz.Gen.Memory Wz.Gen.InterpAddr

/-- The property's own predicate over ℕ: an access of `w` bytes with dynamic base `base` and static
offset `off` on a memory of `len` bytes succeeds iff `base+off+w ≤ len`, and then addresses
`base+off`. -/
def specAccess (base off w len : Nat) : Option Nat :=
  if base + off + w ≤ len then some (base + off) else none

/-- The bytes touched by an access that the specification allows. -/
def specBytes (ea w : Nat) : List Nat := (List.range w).map (ea + ·)

/-- Interpreter scalar access (`operationKindLoad*`/`Store*`, atomics): the popped stack slot holds
the zero-extended i32 base, `op.U2` the static offset; `memoryInst.ReadXxx(ea)` is `hasSize ea w`. -/
def access (base off : BitVec 32) (w : Nat) (len : BitVec 64) : Option (BitVec 32) :=
  match popMemoryOffset (off.setWidth 64) (base.setWidth 64) with
  | none => none
  | some ea => if hasSize ea (BitVec.ofNat 64 w) len then some ea else none

/-- Interpreter 128-bit access made of 8-byte pieces: optional overflow guard, then every piece
must pass `hasSize · 8`. -/
def multi (guard : BitVec 32 → Bool) (offs : BitVec 32 → List (BitVec 32))
    (base off : BitVec 32) (len : BitVec 64) : Option (BitVec 32) :=
  match popMemoryOffset (off.setWidth 64) (base.setWidth 64) with
  | none => none
  | some ea =>
    if guard ea then none
    else if (offs ea).all (fun o => hasSize o 8#64 len) then some ea else none

/-- Bytes touched by a successful 8-byte-piece access. -/
def multiBytes (offs : BitVec 32 → List (BitVec 32)) (ea : BitVec 32) : List Nat :=
  (offs ea).flatMap (fun o => specBytes o.toNat 8)

/-- `v128.load` as the interpreter performs it on the current tree (regenerated guard/offsets). -/
def v128Load := multi v128LoadGuard v128LoadOffsets
/-- `v128.store` as the interpreter performs it on the current tree. -/
def v128Store := multi v128StoreGuard v128StoreOffsets

/-- The two variants of the v128.load guard (finding switch, DESIGN §8): as-is = no guard. -/
def guardAsIs (_ : BitVec 32) : Bool := false
/-- repaired = the same overflow guard `uint64(offset)+8 > math.MaxUint32` that v128.store has. -/
def guardRepaired (offset : BitVec 32) : Bool := BitVec.ult 4294967295#64 ((offset.setWidth 64) + 8#64)
/-- The two 8-byte pieces of a 128-bit access. -/
def pieces (offset : BitVec 32) : List (BitVec 32) := [offset, offset + 8#32]

/-- Bulk operations: operands are i32 values zero-extended into the 64-bit stack slots. -/
def copyTraps (n src dst : BitVec 32) (len : BitVec 64) : Bool :=
  memoryCopyTraps (n.setWidth 64) (src.setWidth 64) (dst.setWidth 64) len 0#64
def fillTraps (n val dst : BitVec 32) (len : BitVec 64) : Bool :=
  memoryFillTraps (n.setWidth 64) (val.setWidth 64) (dst.setWidth 64) len 0#64
def initTraps (n src dst : BitVec 32) (len dataLen : BitVec 64) : Bool :=
  memoryInitTraps (n.setWidth 64) (src.setWidth 64) (dst.setWidth 64) len dataLen

end Wz.Model.MemAccess
