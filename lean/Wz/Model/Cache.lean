/-
C12, part 3: the compilation cache as a state machine.

One engine (the one a `wazero.CompilationCache` holds, shared by every runtime configured with it)
with its in-memory map `ModuleID → compiled module` and the optional file cache; runtimes with fixed
settings; operations CompileModule / InstantiateModule / CompiledModule.Close.

Sources: wazevo `engine.CompileModule`, `getCompiledModule` (engine_cache.go), `NewModuleEngine`,
`DeleteCompiledModule`; interpreter `CompileModule`, `NewModuleEngine`, `deleteCompiledFunctions`;
`compiledModule.Close` (config.go).

What the as-is code does, and this model follows:
* in-memory hit: CompileModule returns at once; the entry keeps the listeners bound at the FIRST compile
  (finding F12);
* file-cache hit: the entry is re-bound to the current request (`cm.listeners = listeners`) and put in
  the in-memory map;
* `CompiledModule.Close` deletes the in-memory entry unconditionally, whoever else still holds a compiled
  module with the same ID (finding N1);
* `NewModuleEngine` fails ("source module must be compiled before instantiation") when the entry is absent.

The two repairs are behind the `Variant` switch (DESIGN section 8).
A "private" (uncached) runtime is the same machine with the key extended by the runtime's identity.
-/
namespace Wz.Model.Cache

abbrev Lst := List (Option Nat)

structure Variant where
  /-- repaired F12: listeners of an instance are those of the instantiating runtime's own compile -/
  rebind : Bool
  /-- repaired N1: an in-memory entry is evicted only when no live compiled module references its key -/
  refcount : Bool
deriving Repr, DecidableEq

def asIs : Variant := { rebind := false, refcount := false }
def repaired : Variant := { rebind := true, refcount := true }

structure Entry (C : Type) where
  code : C
  lst : Lst
deriving Repr

/-- The environment: for runtime `rt` (with its fixed settings and compile context) and binary `b`:
the cache key, the code a fresh compile generates, the listener objects its factory returns. -/
structure Params (K C : Type) where
  key : Nat → Nat → K
  code : Nat → Nat → C
  lst : Nat → Nat → Lst
  useDisk : Bool

structure St (K C : Type) where
  mem : List (K × Entry C)
  disk : List (K × C)
  /-- live compiled-module handles (runtime, binary), one per successful CompileModule not yet closed -/
  handles : List (Nat × Nat)

def St.init {K C : Type} : St K C := { mem := [], disk := [], handles := [] }

inductive Op where
  | compile (rt b : Nat)
  | instantiate (rt b : Nat)
  | closeCompiled (rt b : Nat)
deriving Repr, DecidableEq

inductive Out (C : Type) where
  | compiled
  | closed
  | noHandle                 -- the operation is not applicable (no live compiled module of this runtime)
  | failed                   -- InstantiateModule: "source module must be compiled before instantiation"
  | ran (code : C) (lst : Lst)  -- instantiated: which code runs, which listener objects receive its events
deriving Repr, DecidableEq

section
variable {K C α : Type} [DecidableEq K]

def lookup : List (K × α) → K → Option α
  | [], _ => none
  | (k', v) :: t, k => if k' = k then some v else lookup t k

def erase (l : List (K × α)) (k : K) : List (K × α) := l.filter (fun p => !(decide (p.1 = k)))

def step (P : Params K C) (v : Variant) (s : St K C) : Op → St K C × Out C
  | .compile rt b =>
    let k := P.key rt b
    match lookup s.mem k with
    | some _ => ({ s with handles := (rt, b) :: s.handles }, .compiled)
    | none =>
      match (if P.useDisk then lookup s.disk k else none) with
      | some c =>
        ({ s with mem := (k, { code := c, lst := P.lst rt b }) :: s.mem, handles := (rt, b) :: s.handles }, .compiled)
      | none =>
        ({ mem := (k, { code := P.code rt b, lst := P.lst rt b }) :: s.mem,
           disk := if P.useDisk then (k, P.code rt b) :: s.disk else s.disk,
           handles := (rt, b) :: s.handles }, .compiled)
  | .instantiate rt b =>
    if (rt, b) ∈ s.handles then
      match lookup s.mem (P.key rt b) with
      | none => (s, .failed)
      | some e => (s, .ran e.code (if v.rebind then P.lst rt b else e.lst))
    else (s, .noHandle)
  | .closeCompiled rt b =>
    if (rt, b) ∈ s.handles then
      let hs := s.handles.erase (rt, b)
      let k := P.key rt b
      if v.refcount && hs.any (fun h => decide (P.key h.1 h.2 = k)) then ({ s with handles := hs }, .closed)
      else ({ s with handles := hs, mem := erase s.mem k }, .closed)
    else (s, .noHandle)

/-- outputs of a whole history -/
def run (P : Params K C) (v : Variant) : St K C → List Op → List (Out C)
  | _, [] => []
  | s, op :: ops => (step P v s op).2 :: run P v (step P v s op).1 ops

def final (P : Params K C) (v : Variant) : St K C → List Op → St K C
  | s, [] => s
  | s, op :: ops => final P v (step P v s op).1 ops

/-- The specification: what each runtime observes when nothing is shared and every compile is fresh. -/
def specStep (P : Params K C) (hs : List (Nat × Nat)) : Op → List (Nat × Nat) × Out C
  | .compile rt b => ((rt, b) :: hs, .compiled)
  | .instantiate rt b => if (rt, b) ∈ hs then (hs, .ran (P.code rt b) (P.lst rt b)) else (hs, .noHandle)
  | .closeCompiled rt b => if (rt, b) ∈ hs then (hs.erase (rt, b), .closed) else (hs, .noHandle)

def specRun (P : Params K C) : List (Nat × Nat) → List Op → List (Out C)
  | _, [] => []
  | hs, op :: ops => (specStep P hs op).2 :: specRun P (specStep P hs op).1 ops

/-- The private (uncached) configuration: every runtime has its own engine = the key also names the runtime. -/
def privateParams (P : Params K C) : Params (Nat × K) C :=
  { key := fun rt b => (rt, P.key rt b), code := P.code, lst := P.lst, useDisk := false }

end
end Wz.Model.Cache
