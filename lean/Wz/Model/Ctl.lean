/-
C07 — executable model of guest control flow and of where the two engines insert the
exit-code check (core Lean only; linked into the oracle).

Data is abstracted away: every data instruction is `op`, every data-dependent control decision
(`br_if`, `if`, `br_table` index, `call_indirect` table slot, what a host function does) is resolved
by a *choice* number supplied from outside (nondeterminism).

`lowerS tc` is the model of the two lowerings (interpreter/compiler.go, wazevo/frontend/lower.go):
as on the pinned tree (`tc = false`) a `check` is emitted right after every loop label and nowhere
else; the repaired variant (`tc = true`) also checks at `return_call` / `return_call_indirect`
(the finding switch of F4).  A checked tail call is one instruction whose step counts as a check
(the repair emits the check immediately before the tail call, nothing can happen in between).
-/
import Wz.Gen.Close

namespace Wz.Model.Ctl

mutual
inductive Instr where
  | op                                   -- any instruction without control effect
  | check                                -- exit-code check (only in lowered code)
  | block (b : Seq)
  | loop (b : Seq)
  | ite (t e : Seq)
  | br (n : Nat)
  | brIf (n : Nat)
  | brTable (ns : List Nat) (d : Nat)
  | call (f : Nat)
  | callIndirect
  | returnCall (chk : Bool) (f : Nat)
  | returnCallIndirect (chk : Bool)
  | ret
  | host (cbs : List Nat)                -- call of an imported host function that may call back one of `cbs`
inductive Seq where
  | nil
  | cons (i : Instr) (s : Seq)
end

/-- A module: function bodies and the (single, abstract) table of function indices. -/
structure Prog where
  funcs : List Seq
  table : List Nat

/-! ## The lowering: where checks are inserted -/

mutual
def lowerI (tc : Bool) : Instr → Instr
  | .block b => .block (lowerS tc b)
  | .loop b => .loop (.cons .check (lowerS tc b))
  | .ite t e => .ite (lowerS tc t) (lowerS tc e)
  | .returnCall _ f => .returnCall tc f
  | .returnCallIndirect _ => .returnCallIndirect tc
  | .op => .op
  | .check => .check
  | .br n => .br n
  | .brIf n => .brIf n
  | .brTable ns d => .brTable ns d
  | .call f => .call f
  | .callIndirect => .callIndirect
  | .ret => .ret
  | .host cbs => .host cbs
def lowerS (tc : Bool) : Seq → Seq
  | .nil => .nil
  | .cons i s => .cons (lowerI tc i) (lowerS tc s)
end

def lowerCtl (tc : Bool) (p : Prog) : Prog := { p with funcs := p.funcs.map (lowerS tc) }

/-! ## Well-formedness of lowered code -/

def startsWithCheck : Seq → Bool
  | .cons .check _ => true
  | _ => false

mutual
/-- `wfI req`: every loop body starts with a check (so every backward branch lands on a check);
with `req = true` additionally every tail call is checked. -/
def wfI (req : Bool) : Instr → Bool
  | .block b => wfS req b
  | .loop b => startsWithCheck b && wfS req b
  | .ite t e => wfS req t && wfS req e
  | .returnCall chk _ => !req || chk
  | .returnCallIndirect chk => !req || chk
  | _ => true
def wfS (req : Bool) : Seq → Bool
  | .nil => true
  | .cons i s => wfI req i && wfS req s
end

def wfProg (req : Bool) (p : Prog) : Bool := p.funcs.all (wfS req)

mutual
def noTailI : Instr → Bool
  | .block b => noTailS b
  | .loop b => noTailS b
  | .ite t e => noTailS t && noTailS e
  | .returnCall _ _ => false
  | .returnCallIndirect _ => false
  | _ => true
def noTailS : Seq → Bool
  | .nil => true
  | .cons i s => noTailI i && noTailS s
end

def noTailProg (p : Prog) : Bool := p.funcs.all noTailS

/-! ## Small-step semantics over a stack of frames with depth ceiling `D` -/

/-- A control label: a block's continuation, or a loop (its body, re-entered by a branch, and
what follows the loop). -/
inductive Lbl where
  | blk (after : Seq)
  | lp (body after : Seq)

structure Frame where
  cur : Seq
  lbls : List Lbl

abbrev Stack := List Frame   -- head = innermost frame

/-- `br n` in frame `fr` (labels counted from the innermost); beyond the last label = return. -/
def branch (fr : Frame) (rest : Stack) (n : Nat) : Stack :=
  match fr.lbls.drop n with
  | [] => rest
  | .blk after :: ls => { cur := after, lbls := ls } :: rest
  | .lp b after :: ls => { cur := b, lbls := .lp b after :: ls } :: rest

def callF (p : Prog) (D : Nat) (f : Nat) (st : Stack) : Option (Stack × Bool) :=
  if st.length < D then
    match p.funcs[f]? with
    | some b => some ({ cur := b, lbls := [] } :: st, false)
    | none => none
  else none                                  -- call stack exhausted: trap

def tailF (p : Prog) (f : Nat) (chk : Bool) (rest : Stack) : Option (Stack × Bool) :=
  match p.funcs[f]? with
  | some b => some ({ cur := b, lbls := [] } :: rest, chk)
  | none => none

/-- One step. `c` resolves the data-dependent decision of the instruction (if any). The Boolean
is `true` iff the step performs an exit-code check. `none` = the execution has ended (returned from
the outermost frame, or trapped). -/
def step (p : Prog) (D : Nat) (st : Stack) (c : Nat) : Option (Stack × Bool) :=
  match st with
  | [] => none
  | fr :: rest =>
    match fr.cur with
    | .nil =>
      match fr.lbls with
      | [] => some (rest, false)
      | .blk after :: ls => some ({ cur := after, lbls := ls } :: rest, false)
      | .lp _ after :: ls => some ({ cur := after, lbls := ls } :: rest, false)
    | .cons i k =>
      match i with
      | .op => some ({ fr with cur := k } :: rest, false)
      | .check => some ({ fr with cur := k } :: rest, true)
      | .block b => some ({ cur := b, lbls := .blk k :: fr.lbls } :: rest, false)
      | .loop b => some ({ cur := b, lbls := .lp b k :: fr.lbls } :: rest, false)
      | .ite t e => some ({ cur := if c = 0 then e else t, lbls := .blk k :: fr.lbls } :: rest, false)
      | .br n => some (branch fr rest n, false)
      | .brIf n => if c = 0 then some ({ fr with cur := k } :: rest, false) else some (branch fr rest n, false)
      | .brTable ns d => some (branch fr rest (ns.getD c d), false)
      | .call f => callF p D f ({ fr with cur := k } :: rest)
      | .callIndirect =>
        match p.table[c]? with
        | some f => callF p D f ({ fr with cur := k } :: rest)
        | none => none                        -- out of bounds / null / type mismatch: trap
      | .returnCall chk f => tailF p f chk rest
      | .returnCallIndirect chk =>
        match p.table[c]? with
        | some f => tailF p f chk rest
        | none => none
      | .ret => some (rest, false)
      | .host cbs =>
        match cbs[c]? with
        | some f => callF p D f ({ fr with cur := k } :: rest)
        | none => some ({ fr with cur := k } :: rest, false)

/-- Number of distinct choices that matter in a state (for exhaustive exploration). -/
def numChoices (p : Prog) (st : Stack) : Nat :=
  match st with
  | [] => 1
  | fr :: _ =>
    match fr.cur with
    | .cons (.ite _ _) _ => 2
    | .cons (.brIf _) _ => 2
    | .cons (.brTable ns _) _ => ns.length + 1
    | .cons .callIndirect _ => p.table.length + 1
    | .cons (.returnCallIndirect _) _ => p.table.length + 1
    | .cons (.host cbs) _ => cbs.length + 1
    | _ => 1

def initStack (p : Prog) (f : Nat) : Stack :=
  match p.funcs[f]? with
  | some b => [{ cur := b, lbls := [] }]
  | none => []

/-! ## The Go side: the `closed` word and the exit code selected for each cause -/

open Wz.Gen.Close

/-- `ModuleInstance.setExitCode`: CAS(0 → flag | exitCode<<32). Returns the new word and whether it won. -/
def setExitCode (closed : BitVec 64) (exitCode : BitVec 32) (flag : BitVec 64) : BitVec 64 × Bool :=
  if closed = 0#64 then (flag ||| ((exitCode.setWidth 64) <<< 32), true) else (closed, false)

/-- `ModuleInstance.FailIfClosed`: `some code` = returns `sys.NewExitError(code)`. -/
def failIfClosed (closed : BitVec 64) : Option (BitVec 32) :=
  if closed = 0#64 then none else some ((closed >>> 32).setWidth 32)

def isClosed (closed : BitVec 64) : Bool := closed != 0#64

inductive Cause where
  | canceled                       -- ctx cancelled (watcher goroutine or the entry check)
  | deadline                       -- ctx deadline exceeded
  | closeWith (c : BitVec 32)      -- Module.CloseWithExitCode(c) (Close = closeWith 0)

def Cause.code : Cause → BitVec 32
  | .canceled => BitVec.ofNat 32 ExitCodeContextCanceled
  | .deadline => BitVec.ofNat 32 ExitCodeDeadlineExceeded
  | .closeWith c => c

/-- The flag each path passes to `setExitCode`: the watcher goroutine defers resource closing. -/
def Cause.flag (watcher : Bool) : BitVec 64 :=
  if watcher then BitVec.ofNat 64 exitCodeFlagResourceNotClosed else BitVec.ofNat 64 exitCodeFlagResourceClosed

/-- What happens to the `closed` word when a cause fires. -/
def fire (closed : BitVec 64) (cause : Cause) (watcher : Bool) : BitVec 64 :=
  (setExitCode closed cause.code (Cause.flag watcher)).1

/-- One step of a call running with close-on-context-done: a check step ends the call with the
exit error when the module is closed. `Sum.inr code` = the call returned `sys.ExitError{code}`. -/
def stepC (p : Prog) (D : Nat) (closed : BitVec 64) (st : Stack) (c : Nat) :
    Option (Sum (Stack × Bool) (BitVec 32)) :=
  match step p D st c with
  | none => none
  | some (st', true) =>
    match failIfClosed closed with
    | some code => some (.inr code)
    | none => some (.inl (st', true))
  | some (st', false) => some (.inl (st', false))

end Wz.Model.Ctl
