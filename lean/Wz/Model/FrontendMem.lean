/-
C01 / C02, optimizing compiler (wazevo): the FRONT END on straight-line integer code WITH LINEAR MEMORY ACCESSES
(`internal/engine/wazevo/frontend/lower.go`: the cases `OpcodeI32Load … OpcodeI64Store32`, `OpcodeMemorySize`,
`memOpSetup`, `getMemoryBaseValue`, `getMemoryLenValue`; `frontend.go`: `getKnownSafeBound`, `recordKnownSafeBound`),
for a module with a LOCALLY DEFINED, NON-SHARED memory; one basic block.

This file extends `Wz.Model.FrontendSL` (which it imports and reuses: `SI`, `LS`, `lowerI`, `initLS`, `entryParams`,
`showInstr`) without editing it.

* SSA side.  The SSA model `Wz.Model.SsaPass` has `Load`, `Store`, `Istore8/16/32`, `ExitIfTrueWithCode`, but no
  EXTENDING loads, and the real front end emits `Uload32` for the memory length and `Uload8 … Sload32` for the narrow
  loads.  `MInstr` wraps an instruction of `SsaPass` (`base`, executed by `SsaPass.execInstr` itself) or an extending
  load `extload` (`Uload8 Sload8 Uload16 Sload16 Uload32 Sload32` with the result type i32 / i64), in the style of
  `Wz.Model.FrontendSLX`.  `execBodyL` runs a straight-line list and also LOGS every memory access (`Acc`: load or
  store, absolute address, number of bytes) — the log is what `frontmem_confined` talks about.
* Source side.  `MI` = an instruction of `FrontendSL.SI`, or one of the 12 integer loads / 7 integer stores with a
  static offset, or `memory.size`.  `MI.toInstr` embeds into `Wz.Spec.Wasm.Instr`; the reference semantics is
  `Wz.Spec.Wasm.invoke` on the one-function module, started on a store whose memory is the given `ByteArray`
  (`runSpecM`).
* `lowerMem : FnM → MFunc` mirrors the Go code (see `memOpSetup`, `getMemLen`, `getMemBase`, `lowerMI`):
    - `memOpSetup(baseAddr, constOffset, size)`: `ceil = constOffset + size`; a HIT of the known-safe-bound cache
      (`ceil ≤ known.bound`, keyed by the ValueID of `baseAddr`) emits NOTHING and returns the cached absolute
      address; otherwise `Iconst_64 ceil`, `UExtend baseAddr 32->64`, the memory length (`getMemoryLenValue`:
      the SSA variable if it is defined in the block, else `Uload32 module_ctx, 0x10` which defines it),
      `Iadd ext, ceil`, `Icmp lt_u, len, sum`, `ExitIfTrue cmp, exec_ctx, memory_out_of_bounds`; then, unless an
      absolute address is cached for this `baseAddr` (a known bound that was too small), the memory base
      (`getMemoryBaseValue`: the variable, else `Load module_ctx, 0x8`) and `Iadd base, ext`; finally
      `recordKnownSafeBound(baseAddrID, ceil, address)`.
    - the access: `Load` (i32.load / i64.load), `Uload8 … Sload32` (result type of the Wasm instruction),
      `Store` / `Istore8` / `Istore16` / `Istore32`, each with the STATIC OFFSET as the instruction's offset and the
      absolute address of `baseAddr` (NOT including the offset) as pointer.
    - `memory.size`: `Load module_ctx, 0x10` of type i32 (a fresh load every time, not the variable),
      `Iconst_32 0x10`, `Ushr`.
  In ONE block without calls and `memory.grow` the cached absolute address is never invalidated
  (`resetAbsoluteAddressInSafeBounds` is not reached), so the cache maps a value id to (bound, address).
  Offsets of the module context: `LocalMemoryBegin = 8` (`NewModuleContextOffsetData`: the module-instance pointer
  comes first), so base at 8, length at 16 = 0x10 whenever the module defines a memory.
* `formatM` prints the lowered function as `ssaBuilder.Format()`.

Not here: `memory.grow` (a call through the execution context + reload of base and length + reset of the cached
addresses), imported / shared memories, floats, v128, atomics, bulk operations, several blocks.

Core Lean only (linked into the `oracle` executable).
-/
import Wz.Spec.Wasm
import Wz.Model.SsaPass
import Wz.Model.FrontendSL

namespace Wz.Model.FrontendMem
open Wz.Model.SsaPass Wz.Model.FrontendSL

/-! ## SSA with extending loads -/

/-- `OpcodeUload8 … OpcodeSload32` -/
inductive ExtOp | uload8 | sload8 | uload16 | sload16 | uload32 | sload32
deriving DecidableEq, Repr, Inhabited

def ExtOp.bytes : ExtOp → Nat
  | .uload8 | .sload8 => 1
  | .uload16 | .sload16 => 2
  | .uload32 | .sload32 => 4

def ExtOp.signed : ExtOp → Bool
  | .sload8 | .sload16 | .sload32 => true
  | _ => false

inductive MInstr where
  | base (i : Instr)
  /-- `r:ty = Uload8 ptr, off` etc.: load `op.bytes` bytes, extend to the width of `ty` -/
  | extload (op : ExtOp) (r : Val) (ty : Ty) (ptr : Val) (off : Nat)
deriving DecidableEq, Repr

/-- zero / sign extension of the `op.bytes` loaded bytes `raw` to the width of `ty` -/
def evalExt (op : ExtOp) (ty : Ty) (raw : Nat) : Nat :=
  if op.signed then ((BitVec.ofNat (8 * op.bytes) raw).signExtend ty.bits).toNat
  else norm ty (raw % 2 ^ (8 * op.bytes))

/-- a memory access: a store or a load of `n` bytes at the absolute address `addr` -/
structure Acc where
  store : Bool
  addr : Nat
  n : Nat
deriving DecidableEq, Repr

/-- the access an instruction performs when its operands are read from `ρ` -/
def instrAcc (ρ : Val → Nat) : MInstr → List Acc
  | .base (.load _ ty p off) => [⟨false, (ρ p + off) % 2 ^ 64, ty.bits / 8⟩]
  | .base (.store op ty _ p off) => [⟨true, (ρ p + off) % 2 ^ 64, op.bytes ty⟩]
  | .extload op _ _ p off => [⟨false, (ρ p + off) % 2 ^ 64, op.bytes⟩]
  | _ => []

/-- one instruction: a `base` instruction by `SsaPass.execInstr` -/
def stepM (w : World) (i : MInstr) (st : St) : Ctl :=
  match i with
  | .base j => execInstr w st.env j st
  | .extload op r ty p off =>
    .next (st.set r (evalExt op ty (memLoad st.mem ((st.env p + off) % 2 ^ 64) op.bytes)))

/-- a straight-line list of instructions up to the first transfer of control, with the log of the memory accesses
(oldest first); `none`: fell off the end -/
def execBodyL (w : World) : List MInstr → St → List Acc → Option Ctl × List Acc
  | [], _, log => (none, log)
  | i :: is, st, log =>
    match stepM w i st with
    | .next st' => execBodyL w is st' (log ++ instrAcc st.env i)
    | c => (some c, log ++ instrAcc st.env i)

/-- a function of one block -/
structure MFunc where
  params : List (Val × Ty)
  instrs : List MInstr
deriving DecidableEq, Repr

/-- run on the initial memory `mem0`: the outcome (result values or trap code, final memory, call trace) and the
log of the memory accesses -/
def runM (w : World) (g : MFunc) (args : List Nat) (mem0 : Mem) : Outcome × List Acc :=
  if g.params.length ≠ args.length then (.error, [])
  else
    match execBodyL w g.instrs { St.init with env := bindVals St.init.env g.params args, mem := mem0 } [] with
    | (some (.ret vs st'), log) => (.values vs st'.mem st'.trace, log)
    | (some (.trap c st'), log) => (.trap c st'.mem st'.trace, log)
    | (_, log) => (.error, log)

/-! ## the source fragment -/

inductive LoadK
  | i32Load | i64Load | i32Load8S | i32Load8U | i32Load16S | i32Load16U
  | i64Load8S | i64Load8U | i64Load16S | i64Load16U | i64Load32S | i64Load32U
deriving DecidableEq, Repr, Inhabited

inductive StoreK
  | i32Store | i64Store | i32Store8 | i32Store16 | i64Store8 | i64Store16 | i64Store32
deriving DecidableEq, Repr, Inhabited

def LoadK.ty : LoadK → Ty
  | .i32Load | .i32Load8S | .i32Load8U | .i32Load16S | .i32Load16U => .i32
  | _ => .i64

def LoadK.bytes : LoadK → Nat
  | .i32Load => 4 | .i64Load => 8
  | .i32Load8S | .i32Load8U | .i64Load8S | .i64Load8U => 1
  | .i32Load16S | .i32Load16U | .i64Load16S | .i64Load16U => 2
  | .i64Load32S | .i64Load32U => 4

def LoadK.signed : LoadK → Bool
  | .i32Load8S | .i32Load16S | .i64Load8S | .i64Load16S | .i64Load32S => true
  | _ => false

def StoreK.ty : StoreK → Ty
  | .i32Store | .i32Store8 | .i32Store16 => .i32
  | _ => .i64

def StoreK.bytes : StoreK → Nat
  | .i32Store => 4 | .i64Store => 8
  | .i32Store8 | .i64Store8 => 1
  | .i32Store16 | .i64Store16 => 2
  | .i64Store32 => 4

inductive MI where
  | base (i : SI)
  | load (k : LoadK) (off : Nat)
  | store (k : StoreK) (off : Nat)
  | memSize
deriving DecidableEq, Repr, Inhabited

structure FnM where
  params : List Ty
  results : List Ty
  locals : List Ty
  body : List MI
deriving DecidableEq, Repr, Inhabited

/-- the signature part, as a function of the base fragment (for `entryParams`, `initLS`, `ArgsOK`) -/
def FnM.sig (f : FnM) : Fn := { params := f.params, results := f.results, locals := f.locals, body := [] }

def MI.toInstr : MI → Wz.Spec.Wasm.Instr
  | .base i => i.toInstr
  | .load k off => .load (Ty.toVT k.ty) (8 * k.bytes) k.signed off
  | .store k off => .store (8 * k.bytes) off
  | .memSize => .memSize

def FnM.toModule (f : FnM) : Wz.Spec.Wasm.Module :=
  { types := [⟨f.params.map Ty.toVT, f.results.map Ty.toVT⟩],
    funcs := [⟨0, f.locals.map Ty.toVT, f.body.map MI.toInstr⟩],
    hasMem := true }

/-- reference semantics: `Wz.Spec.Wasm.invoke` on the embedding, on a store whose memory is `bytes`; the outcome
and the final memory -/
def runSpecM (f : FnM) (args : List Nat) (bytes : ByteArray) (fuel : Nat) : Wz.Spec.Wasm.Outcome × ByteArray :=
  let r := Wz.Spec.Wasm.invoke f.toModule fuel 0 args { mem := bytes }
  (r.1, r.2.mem)

/-- a function of the base fragment in the extended one -/
def toM (f : Fn) : FnM :=
  { params := f.params, results := f.results, locals := f.locals, body := f.body.map .base }

/-! ## type check -/

def tcStepM (lt : List Ty) : MI → List Ty → Option (List Ty)
  | .base i, s => tcStep lt i s
  | .load k off, a :: s => if a = .i32 ∧ off < 2 ^ 32 then some (k.ty :: s) else none
  | .store k off, v :: a :: s => if v = k.ty ∧ a = .i32 ∧ off < 2 ^ 32 then some s else none
  | .memSize, s => some (.i32 :: s)
  | _, _ => none

def tcBodyM (lt res : List Ty) : List MI → List Ty → Bool
  | [], s => hasPrefix res.reverse s
  | .base .ret :: _, s => hasPrefix res.reverse s
  | i :: is, s =>
    match tcStepM lt i s with
    | some s' => tcBodyM lt res is s'
    | none => false

def wellTypedM (f : FnM) : Bool := tcBodyM (f.params ++ f.locals) f.results f.body []

/-! ## the translation -/

/-- `wazevoapi.ExitCodeMemoryOutOfBounds` -/
def codeMemOOB : Nat := 4
/-- `ModuleContextOffsetData.LocalMemoryBase()` for a module with a memory section -/
def offMemBase : Nat := 8
/-- `ModuleContextOffsetData.LocalMemoryLen()` -/
def offMemLen : Nat := 16
/-- `wasm.MemoryPageSizeInBits` -/
def pageBits : Nat := 16

/-- the front end's state: `FrontendSL.LS`, the definitions of the SSA variables `memoryBaseVariable` /
`memoryLenVariable` in the block, and `knownSafeBounds` (newest entry first; the first entry of a value id counts):
value id of the Wasm address ↦ (bound, absolute address) -/
structure MS where
  ls : LS
  memBase : Option Val := none
  memLen : Option Val := none
  bounds : List (Val × Nat × Val) := []
deriving DecidableEq, Repr, Inhabited

/-- `getKnownSafeBound` -/
def lookupBound : List (Val × Nat × Val) → Val → Option (Nat × Val)
  | [], _ => none
  | (k, e) :: rest, v => if k = v then some e else lookupBound rest v

def MS.bump (s : MS) (k : Nat) : MS := { s with ls := { s.ls with next := s.ls.next + k } }

/-- `getMemoryLenValue(false)` -/
def getMemLen (s : MS) : List MInstr × Val × MS :=
  match s.memLen with
  | some v => ([], v, s)
  | none => ([.extload .uload32 s.ls.next .i64 moduleCtx offMemLen], s.ls.next,
             { s.bump 1 with memLen := some s.ls.next })

/-- `getMemoryBaseValue(false)` -/
def getMemBase (s : MS) : List MInstr × Val × MS :=
  match s.memBase with
  | some v => ([], v, s)
  | none => ([.base (.load s.ls.next .i64 moduleCtx offMemBase)], s.ls.next,
             { s.bump 1 with memBase := some s.ls.next })

/-- the bounds check of `memOpSetup` and, unless an absolute address `addr?` is already known, its computation;
then `recordKnownSafeBound` -/
def memCheck (s : MS) (b : Val) (ceil : Nat) (addr? : Option Val) : List MInstr × Val × MS :=
  let n := s.ls.next
  let l := getMemLen (s.bump 2)
  let k := l.2.2.ls.next
  let pre : List MInstr :=
    [.base (.iconst n .i64 ceil), .base (.un .uextend (n + 1) .i64 b)] ++ l.1 ++
    [.base (.bin .iadd k .i64 (n + 1) n), .base (.icmp (k + 1) .i64 .ult l.2.1 k),
     .base (.exitIf execCtx (k + 1) codeMemOOB)]
  let s3 := l.2.2.bump 2
  match addr? with
  | some a => (pre, a, { s3 with bounds := (b, ceil, a) :: s3.bounds })
  | none =>
    let g := getMemBase s3
    let j := g.2.2.ls.next
    (pre ++ g.1 ++ [.base (.bin .iadd j .i64 g.2.1 (n + 1))], j,
      { g.2.2.bump 1 with bounds := (b, ceil, j) :: g.2.2.bounds })

/-- `memOpSetup(baseAddr, constOffset, operationSizeInBytes)` with `ceil = constOffset + operationSizeInBytes`:
the instructions, the absolute address of `baseAddr`, the new state -/
def memOpSetup (s : MS) (b : Val) (ceil : Nat) : List MInstr × Val × MS :=
  match lookupBound s.bounds b with
  | some (bound, a) => if ceil ≤ bound then ([], a, s) else memCheck s b ceil (some a)
  | none => memCheck s b ceil none

def LoadK.ext? : LoadK → Option ExtOp
  | .i32Load | .i64Load => none
  | .i32Load8S | .i64Load8S => some .sload8
  | .i32Load8U | .i64Load8U => some .uload8
  | .i32Load16S | .i64Load16S => some .sload16
  | .i32Load16U | .i64Load16U => some .uload16
  | .i64Load32S => some .sload32
  | .i64Load32U => some .uload32

def StoreK.op : StoreK → StoreOp
  | .i32Store | .i64Store => .store
  | .i32Store8 | .i64Store8 => .istore8
  | .i32Store16 | .i64Store16 => .istore16
  | .i64Store32 => .istore32

def loadInstr (k : LoadK) (r addr off : Nat) : MInstr :=
  match k.ext? with
  | none => .base (.load r k.ty addr off)
  | some op => .extload op r k.ty addr off

/-- `lowerCurrentOpcode` in reachable state -/
def lowerMI : MI → MS → List MInstr × MS
  | .base i, s => ((lowerI i s.ls).1.map .base, { s with ls := (lowerI i s.ls).2 })
  | .load k off, s =>
    let b := s.ls.peek
    let s1 : MS := { s with ls := s.ls.pop.2 }
    let m := memOpSetup s1 b.1 (off + k.bytes)
    let s2 := m.2.2
    (m.1 ++ [loadInstr k s2.ls.next m.2.1 off], { s2 with ls := s2.ls.pushNew k.ty })
  | .store k off, s =>
    let v := s.ls.peek
    let b := s.ls.pop.2.peek
    let s1 : MS := { s with ls := s.ls.pop.2.pop.2 }
    let m := memOpSetup s1 b.1 (off + k.bytes)
    (m.1 ++ [.base (.store k.op v.2 v.1 m.2.1 off)], m.2.2)
  | .memSize, s =>
    let n := s.ls.next
    ([.base (.load n .i32 moduleCtx offMemLen), .base (.iconst (n + 1) .i32 pageBits),
      .base (.bin .ushr (n + 2) .i32 n (n + 1))],
     { s with ls := { s.ls with next := n + 3, stack := (n + 2, .i32) :: s.ls.stack } })

def lowerBodyM (nres : Nat) : List MI → MS → List MInstr
  | [], s => [.base (.ret (s.ls.peekN nres))]
  | .base .ret :: _, s => [.base (.ret (s.ls.peekN nres))]
  | i :: is, s => (lowerMI i s).1 ++ lowerBodyM nres is (lowerMI i s).2

def entryInstrsM (f : FnM) : List MInstr :=
  (initLS f.sig).1.map .base ++ lowerBodyM f.results.length f.body { ls := (initLS f.sig).2 }

/-- `LowerToSSA` on a function of the fragment (module with a local, non-shared memory) -/
def lowerMem (f : FnM) : MFunc := { params := entryParams f.sig, instrs := entryInstrsM f }

def viaReturnBlockM (f : FnM) : Bool := !f.body.contains (.base .ret)

/-! ## `ssaBuilder.Format()` -/

/-- `%#x` of `int32(offset)` (loads) -/
def showOffS (off : Nat) : String :=
  if off % 2 ^ 32 < 2 ^ 31 then "0x" ++ hexDigits (off % 2 ^ 32) else "-0x" ++ hexDigits (2 ^ 32 - off % 2 ^ 32)

/-- `%#x` of `uint32(offset)` (stores) -/
def showOffU (off : Nat) : String := "0x" ++ hexDigits (off % 2 ^ 32)

def showExtOp : ExtOp → String
  | .uload8 => "Uload8" | .sload8 => "Sload8" | .uload16 => "Uload16" | .sload16 => "Sload16"
  | .uload32 => "Uload32" | .sload32 => "Sload32"

def showStoreOp : StoreOp → String
  | .store => "Store" | .istore8 => "Istore8" | .istore16 => "Istore16" | .istore32 => "Istore32"

def showCode (c : Nat) : String := if c = codeMemOOB then "memory_out_of_bounds" else s!"code{c}"

def showMInstr (retBlk : Bool) : MInstr → String
  | .base (.load r t p off) => showDef r t ++ s!"Load {showVal p}, {showOffS off}"
  | .base (.store op _ v p off) => s!"{showStoreOp op} {showVal v}, {showVal p}, {showOffU off}"
  | .base (.exitIf ctx c code) => s!"ExitIfTrue {showVal c}, {showVal ctx}, {showCode code}"
  | .base i => showInstr retBlk i
  | .extload op r t p off => showDef r t ++ s!"{showExtOp op} {showVal p}, {showOffS off}"

/-- the lines of `ssaBuilder.Format()` (without the empty first line and the tabs) -/
def formatM (f : FnM) : List String :=
  s!"blk0: ({", ".intercalate ((entryParams f.sig).map showParam)})" ::
    (entryInstrsM f).map (showMInstr (viaReturnBlockM f))

/-! ## how linear memory is embedded in the SSA model's flat memory -/

/-- `v`'s `n` low bytes, little-endian, are at `a …` in `mem` -/
def BytesAt (mem : Mem) (a v n : Nat) : Prop := ∀ i, i < n → memRead mem (a + i) = v / 256 ^ i % 256

/-- The embedding: the module context at `mc` holds the address `base` of the linear memory (8 bytes at `mc + 8`) and
its length in bytes (8 bytes at `mc + 16`, as `moduleEngine.setupOpaque` writes them); byte `i` of the linear memory
`bytes` is at `base + i`; the two context words do not overlap the linear memory; nothing wraps around 2^64 (an
address is at most `base + 2^32 + 2^32 + 8`); the length is below 4 GiB (it is read with a 32-bit load — F13: at
exactly 65536 pages the compiled code sees length 0). -/
structure Emb (mc base : Nat) (bytes : ByteArray) (mem : Mem) : Prop where
  baseWord : BytesAt mem (mc + offMemBase) base 8
  lenWord : BytesAt mem (mc + offMemLen) bytes.size 8
  data : ∀ i, i < bytes.size → memRead mem (base + i) = (bytes.get! i).toNat
  disjoint : mc + 24 ≤ base ∨ base + bytes.size ≤ mc + offMemBase
  mcR : mc + 24 ≤ 2 ^ 64
  baseR : base + 2 ^ 34 ≤ 2 ^ 64
  lenR : bytes.size < 2 ^ 32

/-- the canonical embedding of `bytes`: the two context words and the non-zero bytes (unwritten bytes read 0) -/
def embed (mc base : Nat) (bytes : ByteArray) : Mem :=
  memStore (memStore (((List.range bytes.size).filter (fun i => bytes.get! i ≠ 0)).map
    (fun i => (base + i, (bytes.get! i).toNat))) (mc + offMemBase) base 8) (mc + offMemLen) bytes.size 8

/-- is the access one of the front end's reads of the module context (base: 8 bytes at `mc+8`, length: 4 bytes at
`mc+16`)? -/
def Acc.isCtxRead (mc : Nat) (a : Acc) : Bool :=
  !a.store && ((a.addr == mc + offMemBase && a.n == 8) || (a.addr == mc + offMemLen && a.n == 4))

/-- is the access inside the linear memory `[base, base + len)`? -/
def Acc.inside (base len : Nat) (a : Acc) : Bool := decide (base ≤ a.addr ∧ a.addr + a.n ≤ base + len)

/-- trap kinds of the fragment ↔ exit codes -/
def trapCodeM (k : String) : Nat := if k = "oob-memory" then codeMemOOB else trapCode k
def trapKindM (c : Nat) : String := if c = codeMemOOB then "oob-memory" else trapKind c

/-! ## strict SSA in one block -/

def MInstr.typedResults : MInstr → List (Val × Ty)
  | .base i => i.typedResults
  | .extload _ r ty _ _ => [(r, ty)]

def MInstr.operands : MInstr → List Val
  | .base i => i.operands
  | .extload _ _ _ p _ => [p]

def MInstr.isBranch : MInstr → Bool
  | .base i => i.branch?.isSome
  | .extload .. => false

/-- definitions before uses: every operand is in `D` (the block parameters and the results of the earlier
instructions), and the shifted operand of a shift has the type of the shift (what `SsaPass.wellFormed` asks of a
one-block function, see `Scoped` in `Wz/Proofs/C01_Front_WF.lean`) -/
def ScopedM : List (Val × Ty) → List MInstr → Prop
  | _, [] => True
  | D, i :: is => (∀ o ∈ i.operands, o ∈ D.map (·.1)) ∧
      (match i with
       | .base (.bin op _ ty x _) => isShift op → (x, ty) ∈ D
       | _ => True) ∧
      ScopedM (D ++ i.typedResults) is

/-- strict SSA in one block: no branch instruction; the values defined — the block parameters, then the results in
order — are 0, 1, 2, … (so every value is defined once, by the instruction whose position its id says); every
operand is defined before its use.  (A read of an undefined value, which `runM` would answer with 0, cannot happen.) -/
def WellFormedM (g : MFunc) : Prop :=
  (∀ i ∈ g.instrs, i.isBranch = false) ∧
  (∃ N, (g.params ++ g.instrs.flatMap (·.typedResults)).map (·.1) = List.range N) ∧
  ScopedM g.params g.instrs

/-! ## a validator for dead-code elimination on one block

The pass model of `SsaPass` is not defined on `MInstr` (see docs/C01_frontmem.md).  Instead of a model of the pass, a
CHECKER of its result: `dceOK [] before after` accepts when `after` is `before` with some instructions deleted, each
deleted instruction has side-effect class `none` (`Iconst`, the binary / unary / compare / select instructions, `Load`
and the extending loads — `sideEffectNone` in `ssa/instructions.go`), and no KEPT instruction uses the result of a
deleted one.  Accepted pairs have the same outcome (`Wz.C01.frontmem_dce_validated`); the harness runs the checker
on the REAL output before / after the REAL `RunPasses()`.  (A function in which the real passes also resolve aliases —
`passNopInstElimination` removed a shift by a multiple of the width — is NOT accepted: operands were renamed.) -/

def MInstr.results : MInstr → List Val
  | .base i => i.results
  | .extload _ r _ _ _ => [r]

/-- side-effect class `none` -/
def MInstr.removable : MInstr → Bool
  | .base (.iconst ..) | .base (.bin ..) | .base (.icmp ..) | .base (.select ..) | .base (.un ..)
  | .base (.load ..) | .extload .. => true
  | _ => false

/-- `dead`: the results of the instructions deleted so far -/
def dceOK (dead : List Val) : List MInstr → List MInstr → Bool
  | [], [] => true
  | [], _ :: _ => false
  | i :: is, [] => i.removable && dceOK (i.results ++ dead) is []
  | i :: is, j :: js =>
    if i = j ∧ i.operands.all (fun o => !dead.contains o) then dceOK dead is js
    else i.removable && dceOK (i.results ++ dead) is (j :: js)

/-! ### … and for `passNopInstElimination` + alias resolution + dead-code elimination together

`optOK` extends `dceOK`: a shift `r = Ishl/Ushr/Sshr x, c` whose amount `c` is defined by an `Iconst` with
`c mod 2^64 mod width = 0` (the rule of `passNopInstElimination`) and whose operand `x` has the declared type of the
shift may be deleted with the ALIAS `r ↦ x` (resolved); a kept instruction must equal the original with its operands
resolved through the aliases (`resolveArgumentAlias`), and must not use a dead value.  Every definition must be fresh
(strict SSA), which the checker verifies itself. -/

def MInstr.mapOperands (g : Val → Val) : MInstr → MInstr
  | .base i => .base (i.mapOperands g)
  | .extload op r ty p off => .extload op r ty (g p) off

/-- the checker's state: values defined so far, their declared types (of single-result instructions and block
parameters), the constants, the aliases (in resolved form), the dead values -/
structure VSt where
  seen : List Val
  tys : List (Val × Ty)
  consts : List (Val × Ty × Nat)
  al : List (Val × Val)
  dead : List Val
deriving Repr

def MInstr.isCall : MInstr → Bool
  | .base (.call ..) => true
  | _ => false

/-- record the definitions of `i` -/
def VSt.define (s : VSt) (i : MInstr) : VSt :=
  { s with
    seen := i.results ++ s.seen,
    tys := (if i.isCall then [] else i.typedResults) ++ s.tys,
    consts := (match i with | .base (.iconst r ty c) => [(r, ty, c)] | _ => []) ++ s.consts }

def lookupConst : List (Val × Ty × Nat) → Val → Option (Ty × Nat)
  | [], _ => none
  | (k, e) :: rest, v => if k = v then some e else lookupConst rest v

/-- the alias a no-op shift gets: its result and the resolved shifted operand -/
def nopAlias (s : VSt) : MInstr → Option (Val × Val)
  | .base (.bin op r ty x c) =>
    if op = .ishl ∨ op = .ushr ∨ op = .sshr then
      match lookupConst s.consts c with
      | some (_, cv) =>
        if cv % 2 ^ 64 % ty.bits = 0 ∧ (x, ty) ∈ s.tys ∧ res s.al x ∉ s.dead then some (r, res s.al x) else none
      | none => none
    else none
  | _ => none

def optOK (s : VSt) : List MInstr → List MInstr → Bool
  | [], [] => true
  | [], _ :: _ => false
  | i :: is, js =>
    i.results.all (fun r => !s.seen.contains r) &&
    (match js with
     | j :: js' =>
       if i.mapOperands (res s.al) = j ∧ (i.mapOperands (res s.al)).operands.all (fun o => !s.dead.contains o) then
         optOK (s.define i) is js'
       else
         match nopAlias s i with
         | some a => optOK { s.define i with al := a :: s.al } is js
         | none => i.removable && optOK { s.define i with dead := i.results ++ s.dead } is js
     | [] =>
       match nopAlias s i with
       | some a => optOK { s.define i with al := a :: s.al } is []
       | none => i.removable && optOK { s.define i with dead := i.results ++ s.dead } is [])

/-- the checker's initial state: the block parameters are defined -/
def VSt.init (params : List (Val × Ty)) : VSt :=
  { seen := params.map (·.1), tys := params, consts := [], al := [], dead := [] }

/-- `g'` is accepted as the result of the passes on `g` -/
def optValid (g g' : MFunc) : Bool :=
  g.params == g'.params && (g.params.map (·.1)).Nodup && optOK (VSt.init g.params) g.instrs g'.instrs

/-- the SSA outcome `o` refines the outcome `sp` of the reference semantics (outcome and final linear memory): the
same result values, or the trap code of the same trap kind; no calls; and the final flat memory still embeds the
final linear memory (so its part `[base, base+len)` IS the specification's final memory, and the module context is
intact).  The reference semantics does not run out of fuel. -/
def RefinesM (mc base : Nat) (sp : Wz.Spec.Wasm.Outcome × ByteArray) (o : Outcome) : Prop :=
  match sp.1 with
  | .values vs => ∃ mem', o = .values vs mem' [] ∧ Emb mc base sp.2 mem'
  | .trap k => ∃ mem', o = .trap (trapCodeM k) mem' [] ∧ Emb mc base sp.2 mem' ∧
      (k = "oob-memory" ∨ k = "div0" ∨ k = "overflow")
  | .exhausted => False

/-- every access is inside the linear memory or is one of the two reads of the module context (a store is always
inside: `isCtxRead` is false for stores) -/
def Confined (mc base len : Nat) (log : List Acc) : Prop :=
  ∀ a ∈ log, a.inside base len = true ∨ a.isCtxRead mc = true

end Wz.Model.FrontendMem
