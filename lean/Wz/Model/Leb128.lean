/-
C03 — model of `internal/leb128/leb128.go` (hand-written; tied to the code by the differential run
`hc03` part "leb": all 1- and 2-byte strings, boundary 4–6 / 9–11 byte strings with every last byte,
random strings, encoder round trips).

Each decoder mirrors the control flow of its Go function: the same loop (bounded `for i < 5` /
`for i < 10` for the unsigned ones and `DecodeInt33AsInt64`, unbounded `for {}` for `decodeInt32` /
`decodeInt64`), the same order of checks and the same masks (written on `BitVec 8`, as in the source).
Accumulation: the Go code ORs `(b & 0x7f) << shift` into `ret`; the bit ranges are disjoint
(invariant: `acc < 2^(7·n)` before the n-th byte is merged), so the model writes `+` on naturals and
reduces modulo the width of the Go variable where the shift can push bits out (`uint32`/`int32`).
Errors: `eof` (the `next`/`ReadByte` error) and `overflow` (`errOverflow32/33/64`).
-/
namespace Wz.Model.Leb128

abbrev Byte := BitVec 8

inductive Err | eof | overflow
deriving DecidableEq, Repr, Inhabited

abbrev R (α : Type) := Except Err (α × Nat)

/-- two's-complement reading of the low `w` bits of `n` -/
def wrapS (w : Nat) (n : Nat) : Int :=
  if n % 2 ^ w ≥ 2 ^ (w - 1) then (n % 2 ^ w : Nat) - (2 ^ w : Nat) else (n % 2 ^ w : Nat)

/-! ### decodeUint32 (DecodeUint32 / LoadUint32) -/

/-- `for i := 0; i < maxVarintLen32; i++` — `k` iterations remain, `i` done, `acc` = `ret`. -/
def u32Loop : Nat → Nat → Nat → List Byte → R Nat
  | 0, _, _, _ => .error .overflow                       -- fell out of the loop: `return 0, 0, errOverflow32`
  | _ + 1, _, _, [] => .error .eof                       -- `next(i)` failed
  | k + 1, i, acc, b :: rest =>
    if b.toNat < 0x80 then
      -- "Unused bits must be all zero."
      if i = 4 ∧ (b &&& 0xf0#8) ≠ 0#8 then .error .overflow
      else .ok ((acc + b.toNat * 2 ^ (7 * i)) % 2 ^ 32, i + 1)
    else u32Loop k (i + 1) ((acc + (b &&& 0x7f#8).toNat * 2 ^ (7 * i)) % 2 ^ 32) rest

def decodeUint32 (bs : List Byte) : R Nat := u32Loop 5 0 0 bs

/-! ### LoadUint64 -/

def u64Loop : Nat → Nat → Nat → List Byte → R Nat
  | 0, _, _, _ => .error .overflow
  | _ + 1, _, _, [] => .error .eof
  | k + 1, i, acc, b :: rest =>
    if b.toNat < 0x80 then
      -- "Unused bits (non first bit) must all be zero."
      if i = 9 ∧ b.toNat > 1 then .error .overflow
      else .ok ((acc + b.toNat * 2 ^ (7 * i)) % 2 ^ 64, i + 1)
    else u64Loop k (i + 1) ((acc + (b &&& 0x7f#8).toNat * 2 ^ (7 * i)) % 2 ^ 64) rest

def loadUint64 (bs : List Byte) : R Nat := u64Loop 10 0 0 bs

/-! ### decodeInt32 (DecodeInt32 / LoadInt32): unbounded `for {}` -/

/-- the value after the optional sign extension `if shift < 32 && (b&0x40) != 0 { ret |= ^0 << shift }`
(sets bits shift..31), read as an int32 -/
def i32Ret (shift acc : Nat) (b : Byte) : Int :=
  wrapS 32 (if shift < 32 ∧ (b &&& 0x40#8) ≠ 0#8 then (acc + (2 ^ 32 - 2 ^ shift)) % 2 ^ 32 else acc)

/-- the "Over flow checks" on the terminating byte `b` (n = bytesRead including it) -/
def i32Final (n : Nat) (ret : Int) (b : Byte) : R Int :=
  if n > 5 then .error .overflow
  else if n = 5 ∧ ret < 0 ∧ (b &&& 0x30#8) ≠ 0x30#8 then .error .overflow
  else if n = 5 ∧ ret ≥ 0 ∧ (b &&& 0x30#8) ≠ 0#8 then .error .overflow
  else .ok (ret, n)

/-- `n` = bytesRead so far (shift = 7·n), `acc` = the bits of `ret` (an int32) as a natural < 2^32. -/
def i32Loop : Nat → Nat → List Byte → R Int
  | _, _, [] => .error .eof
  | n, acc, b :: rest =>
    -- ret |= (int32(b) & 0x7f) << shift   (a Go shift by ≥ 32 yields 0; bits pushed past 31 are lost)
    let acc := (acc + (b &&& 0x7f#8).toNat * 2 ^ (7 * n)) % 2 ^ 32
    if b &&& 0x80#8 = 0#8 then i32Final (n + 1) (i32Ret (7 * n + 7) acc b) b
    else i32Loop (n + 1) acc rest

def decodeInt32 (bs : List Byte) : R Int := i32Loop 0 0 bs

/-! ### decodeInt64 (DecodeInt64 / LoadInt64) -/

def i64Ret (shift acc : Nat) (b : Byte) : Int :=
  wrapS 64 (if shift < 64 ∧ (b &&& 0x40#8) = 0x40#8 then (acc + (2 ^ 64 - 2 ^ shift)) % 2 ^ 64 else acc)

def i64Final (n : Nat) (ret : Int) (b : Byte) : R Int :=
  if n > 10 then .error .overflow
  else if n = 10 ∧ ret < 0 ∧ (b &&& 0x3e#8) ≠ 0x3e#8 then .error .overflow
  else if n = 10 ∧ ret ≥ 0 ∧ (b &&& 0x3e#8) ≠ 0#8 then .error .overflow
  else .ok (ret, n)

def i64Loop : Nat → Nat → List Byte → R Int
  | _, _, [] => .error .eof
  | n, acc, b :: rest =>
    let acc := (acc + (b &&& 0x7f#8).toNat * 2 ^ (7 * n)) % 2 ^ 64
    if b &&& 0x80#8 = 0#8 then i64Final (n + 1) (i64Ret (7 * n + 7) acc b) b
    else i64Loop (n + 1) acc rest

def decodeInt64 (bs : List Byte) : R Int := i64Loop 0 0 bs

/-! ### DecodeInt33AsInt64: `for shift < 35` then the checks AFTER the loop -/

/-- returns (acc, bytesRead, last byte). `k` iterations remain (5 in all: shift = 0,7,…,28). Note the
loop also ends when `shift` reaches 35 with the continuation bit of the 5th byte still set. -/
def i33Loop : Nat → Nat → Nat → Byte → List Byte → Except Err (Nat × Nat × Byte)
  | 0, n, acc, b, _ => .ok (acc, n, b)
  | _ + 1, _, _, _, [] => .error .eof
  | k + 1, n, acc, _, b :: rest =>
    -- ret |= (b & int33Mask2) << shift  on int64 (no bits are lost: < 2^35)
    let acc := acc + (b &&& 0x7f#8).toNat * 2 ^ (7 * n)
    if b &&& 0x80#8 = 0#8 then .ok (acc, n + 1, b) else i33Loop k (n + 1) acc b rest

/-- `if shift < 33 && (b&int33Mask3) == int33Mask3 { ret |= int33Mask4 << shift }; ret = ret & int33Mask4;
if ret&int33Mask5 > 0 { ret = ret - int33Mask6 }` -/
def i33Ret (shift acc : Nat) (b : Byte) : Int :=
  let r33 : Nat := if shift < 33 ∧ (b &&& 0x40#8) = 0x40#8 then (acc + (2 ^ 33 - 2 ^ shift)) % 2 ^ 33 else acc % 2 ^ 33
  if r33 ≥ 2 ^ 32 then (r33 : Int) - ((2 ^ 33 : Nat) : Int) else (r33 : Int)

def i33Final (n : Nat) (ret : Int) (b : Byte) : R Int :=
  if n > 5 then .error .overflow
  else if n = 5 ∧ ret < 0 ∧ (b &&& 0x20#8) ≠ 0x20#8 then .error .overflow
  else if n = 5 ∧ ret ≥ 0 ∧ (b &&& 0x20#8) ≠ 0#8 then .error .overflow
  else .ok (ret, n)

def decodeInt33 (bs : List Byte) : R Int :=
  match i33Loop 5 0 0 0#8 bs with
  | .error e => .error e
  | .ok (acc, n, b) => i33Final n (i33Ret (7 * n) acc b) b

/-! ### encoders -/

/-- EncodeUint64 (and EncodeUint32 = EncodeUint64 ∘ uint64) -/
def encU (v : Nat) : List Byte :=
  if h : v < 128 then [BitVec.ofNat 8 v]
  else BitVec.ofNat 8 (v % 128 + 128) :: encU (v / 128)
decreasing_by omega

/-- EncodeInt64 (and EncodeInt32 = EncodeInt64 ∘ int64): `value >>= 7` is the arithmetic shift. -/
def encS (v : Int) : List Byte :=
  let b := (v % 128).toNat          -- value & 0x7f
  let s := b / 64 % 2               -- value & 0x40 ≠ 0
  let v' := v / 128                 -- value >>= 7 (floor)
  if (v' ≠ -1 ∨ s = 0) ∧ (v' ≠ 0 ∨ s ≠ 0) then
    BitVec.ofNat 8 (b + 128) :: encS v'
  else [BitVec.ofNat 8 b]
termination_by v.natAbs
decreasing_by omega

end Wz.Model.Leb128
