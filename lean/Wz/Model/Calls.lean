/-
Reference semantics of calls with failure outcomes, for property C06
("Traps, exits and host panics are contained and leave the runtime usable").

A *world* is a list of instances, each a list of functions `(i32 x) -> (i32)`; a function body is a
list of guarded operations: effects on the instance's own globals / memory, trapping instructions of
every kind, calls of guest functions (same or other instance), calls of host functions.  Host
functions can panic with an error / a string / a custom value, close the calling instance with an
exit code (`CloseWithExitCode`, returning normally), exit (`proc_exit`-like: close + panic with
`sys.ExitError`), or re-enter the runtime through the public API (`ExportedFunction(..).Call`),
either propagating the inner error as a panic or swallowing it.

Failure outcomes: trap (error class), stack overflow (call-depth ceiling `D`, a parameter), host panic
value, exit code.  A failing instruction ends the whole call (and every enclosing guest frame) with
that failure and the state AS IT IS at the point of failure: nothing is rolled back.

The model is the observable behaviour both engines implement (`callEngine.callWithStack` of the
compiler, `callEngine.call` of the interpreter): in particular the end-of-call rule
"no failure ∧ the called instance is closed ⇒ the call returns the exit error" (`FailIfClosed`) and
the fact that a closed instance still executes code.

Core Lean only (linked into the oracle).
-/
namespace Wz.Model.Calls

/-- The error classes of `internal/wasmruntime/errors.go` a trap can produce. -/
inductive ErrClass
  | unreachable | intDivZero | intOverflow | invalidConv | oobMemory | invalidTable | typeMismatch
  | unalignedAtomic
deriving DecidableEq, Repr, Inhabited

/-- Trapping instruction variants (what the generated wasm executes). -/
inductive TrapKind
  | unreachable   -- `unreachable`
  | divZero       -- `i32.div_u x 0`
  | divOverflow   -- `i32.div_s INT_MIN -1`
  | truncOverflow -- `i32.trunc_f32_s 1e30`
  | invalidConv   -- `i32.trunc_f32_s NaN`
  | oobLoad       -- `i32.load` crossing the end of memory
  | oobStore      -- `i64.store` crossing the end of memory (must not write the in-bounds half)
  | oobTable      -- `call_indirect` with index ≥ table size
  | nullTable     -- `call_indirect` on a null element
  | sigMismatch   -- `call_indirect` with a different type
  | unaligned     -- an atomic access at an in-bounds address that is not a multiple of its width
deriving DecidableEq, Repr, Inhabited

/-- Documented error class per trapping instruction (WebAssembly spec trap ↔ wasmruntime error). -/
def TrapKind.cls : TrapKind → ErrClass
  | .unreachable => .unreachable
  | .divZero => .intDivZero
  | .divOverflow => .intOverflow
  | .truncOverflow => .intOverflow
  | .invalidConv => .invalidConv
  | .oobLoad => .oobMemory
  | .oobStore => .oobMemory
  | .oobTable => .invalidTable
  | .nullTable => .invalidTable
  | .sigMismatch => .typeMismatch
  | .unaligned => .unalignedAtomic

inductive PanicKind | err | str | val
deriving DecidableEq, Repr, Inhabited

inductive Failure
  | trap (c : ErrClass)
  | overflow
  | hostPanic (k : PanicKind) (n : Nat)
  | exit (code : Nat)
  | outOfFuel        -- model artefact: nesting deeper than the fuel (never produced on generated worlds)
  | badRef           -- model artefact: call of a function that does not exist
deriving DecidableEq, Repr, Inhabited

inductive ArgE | const (n : Nat) | x | xm1
deriving DecidableEq, Repr, Inhabited

inductive Guard | always | eq (n : Nat) | ne (n : Nat)
deriving DecidableEq, Repr, Inhabited

inductive HostFn
  | ok                       -- returns arg+1
  | panic (k : PanicKind)    -- panics with a value carrying arg
  | close                    -- mod.CloseWithExitCode(arg); returns 0
  | exit                     -- mod.CloseWithExitCode(arg); panic(sys.NewExitError(arg))
  | reenter (inst fn : Nat) (catching : Bool)  -- mods[inst].ExportedFunction(fn).Call(arg)
deriving DecidableEq, Repr, Inhabited

inductive Op
  | setg (g v : Nat)          -- global[g] := v
  | addg (g : Nat)            -- global[g] += x
  | store (a v : Nat)         -- mem8[a] := v
  | storex (a : Nat)          -- mem8[a] := x
  | trap (k : TrapKind)
  | call (inst fn : Nat) (arg : ArgE)   -- acc += result
  | host (h : HostFn) (arg : ArgE)      -- acc += result
deriving DecidableEq, Repr, Inhabited

abbrev Instr := Guard × Op
abbrev Func := List Instr
abbrev World := List (List Func)

def World.getFunc (W : World) (i f : Nat) : Option Func :=
  match W[i]? with
  | none => none
  | some fs => fs[f]?

/-- State of one instance. `mem` holds the written bytes (latest first, one entry per address). -/
structure InstState where
  mem : List (Nat × Nat) := []
  globals : List Nat := [0, 0]
  closed : Option Nat := none
deriving DecidableEq, Repr, Inhabited

abbrev State := List InstState

def two32 : Nat := 4294967296
def two64 : Nat := 18446744073709551616

def InstState.setByte (s : InstState) (a v : Nat) : InstState :=
  { s with mem := (a, v % 256) :: s.mem.filter (fun p => p.1 != a) }

def InstState.setGlobal (s : InstState) (g v : Nat) : InstState :=
  { s with globals := s.globals.set g (v % two64) }

def InstState.getGlobal (s : InstState) (g : Nat) : Nat := s.globals.getD g 0

/-- `CloseWithExitCode`: the first close wins (compare-and-swap on `Closed`). -/
def InstState.close (s : InstState) (code : Nat) : InstState :=
  match s.closed with
  | some _ => s
  | none => { s with closed := some code }

def State.modify (σ : State) (i : Nat) (f : InstState → InstState) : State :=
  match σ[i]? with
  | none => σ
  | some s => σ.set i (f s)

def State.closedOf (σ : State) (i : Nat) : Option Nat :=
  match σ[i]? with
  | none => none
  | some s => s.closed

abbrev R := Except Failure Nat × State

def evalArg (e : ArgE) (x : Nat) : Nat :=
  match e with
  | .const n => n % two32
  | .x => x
  | .xm1 => (x + two32 - 1) % two32

def Guard.holds (g : Guard) (x : Nat) : Bool :=
  match g with
  | .always => true
  | .eq n => x == n
  | .ne n => x != n

/-- Value a catching re-entrant host function returns to the guest for an inner failure. -/
def ErrClass.code : ErrClass → Nat
  | .unreachable => 1 | .intDivZero => 2 | .intOverflow => 3 | .invalidConv => 4 | .oobMemory => 5
  | .invalidTable => 6 | .typeMismatch => 7 | .unalignedAtomic => 8

def Failure.code : Failure → Nat
  | .trap c => 1000 + c.code
  | .overflow => 1100
  | .hostPanic .err _ => 1200
  | .hostPanic .str _ => 1201
  | .hostPanic .val _ => 1202
  | .exit c => 2000 + c
  | .outOfFuel => 9998
  | .badRef => 9999

/-- Body of a function running in instance `inst` with parameter `x`; `doCall`/`doHost` perform
guest and host calls (they carry the fuel and the depth). Structural on the instruction list. -/
def execBody (doCall : Nat → Nat → Nat → State → R) (doHost : HostFn → Nat → State → R)
    (inst x : Nat) : List Instr → Nat → State → R
  | [], acc, σ => (.ok acc, σ)
  | (g, op) :: rest, acc, σ =>
    if g.holds x then
      match op with
      | .setg gi v => execBody doCall doHost inst x rest acc (σ.modify inst (·.setGlobal gi v))
      | .addg gi => execBody doCall doHost inst x rest acc
                      (σ.modify inst (fun s => s.setGlobal gi (s.getGlobal gi + x)))
      | .store a v => execBody doCall doHost inst x rest acc (σ.modify inst (·.setByte a v))
      | .storex a => execBody doCall doHost inst x rest acc (σ.modify inst (·.setByte a x))
      | .trap k => (.error (.trap k.cls), σ)
      | .call j f a =>
        match doCall j f (evalArg a x) σ with
        | (.ok v, σ') => execBody doCall doHost inst x rest ((acc + v) % two32) σ'
        | (.error e, σ') => (.error e, σ')
      | .host h a =>
        match doHost h (evalArg a x) σ with
        | (.ok v, σ') => execBody doCall doHost inst x rest ((acc + v) % two32) σ'
        | (.error e, σ') => (.error e, σ')
    else execBody doCall doHost inst x rest acc σ

/-- End-of-call rule of `api.Function.Call`: no failure and the called instance is closed ⇒ exit error. -/
def closedCheck (j : Nat) (r : R) : R :=
  match r with
  | (.ok v, σ) =>
    match σ.closedOf j with
    | some c => (.error (.exit c), σ)
    | none => (.ok v, σ)
  | (.error e, σ) => (.error e, σ)

/-- Host function `h` called from instance `inst` with argument `a`; `api j g a σ` is a call through
the public API (fresh function object, depth 0, end-of-call rule). -/
def hostStep (api : Nat → Nat → Nat → State → R) (inst : Nat) (h : HostFn) (a : Nat) (σ : State) : R :=
  match h with
  | .ok => (.ok ((a + 1) % two32), σ)
  | .panic k => (.error (.hostPanic k a), σ)
  | .close => (.ok 0, σ.modify inst (·.close a))
  | .exit => (.error (.exit a), σ.modify inst (·.close a))
  | .reenter j g catching =>
    match api j g a σ with
    | (.ok v, σ') => (.ok v, σ')
    | (.error e, σ') => if catching then (.ok e.code, σ') else (.error e, σ')

/-- Guest function `(i, f)` called with `arg` when `depth` frames are already on the call stack.
`D` is the call-depth ceiling; the fuel bounds the total nesting (re-entrant calls restart the depth). -/
def callFn (W : World) (D : Nat) : Nat → Nat → Nat → Nat → Nat → State → R
  | 0, _, _, _, _, σ => (.error .outOfFuel, σ)
  | fuel + 1, depth, i, f, arg, σ =>
    if D ≤ depth then (.error .overflow, σ)
    else
      match W.getFunc i f with
      | none => (.error .badRef, σ)
      | some body =>
        execBody
          (fun j g a s => callFn W D fuel (depth + 1) j g a s)
          (fun h a s =>
            if D ≤ depth + 1 then (.error .overflow, s)
            else hostStep (fun j g a' s' => closedCheck j (callFn W D fuel 0 j g a' s')) i h a s)
          i arg body arg σ

/-- A call through the public API on instance `i`, function `f`. -/
def apiCall (W : World) (D fuel : Nat) (i f arg : Nat) (σ : State) : R :=
  closedCheck i (callFn W D fuel 0 i f arg σ)

def defaultFuel : Nat := 1000000

def initState (W : World) : State := W.map (fun _ => {})

end Wz.Model.Calls
