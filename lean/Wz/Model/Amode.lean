/-
C02, core 3: amd64 address-mode folding
(internal/engine/wazevo/backend/isa/amd64/lower_mem.go: lowerToAddressMode, lowerAddendsToAmode,
lowerAddend, lowerAddendFromInstr).

Hand-written model, tied to the real functions by the `TestVerifAmode` hook (tie B, exhaustive over
expression shapes × boundary constants).  The expression trees are the *matched* structure the Go
code sees: a node is `matched` when `MatchInstrOneOf` accepts it (single use, same group); anything
else is a leaf living in a virtual register.

Fresh temporaries: every vreg the lowering allocates is written exactly once, by `lowerIconst`, with
a known constant.  The model therefore names such a register by the constant it holds (`Reg.tmp c`)
instead of threading an allocator and a code buffer; the harness canonicalises the real output the
same way (it substitutes the emitted `mov imm` into the returned amode).

`fixed = false` is the pinned tree (constant `UExtend`/`SExtend` cases swapped: finding F1),
`fixed = true` the tree after the one-line swap.
-/
namespace Wz.Model.Amode

/-- Registers an amode can mention. -/
inductive Reg where
  | v (r : Nat)                 -- a virtual register that holds an SSA value
  | tmp (c : BitVec 64)         -- fresh vreg loaded by `lowerIconst(_, c, _)`
  | shlv (r : Nat) (k : Nat)    -- vreg `r` after the emitted in-place `shl $k, r`
deriving Repr, DecidableEq

/-- 32-bit operand of an extend. -/
inductive Op32 where
  | r32 (r : Nat)               -- any non-constant 32-bit value (in vreg r)
  | c32 (c : BitVec 32)         -- Iconst32
deriving Repr, DecidableEq

/-- first operand of a matched Ishl (`getOperand_Reg`): a register or an inlined constant -/
inductive ShX where
  | xr (r : Nat)
  | xc (c : BitVec 64)
deriving Repr, DecidableEq

/-- shift amount of a matched Ishl -/
inductive ShAmt where
  | ac (a : BitVec 64)          -- constant amount
  | ar (r : Nat)                -- non-constant amount
deriving Repr, DecidableEq

/-- One addend as `lowerAddend` sees it. -/
inductive AExpr where
  | r64 (r : Nat)                         -- block param / unmatched instruction / nested Iadd: lives in vreg r
  | k64 (c : BitVec 64) (matched : Bool)  -- Iconst64
  | k32 (c : BitVec 32) (matched : Bool)  -- Iconst32 in a 64-bit position (ill-typed SSA; the code accepts it)
  | uext (x : Op32)                       -- matched UExtend 32→64
  | sext (x : Op32)                       -- matched SExtend 32→64
  | shl (x : ShX) (amt : ShAmt)           -- matched Ishl (64-bit)
deriving Repr, DecidableEq

/-- The pointer operand of a load/store: a single addend, or a matched 64-bit Iadd whose result
would live in vreg `self` if it were lowered on its own. -/
inductive Ptr where
  | single (a : AExpr)
  | add (a b : AExpr) (self : Nat)
deriving Repr, DecidableEq

/-! ### Semantics of the SSA expressions (64-bit two's complement) -/

def Op32.eval (ρ : Nat → BitVec 64) : Op32 → BitVec 32
  | .r32 r => (ρ r).setWidth 32
  | .c32 c => c

def ShX.eval (ρ : Nat → BitVec 64) : ShX → BitVec 64
  | .xr r => ρ r
  | .xc c => c

def ShAmt.eval (ρ : Nat → BitVec 64) : ShAmt → BitVec 64
  | .ac a => a
  | .ar r => ρ r

def AExpr.eval (ρ : Nat → BitVec 64) : AExpr → BitVec 64
  | .r64 r => ρ r
  | .k64 c _ => c
  | .k32 c _ => c.setWidth 64                -- ill-typed; excluded by `FrontendShape`
  | .uext x => (x.eval ρ).setWidth 64
  | .sext x => (x.eval ρ).signExtend 64
  | .shl x amt => x.eval ρ <<< ((amt.eval ρ).toNat % 64)

def Ptr.eval (ρ : Nat → BitVec 64) : Ptr → BitVec 64
  | .single a => a.eval ρ
  | .add a b _ => a.eval ρ + b.eval ρ

/-! ### The amode and its machine semantics -/

structure Amode where
  imm32 : BitVec 32
  base  : Reg
  index : Option (Reg × Nat)
deriving Repr, DecidableEq

def Reg.val (ρ : Nat → BitVec 64) : Reg → BitVec 64
  | .v r => ρ r
  | .tmp c => c
  | .shlv r k => ρ r <<< k

/-- x86-64: disp32 is sign-extended; `base + index*2^shift + disp`. -/
def Amode.eval (ρ : Nat → BitVec 64) (am : Amode) : BitVec 64 :=
  am.imm32.signExtend 64 + am.base.val ρ +
    (match am.index with
     | none => 0#64
     | some (i, s) => i.val ρ <<< s)

/-! ### The lowering -/

/-- `addend{r, off, shift}`; `r = none` is `regalloc.VRegInvalid`. -/
structure Addend where
  r : Option Reg
  off : BitVec 64
  shift : Nat
deriving Repr, DecidableEq

def ShX.toReg : ShX → Reg
  | .xr r => .v r
  | .xc c => .tmp c            -- getOperand_Reg inlines the constant: lowerConstant

/-- lowerAddendFromInstr. -/
def lowerAddendFromInstr (fixed : Bool) : AExpr → Addend
  | .k32 c _ => ⟨none, c.signExtend 64, 0⟩
  | .k64 c _ => ⟨none, c, 0⟩
  | .uext (.c32 c) => ⟨none, if fixed then c.setWidth 64 else c.signExtend 64, 0⟩
  | .sext (.c32 c) => ⟨none, if fixed then c.signExtend 64 else c.setWidth 64, 0⟩
  | .uext (.r32 r) => ⟨some (.v r), 0#64, 0⟩
  | .sext (.r32 r) => ⟨some (.v r), 0#64, 0⟩
  | .shl x (.ac a) => if a.toNat ≤ 3 then ⟨some x.toReg, 0#64, a.toNat⟩ else ⟨some x.toReg, 0#64, 0⟩
  | .shl x (.ar _) => ⟨some x.toReg, 0#64, 0⟩
  | .r64 r => ⟨some (.v r), 0#64, 0⟩     -- not reachable from lowerAddend (kept total)

/-- lowerAddend. -/
def lowerAddend (fixed : Bool) : AExpr → Addend
  | .r64 r => ⟨some (.v r), 0#64, 0⟩
  | .k64 c false => ⟨some (.tmp c), 0#64, 0⟩               -- getOperand_Reg → lowerConstant
  | .k32 c false => ⟨some (.tmp (c.setWidth 64)), 0#64, 0⟩ -- 32-bit constant load zero-extends
  | e => lowerAddendFromInstr fixed e

/-- `asImm32(u64, false)` succeeds. -/
def fitsImm31 (u : BitVec 64) : Bool := u.toNat < 2^31

/-- lowerAddendsToAmode; `none` = `panic("BUG")`. -/
def lowerAddendsToAmode (x y : Addend) (offBase : BitVec 32) : Option Amode :=
  let u64 : BitVec 64 := x.off + y.off + offBase.setWidth 64
  -- large displacement goes to a temporary register that replaces an absent addend register
  let st : Option (Addend × Addend × BitVec 64) :=
    if u64 != 0#64 && !fitsImm31 u64 then
      match x.r, y.r with
      | none, _ => some ({ x with r := some (.tmp u64) }, y, 0#64)
      | some _, none => some (x, { y with r := some (.tmp u64) }, 0#64)
      | some _, some _ => none
    else some (x, y, u64)
  match st with
  | none => none
  | some (x, y, u64) =>
    let u32 : BitVec 32 := u64.setWidth 32
    match x.r, y.r with
    | some xr, some yr =>
      if x.shift != 0 && y.shift != 0 then
        -- in-place `shl $x.shift, x.r`
        some ⟨u32, (match xr with
                   | .v r => .shlv r x.shift
                   | .tmp c => .tmp (c <<< x.shift)
                   | .shlv r k => .shlv r (k + x.shift)),
              -- the shift is done in place: an index that is the same vreg sees the shifted value
              some ((match xr, yr with
                     | .v r, .v r' => if r = r' then .shlv r x.shift else yr
                     | _, _ => yr), y.shift)⟩
      else if x.shift != 0 && y.shift == 0 then some ⟨u32, yr, some (xr, x.shift)⟩
      else some ⟨u32, xr, some (yr, y.shift)⟩
    | none, some yr =>
      if y.shift != 0 then some ⟨u32, .tmp 0#64, some (yr, y.shift)⟩ else some ⟨u32, yr, none⟩
    | some xr, none =>
      if x.shift != 0 then some ⟨u32, .tmp 0#64, some (xr, x.shift)⟩ else some ⟨u32, xr, none⟩
    | none, none => some ⟨0#32, .tmp u64, none⟩

/-- lowerToAddressMode. -/
def lowerToAddressMode (fixed : Bool) (p : Ptr) (offBase : BitVec 32) : Option Amode :=
  if offBase.msb then
    -- "huge base offset whose MSB is set": the pointer is lowered as ONE addend (a matched Iadd is
    -- not folded here: lowerAddend excludes Iadd, so its own vreg is used)
    let a := match p with
      | .single e => lowerAddend fixed e
      | .add _ _ self => ⟨some (.v self), 0#64, 0⟩
    let off64 := a.off + offBase.setWidth 64
    match a.r with
    | some r => some ⟨0#32, .tmp off64, some (r, a.shift)⟩
    | none => some ⟨0#32, .tmp off64, none⟩
  else
    match p with
    | .add a b _ => lowerAddendsToAmode (lowerAddend fixed a) (lowerAddend fixed b) offBase
    | .single e =>
      let a := lowerAddend fixed e
      match a.r with
      | some r =>
        if a.shift != 0 then some ⟨offBase, .tmp 0#64, some (r, a.shift)⟩ else some ⟨offBase, r, none⟩
      | none => some ⟨0#32, .tmp (a.off + offBase.setWidth 64), none⟩

/-! ### The shapes for which the shortcuts of the Go code are meant to be valid -/

/-- An addend the front end can emit in a pointer computation: no 32-bit constant in a 64-bit
position, no sign-extension of a non-constant, shifts only by constants ≤ 3 (the Go code silently
drops other shifts). -/
def AExpr.frontendShape : AExpr → Bool
  | .r64 _ => true
  | .k64 _ _ => true
  | .k32 _ _ => false
  | .uext _ => true
  | .sext (.c32 _) => true
  | .sext (.r32 _) => false
  | .shl _ (.ac a) => a.toNat ≤ 3
  | .shl _ (.ar _) => false

def AExpr.isShl : AExpr → Bool
  | .shl _ _ => true
  | _ => false

def Ptr.frontendShape : Ptr → Bool
  | .single a => a.frontendShape
  | .add a b _ => a.frontendShape && b.frontendShape && !(a.isShl && b.isShl)

/-- Registers that hold 32-bit values are zero in their upper half (x86-64 32-bit operations
zero-extend; a backend-wide invariant that is assumed here, see docs/C02.md). -/
def Op32.clean (ρ : Nat → BitVec 64) : Op32 → Prop
  | .r32 r => (ρ r).toNat < 2^32
  | .c32 _ => True

def AExpr.clean (ρ : Nat → BitVec 64) : AExpr → Prop
  | .uext x => x.clean ρ
  | .sext x => x.clean ρ
  | _ => True

def Ptr.clean (ρ : Nat → BitVec 64) : Ptr → Prop
  | .single a => a.clean ρ
  | .add a b self => a.clean ρ ∧ b.clean ρ ∧ ρ self = a.eval ρ + b.eval ρ

end Wz.Model.Amode
