/-
C01, optimizing compiler (wazevo), front end on straight-line integer code — EXTENSION of `Wz.Model.FrontendSL` by the
four instructions `i32.extend8_s`, `i32.extend16_s`, `i64.extend8_s`, `i64.extend16_s`.

For these the front end emits `SExtend x, 8->32` / `16->32` / `8->64` / `16->64` (`insertIntegerExtend(true, from, to)`),
an instruction the SSA model of the pass proofs (`Wz.Model.SsaPass`) does not have (its `SExtend` is from 32 to 64
bits).  `SsaPass` is not edited; it is WRAPPED:

* `XInstr` = an instruction of `SsaPass` (`base`) or `sext r from ty x` (`SExtend x, from->ty.bits`);
* `execBodyX` runs a straight-line list of them: a `base` instruction by `SsaPass.execInstr` (the very function of the
  pass proofs, with an empty alias table), `sext` by `evalSext` (sign extension of the low `from` bits);
* `XFunc` = the entry block (parameters, instructions); `runX` binds the parameters with `SsaPass.bindVals` and gives
  an `SsaPass.Outcome`.  `XFunc.ofFunc?`-free: a function without `sext` IS a one-block `SsaPass.Func`, and then
  `runX` is `SsaPass.run` (`front_ext_conservative` in `Props/C01_Front.lean`).
* source: `SIX` = an instruction of `FrontendSL.SI` or `ext t w`; `FnX`; `runSpecX` is again `Wz.Spec.Wasm.invoke` on
  the embedding (by instruction name); `lowerX` reuses `FrontendSL.lowerI`, `initLS`, `entryParams` for everything
  else, so the two translators agree on functions without the new instructions by construction.

The pass theorems do not apply to functions with `sext` (the passes are not defined on `XInstr`); what is proved for the
extension is the front end alone (`front_refines_ext`).

Core Lean only.
-/
import Wz.Model.FrontendSL

namespace Wz.Model.FrontendSLX
open Wz.Model.SsaPass Wz.Model.FrontendSL

/-- source width of the narrow sign extensions -/
inductive ExtW | w8 | w16
deriving DecidableEq, Repr, Inhabited

def ExtW.bits : ExtW → Nat
  | .w8 => 8
  | .w16 => 16

/-! ## wrapped SSA -/

inductive XInstr where
  | base (i : Instr)
  /-- `r:ty = SExtend x, from->ty.bits` -/
  | sext (r : Val) (frm : Nat) (ty : Ty) (x : Val)
deriving DecidableEq, Repr

/-- sign extension of the low `frm` bits to the width of `ty` -/
def evalSext (frm : Nat) (ty : Ty) (x : Nat) : Nat := ((BitVec.ofNat frm x).signExtend ty.bits).toNat

/-- a straight-line list of instructions (no alias table: operands are read from the environment); `none`: fell
off the end -/
def execBodyX (w : World) : List XInstr → St → Option Ctl
  | [], _ => none
  | .base i :: is, st =>
    match execInstr w st.env i st with
    | .next st' => execBodyX w is st'
    | c => some c
  | .sext r frm ty x :: is, st => execBodyX w is (st.set r (evalSext frm ty (st.env x)))

/-- a function of one block -/
structure XFunc where
  params : List (Val × Ty)
  instrs : List XInstr
deriving DecidableEq, Repr

def runX (w : World) (g : XFunc) (args : List Nat) : Outcome :=
  if g.params.length ≠ args.length then .error
  else
    match execBodyX w g.instrs { St.init with env := bindVals St.init.env g.params args } with
    | some (.ret vs st') => .values vs st'.mem st'.trace
    | some (.trap c st') => .trap c st'.mem st'.trace
    | _ => .error

/-- a function without `sext` as a function of `SsaPass` -/
def XFunc.baseInstrs (g : XFunc) : List Instr :=
  g.instrs.filterMap (fun i => match i with | .base j => some j | _ => none)

def XFunc.toFunc (g : XFunc) : Func :=
  { blocks := [{ id := 0, key := 0, invalid := false, params := g.params, instrs := g.baseInstrs }], alias := [] }

/-! ## the source fragment -/

inductive SIX where
  | base (i : SI)
  /-- `t.extend8_s` / `t.extend16_s` -/
  | ext (t : Ty) (w : ExtW)
deriving DecidableEq, Repr, Inhabited

structure FnX where
  params : List Ty
  results : List Ty
  locals : List Ty
  body : List SIX
deriving DecidableEq, Repr, Inhabited

/-- the signature part, as a function of the base fragment (for `entryParams`, `initLS`) -/
def FnX.sig (f : FnX) : Fn := { params := f.params, results := f.results, locals := f.locals, body := [] }

def extName : Ty → ExtW → String
  | .i32, .w8 => "i32.extend8_s" | .i32, .w16 => "i32.extend16_s"
  | .i64, .w8 => "i64.extend8_s" | .i64, .w16 => "i64.extend16_s"

def SIX.toInstr : SIX → Wz.Spec.Wasm.Instr
  | .base i => i.toInstr
  | .ext t w => .num1 (extName t w)

def FnX.toModule (f : FnX) : Wz.Spec.Wasm.Module :=
  { types := [⟨f.params.map Ty.toVT, f.results.map Ty.toVT⟩],
    funcs := [⟨0, f.locals.map Ty.toVT, f.body.map SIX.toInstr⟩] }

def runSpecX (f : FnX) (args : List Nat) (fuel : Nat) : Wz.Spec.Wasm.Outcome :=
  (Wz.Spec.Wasm.invoke f.toModule fuel 0 args {}).1

/-- a function of the base fragment in the extended one -/
def toX (f : Fn) : FnX :=
  { params := f.params, results := f.results, locals := f.locals, body := f.body.map .base }

/-! ## type check -/

def tcStepX (lt : List Ty) : SIX → List Ty → Option (List Ty)
  | .base i, s => tcStep lt i s
  | .ext t _, a :: s => if a = t then some (t :: s) else none
  | .ext _ _, [] => none

def tcBodyX (lt res : List Ty) : List SIX → List Ty → Bool
  | [], s => hasPrefix res.reverse s
  | .base .ret :: _, s => hasPrefix res.reverse s
  | i :: is, s =>
    match tcStepX lt i s with
    | some s' => tcBodyX lt res is s'
    | none => false

def wellTypedX (f : FnX) : Bool := tcBodyX (f.params ++ f.locals) f.results f.body []

/-! ## the translation -/

/-- `lowerCurrentOpcode`: the base instructions as in `FrontendSL.lowerI`; `insertIntegerExtend(true, from, to)` for the
narrow extensions: pop, `SExtend v, from->to` (result type i64 if `to = 64`, else i32), push -/
def lowerXI : SIX → LS → List XInstr × LS
  | .base i, s => ((lowerI i s).1.map .base, (lowerI i s).2)
  | .ext t w, s =>
    let (x, s) := s.pop
    ([.sext s.next w.bits t x.1], s.pushNew t)

def lowerBodyX (nres : Nat) : List SIX → LS → List XInstr
  | [], s => [.base (.ret (s.peekN nres))]
  | .base .ret :: _, s => [.base (.ret (s.peekN nres))]
  | i :: is, s => (lowerXI i s).1 ++ lowerBodyX nres is (lowerXI i s).2

def entryInstrsX (f : FnX) : List XInstr :=
  (initLS f.sig).1.map .base ++ lowerBodyX f.results.length f.body (initLS f.sig).2

/-- `LowerToSSA` on a function of the extended fragment -/
def lowerX (f : FnX) : XFunc := { params := entryParams f.sig, instrs := entryInstrsX f }

def viaReturnBlockX (f : FnX) : Bool := !f.body.contains (.base .ret)

/-! ## `ssaBuilder.Format()` -/

def showXInstr (retBlk : Bool) : XInstr → String
  | .base i => showInstr retBlk i
  | .sext r frm t x => showDef r t ++ s!"SExtend {showVal x}, {frm}->{t.bits}"

def formatX (f : FnX) : List String :=
  s!"blk0: ({", ".intercalate ((entryParams f.sig).map showParam)})" ::
    (entryInstrsX f).map (showXInstr (viaReturnBlockX f))

end Wz.Model.FrontendSLX
