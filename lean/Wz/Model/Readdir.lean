/-
Model of `sys.DirentCache.Read` (internal/sys/fs.go) and of `fdReaddirFn` / `maxDirents` / `writeDirents`
(imports/wasi_snapshot_preview1/fs.go) as pure functions over a directory listing.  Core Lean only.

The underlying `sys.File` of the directory is a stream over a fixed listing (`DirFile`): `Readdir(n)`
returns the next `min n remaining` entries, `Seek(0)` rewinds.  (os.File.Readdir returns fewer than `n`
entries only at the end of the directory; that is the assumption about the OS layer.)
File names are byte lists; names of 2^32-24 bytes or more (where `maxDirents` panics) are out of scope.
-/
import Wz.Gen.WasiFs

namespace Wz.Model.Readdir
open Wz.Gen.WasiFs

structure Dirent where
  name : List Nat        -- bytes
  ino : Nat
  typ : Nat              -- WASI filetype (what getWasiFiletype yields for Dirent.Type)
deriving DecidableEq, Repr, Inhabited

structure DirFile where
  listing : List Dirent
  pos : Nat
deriving Repr

/-- `Readdir(n)` with n > 0 -/
def DirFile.readdir (f : DirFile) (n : Nat) : List Dirent × DirFile :=
  let ds := (f.listing.drop f.pos).take n
  (ds, { f with pos := f.pos + ds.length })

/-- `Seek(0, io.SeekStart)` -/
def DirFile.rewind (f : DirFile) : DirFile := { f with pos := 0 }

/-- `DirentCache`. `dirents = none` is Go's nil slice ("re-read"), `some []` the exhausted window. -/
structure Cache where
  f : DirFile
  dot : List Dirent
  dirents : Option (List Dirent)
  countRead : Nat
  eof : Bool
deriving Repr

inductive RErr where
  | noent | inval
deriving DecidableEq, Repr

def RErr.toNat : RErr → Nat
  | .noent => ErrnoNoent
  | .inval => ErrnoInval

/-- `cachedDirents(n)` (nil and empty are the same list here) -/
def cached (ds : List Dirent) (n : Nat) : List Dirent := ds.take n

/-- `DirentCache.Read(pos, n)`; `pos : uint64`, `n : uint32` given as naturals in range. -/
def Cache.read (d0 : Cache) (pos n : Nat) : Cache × Except RErr (List Dirent) :=
  if pos > d0.countRead then (d0, .error .noent)
  else
    -- case pos == 0 && d.dirents != nil: rewind
    let d := if pos == 0 && d0.dirents.isSome
             then { d0 with f := d0.f.rewind, dirents := none, countRead := 0 } else d0
    if n == 0 then (d, .ok [])
    else
      match d.dirents with
      | none =>
        let d1 := { d with dirents := some d.dot, countRead := 2, eof := false }
        -- countToRead := int(n - 2) with n uint32: wraps for n < 2
        let countToRead := (n + 2^32 - 2) % 2^32
        if countToRead == 0 then (d1, .ok [])       -- `return` with the named result still nil
        else
          let r := d1.f.readdir countToRead
          let d2 := { d1 with f := r.2 }
          let d3 := if r.1.length > 0
                    then { d2 with eof := r.1.length < countToRead, dirents := some (d2.dot ++ r.1),
                                   countRead := d2.countRead + r.1.length }
                    else d2
          (d3, .ok (cached (d3.dirents.getD []) n))
      | some cache =>
        let cacheStart := d.countRead - cache.length
        if pos < cacheStart then (d, .error .noent)
        else
          let cache1 := cache.drop (pos - cacheStart)
          let d1 := { d with dirents := some cache1 }
          if n > cache1.length && !d1.eof then
            let countToRead := n - cache1.length
            let r := d1.f.readdir countToRead
            let d2 := { d1 with f := r.2 }
            let d3 := if r.1.length > 0
                      then { d2 with eof := r.1.length < countToRead, dirents := some (cache1 ++ r.1),
                                     countRead := d2.countRead + r.1.length }
                      else d2
            (d3, .ok (cached (d3.dirents.getD []) n))
          else (d1, .ok (cached cache1 n))

/-- the loop of `maxDirents` with its three counters -/
def maxDirentsGo : List Dirent → (lenRemaining bufToWrite direntCount : Nat) → Nat × Nat × Nat
  | [], _, btw, cnt => (btw, cnt, 0)
  | d :: ds, rem, btw, cnt =>
    if rem == 0 then (btw, cnt, 0)
    else
      let entryLen := DirentSize + d.name.length
      if entryLen > rem then
        let tl := if rem ≥ DirentSize then DirentSize else rem
        (btw + tl, cnt + 1, tl)
      else maxDirentsGo ds (rem - entryLen) (btw + entryLen) (cnt + 1)

/-- `maxDirents(dirents, bufLen) = (bufToWrite, direntCount, truncatedLen)` -/
def maxDirents (ds : List Dirent) (bufLen : Nat) : Nat × Nat × Nat := maxDirentsGo ds bufLen 0 0

/-- little-endian bytes -/
def le (n : Nat) : Nat → List Nat
  | 0 => []
  | k + 1 => n % 256 :: le (n / 256) k

/-- `writeDirent`: 24 bytes -/
def header (dnext : Nat) (d : Dirent) : List Nat :=
  le dnext 8 ++ le d.ino 8 ++ le d.name.length 4 ++ le d.typ 4

/-- loop of `writeDirents` -/
def writeGo : List Dirent → (dnext i direntCount : Nat) → (skipNameI : Option Nat) → List Nat
  | [], _, _, _, _ => []
  | d :: ds, dnext, i, cnt, skip =>
    if i < cnt then
      header dnext d ++ (if skip == some i then [] else d.name) ++ writeGo ds (dnext + 1) (i + 1) cnt skip
    else []

/-- `writeDirents(buf, dirents, d_next, direntCount, truncatedLen)`: the bytes written from buf[0]. -/
def writeDirents (ds : List Dirent) (dnext direntCount truncatedLen : Nat) : List Nat :=
  if truncatedLen > 0 then
    if truncatedLen < DirentSize then writeGo ds dnext 0 (direntCount - 1) none
    else writeGo ds dnext 0 direntCount (some (direntCount - 1))
  else writeGo ds dnext 0 direntCount none

/-- What a call of fd_readdir produced: the dirents read, the three results of maxDirents. -/
structure Core where
  ds : List Dirent
  bufToWrite : Nat
  direntCount : Nat
  truncatedLen : Nat
deriving Repr

/-- `fdReaddirFn` up to `maxDirents` (memory faults are C15's business). -/
def fdReaddirCore (c : Cache) (bufLen cookie : Nat) : Cache × Except RErr Core :=
  if bufLen < DirentSize then (c, .error .inval)
  else
    let maxDirEntries := bufLen / DirentSize + 1 + 1
    match c.read cookie maxDirEntries with
    | (c', .error e) => (c', .error e)
    | (c', .ok ds) =>
      let r := maxDirents ds bufLen
      (c', .ok { ds := ds, bufToWrite := r.1, direntCount := r.2.1, truncatedLen := r.2.2 })

/-- bytes written at buf[0..], (d_next is uint64: `le _ 8` wraps it) -/
def Core.written (k : Core) (cookie : Nat) : List Nat :=
  if k.bufToWrite > 0 then writeDirents k.ds (cookie + 1) k.direntCount k.truncatedLen else []

def Core.bufused (k : Core) (bufLen : Nat) : Nat := if k.truncatedLen > 0 then bufLen else k.bufToWrite

/-- number of entries written with their name -/
def Core.nComplete (k : Core) : Nat := if k.truncatedLen > 0 then k.direntCount - 1 else k.direntCount

/-- the complete entries a guest finds in the buffer, each with its d_next -/
def Core.complete (k : Core) (cookie : Nat) : List (Nat × Dirent) :=
  (k.ds.take k.nComplete).zipIdx.map (fun p => (cookie + 1 + p.2, p.1))

/-- the header-only (name truncated) entry at the end of the buffer, if one was written -/
def Core.truncatedHeader (k : Core) : Option Dirent :=
  if k.truncatedLen ≥ DirentSize then k.ds[k.direntCount - 1]? else none

/-! ### The guest side: parsing a buffer -/

def fromLe : List Nat → Nat
  | [] => 0
  | b :: bs => b + 256 * fromLe bs

/-- Parse `bufused` bytes: complete entries (d_next, entry) and, if the rest is at least a header,
the header-only entry. `fuel` bounds the recursion by the buffer length. -/
def parseGo : Nat → List Nat → List (Nat × Dirent) × Option (Nat × Nat)
  | 0, _ => ([], none)
  | fuel + 1, buf =>
    if buf.length < 24 then ([], none)
    else
      let dnext := fromLe (buf.take 8)
      let ino := fromLe ((buf.drop 8).take 8)
      let namlen := fromLe ((buf.drop 16).take 4)
      let typ := fromLe ((buf.drop 20).take 4)
      if buf.length < 24 + namlen then ([], some (dnext, namlen))
      else
        let r := parseGo fuel (buf.drop (24 + namlen))
        ((dnext, { name := (buf.drop 24).take namlen, ino := ino, typ := typ }) :: r.1, r.2)

def parse (buf : List Nat) : List (Nat × Dirent) × Option (Nat × Nat) := parseGo (buf.length + 1) buf

/-! ### The client protocol of the property

A client keeps a cookie and the entries seen so far.  Each round it calls fd_readdir with a buffer length
of its choice (≥ 24) and its cookie, appends the complete entries, sets the cookie to the `d_next` of the
last complete entry, and stops when `bufused < buf_len`. -/

structure Client where
  cache : Cache
  cookie : Nat
  acc : List Dirent
  done : Bool
  failed : Option RErr
deriving Repr

def Client.start (c : Cache) : Client := { cache := c, cookie := 0, acc := [], done := false, failed := none }

def Client.step (cl : Client) (bufLen : Nat) : Client :=
  if cl.done || cl.failed.isSome then cl
  else
    match fdReaddirCore cl.cache bufLen cl.cookie with
    | (c', .error e) => { cl with cache := c', failed := some e }
    | (c', .ok k) =>
      let es := k.complete cl.cookie
      { cl with cache := c',
                cookie := (es.getLast?.map (·.1)).getD cl.cookie,
                acc := cl.acc ++ es.map (·.2),
                done := k.bufused bufLen < bufLen }

def Client.run (cl : Client) : List Nat → Client
  | [] => cl
  | b :: bs => (cl.step b).run bs

/-- A freshly created cache for a directory with inode `dotIno` (`synthesizeDotEntries`). -/
def Cache.fresh (listing : List Dirent) (dotIno : Nat) : Cache :=
  { f := { listing := listing, pos := 0 },
    dot := [{ name := [46], ino := dotIno, typ := FILETYPE_DIRECTORY },
            { name := [46, 46], ino := 0, typ := FILETYPE_DIRECTORY }],
    dirents := none, countRead := 0, eof := false }

/-- everything a complete enumeration must yield -/
def Cache.full (c : Cache) : List Dirent := c.dot ++ c.f.listing

end Wz.Model.Readdir
