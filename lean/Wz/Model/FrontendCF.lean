/-
C01, optimizing compiler (wazevo): the FRONT END on STRUCTURED CONTROL FLOW.

Extends `Wz.Model.FrontendSL` (one basic block) to `block`, `loop`, `if`/`else`, `br`, `br_if`, `return`,
`unreachable` with block types that have parameters and results (i32 / i64), and the resolution of the Wasm locals
as SSA variables across basic blocks as `ssa.Builder` does it (`internal/engine/wazevo/ssa/builder.go`:
`DeclareVariable`, `DefineVariable`, `findValue`, `Seal`, `basicBlock.lastDefinitions / unknownValues / preds /
singlePred`), driven exactly as `internal/engine/wazevo/frontend/lower.go: lowerCurrentOpcode` drives it.

* `CI` / `Function`: the structured source fragment (straight-line instructions are the `SI` of `FrontendSL`).
  `CI.toInstr` embeds it into `Wz.Spec.Wasm.Instr`; the semantics of a function is `Wz.Spec.Wasm.invoke` on the
  one-function module (`runSpec`).  No second source semantics.
  (`Wz.Spec.Wasm` has no block PARAMETERS: a branch to a `block` keeps `arity` results over the entry height, a
  branch to a `loop` restores the entry height.  `wellTyped` therefore demands empty parameter lists; the
  translation itself and its textual tie handle parameters.)
* `Tok` / `flatten`: the instruction sequence as the byte code has it (`else` and `end` are instructions): the Go code
  is a loop over this sequence with a stack of control frames, and so is the model (`step`, `lowerToks`).
* `Bld` is the state of `ssa.builder` that the front end can observe: the basic blocks in allocation order with their
  parameters, instructions, predecessors `(block, index of the branch instruction)`, `sealed`, `singlePred`,
  `lastDefinitions`, `unknownValues`; `nextValueID`; the instruction counter (ids of instructions: the sort key of
  `passSortSuccessors`); the alias records of `findValue`; `zeros`; the current block.
* `findValue` is the recursive algorithm of builder.go (Braun et al.), with every side effect: placeholder values in
  unsealed blocks, the temporary value that breaks cycles, the scan of the predecessors that stops at the first
  difference, the alias when all predecessors agree (the temporary value STAYS the block's definition: later
  uses print the aliased value id), else the new block parameter and one more argument on every predecessor's
  branch.  The recursion depth of the Go code is bounded by the number of blocks (a cycle of blocks contains a
  block with several predecessors, which is defined on the first visit: twice the number of blocks); the model
  recurses on that bound.
* `LSt` is `loweringState`: value stack (top first, values with their types), control frames (innermost first),
  `unreachable`, `unreachableDepth`.
* `lowerCF : Function → SsaPass.Func`: the blocks of the builder; a jump to the builder's return block
  (`blk_ret`) is `Instr.ret` as in `lowerSL`; a CONDITIONAL branch to the return block (`br_if` to the function's
  label: `Brnz v, blk_ret, results`) targets one synthetic block `retBlk` with one parameter per result and the
  single instruction `ret params` (its value ids are fresh: `next, next+1, …`).  The alias table is the one
  `findValue` recorded, in the resolved form `SsaPass` keeps.
* `format`: the text of `ssaBuilder.Format()` for the builder state (`Jump blk_ret` and `Brnz v, blk_ret` as Go
  prints them; the return block itself is not printed by Go).

Not modelled: `br_table`, `ensureTermination` (the exit-code check at loop headers), listeners, source offsets, the
`knownSafeBounds` bookkeeping at block changes (it concerns memory accesses), everything outside integer code.

Core Lean only (linked into the `oracle` executable).
-/
import Wz.Spec.Wasm
import Wz.Model.SsaPass
import Wz.Model.FrontendSL

namespace Wz.Model.FrontendCF
open Wz.Model.SsaPass Wz.Model.FrontendSL

/-! ## the source fragment -/

/-- a block type: parameters and results -/
structure BT where
  params : List Ty := []
  results : List Ty := []
deriving DecidableEq, Repr, Inhabited

/-- structured instructions; `op` carries the straight-line instructions of `FrontendSL` (including `return`) -/
inductive CI where
  | op (i : SI)
  | unreachable
  | br (l : Nat)
  | brIf (l : Nat)
  | block (bt : BT) (body : List CI)
  | loop (bt : BT) (body : List CI)
  /-- `hasElse = false`: `if … end` without `else` (then `el = []`) -/
  | ite (bt : BT) (hasElse : Bool) (th el : List CI)
deriving Repr, Inhabited

structure Function where
  params : List Ty
  results : List Ty
  locals : List Ty
  body : List CI
deriving Repr, Inhabited

mutual
def CI.toInstr : CI → Wz.Spec.Wasm.Instr
  | .op i => i.toInstr
  | .unreachable => .unreachable
  | .br l => .br l
  | .brIf l => .brIf l
  | .block bt body => .block bt.results.length (toInstrs body)
  | .loop _ body => .loop (toInstrs body)
  | .ite bt _ th el => .ite bt.results.length (toInstrs th) (toInstrs el)
def toInstrs : List CI → List Wz.Spec.Wasm.Instr
  | [] => []
  | i :: is => i.toInstr :: toInstrs is
end

def Function.toModule (f : Function) : Wz.Spec.Wasm.Module :=
  { types := [⟨f.params.map Ty.toVT, f.results.map Ty.toVT⟩],
    funcs := [⟨0, f.locals.map Ty.toVT, toInstrs f.body⟩] }

/-- reference semantics: `Wz.Spec.Wasm.invoke` on the embedding -/
def runSpec (f : Function) (args : List Nat) (fuel : Nat) : Wz.Spec.Wasm.Outcome :=
  (Wz.Spec.Wasm.invoke f.toModule fuel 0 args {}).1

/-- the signature part of a function as a `FrontendSL.Fn` (for `ArgsOK`, `entryParams`) -/
def Function.sig (f : Function) : Fn := { params := f.params, results := f.results, locals := f.locals, body := [] }

def codeUnreachable : Nat := 3   -- wazevoapi.ExitCodeUnreachable

def trapCodeCF (k : String) : Nat :=
  if k = "unreachable" then codeUnreachable else if k = "div0" then codeDivByZero else codeOverflow

def trapKindCF (c : Nat) : String :=
  if c = codeUnreachable then "unreachable" else if c = codeDivByZero then "div0" else "overflow"

def ofSpecCF : Wz.Spec.Wasm.Outcome → Outcome
  | .values vs => .values vs [] []
  | .trap k => .trap (trapCodeCF k) [] []
  | .exhausted => .outOfFuel

def ofSsaCF : Outcome → Wz.Spec.Wasm.Outcome
  | .values vs _ _ => .values vs
  | .trap c _ _ => .trap (trapKindCF c)
  | .outOfFuel => .exhausted
  | .error => .trap "malformed-ssa"

/-! ## the instruction sequence of the byte code -/

inductive Tok where
  | op (i : SI)
  | unreachable
  | br (l : Nat)
  | brIf (l : Nat)
  | block (bt : BT)
  | loop (bt : BT)
  | ifT (bt : BT)
  | elseT
  | endT
deriving DecidableEq, Repr, Inhabited

mutual
def CI.flat : CI → List Tok
  | .op i => [.op i]
  | .unreachable => [.unreachable]
  | .br l => [.br l]
  | .brIf l => [.brIf l]
  | .block bt body => .block bt :: (flatL body ++ [.endT])
  | .loop bt body => .loop bt :: (flatL body ++ [.endT])
  | .ite bt he th el => .ifT bt :: (flatL th ++ ((if he then .elseT :: flatL el else []) ++ [.endT]))
def flatL : List CI → List Tok
  | [] => []
  | i :: is => i.flat ++ flatL is
end

/-- the body of a function as the byte code has it: the instructions and the function's final `end` -/
def Function.toks (f : Function) : List Tok := flatL f.body ++ [.endT]

/-! ## `ssa.builder` -/

/-- `basicBlockIDReturnBlock` -/
def retBlk : BlockId := 0xffffffff

/-- `basicBlock` -/
structure BB where
  params : List TV := []
  instrs : List Instr := []
  /-- `preds`: the predecessor block and the index of the branch instruction in it -/
  preds : List (Nat × Nat) := []
  sealed : Bool := false
  singlePred : Option Nat := none
  /-- `lastDefinitions`: variable ↦ value, the newest entry first -/
  defs : List (Nat × TV) := []
  /-- `unknownValues` in the order they were recorded -/
  unknown : List (Nat × TV) := []
  /-- id of the first instruction (`rootInstr.id`) -/
  key : Nat := 0
deriving DecidableEq, Repr, Inhabited

structure Bld where
  /-- `basicBlocksPool`, in allocation order: the id of a block is its index -/
  blocks : List BB := []
  /-- `nextValueID` -/
  next : Nat := 0
  /-- number of instructions allocated so far (`instructionsPool.Allocated()`) -/
  ninstr : Nat := 0
  /-- the calls `alias(dst, src)`, oldest first -/
  aliases : List (Val × Val) := []
  zeros : Zeros := {}
  /-- `currentBB` -/
  cur : Nat := 0
  /-- the type of each variable (`Variable.getType()`) -/
  varTys : List Ty := []
  /-- GHOST (not in the Go code, not printed, never read by the translation): the values `findValue` created to stand
  for a variable at the ENTRY of a block - `(block, variable, value)` - i.e. the placeholders of unsealed blocks and
  the temporary values of sealed blocks with several predecessors.  Used only to build the certificate of
  `Wz.Model.FrontendCFCheck`. -/
  ents : List (Nat × Nat × TV) := []
deriving DecidableEq, Repr, Inhabited

def modAt {α} (l : List α) (i : Nat) (f : α → α) : List α :=
  match l, i with
  | [], _ => []
  | a :: as, 0 => f a :: as
  | a :: as, i + 1 => a :: modAt as i f

def Bld.blk (b : Bld) (i : Nat) : BB := b.blocks.getD i {}

def Bld.modBlk (b : Bld) (i : Nat) (f : BB → BB) : Bld := { b with blocks := modAt b.blocks i f }

/-- `AllocateBasicBlock` -/
def Bld.allocBlock (b : Bld) : Nat × Bld := (b.blocks.length, { b with blocks := b.blocks ++ [{}] })

/-- `BasicBlock.AddParam` for each type -/
def Bld.addParams (b : Bld) (blk : Nat) : List Ty → Bld
  | [] => b
  | t :: ts =>
    Bld.addParams ({ b.modBlk blk (fun B => { B with params := B.params ++ [(b.next, t)] }) with next := b.next + 1 })
      blk ts

/-- `InsertInstruction` (+ `basicBlock.addPred` for a branch; the predecessors of the return block are not
observable) -/
def Bld.insert (b : Bld) (i : Instr) : Bld :=
  let idx := (b.blk b.cur).instrs.length
  let b1 := { b.modBlk b.cur (fun B => { B with instrs := B.instrs ++ [i], key := if B.instrs.isEmpty then b.ninstr else B.key })
              with ninstr := b.ninstr + 1 }
  match i.branch? with
  | some (t, _) => if t = retBlk then b1 else b1.modBlk t (fun B => { B with preds := B.preds ++ [(b.cur, idx)] })
  | none => b1

def Bld.insertAll (b : Bld) : List Instr → Bld
  | [] => b
  | i :: is => Bld.insertAll (b.insert i) is

/-- `DefineVariable` -/
def Bld.define (b : Bld) (var : Nat) (v : TV) (blk : Nat) : Bld :=
  b.modBlk blk (fun B => { B with defs := (var, v) :: B.defs })

def branchArgs (i : Instr) : List Val := (i.branch?.map (·.2)).getD []

/-- `pred.branch.addArgumentBranchInst` -/
def Bld.addBranchArg (b : Bld) (p : Nat × Nat) (v : Val) : Bld :=
  b.modBlk p.1 (fun B => { B with instrs := modAt B.instrs p.2 (fun i => i.setBranchArgs (branchArgs i ++ [v])) })

/-- the first loop over the predecessors in `findValue`: the unique definition, if all agree; stops at the first
difference.  `fv` is `findValue` on a predecessor. -/
def uniqueLoop (fv : Bld → Nat → TV × Bld) : List (Nat × Nat) → Option TV → Bld → Option TV × Bld
  | [], u, b => (u, b)
  | p :: ps, u, b =>
    let r := fv b p.1
    match u with
    | none => uniqueLoop fv ps (some r.1) r.2
    | some u0 => if u0.1 = r.1.1 then uniqueLoop fv ps u r.2 else (none, r.2)

/-- the loop that passes the definition in every predecessor as one more argument of its branch -/
def argLoop (fv : Bld → Nat → TV × Bld) : List (Nat × Nat) → Bld → Bld
  | [], b => b
  | p :: ps, b =>
    let r := fv b p.1
    argLoop fv ps (r.2.addBranchArg p r.1.1)

/-- `builder.findValue(typ, variable, blk)`; the first argument bounds the recursion depth -/
def findValue : Nat → Bld → Nat → Ty → Nat → TV × Bld
  | 0, b, _, ty, _ => ((0, ty), b)
  | fuel + 1, b, var, ty, blk =>
    let B := b.blk blk
    match B.defs.lookup var with
    | some v => (v, b)
    | none =>
      if !B.sealed then
        let v : TV := (b.next, ty)
        (v, { b.modBlk blk (fun B => { B with defs := (var, v) :: B.defs, unknown := B.unknown ++ [(var, v)] })
              with next := b.next + 1, ents := (blk, var, v) :: b.ents })
      else if blk = 0 then (((b.zeros.get ty).getD 0, ty), b)
      else
        match B.singlePred with
        | some p => findValue fuel b var ty p
        | none =>
          let tmp : TV := (b.next, ty)
          let b1 := { b.define var tmp blk with next := b.next + 1, ents := (blk, var, tmp) :: b.ents }
          let fv := fun (b : Bld) (p : Nat) => findValue fuel b var ty p
          match uniqueLoop fv B.preds none b1 with
          | (some u, b2) => (u, { b2 with aliases := b2.aliases ++ [(tmp.1, u.1)] })
          | (none, b2) =>
            let b3 := b2.modBlk blk (fun B => { B with params := B.params ++ [tmp] })
            (tmp, argLoop fv B.preds b3)

def Bld.varTy (b : Bld) (var : Nat) : Ty := b.varTys.getD var .i32

/-- the recursion bound used for `findValue`: on the path of the recursion (each call is on a predecessor of the
block of the previous one) a block occurs at most twice, and the path ends at the second visit of a sealed block with
several predecessors (defined at the first) -/
def Bld.depth (b : Bld) : Nat := 2 * b.blocks.length + 3

/-- `MustFindValue(variable)` -/
def Bld.mustFind (b : Bld) (var : Nat) : TV × Bld := findValue b.depth b var (b.varTy var) b.cur

def sealUnknowns (blk : Nat) (preds : List (Nat × Nat)) : List (Nat × TV) → Bld → Bld
  | [], b => b
  | (var, phi) :: us, b =>
    let b1 := b.modBlk blk (fun B => { B with params := B.params ++ [phi] })
    let b2 := argLoop (fun b p => findValue b.depth b var (b.varTy var) p) preds b1
    sealUnknowns blk preds us b2

/-- `builder.Seal` -/
def Bld.seal (b : Bld) (blk : Nat) : Bld :=
  let B := b.blk blk
  let b1 := b.modBlk blk (fun B =>
    { B with sealed := true,
             singlePred := if B.preds.length = 1 then B.preds.head?.map (·.1) else B.singlePred })
  sealUnknowns blk B.preds B.unknown b1

/-! ## `loweringState` and `lowerCurrentOpcode` -/

inductive FK | func | loop | ifNoElse | ifElse | block
deriving DecidableEq, Repr, Inhabited

/-- `controlFrame` -/
structure Frame where
  kind : FK
  /-- `originalStackLenWithoutParam` -/
  orig : Nat
  /-- loop header / else block -/
  blk : Nat
  following : Nat
  bt : BT
  cloned : List TV := []
deriving DecidableEq, Repr, Inhabited

structure LSt where
  b : Bld
  /-- `values`, top first -/
  stack : List TV := []
  /-- `controlFrames`, innermost first -/
  frames : List Frame := []
  unreachable : Bool := false
  /-- `unreachableDepth` -/
  depth : Nat := 0
deriving DecidableEq, Repr, Inhabited

/-- `nPeekDup(n)`: the top `n` values, deepest first -/
def peekVals (stack : List TV) (n : Nat) : List Val := ((stack.take n).map (·.1)).reverse

/-- `values[:n]`: keep the `n` deepest values -/
def truncStack (stack : List TV) (n : Nat) : List TV := stack.drop (stack.length - n)

/-- `switchTo(originalStackLen, targetBlk)` -/
def switchTo (s : LSt) (orig : Nat) (tgt : Nat) : LSt :=
  let B := s.b.blk tgt
  { s with unreachable := s.unreachable || B.preds.isEmpty,
           stack := B.params.reverse ++ truncStack s.stack orig,
           b := { s.b with cur := tgt } }

/-- `brTargetArgNumFor` -/
def brTarget (s : LSt) (l : Nat) : Nat × Nat :=
  let fr := s.frames.getD l { kind := .func, orig := 0, blk := 0, following := retBlk, bt := {} }
  if fr.kind = .loop then (fr.blk, fr.bt.params.length) else (fr.following, fr.bt.results.length)

/-- a straight-line instruction other than `return` and the accesses to locals: the instructions of
`FrontendSL.lowerI`, inserted into the current block -/
def stepSI (nres : Nat) (s : LSt) : SI → LSt
  | .ret => { s with b := s.b.insert (.ret (peekVals s.stack nres)), unreachable := true }
  | .localGet i =>
    let r := s.b.mustFind i
    { s with b := r.2, stack := r.1 :: s.stack }
  | .localSet i =>
    { s with b := s.b.define i (s.stack.headD (0, .i32)) s.b.cur, stack := s.stack.tail }
  | .localTee i =>
    { s with b := s.b.define i (s.stack.headD (0, .i32)) s.b.cur }
  | i =>
    let r := lowerI i { next := s.b.next, stack := s.stack, locals := [] }
    { s with b := { s.b.insertAll r.1 with next := r.2.next }, stack := r.2.stack }

/-- `lowerCurrentOpcode` (`nres`: the number of results of the function) -/
def step (nres : Nat) (s : LSt) : Tok → LSt
  | .op i => if s.unreachable then s else stepSI nres s i
  | .unreachable =>
    if s.unreachable then s else { s with b := s.b.insert (.exit execCtx codeUnreachable), unreachable := true }
  | .block bt =>
    if s.unreachable then { s with depth := s.depth + 1 } else
    let (fol, b) := s.b.allocBlock
    let b := b.addParams fol bt.results
    { s with b := b,
             frames := { kind := .block, orig := s.stack.length - bt.params.length, blk := 0, following := fol, bt := bt }
                       :: s.frames }
  | .loop bt =>
    if s.unreachable then { s with depth := s.depth + 1 } else
    let (hdr, b) := s.b.allocBlock
    let (aft, b) := b.allocBlock
    let b := b.addParams hdr bt.params
    let b := b.addParams aft bt.results
    let orig := s.stack.length - bt.params.length
    let b := b.insert (.jump hdr (peekVals s.stack bt.params.length))
    switchTo { s with b := b,
                      frames := { kind := .loop, orig := orig, blk := hdr, following := aft, bt := bt } :: s.frames }
      orig hdr
  | .ifT bt =>
    if s.unreachable then { s with depth := s.depth + 1 } else
    let v := s.stack.headD (0, .i32)
    let stack := s.stack.tail
    let (thn, b) := s.b.allocBlock
    let (els, b) := b.allocBlock
    let (fol, b) := b.allocBlock
    let b := b.addParams fol bt.results
    let cloned := (stack.take bt.params.length).reverse
    let b := b.insert (.brz v.1 els [])
    let b := b.insert (.jump thn [])
    let b := { b with cur := thn }
    let b := b.seal thn
    let b := b.seal els
    { s with b := b, stack := stack,
             frames := { kind := .ifNoElse, orig := stack.length - bt.params.length, blk := els, following := fol,
                         bt := bt, cloned := cloned } :: s.frames }
  | .elseT =>
    if s.unreachable && decide (s.depth > 0) then s else
    match s.frames with
    | [] => s
    | fr :: frs =>
      let b := if s.unreachable then s.b else s.b.insert (.jump fr.following (peekVals s.stack fr.bt.results.length))
      { s with b := { b with cur := fr.blk }, unreachable := false,
               stack := fr.cloned.reverse ++ truncStack s.stack fr.orig,
               frames := { fr with kind := .ifElse } :: frs }
  | .endT =>
    if s.depth > 0 then { s with depth := s.depth - 1 } else
    match s.frames with
    | [] => s
    | fr :: frs =>
      let b := if s.unreachable then s.b else s.b.insert (.jump fr.following (peekVals s.stack fr.bt.results.length))
      let s1 := { s with frames := frs, unreachable := false }
      match fr.kind with
      | .func => { s1 with b := { b with cur := retBlk }, stack := truncStack s.stack fr.orig }
      | .loop =>
        let b := b.seal fr.blk
        let b := b.seal fr.following
        switchTo { s1 with b := b } fr.orig fr.following
      | .ifNoElse =>
        let b := { b with cur := fr.blk }
        let b := b.insert (.jump fr.following (fr.cloned.map (·.1)))
        let b := b.seal fr.following
        switchTo { s1 with b := b } fr.orig fr.following
      | _ =>
        let b := b.seal fr.following
        switchTo { s1 with b := b } fr.orig fr.following
  | .br l =>
    if s.unreachable then s else
    let (tgt, n) := brTarget s l
    { s with b := s.b.insert (.jump tgt (peekVals s.stack n)), unreachable := true }
  | .brIf l =>
    if s.unreachable then s else
    let v := s.stack.headD (0, .i32)
    let stack := s.stack.tail
    let (tgt, n) := brTarget { s with stack := stack } l
    let b := s.b.insert (.brnz v.1 tgt (peekVals stack n))
    let (els, b) := b.allocBlock
    let b := b.insert (.jump els [])
    let b := b.seal els
    { s with b := { b with cur := els }, stack := stack }

def lowerToks (nres : Nat) : List Tok → LSt → LSt
  | [], s => s
  | t :: ts, s => lowerToks nres ts (step nres s t)

/-- `LowerToSSA` up to `lowerBody`: the entry block with its parameters, the variables of the parameters and
locals, the zero constants of the locals, the entry block sealed, the function's control frame -/
def initLSt (f : Function) : LSt :=
  let d := declLocals f.locals (f.params.length + 2) {}
  let entry : BB :=
    { params := entryParams f.sig,
      defs := (f.params.zipIdx.map (fun (t, i) => (i, ((i + 2, t) : TV)))).reverse }
  let b : Bld :=
    { blocks := [entry], next := f.params.length + 2, ninstr := 0, aliases := [], zeros := d.2.2, cur := 0,
      varTys := f.params ++ f.locals }
  let b := { b.insertAll d.1 with next := d.2.1 }
  let b := b.seal 0
  { b := b, stack := [], unreachable := false, depth := 0,
    frames := [{ kind := .func, orig := 0, blk := 0, following := retBlk, bt := ⟨f.params, f.results⟩ }] }

/-- the state of the builder after `LowerToSSA` -/
def build (f : Function) : Bld := (lowerToks f.results.length f.toks (initLSt f)).b

/-! ## the function in the form of `SsaPass` -/

/-- a jump to the return block returns its arguments -/
def retJump : Instr → Instr
  | .jump t args => if t = retBlk then .ret args else .jump t args
  | i => i

def usesRetBlk (b : Bld) : Bool :=
  b.blocks.any (fun B => B.instrs.any (fun i => match i with
    | .brz _ t _ => t == retBlk | .brnz _ t _ => t == retBlk | _ => false))

def toBlocks : List BB → Nat → List Block
  | [], _ => []
  | B :: Bs, i => { id := i, key := B.key, invalid := false, params := B.params, instrs := B.instrs.map retJump }
                  :: toBlocks Bs (i + 1)

/-- the block that stands for the builder's return block when a conditional branch targets it -/
def retBlock (b : Bld) (results : List Ty) : Block :=
  let ps : List TV := results.zipIdx.map (fun (t, i) => (b.next + i, t))
  { id := retBlk, key := b.ninstr, invalid := false, params := ps, instrs := [.ret (ps.map (·.1))] }

def aliasTable (as : List (Val × Val)) : List (Val × Val) := as.foldl (fun al p => aliasInsert al p.1 p.2) []

def toFunc (b : Bld) (results : List Ty) : Func :=
  { blocks := toBlocks b.blocks 0 ++ (if usesRetBlk b then [retBlock b results] else []),
    alias := aliasTable b.aliases }

/-- `LowerToSSA` -/
def lowerCF (f : Function) : Func := toFunc (build f) f.results

/-! ## well-formedness with the front end's alias entries

`findValue` aliases a temporary value that has NO definition (it is neither a block parameter nor an instruction
result) to the unique definition it found.  The certificate `SsaPass.computeCert` gives ranks and types to defined
values only, so `SsaPass.wellFormed` rejects such a table (`alRank`, `alTy`).  `certA` extends the computed
certificate: an aliased value without a definition gets the type of its target and a rank just above it.  The
pass theorems hold for every certificate (`ssa_redundantPhiElim_sound`, `ssa_nopElim_sound`,
`ssa_passes_keep_wellFormed`), so `wellFormedA` is as good a hypothesis as `wellFormed`
(`Wz.C01.frontcf_passes_sound_of_wellFormedA`). -/

def certA (g : Func) : Cert :=
  let c := computeCert g
  let defs := g.allDefs
  { c with
    rank := fun v => match aliasGet g.alias v with
      | some t => if v ∈ defs then c.rank v else c.rank t + 1
      | none => c.rank v,
    cty := fun v => match aliasGet g.alias v with
      | some t => if v ∈ defs then c.cty v else c.cty t
      | none => c.cty v }

def wellFormedA (f : Func) : Bool :=
  decide (WF (certA (deadBlockElim f)) (deadBlockElim f))

/-! ## `ssaBuilder.Format()` -/

def blkName (t : BlockId) : String := if t = retBlk then "blk_ret" else s!"blk{t}"

def showInstrCF : Instr → String
  | .jump t args => ", ".intercalate (s!"Jump {blkName t}" :: args.map showVal)
  | .brz c t args => ", ".intercalate (s!"Brz {showVal c}" :: blkName t :: args.map showVal)
  | .brnz c t args => ", ".intercalate (s!"Brnz {showVal c}" :: blkName t :: args.map showVal)
  | .exit c _ => s!"Exit {showVal c}, unreachable"
  | i => showInstr false i

/-- `basicBlock.formatHeader` -/
def showHeader (i : Nat) (B : BB) : String :=
  if B.preds.isEmpty then s!"blk{i}: ({", ".intercalate (B.params.map showParam)})"
  else s!"blk{i}: ({",".intercalate (B.params.map showParam)}) <-- ({",".intercalate (B.preds.map (fun p => s!"blk{p.1}"))})"

def formatBlocks : List BB → Nat → List String
  | [], _ => []
  | B :: Bs, i => (showHeader i B :: B.instrs.map showInstrCF) ++ formatBlocks Bs (i + 1)

/-- the lines of `ssaBuilder.Format()` (without the empty lines and the tabs) -/
def format (f : Function) : List String := formatBlocks (build f).blocks 0

/-! ## the fragment's type check (live code only, in the style of the validator) -/

/-- a label: the types a branch to it carries, and the types left on the stack at its `end` -/
structure Lbl where
  brTys : List Ty
deriving DecidableEq, Repr, Inhabited

/-- the result of checking a sequence: the type stack at its end, or "the end is unreachable" -/
inductive TR where
  | bad
  | dead
  | live (s : List Ty)
deriving DecidableEq, Repr, Inhabited

mutual
/-- one instruction from type stack `s`; `ls`: the labels innermost first (the last one is the function's);
`lt`: the types of the locals; `res`: the function's results -/
def tcI (lt res : List Ty) (ls : List Lbl) (s : List Ty) : CI → TR
  | .op .ret => if hasPrefix res.reverse s then .dead else .bad
  | .op i => match tcStep lt i s with | some s' => .live s' | none => .bad
  | .unreachable => .dead
  | .br l =>
    match ls[l]? with
    | some lb => if hasPrefix lb.brTys.reverse s then .dead else .bad
    | none => .bad
  | .brIf l =>
    match s, ls[l]? with
    | .i32 :: s', some lb => if hasPrefix lb.brTys.reverse s' then .live s' else .bad
    | _, _ => .bad
  | .block bt body =>
    if bt.params ≠ [] then .bad else
    match tcL lt res (⟨bt.results⟩ :: ls) [] body with
    | .bad => .bad
    | .dead => .live (bt.results.reverse ++ s)
    | .live s' => if s' = bt.results.reverse then .live (bt.results.reverse ++ s) else .bad
  | .loop bt body =>
    if bt.params ≠ [] then .bad else
    match tcL lt res (⟨[]⟩ :: ls) [] body with
    | .bad => .bad
    | .dead => .live (bt.results.reverse ++ s)
    | .live s' => if s' = bt.results.reverse then .live (bt.results.reverse ++ s) else .bad
  | .ite bt he th el =>
    if bt.params ≠ [] then .bad else
    if !he && (el ≠ [] || bt.results ≠ []) then .bad else
    match s with
    | .i32 :: s0 =>
      let okBranch := fun (r : TR) => match r with
        | .bad => false | .dead => true | .live s' => s' = bt.results.reverse
      if okBranch (tcL lt res (⟨bt.results⟩ :: ls) [] th) && okBranch (tcL lt res (⟨bt.results⟩ :: ls) [] el)
      then .live (bt.results.reverse ++ s0) else .bad
    | _ => .bad
def tcL (lt res : List Ty) (ls : List Lbl) (s : List Ty) : List CI → TR
  | [] => .live s
  | i :: is =>
    match tcI lt res ls s i with
    | .live s' => tcL lt res ls s' is
    | r => r
end

/-- Well-typed functions of the fragment: block types without parameters (see the head of the file), the body checked
from the empty stack inside each block (the validator's rule), the function's results at the end. -/
def wellTyped (f : Function) : Bool :=
  match tcL (f.params ++ f.locals) f.results [⟨f.results⟩] [] f.body with
  | .bad => false
  | .dead => true
  | .live s => s = f.results.reverse

/-- is the function straight-line code (then `lowerCF` is `lowerSL`)? -/
def CI.isOp : CI → Bool
  | .op _ => true
  | _ => false

def opsOf : List CI → List SI
  | [] => []
  | .op i :: is => i :: opsOf is
  | _ :: is => opsOf is

def Function.toFn (f : Function) : Fn :=
  { params := f.params, results := f.results, locals := f.locals, body := opsOf f.body }

def ofFn (f : Fn) : Function :=
  { params := f.params, results := f.results, locals := f.locals, body := f.body.map CI.op }

end Wz.Model.FrontendCF
