/-
C11 — instances are isolated unless explicitly linked.

Two semantics of the same op alphabet:

* `lstep` — the LONE instance: a pure state (`LState`) holding its own memory, table, globals, its own
  copies of the passive data/element segments, its own fd table / stdout / clocks / random position.
  This is the specification "as it would behave if it were alone".
* `hstep` — the instance inside ONE heap (`Heap`) that also holds every other instance and the shared,
  read-only objects of the compiled modules (segment bytes, element init vectors, function code).
  Data/element *instances* are per-instance header lists whose entries POINT to segment objects
  (`DataInstances[i] = d.Init` in `internal/wasm/store.go`), `data.drop`/`elem.drop` nil the header.

Which `ModuleInstance` field is freshly allocated by `instantiate` and which aliases the compiled module
is a parameter (`Shape`), regenerated from the Go source (`Wz.Gen.C11Sharing`).

Addresses are region-structured: `shared mid slot` (objects of compiled module `mid`), `own iid fld`
(the six mutable objects of instance `iid`), `ownD/ownE iid k` (per-instance copies of segment k).
Core Lean only.
-/
namespace Wz.Model.Isolation

/-! ## objects -/

inductive Fld | mem | tbl | glob | dhdr | ehdr | sys
deriving DecidableEq, Repr

inductive Slot
  | code | dseg (k : Nat) | eseg (k : Nat)
  | cache (f : Fld)   -- a per-module cached mutable object (only reachable under a bad `Shape`)
deriving DecidableEq, Repr

inductive Addr
  | shared (mid : Nat) (s : Slot)
  | own (iid : Nat) (f : Fld)
  | ownD (iid : Nat) (k : Nat)
  | ownE (iid : Nat) (k : Nat)
deriving DecidableEq, Repr

/-- sparse linear memory: absent cell = 0 -/
structure Mem where
  pages : Nat
  max : Nat
  cells : List (Nat × Nat)
deriving DecidableEq, Repr

inductive Entry
  | stdin (off : Nat) | stdout | stderr | preopen | file (k : Nat) (off : Nat)
deriving DecidableEq, Repr

structure Sys where
  fds : List (Nat × Entry)
  out : List Nat
  wall : Nat
  nano : Nat
  rnd : Nat
deriving DecidableEq, Repr

inductive Obj
  | mem (m : Mem)
  | tbl (max : Nat) (r : List Nat)       -- 0 = null, f+1 = function f
  | vals (v : List (Nat × Nat))          -- (bits, value)
  | hdrs (h : List (Option Addr))        -- data/element instances: pointer to the segment object, none = dropped
  | sys (s : Sys)
  | bytes (b : List Nat)                 -- segment bytes
  | refs (r : List Nat)                  -- element init vector
  | code (fns : List (Nat × Bool))       -- per function: its constant result, whether its type is the called type
deriving DecidableEq, Repr

structure Heap where
  get : Addr → Option Obj

def Heap.empty : Heap := ⟨fun _ => none⟩
def Heap.set (h : Heap) (a : Addr) (o : Obj) : Heap := ⟨fun b => if b = a then some o else h.get b⟩

theorem Heap.get_set_self (h : Heap) (a : Addr) (o : Obj) : (h.set a o).get a = some o := by
  simp [Heap.set]
theorem Heap.get_set_ne (h : Heap) (a b : Addr) (o : Obj) (hne : b ≠ a) : (h.set a o).get b = h.get b := by
  simp [Heap.set, hne]

/-- host-side constants (explicit, read-only links of the embedder): the fake random stream, the files of
the read-only mount, the bytes offered on stdin -/
structure Env where
  rnd : List Nat
  files : List (List Nat × List Nat)
  stdin : List Nat

inductive Res
  | ok (vals : List Nat)
  | trap (kind : String)
  | fault                -- the model is stuck (dangling address); never under the invariants
deriving DecidableEq, Repr

/-! ## pure per-object operations (shared by both semantics) -/

def Mem.size (m : Mem) : Nat := m.pages * 65536
def Mem.rd (m : Mem) (a : Nat) : Nat :=
  match m.cells.find? (fun c => c.1 == a) with
  | some c => c.2
  | none => 0
def Mem.wr (m : Mem) (a v : Nat) : Mem :=
  { m with cells := (a, v % 256) :: m.cells.filter (fun c => c.1 != a) }
def Mem.wrs (m : Mem) (a : Nat) : List Nat → Mem
  | [] => m
  | b :: bs => (m.wr a b).wrs (a + 1) bs
def Mem.rds (m : Mem) (a n : Nat) : List Nat := (List.range n).map (fun i => m.rd (a + i))

def le (n v : Nat) : List Nat := (List.range n).map (fun i => v / 256 ^ i % 256)
def unle (bs : List Nat) : Nat := bs.foldr (fun b acc => b + 256 * acc) 0

inductive MemOp
  | store32 (a v : Nat) | load32 (a : Nat) | store8 (a v : Nat) | load8 (a : Nat)
  | grow (n : Nat) | size | fill (d v n : Nat) | copy (d s n : Nat)
deriving DecidableEq, Repr

def memOp (m : Mem) : MemOp → Mem × Res
  | .store32 a v => if a + 4 ≤ m.size then (m.wrs a (le 4 v), .ok []) else (m, .trap "mem")
  | .load32 a => if a + 4 ≤ m.size then (m, .ok [unle (m.rds a 4)]) else (m, .trap "mem")
  | .store8 a v => if a + 1 ≤ m.size then (m.wr a v, .ok []) else (m, .trap "mem")
  | .load8 a => if a + 1 ≤ m.size then (m, .ok [m.rd a]) else (m, .trap "mem")
  | .grow n => if m.pages + n ≤ m.max then ({ m with pages := m.pages + n }, .ok [m.pages]) else (m, .ok [4294967295])
  | .size => (m, .ok [m.pages])
  | .fill d v n => if d + n ≤ m.size then (m.wrs d (List.replicate n v), .ok []) else (m, .trap "mem")
  | .copy d s n => if d + n ≤ m.size ∧ s + n ≤ m.size then (m.wrs d (m.rds s n), .ok []) else (m, .trap "mem")

/-- `memory.init` from segment bytes `b` (a dropped segment is the empty list) -/
def memInit (m : Mem) (b : List Nat) (d s n : Nat) : Mem × Res :=
  if s + n ≤ b.length ∧ d + n ≤ m.size then (m.wrs d ((b.drop s).take n), .ok []) else (m, .trap "mem")

def setRange (t : List Nat) (d : Nat) : List Nat → List Nat
  | [] => t
  | x :: xs => setRange (t.set d x) (d + 1) xs

inductive TblOp
  | null (i : Nat) | move (i j : Nat) | isnull (i : Nat) | grow (n : Nat) | size | copy (d s n : Nat)
  | reff (i k : Nat)      -- table.set i (ref.func c_k): a reference created at run time
deriving DecidableEq, Repr

def tblOp (mx : Nat) (t : List Nat) : TblOp → List Nat × Res
  | .null i => if i < t.length then (t.set i 0, .ok []) else (t, .trap "tbl")
  | .reff i k => if i < t.length then (t.set i (k + 1), .ok []) else (t, .trap "tbl")
  | .move i j =>
    if j < t.length then (if i < t.length then (t.set i (t.getD j 0), .ok []) else (t, .trap "tbl")) else (t, .trap "tbl")
  | .isnull i => if i < t.length then (t, .ok [if t.getD i 0 = 0 then 1 else 0]) else (t, .trap "tbl")
  | .grow n => if t.length + n ≤ mx then (t ++ List.replicate n 0, .ok [t.length]) else (t, .ok [4294967295])
  | .size => (t, .ok [t.length])
  | .copy d s n =>
    if s + n ≤ t.length ∧ d + n ≤ t.length then (setRange t d ((t.drop s).take n), .ok []) else (t, .trap "tbl")

/-- `table.init` from element vector `e` (dropped = empty) -/
def tblInit (t : List Nat) (e : List Nat) (d s n : Nat) : List Nat × Res :=
  if s + n ≤ e.length ∧ d + n ≤ t.length then (setRange t d ((e.drop s).take n), .ok []) else (t, .trap "tbl")

def glob0 (g : List (Nat × Nat)) : Nat := match g with
  | [] => 0
  | x :: _ => x.2

/-- the functions return their constant plus the instance's global 0 (mod 2^32) -/
def callIndirect (t : List Nat) (fns : List (Nat × Bool)) (g : List (Nat × Nat)) (i : Nat) : Res :=
  if i < t.length then
    match t.getD i 0 with
    | 0 => .trap "tbl"
    | r + 1 =>
      match fns[r]? with
      | some (c, true) => .ok [(c + glob0 g) % 4294967296]
      | some (_, false) => .trap "sig"
      | none => .fault
  else .trap "tbl"

inductive GlobOp | set (k v : Nat) | get (k : Nat)
deriving DecidableEq, Repr

def globOp (g : List (Nat × Nat)) : GlobOp → List (Nat × Nat) × Res
  | .set k v => match g[k]? with
    | some (bits, _) => (g.set k (bits, v % 2 ^ bits), .ok [])
    | none => (g, .fault)
  | .get k => match g[k]? with
    | some (_, v) => (g, .ok [v])
    | none => (g, .fault)

/-! ### WASI subset (guest wrappers of hc11: scratch iovec at 0x40, result cell at 0x48) -/

inductive SysOp
  | write (fd p n : Nat) | read (fd p n : Nat) | close (fd : Nat) | renumber (a b : Nat)
  | open_ (dirfd p l oflags : Nat) | clock (id : Nat) | random (p n : Nat)
deriving DecidableEq, Repr

def fdGet (fds : List (Nat × Entry)) (fd : Nat) : Option Entry := (fds.find? (fun e => e.1 == fd)).map (·.2)
def fdDel (fds : List (Nat × Entry)) (fd : Nat) : List (Nat × Entry) := fds.filter (fun e => e.1 != fd)
def fdPut (fds : List (Nat × Entry)) (fd : Nat) (e : Entry) : List (Nat × Entry) := (fd, e) :: fdDel fds fd
def fdFree (fds : List (Nat × Entry)) : Nat → Nat → Nat
  | 0, c => c
  | fuel + 1, c => if (fdGet fds c).isSome then fdFree fds fuel (c + 1) else c
/-- lowest unused descriptor (`descriptor.Table.Insert`) -/
def fdLowest (fds : List (Nat × Entry)) : Nat := fdFree fds (fds.length + 1) 0

def Entry.isPreopen : Entry → Bool
  | .file _ _ => false
  | _ => true

def EBADF := 8
def EFAULT := 21
def EINVAL := 28
def EISDIR := 31
def ENOENT := 44
def ENOTDIR := 54
def ENOTSUP := 58
def fakeEpochNanos : Nat := 1640995200000000000

def iovPrologue (m : Mem) (p n : Nat) : Mem := ((m.wrs 0x40 (le 4 p)).wrs 0x44 (le 4 n)).wrs 0x48 (le 8 0)

def sysOp (env : Env) (m : Mem) (s : Sys) : SysOp → Mem × Sys × Res
  | .write fd p n =>
    let m := iovPrologue m p n
    match fdGet s.fds fd with
    | none => (m, s, .ok [EBADF, 0])
    | some e =>
      if p + n ≤ m.size then
        match e with
        | .stdout => (m.wrs 0x48 (le 4 n), { s with out := s.out ++ m.rds p n }, .ok [0, n])
        | .stderr => (m.wrs 0x48 (le 4 n), s, .ok [0, n])
        | .preopen => (m, s, .ok [EISDIR, 0])
        | _ => (m, s, .ok [EBADF, 0])
      else (m, s, .ok [EFAULT, 0])
  | .read fd p n =>
    let m := iovPrologue m p n
    match fdGet s.fds fd with
    | none => (m, s, .ok [EBADF, 0])
    | some e =>
      if n = 0 then (m, s, .ok [0, 0])
      else if p + n ≤ m.size then
        match e with
        | .stdin off =>
          let bs := (env.stdin.drop off).take n
          ((m.wrs p bs).wrs 0x48 (le 4 bs.length), { s with fds := fdPut s.fds fd (.stdin (off + bs.length)) }, .ok [0, bs.length])
        | .file k off =>
          match env.files[k]? with
          | none => (m, s, .fault)
          | some f =>
            let bs := (f.2.drop off).take n
            ((m.wrs p bs).wrs 0x48 (le 4 bs.length), { s with fds := fdPut s.fds fd (.file k (off + bs.length)) }, .ok [0, bs.length])
        | .preopen => (m, s, .ok [EISDIR, 0])
        | _ => (m, s, .ok [EBADF, 0])
      else (m, s, .ok [EFAULT, 0])
  | .close fd =>
    match fdGet s.fds fd with
    | none => (m, s, .ok [EBADF])
    | some _ => (m, { s with fds := fdDel s.fds fd }, .ok [0])
  | .renumber a b =>
    match fdGet s.fds a with
    | none => (m, s, .ok [EBADF])
    | some ea =>
      if ea.isPreopen then (m, s, .ok [ENOTSUP])
      else match fdGet s.fds b with
        | some eb => if eb.isPreopen then (m, s, .ok [ENOTSUP]) else (m, { s with fds := fdPut (fdDel s.fds a) b ea }, .ok [0])
        | none => (m, { s with fds := fdPut (fdDel s.fds a) b ea }, .ok [0])
  | .open_ dirfd p l oflags =>
    let m := m.wrs 0x48 (le 8 0)
    match fdGet s.fds dirfd with
    | none => (m, s, .ok [EBADF, 0])
    | some .preopen =>
      if p + l ≤ m.size then
        let name := m.rds p l
        match env.files.findIdx? (fun f => f.1 == name) with
        | none => (m, s, .ok [ENOENT, 0])
        | some k =>
          if oflags % 4 / 2 = 1 then (m, s, .ok [ENOTDIR, 0])
          else
            let fd := fdLowest s.fds
            (m.wrs 0x48 (le 4 fd), { s with fds := fdPut s.fds fd (.file k 0) }, .ok [0, fd])
      else (m, s, .ok [EFAULT, 0])
    | some _ => (m, s, .ok [ENOTDIR, 0])
  | .clock id =>
    let m := m.wrs 0x48 (le 8 0)
    if id = 0 then
      let v := fakeEpochNanos + s.wall * 1000000
      (m.wrs 0x48 (le 8 v), { s with wall := s.wall + 1 }, .ok [0, v])
    else if id = 1 then
      let v := s.nano * 1000000
      (m.wrs 0x48 (le 8 v), { s with nano := s.nano + 1 }, .ok [0, v])
    else (m, s, .ok [EINVAL, 0])
  | .random p n =>
    if p + n ≤ m.size then (m.wrs p ((env.rnd.drop s.rnd).take n), { s with rnd := s.rnd + n }, .ok [0])
    else (m, s, .ok [EFAULT])

/-! ## the op alphabet -/

inductive Op
  | m (o : MemOp) | g (o : GlobOp) | t (o : TblOp) | calli (i : Nat)
  | minit (k d s n : Nat) | ddrop (k : Nat) | tinit (k d s n : Nat) | edrop (k : Nat)
  | s (o : SysOp)
deriving DecidableEq, Repr

/-! ## the lone instance -/

structure LState where
  mem : Mem
  tmax : Nat
  tbl : List Nat
  glob : List (Nat × Nat)
  data : List (Option (List Nat))     -- its OWN copies of the passive data segments; none = dropped
  elem : List (Option (List Nat))
  sys : Sys
  fns : List (Nat × Bool)
deriving DecidableEq, Repr

def lstep (env : Env) (s : LState) : Op → LState × Res
  | .m o => let r := memOp s.mem o; ({ s with mem := r.1 }, r.2)
  | .g o => let r := globOp s.glob o; ({ s with glob := r.1 }, r.2)
  | .t o => let r := tblOp s.tmax s.tbl o; ({ s with tbl := r.1 }, r.2)
  | .calli i => (s, callIndirect s.tbl s.fns s.glob i)
  | .minit k d sO n =>
    match s.data[k]? with
    | none => (s, .fault)
    | some seg => let r := memInit s.mem (seg.getD []) d sO n; ({ s with mem := r.1 }, r.2)
  | .ddrop k => if k < s.data.length then ({ s with data := s.data.set k none }, .ok []) else (s, .fault)
  | .tinit k d sO n =>
    match s.elem[k]? with
    | none => (s, .fault)
    | some seg => let r := tblInit s.tbl (seg.getD []) d sO n; ({ s with tbl := r.1 }, r.2)
  | .edrop k => if k < s.elem.length then ({ s with elem := s.elem.set k none }, .ok []) else (s, .fault)
  | .s o => let r := sysOp env s.mem s.sys o; ({ s with mem := r.1, sys := r.2.1 }, r.2.2)

def lrun (env : Env) (s : LState) : List Op → LState × List Res
  | [] => (s, [])
  | o :: os => let r := lstep env s o; let rr := lrun env r.1 os; (rr.1, r.2 :: rr.2)

/-! ## the instance in the shared heap -/

structure Inst where
  id : Nat
  mem : Addr
  tbl : Addr
  glob : Addr
  dhdr : Addr
  ehdr : Addr
  sys : Addr
  code : Addr
deriving DecidableEq, Repr

def pickBytes : Obj → Option (List Nat)
  | .bytes b => some b
  | _ => none
def pickRefs : Obj → Option (List Nat)
  | .refs r => some r
  | _ => none
/-- segment lookup through a header entry; a dropped entry is the empty segment -/
def seg (pick : Obj → Option (List Nat)) (h : Heap) : Option Addr → Option (List Nat)
  | none => some []
  | some a => (h.get a).bind pick
def segBytes := seg pickBytes
def segRefs := seg pickRefs

def hstep (env : Env) (h : Heap) (i : Inst) : Op → Heap × Res
  | .m o =>
    match h.get i.mem with
    | some (.mem m) => let r := memOp m o; (h.set i.mem (.mem r.1), r.2)
    | _ => (h, .fault)
  | .g o =>
    match h.get i.glob with
    | some (.vals g) => let r := globOp g o; (h.set i.glob (.vals r.1), r.2)
    | _ => (h, .fault)
  | .t o =>
    match h.get i.tbl with
    | some (.tbl mx t) => let r := tblOp mx t o; (h.set i.tbl (.tbl mx r.1), r.2)
    | _ => (h, .fault)
  | .calli ix =>
    match h.get i.tbl, h.get i.code, h.get i.glob with
    | some (.tbl _ t), some (.code fns), some (.vals g) => (h, callIndirect t fns g ix)
    | _, _, _ => (h, .fault)
  | .minit k d sO n =>
    match h.get i.dhdr, h.get i.mem with
    | some (.hdrs dh), some (.mem m) =>
      match dh[k]? with
      | none => (h, .fault)
      | some e =>
        match segBytes h e with
        | none => (h, .fault)
        | some b => let r := memInit m b d sO n; (h.set i.mem (.mem r.1), r.2)
    | _, _ => (h, .fault)
  | .ddrop k =>
    match h.get i.dhdr with
    | some (.hdrs dh) => if k < dh.length then (h.set i.dhdr (.hdrs (dh.set k none)), .ok []) else (h, .fault)
    | _ => (h, .fault)
  | .tinit k d sO n =>
    match h.get i.ehdr, h.get i.tbl with
    | some (.hdrs eh), some (.tbl mx t) =>
      match eh[k]? with
      | none => (h, .fault)
      | some e =>
        match segRefs h e with
        | none => (h, .fault)
        | some b => let r := tblInit t b d sO n; (h.set i.tbl (.tbl mx r.1), r.2)
    | _, _ => (h, .fault)
  | .edrop k =>
    match h.get i.ehdr with
    | some (.hdrs eh) => if k < eh.length then (h.set i.ehdr (.hdrs (eh.set k none)), .ok []) else (h, .fault)
    | _ => (h, .fault)
  | .s o =>
    match h.get i.mem, h.get i.sys with
    | some (.mem m), some (.sys sy) =>
      let r := sysOp env m sy o
      ((h.set i.mem (.mem r.1)).set i.sys (.sys r.2.1), r.2.2)
    | _, _ => (h, .fault)

/-! ## compiled modules, shapes, instantiation -/

structure Module where
  memMin : Nat
  memMax : Nat
  tblMin : Nat
  tblMax : Nat
  globals : List (Nat × Nat)
  fns : List (Nat × Bool)
  dpas : List (List Nat)
  dact : List (Nat × List Nat)
  epas : List (List Nat)
  eact : List (Nat × List Nat)
deriving DecidableEq, Repr

inductive Alloc | fresh | shared
deriving DecidableEq, Repr

/-- where `instantiate` gets each part of the new instance from: a fresh allocation, or the compiled module -/
structure Shape where
  mem : Alloc
  tbl : Alloc
  glob : Alloc
  dhdr : Alloc
  ehdr : Alloc
  sys : Alloc
  dataEntries : Alloc   -- DataInstances[i]
  elemEntries : Alloc   -- ElementInstances[i]
deriving DecidableEq, Repr

/-- the objects that ops write must be fresh; segment objects are only read, so they may be shared -/
def Shape.ok (s : Shape) : Bool :=
  s.mem == .fresh && s.tbl == .fresh && s.glob == .fresh && s.dhdr == .fresh && s.ehdr == .fresh && s.sys == .fresh

/-- the shape of the code as written today (checked against the regenerated facts in Props/C11) -/
def Shape.asIs : Shape := ⟨.fresh, .fresh, .fresh, .fresh, .fresh, .fresh, .shared, .fresh⟩

def initSys : Sys :=
  { fds := [(0, .stdin 0), (1, .stdout), (2, .stderr), (3, .preopen)], out := [], wall := 0, nano := 0, rnd := 0 }

def initMem (md : Module) : Mem :=
  md.dact.foldl (fun m d => m.wrs d.1 d.2) { pages := md.memMin, max := md.memMax, cells := [] }
def initTbl (md : Module) : List Nat :=
  md.eact.foldl (fun t e => setRange t e.1 e.2) (List.replicate md.tblMin 0)

/-- the lone instance's initial state -/
def linit (md : Module) : LState :=
  { mem := initMem md, tmax := md.tblMax, tbl := initTbl md, glob := md.globals,
    data := md.dpas.map some, elem := md.epas.map some, sys := initSys, fns := md.fns }

def setMany (h : Heap) (mk : Nat → Addr) (mkObj : List Nat → Obj) : Nat → List (List Nat) → Heap
  | _, [] => h
  | k, x :: xs => setMany (h.set (mk k) (mkObj x)) mk mkObj (k + 1) xs

/-- compile/load: the shared objects of module `mid` (and its caches, used only by bad shapes) -/
def loadModule (h : Heap) (mid : Nat) (md : Module) : Heap :=
  let h := h.set (.shared mid .code) (.code md.fns)
  let h := setMany h (fun k => .shared mid (.dseg k)) .bytes 0 md.dpas
  let h := setMany h (fun k => .shared mid (.eseg k)) .refs 0 md.epas
  let h := h.set (.shared mid (.cache .mem)) (.mem (initMem md))
  let h := h.set (.shared mid (.cache .tbl)) (.tbl md.tblMax (initTbl md))
  let h := h.set (.shared mid (.cache .glob)) (.vals md.globals)
  let h := h.set (.shared mid (.cache .dhdr)) (.hdrs ((List.range md.dpas.length).map (fun k => some (.shared mid (.dseg k)))))
  let h := h.set (.shared mid (.cache .ehdr)) (.hdrs ((List.range md.epas.length).map (fun k => some (.shared mid (.eseg k)))))
  h.set (.shared mid (.cache .sys)) (.sys (initSys))

def fldAddr (a : Alloc) (mid iid : Nat) (f : Fld) : Addr :=
  match a with
  | .fresh => .own iid f
  | .shared => .shared mid (.cache f)

def mkInst (sh : Shape) (mid iid : Nat) : Inst :=
  { id := iid, mem := fldAddr sh.mem mid iid .mem, tbl := fldAddr sh.tbl mid iid .tbl,
    glob := fldAddr sh.glob mid iid .glob, dhdr := fldAddr sh.dhdr mid iid .dhdr,
    ehdr := fldAddr sh.ehdr mid iid .ehdr, sys := fldAddr sh.sys mid iid .sys, code := .shared mid .code }

def entryAddr (a : Alloc) (mid iid : Nat) (isData : Bool) (k : Nat) : Addr :=
  match a, isData with
  | .shared, true => .shared mid (.dseg k)
  | .shared, false => .shared mid (.eseg k)
  | .fresh, true => .ownD iid k
  | .fresh, false => .ownE iid k

def setIf (c : Bool) (h : Heap) (a : Addr) (o : Obj) : Heap := if c then h.set a o else h

/-- `Store.instantiate`: fresh objects are written; aliased ones are left as the module has them -/
def instantiate (sh : Shape) (h : Heap) (mid : Nat) (md : Module) (iid : Nat) : Heap × Inst :=
  let i := mkInst sh mid iid
  let h := if sh.dataEntries == .fresh then setMany h (fun k => .ownD iid k) .bytes 0 md.dpas else h
  let h := if sh.elemEntries == .fresh then setMany h (fun k => .ownE iid k) .refs 0 md.epas else h
  let h := setIf (sh.mem == .fresh) h i.mem (.mem (initMem md))
  let h := setIf (sh.tbl == .fresh) h i.tbl (.tbl md.tblMax (initTbl md))
  let h := setIf (sh.glob == .fresh) h i.glob (.vals md.globals)
  let h := setIf (sh.dhdr == .fresh) h i.dhdr
    (.hdrs ((List.range md.dpas.length).map (fun k => some (entryAddr sh.dataEntries mid iid true k))))
  let h := setIf (sh.ehdr == .fresh) h i.ehdr
    (.hdrs ((List.range md.epas.length).map (fun k => some (entryAddr sh.elemEntries mid iid false k))))
  let h := setIf (sh.sys == .fresh) h i.sys (.sys (initSys))
  (h, i)

/-! ## interleaved runs -/

/-- run a schedule of (instance id, op) over the instance table `tab` in one heap -/
def hrun (env : Env) (tab : Nat → Option Inst) (h : Heap) : List (Nat × Op) → Heap × List (Nat × Res)
  | [] => (h, [])
  | (i, o) :: rest =>
    match tab i with
    | none => hrun env tab h rest
    | some inst =>
      let r := hstep env h inst o
      let rr := hrun env tab r.1 rest
      (rr.1, (i, r.2) :: rr.2)

def proj (i : Nat) (sched : List (Nat × Op)) : List Op := (sched.filter (fun e => e.1 == i)).map (·.2)
def projRes (i : Nat) (rs : List (Nat × Res)) : List Res := (rs.filter (fun e => e.1 == i)).map (·.2)

/-! ## executable view (used by the oracle and by `example`s) -/

def resolveAll (f : Option Addr → Option (List Nat)) : List (Option Addr) → Option (List (Option (List Nat)))
  | [] => some []
  | none :: es => (resolveAll f es).map (fun r => none :: r)
  | some a :: es =>
    match f (some a), resolveAll f es with
    | some b, some r => some (some b :: r)
    | _, _ => none

def view (h : Heap) (i : Inst) : Option LState :=
  match h.get i.mem, h.get i.tbl, h.get i.glob, h.get i.dhdr, h.get i.ehdr, h.get i.sys, h.get i.code with
  | some (.mem m), some (.tbl mx t), some (.vals g), some (.hdrs dh), some (.hdrs eh), some (.sys sy), some (.code fns) =>
    match resolveAll (segBytes h) dh, resolveAll (segRefs h) eh with
    | some d, some e => some { mem := m, tmax := mx, tbl := t, glob := g, data := d, elem := e, sys := sy, fns := fns }
    | _, _ => none
  | _, _, _, _, _, _, _ => none

/-! ## tie A: the shape from the regenerated facts (`Wz.Gen.C11Sharing.fields`) -/

def kindsOf (fields : List (String × String)) (p : String) : List String := (fields.filter (fun f => f.1 == p)).map (·.2)
/-- fresh allocation, the instance itself, or something the embedder handed in (an explicit link) -/
def privateKind (k : String) : Bool := k == "fresh" || k == "param" || k == "self"
/-- fresh iff every listed part is assigned during instantiation and only ever from private sources -/
def allocOf (fields : List (String × String)) (ps : List String) : Alloc :=
  if ps.all (fun p => !(kindsOf fields p).isEmpty && (kindsOf fields p).all privateKind) then .fresh else .shared

def shapeOf (fields : List (String × String)) : Shape :=
  { mem := allocOf fields ["MemoryInstance", "MemoryInstance.Buffer"],
    tbl := allocOf fields ["Tables", "Tables[]", "Tables[].References"],
    glob := allocOf fields ["Globals", "Globals[]"],
    dhdr := allocOf fields ["DataInstances"],
    ehdr := allocOf fields ["ElementInstances"],
    sys := allocOf fields ["Sys", "Sys.randSource", "Sys.walltime", "Sys.nanotime"],
    dataEntries := allocOf fields ["DataInstances[]"],
    elemEntries := allocOf fields ["ElementInstances[]"] }

/-- parts that may alias the compiled module: no op of either engine writes through them (the model has no
op that writes a segment/code object; the harness hashes the segment bytes) -/
def roClass : List String :=
  ["DataInstances[]", "Exports", "Source", "MemoryInstance.definition", "Tables[].Max",
   "Sys.nanosleep", "Sys.osyield",
   "s"]  -- the runtime's Store (name registry, type ids): changed by instantiate/close only, never by a guest op (C10)

/-- every aliased part is in the read-only class; nothing is unclassified -/
def classified (fields : List (String × String)) : Bool :=
  fields.all (fun f => privateKind f.2 || (f.2 == "shared" && roClass.contains f.1))

end Wz.Model.Isolation
