/-
C01, compiler: callee-saved registers.

The register allocator records every real register it hands out in `state.allocatedRegSet`;
`determineCalleeSavedRealRegs` gives the back end the recorded registers that are callee-saved, and the
prologue/epilogue save and restore exactly those.  A caller may keep a value in a callee-saved register across
the call.  Model: a function body writes arbitrary values to a list of registers.
-/
namespace Wz.Model.CalleeSaved

abbrev Regs := Nat → Nat

/-- the body overwrites the registers in `writes` with whatever it computes (`w`) -/
def runBody (writes : List Nat) (w : Nat → Nat) (rs : Regs) : Regs :=
  fun r => if r ∈ writes then w r else rs r

/-- prologue saves `saved`, the body runs, the epilogue restores `saved` -/
def call (saved writes : List Nat) (w : Nat → Nat) (rs : Regs) : Regs :=
  fun r => if r ∈ saved then rs r else runBody writes w rs r

/-- what `determineCalleeSavedRealRegs` computes -/
def savedSet (recorded calleeSaved : List Nat) : List Nat := recorded.filter (· ∈ calleeSaved)

/-- If every register the body writes is recorded, the caller finds every callee-saved register unchanged -
for any body, any values, any register file. -/
theorem callee_saved_preserved (calleeSaved recorded writes : List Nat) (w : Nat → Nat) (rs : Regs)
    (hrec : ∀ r ∈ writes, r ∈ recorded) :
    ∀ r ∈ calleeSaved, call (savedSet recorded calleeSaved) writes w rs r = rs r := by
  intro r hr
  unfold call
  by_cases hs : r ∈ savedSet recorded calleeSaved
  · simp [hs]
  · simp only [hs, if_false, runBody]
    have hnw : r ∉ writes := by
      intro hw
      apply hs
      simp only [savedSet, List.mem_filter, decide_eq_true_eq]
      exact ⟨hrec r hw, hr⟩
    simp [hnw]

end Wz.Model.CalleeSaved
