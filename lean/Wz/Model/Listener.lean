/-
Model of the function-listener event stream (property C20) as the two engines of wazero produce it.

What is modelled (and where it lives in /repo):

* `internal/engine/interpreter/interpreter.go`
  - `callNativeFuncWithListener` / `callGoFunc`: `Before(params, stackIterator)` is called BEFORE the frame
    is pushed (`pushFrame` is where `callStackCeiling` is tested), `After(results)` after the frame is popped.
  - `recoverOnCall`: on a recovered panic pops `min(len(frames), wasmdebug.MaxFrames)` frames, innermost first,
    and calls `Abort` for those that have a listener; the remaining frames are dropped silently.
  - `operationKindTailCallReturnCall[Indirect]`: the frame of the caller is rewritten in place
    (`resetPc`): the callee gets no `Before`, no frame of its own and no `After`; the caller's `After`
    reports the callee's results.
* `internal/engine/wazevo/call_engine.go`
  - `callWithStack`: listener trampolines `ExitCodeCallListenerBefore/After`, host functions
    `ExitCodeCallGo[Module]FunctionWithListener`; the deferred recover walks ALL return addresses
    (`unwindStack`) and calls `Abort` for every frame that has a listener; `UnwindStack`
    (backend/isa/amd64/stack.go) stops after `wasmdebug.MaxFrames` return addresses, which caps both the
    `Abort` notifications (30) and the stack iterator (29 frames: the last address is dropped as "the trampoline");
  - `ExitCodeGrowStack`: a stack overflow is *returned* (`return err`), not panicked, so the deferred
    function sees `r == nil` and delivers no `Abort` at all.
* a host function that calls back into the guest (`api.Function.Call`) starts a NEW call engine: the
  frames of the outer call are not visible to the inner stack iterator, and the inner call unwinds
  (and caps) on its own.

A program run is a *forest* of call trees in first-child/next-sibling form:
`call f args body out next` = "function `f` is called with `args`; it makes the calls in `body`; then it
returns/fails as `out` says; afterwards the caller goes on with `next`".  A call tree
`node f args children out` is `call f args children out done`.  Calls after a failing sibling are never
executed (the failure unwinds).  For a host function the calls in `body` are API-level calls
(`ExportedFunction(..).Call`), each in its own call engine.

Core Lean only.
-/
namespace Wz.Model.Listener

inductive FailKind
  | unreachable | divZero | oob | hostPanic | exit (code : Nat) | overflow
  deriving DecidableEq, Repr

inductive Outcome
  | ret (vals : List Nat)
  | fail (k : FailKind)
  deriving DecidableEq, Repr

/-- How the call is made: an ordinary call (`call`, `call_indirect`, import, host call-back, API call)
or a tail call (`return_call[_indirect]`, only meaningful as the last call of a wasm function that then
returns the callee's results). -/
inductive Forest
  | done
  | call (tail : Bool) (f : Nat) (args : List Nat) (body : Forest) (out : Outcome) (next : Forest)
  deriving Repr

/-- A single call tree. -/
abbrev Forest.node (f : Nat) (args : List Nat) (children : Forest) (out : Outcome) : Forest :=
  .call false f args children out .done

inductive Event
  | before (f : Nat) (args : List Nat) (stack : List Nat)
  | after (f : Nat) (vals : List Nat)
  | abort (f : Nat) (k : FailKind)
  deriving DecidableEq, Repr

/-- the function an event is about -/
def Event.fn : Event → Nat
  | .before f _ _ => f
  | .after f _ => f
  | .abort f _ => f

/-- The engine-specific behaviour, including the finding switches (DESIGN §8). -/
structure Engine where
  /-- `some n`: only the innermost `n` frames are popped and notified in `recoverOnCall` (F22). -/
  abortCap : Option Nat
  /-- `false`: a stack overflow is returned from `growStack`, not panicked: no `Abort` at all (F21). -/
  overflowPanics : Bool
  /-- `true`: `Before` of the callee is delivered before the call-stack ceiling is tested, so the
  call that overflows has a `Before` but never a frame (interpreter). -/
  beforeAtOverflow : Bool
  /-- `true`: a tail call replaces the caller's frame in place and the callee's listener is never
  invoked (interpreter, same-module tail calls); `false`: a tail call is an ordinary call followed by
  a return as far as listeners can see. -/
  tailInPlace : Bool
  /-- `true`: a tail call is a jump to the callee (wazevo, whenever no stack arguments are involved, also
  for imported and host callees): the caller's frame is replaced by the callee's, the callee gets
  `Before`/`After` as usual, but the caller's `After` (emitted after the call instruction) is dead code:
  the caller is never closed. -/
  tailJump : Bool
  /-- `some n`: the stack iterator handed to `Before` lists only the innermost `n` frames
  (wazevo: `UnwindStack` stops after `wasmdebug.MaxFrames` return addresses and the last one is dropped
  as "the trampoline"). -/
  stackCap : Option Nat
  deriving Repr

def interpAsIs : Engine :=
  { abortCap := some 30, overflowPanics := true, beforeAtOverflow := true, tailInPlace := true, tailJump := false, stackCap := none }
def wazevoAsIs : Engine :=
  { abortCap := some 30, overflowPanics := false, beforeAtOverflow := false, tailInPlace := false, tailJump := true, stackCap := some 29 }
/-- Both engines after the repairs: every unwound frame is notified, overflow included. -/
def repaired : Engine :=
  { abortCap := none, overflowPanics := true, beforeAtOverflow := false, tailInPlace := false, tailJump := false, stackCap := none }

/-- The snapshot the stack iterator yields for the call chain `st` (innermost first). -/
def snapshot (E : Engine) (st : List Nat) : List Nat :=
  match E.stackCap with
  | some c => st.take c
  | none => st

structure Cfg where
  /-- is function id `f` a host (Go) function? -/
  host : Nat → Bool
  /-- does function id `f` have a listener (the factory returned non-nil)? -/
  lsn : Nat → Bool

/-- A failure on its way up to the root of the current call engine. -/
structure Fail where
  kind : FailKind
  /-- did it reach the engine's `recover` as a Go panic (true) or as a returned error (false)? -/
  panicked : Bool
  /-- the frames on the engine's call stack at the point of failure, innermost first -/
  frames : List Nat
  deriving DecidableEq, Repr

/-- The `Abort` notifications of one unwinding (`recoverOnCall` / the deferred function of `callWithStack`). -/
def aborts (E : Engine) (C : Cfg) (fl : Fail) : List Event :=
  if fl.panicked then
    let fr := match E.abortCap with
      | some c => fl.frames.take c
      | none => fl.frames
    (fr.filter C.lsn).map (fun f => Event.abort f fl.kind)
  else []

/-- Does the forest end with a tail call? (then a `tailJump` engine never comes back to the caller) -/
def endsWithTail : Forest → Bool
  | .done => false
  | .call tail _ _ _ _ .done => tail
  | .call _ _ _ _ _ next => endsWithTail next

/-- Is this call made in place (no events, no frame for the callee)? -/
def inPlace (E : Engine) (C : Cfg) (api tail : Bool) (f : Nat) : Bool :=
  E.tailInPlace && tail && !api && !C.host f

/-- `run E C api st fr`: the events of the calls in `fr` made one after the other
* `api = true`: as API-level calls (each in a fresh call engine; `st` is ignored), stopping at the first
  failure, whose unwinding (`aborts`) is included;
* `api = false`: from inside a function whose call chain (innermost first) is `st`; a failure is
  returned to the caller together with the frames then on the stack. -/
def run (E : Engine) (C : Cfg) : Bool → List Nat → Forest → List Event × Option Fail
  | _, _, .done => ([], none)
  | api, st0, .call tail f args body out next =>
    let st := if api then [] else st0
    let node : List Event × Option Fail :=
      if inPlace E C api tail f then
        -- the caller's frame now runs `f`: no Before/After for `f`, the chain is unchanged except
        -- that its innermost entry is `f`
        let stT := f :: st.tail
        let (evs, r) := run E C false stT body
        match r with
        | some fl => (evs, some fl)
        | none =>
          match out with
          | .ret _ => (evs, none)
          | .fail k => (evs, some ⟨k, true, stT⟩)
      else
      let st' := f :: (if E.tailJump && tail && !api then st.tail else st)
      let b := if C.lsn f then [Event.before f args (snapshot E st')] else []
      if out = .fail .overflow then
        ((if E.beforeAtOverflow then b else []), some ⟨.overflow, E.overflowPanics, st⟩)
      else
        let (evs, r) := run E C (C.host f) st' body
        match r with
        | some fl => (b ++ evs, some (if C.host f then ⟨fl.kind, true, st'⟩ else fl))
        | none =>
          match out with
          | .ret vals =>
            (b ++ evs ++ (if C.lsn f && !(E.tailJump && !C.host f && endsWithTail body) then [Event.after f vals] else []), none)
          | .fail k => (b ++ evs, some ⟨k, true, st'⟩)
    match node with
    | (evs, some fl) =>
      if api then (evs ++ aborts E C fl, some ⟨fl.kind, fl.panicked, []⟩) else (evs, some fl)
    | (evs, none) =>
      let (evs2, r2) := run E C api st next
      (evs ++ evs2, r2)

/-- The event stream of a sequence of API-level calls. -/
def events (E : Engine) (C : Cfg) (fr : Forest) : List Event := (run E C true [] fr).1

/-- The observable result of a sequence of API-level calls: which failure (if any) ended it. -/
def result (E : Engine) (C : Cfg) (fr : Forest) : Option FailKind := ((run E C true [] fr).2).map (·.kind)

/-! ### The bracket checker (the property's predicate on an event stream) -/

/-- Runs the stream against a stack of open calls; `none` = a close event that does not match the
innermost open call. -/
def checkB : List Nat → List Event → Option (List Nat)
  | o, [] => some o
  | o, .before f _ _ :: es => checkB (f :: o) es
  | o, .after f _ :: es =>
    match o with
    | g :: o' => if g = f then checkB o' es else none
    | [] => none
  | o, .abort f _ :: es =>
    match o with
    | g :: o' => if g = f then checkB o' es else none
    | [] => none

/-- Every `before` is closed by exactly one `after`/`abort`, properly nested, nothing left open. -/
def WellBracketed (evs : List Event) : Prop := checkB [] evs = some []

instance (evs : List Event) : Decidable (WellBracketed evs) := by unfold WellBracketed; infer_instance

/-! ### Syntactic measures used as hypotheses -/

/-- no call of the forest ends in a stack overflow -/
def noOverflow : Forest → Bool
  | .done => true
  | .call _ _ _ body out next => (out != .fail .overflow) && noOverflow body && noOverflow next

/-- no tail calls -/
def noTail : Forest → Bool
  | .done => true
  | .call tail _ _ body _ next => !tail && noTail body && noTail next

/-- every call chain inside one call engine has at most `c` frames (`d` = frames already there) -/
def fits (C : Cfg) (c : Nat) : Nat → Forest → Bool
  | _, .done => true
  | d, .call _ f _ body _ next =>
    decide (d + 1 ≤ c) && fits C c (if C.host f then 0 else d + 1) body && fits C c d next

/-- a linear chain of `n` nested calls alternating `f0`, `f1`, with `leaf` as the innermost call -/
def chain (f0 f1 : Nat) : Nat → Forest → Forest
  | 0, leaf => leaf
  | n + 1, leaf => .call false f0 [n + 1] (chain f1 f0 n leaf) (.ret [n + 1]) .done

end Wz.Model.Listener
