/-
C19 — executable model of wazero's configuration values (core Lean only, no Mathlib).

A configuration (`*runtimeConfig`, `*moduleConfig`, `*fsConfig`, `*sock.Config`) is a Go struct that is
copied by value (`ret := *c`) and whose slice- and map-typed fields are *references* into a heap:
slices are `(ptr,len,cap)` headers over backing arrays, `append` writes in place iff `len+k ≤ cap`,
maps are pointers.  Every `With…` method is the list of primitive effects its source performs; that
list is NOT written here: it is regenerated from /repo on every run by
`translate/facts/c19_effects` into `Wz/Gen/ConfigEffects.lean` (tie A).  This file gives the effect
language, its semantics over the heap, and the syntactic classifier `methodSafe`.
-/
namespace Wz.Model.Config

abbrev Val := String

/-! ## The effect language (what the fact extractor emits) -/

inductive FieldKind | scalar | slice | map
  deriving DecidableEq, Repr, Inhabited

structure StructShape where
  name : String
  fields : List (String × FieldKind)
  deriving Repr

/-- How the method obtains the value it modifies and returns. -/
inductive Clone
  | self                          -- works on / returns the receiver itself (no copy)
  | shallow                       -- `ret := *c`: struct copy, every slice/map field shared
  | deep (fields : List String)   -- `c.clone()`: struct copy + these slice/map fields re-allocated and copied
  deriving DecidableEq, Repr, Inhabited

/-- scalar right-hand sides / slice elements -/
inductive SExpr
  | param (p : String)            -- the parameter (or `[]byte(p)`, a conversion that copies)
  | notParam (p : String)         -- `!p`
  | lit (s : String)              -- a literal
  | tuple (ps : List String)      -- composite literal of parameters, e.g. `TCPAddress{host, port}`
  deriving DecidableEq, Repr, Inhabited

/-- index expressions: `ret.m[key] + plus` (the `i` of `if i, ok := ret.m[key]; ok`) -/
structure Ix where
  m : String
  key : String
  plus : Nat
  deriving DecidableEq, Repr, Inhabited

inductive Eff
  | assignScalar (f : String) (e : SExpr)          -- ret.f = e                  (f not a slice/map)
  | assignArgSlice (f : String) (p : String)       -- ret.f = p                  (p a slice parameter: shares the caller's array)
  | assignFreshSlice (f : String) (p : String)     -- ret.f = freshlyBuilt(p)    (e.g. toByteSlices(args))
  | indexWrite (f : String) (ix : Ix) (e : SExpr)  -- ret.f[ix] = e
  | append (f : String) (es : List SExpr)          -- ret.f = append(ret.f, es...)
  | mapWrite (m : String) (key : String) (lenOf : String)  -- ret.m[key] = len(ret.lenOf)
  deriving DecidableEq, Repr, Inhabited

inductive Atom
  | keyIn (m : String) (key : String)      -- `_, ok := ret.m[key]; ok`
  | keyNotIn (m : String) (key : String)
  | isNil (p : String)                     -- p == nil
  | notNil (p : String)
  | flag (name : String)                   -- an opaque condition on the arguments/context, supplied as `name=true`
  | notFlag (name : String)
  deriving DecidableEq, Repr, Inhabited

structure Path where
  guard : List Atom
  clone : Clone
  effs : List Eff
  deriving DecidableEq, Repr, Inhabited

structure Method where
  recv : String                 -- struct name
  name : String
  delegate : Option String      -- `return c.Other(…)`: the method is exactly Other on the same receiver
  paths : List Path
  deriving Repr, Inhabited

/-! ## Heap, configurations, state -/

inductive Obj
  | arr (cells : List Val)            -- a backing array; its length is the capacity
  | map (kv : List (String × Nat))
  deriving DecidableEq, Repr, Inhabited

/-- A slice header, or (len = cap = 0) a map pointer. -/
structure Ref where
  ptr : Nat
  len : Nat
  cap : Nat
  deriving DecidableEq, Repr, Inhabited

structure Cfg where
  kind : String
  scalars : List (String × Val)
  refs : List (String × Ref)
  deriving DecidableEq, Repr, Inhabited

structure State where
  objs : List Obj := []
  nodes : List Cfg := []
  deriving DecidableEq, Repr, Inhabited

inductive ArgV
  | one (v : Val)
  | many (vs : List Val)
  deriving DecidableEq, Repr, Inhabited

/-- Arguments of one call.  `hints` gives, per slice field, the capacity a re-allocating append should
choose (Go leaves the growth policy to the runtime; the theorems hold for every hint). -/
structure Args where
  vals : List (String × ArgV) := []
  hints : List (String × Nat) := []
  deriving Repr, Inhabited

def Args.one (a : Args) (p : String) : Option Val :=
  match a.vals.lookup p with
  | some (.one v) => some v
  | _ => none

def Args.many (a : Args) (p : String) : Option (List Val) :=
  match a.vals.lookup p with
  | some (.many vs) => some vs
  | _ => none

def Cfg.getRef (c : Cfg) (f : String) : Option Ref := c.refs.lookup f

def setAssoc {β} (l : List (String × β)) (f : String) (v : β) : List (String × β) :=
  l.map (fun p => if p.1 == f then (p.1, v) else p)

def Cfg.setRef (c : Cfg) (f : String) (r : Ref) : Cfg := { c with refs := setAssoc c.refs f r }
def Cfg.setScalar (c : Cfg) (f : String) (v : Val) : Cfg := { c with scalars := setAssoc c.scalars f v }

def evalS (a : Args) : SExpr → Option Val
  | .param p => a.one p
  | .notParam p =>
    match a.one p with
    | some "true" => some "false"
    | some "false" => some "true"
    | _ => none
  | .lit s => some s
  | .tuple ps => (ps.mapM a.one).map (fun vs => ":".intercalate vs)

def mapGet (kv : List (String × Nat)) (k : String) : Option Nat := kv.lookup k
def mapPut (kv : List (String × Nat)) (k : String) (v : Nat) : List (String × Nat) :=
  if (kv.lookup k).isSome then setAssoc kv k v else kv ++ [(k, v)]

/-- the map object a field points to -/
def mapOf (objs : List Obj) (c : Cfg) (m : String) : Option (List (String × Nat)) :=
  match c.getRef m with
  | none => none
  | some r =>
    match objs[r.ptr]? with
    | some (.map kv) => some kv
    | _ => none

def evalAtom (objs : List Obj) (c : Cfg) (a : Args) : Atom → Option Bool
  | .keyIn m k => do let kv ← mapOf objs c m; let key ← a.one k; pure (mapGet kv key).isSome
  | .keyNotIn m k => do let kv ← mapOf objs c m; let key ← a.one k; pure (mapGet kv key).isNone
  | .isNil p => (a.one p).map (· == "nil")
  | .notNil p => (a.one p).map (· != "nil")
  | .flag n => (a.one n).map (· == "true")
  | .notFlag n => (a.one n).map (· != "true")

def evalGuard (objs : List Obj) (c : Cfg) (a : Args) : List Atom → Option Bool
  | [] => some true
  | x :: xs => do
    let b ← evalAtom objs c a x
    let r ← evalGuard objs c a xs
    pure (b && r)

/-- Working state while a method body runs: the heap and the value being built. -/
structure Work where
  objs : List Obj
  cfg : Cfg
  deriving Repr

def padTo (l : List Val) (n : Nat) : List Val := l ++ List.replicate (n - l.length) ""

/-- allocate a backing array holding `vs` with capacity `cap ≥ vs.length` -/
def allocArr (objs : List Obj) (vs : List Val) (cap : Nat) : List Obj × Ref :=
  (objs ++ [.arr (padTo vs cap)], ⟨objs.length, vs.length, max cap vs.length⟩)

def execEff (a : Args) (w : Work) : Eff → Option Work
  | .assignScalar f e => do
    let v ← evalS a e
    pure { w with cfg := w.cfg.setScalar f v }
  | .assignArgSlice f p => do
    let vs ← a.many p
    let _ ← w.cfg.getRef f
    let (objs, r) := allocArr w.objs vs vs.length
    pure { w with objs := objs, cfg := w.cfg.setRef f r }
  | .assignFreshSlice f p => do
    let vs ← a.many p
    let _ ← w.cfg.getRef f
    let (objs, r) := allocArr w.objs vs vs.length
    pure { w with objs := objs, cfg := w.cfg.setRef f r }
  | .indexWrite f ix e => do
    let r ← w.cfg.getRef f
    let kv ← mapOf w.objs w.cfg ix.m
    let key ← a.one ix.key
    let i0 ← mapGet kv key
    let i := i0 + ix.plus
    let v ← evalS a e
    if i < r.len then
      match w.objs[r.ptr]? with
      | some (.arr cells) => pure { w with objs := w.objs.set r.ptr (.arr (cells.set i v)) }
      | _ => none
    else none  -- Go: index out of range panic
  | .append f es => do
    let r ← w.cfg.getRef f
    let vs ← es.mapM (evalS a)
    let hint := (a.hints.lookup f).getD 0
    match w.objs[r.ptr]? with
    | some (.arr cells) =>
      if r.len + vs.length ≤ r.cap then
        -- in place: the cells behind `len` are overwritten, the array is shared with every other header on it
        let cells' := cells.take r.len ++ vs ++ cells.drop (r.len + vs.length)
        pure { objs := w.objs.set r.ptr (.arr cells'), cfg := w.cfg.setRef f { r with len := r.len + vs.length } }
      else
        let (objs, r') := allocArr w.objs (cells.take r.len ++ vs) (max hint (r.len + vs.length))
        pure { objs := objs, cfg := w.cfg.setRef f r' }
    | _ => none
  | .mapWrite m k lenOf => do
    let r ← w.cfg.getRef m
    let rl ← w.cfg.getRef lenOf
    let key ← a.one k
    match w.objs[r.ptr]? with
    | some (.map kv) => pure { w with objs := w.objs.set r.ptr (.map (mapPut kv key rl.len)) }
    | _ => none

def execEffs (a : Args) : Work → List Eff → Option Work
  | w, [] => some w
  | w, e :: es => (execEff a w e).bind (fun w' => execEffs a w' es)

/-- `c.clone()` for one deep-copied field: allocate a copy of the visible part (cap = len). -/
def cloneField (w : Work) (f : String) : Option Work := do
  let r ← w.cfg.getRef f
  match w.objs[r.ptr]? with
  | some (.arr cells) =>
    let (objs, r') := allocArr w.objs (cells.take r.len) r.len
    pure { w with objs := objs, cfg := w.cfg.setRef f r' }
  | some (.map kv) =>
    pure { w with objs := w.objs ++ [.map kv], cfg := w.cfg.setRef f ⟨w.objs.length, 0, 0⟩ }
  | none => none

def cloneFields : Work → List String → Option Work
  | w, [] => some w
  | w, f :: fs => (cloneField w f).bind (fun w' => cloneFields w' fs)

def deepFields : Clone → List String
  | .deep fs => fs
  | _ => []

/-- Run one path of a method on receiver node `recv`.  Result: new state and the id of the returned node. -/
def execPath (st : State) (recv : Nat) (p : Path) (a : Args) : Option (State × Nat) := do
  let c ← st.nodes[recv]?
  let w0 : Work := { objs := st.objs, cfg := c }
  let w1 ← cloneFields w0 (deepFields p.clone)
  let w2 ← execEffs a w1 p.effs
  match p.clone with
  | .self => pure ({ objs := w2.objs, nodes := st.nodes.set recv w2.cfg }, recv)
  | _ => pure ({ objs := w2.objs, nodes := st.nodes ++ [w2.cfg] }, st.nodes.length)

def findMethod (tbl : List Method) (recv name : String) : Option Method :=
  tbl.find? (fun m => m.recv == recv && m.name == name)

/-- the paths a method executes; a delegating method runs its (non-delegating) target -/
def resolve (tbl : List Method) (m : Method) : Option (List Path) :=
  match m.delegate with
  | none => some m.paths
  | some t =>
    match findMethod tbl m.recv t with
    | some m' => if m'.delegate.isNone then some m'.paths else none
    | none => none

def selectPath (objs : List Obj) (c : Cfg) (a : Args) : List Path → Option Path
  | [] => none
  | p :: ps =>
    match evalGuard objs c a p.guard with
    | some true => some p
    | some false => selectPath objs c a ps
    | none => none

def call (tbl : List Method) (st : State) (recv : Nat) (name : String) (a : Args) : Option (State × Nat) := do
  let c ← st.nodes[recv]?
  let m ← findMethod tbl c.kind name
  let ps ← resolve tbl m
  let p ← selectPath st.objs c a ps
  execPath st recv p a

/-! ## Constructors (`New…Config`): a fresh node whose slices/maps are freshly allocated -/

inductive Init
  | scalar (v : Val)
  | slice (vs : List Val) (cap : Nat)
  | map (kv : List (String × Nat))
  deriving Repr, Inhabited

def newFields : Work → List (String × Init) → Work
  | w, [] => w
  | w, (f, .scalar v) :: rest => newFields { w with cfg := { w.cfg with scalars := w.cfg.scalars ++ [(f, v)] } } rest
  | w, (f, .slice vs cap) :: rest =>
    let (objs, r) := allocArr w.objs vs cap
    newFields { w with objs := objs, cfg := { w.cfg with refs := w.cfg.refs ++ [(f, r)] } } rest
  | w, (f, .map kv) :: rest =>
    newFields { w with objs := w.objs ++ [.map kv], cfg := { w.cfg with refs := w.cfg.refs ++ [(f, ⟨w.objs.length, 0, 0⟩)] } } rest

def newNode (st : State) (kind : String) (fields : List (String × Init)) : State × Nat :=
  let w := newFields { objs := st.objs, cfg := { kind := kind, scalars := [], refs := [] } } fields
  ({ objs := w.objs, nodes := st.nodes ++ [w.cfg] }, st.nodes.length)

/-! ## Histories -/

inductive Step
  | new (kind : String) (fields : List (String × Init))
  | call (recv : Nat) (name : String) (a : Args)
  deriving Repr, Inhabited

def step (tbl : List Method) (st : State) : Step → Option State
  | .new k fs => some (newNode st k fs).1
  | .call r n a => (call tbl st r n a).map (·.1)

def run (tbl : List Method) : State → List Step → Option State
  | st, [] => some st
  | st, s :: ss => (step tbl st s).bind (fun st' => run tbl st' ss)

/-! ## Observation: what any later use of a configuration can see -/

inductive View
  | arr (vs : List Val)
  | map (kv : List (String × Nat))
  | dangling
  deriving DecidableEq, Repr, Inhabited

def view (objs : List Obj) (r : Ref) : View :=
  match objs[r.ptr]? with
  | some (.arr cells) => .arr (cells.take r.len)
  | some (.map kv) => .map kv
  | none => .dangling

structure Obs where
  kind : String
  scalars : List (String × Val)
  refs : List (String × View)
  deriving DecidableEq, Repr, Inhabited

def obsCfg (objs : List Obj) (c : Cfg) : Obs :=
  { kind := c.kind, scalars := c.scalars, refs := c.refs.map (fun p => (p.1, view objs p.2)) }

def obs (st : State) (i : Nat) : Option Obs := (st.nodes[i]?).map (obsCfg st.objs)

/-! ## The classifier -/

/-- One effect is safe w.r.t. the set `fresh` of fields known to point to objects allocated by this very
call; returns the updated set. -/
def effSafe (fresh : List String) : Eff → Bool × List String
  | .assignScalar _ _ => (true, fresh)
  | .assignArgSlice f _ => (true, fresh.filter (· != f))
  | .assignFreshSlice f _ => (true, f :: fresh)
  | .indexWrite f _ _ => (fresh.contains f, fresh)
  | .append f _ => (fresh.contains f, fresh)
  | .mapWrite m _ _ => (fresh.contains m, fresh)

def effsSafe : List String → List Eff → Bool
  | _, [] => true
  | fresh, e :: es => (effSafe fresh e).1 && effsSafe (effSafe fresh e).2 es

def pathSafe (p : Path) : Bool :=
  match p.clone with
  | .self => p.effs.isEmpty
  | .shallow => effsSafe [] p.effs
  | .deep fs => effsSafe fs p.effs

def methodSafe (tbl : List Method) (m : Method) : Bool :=
  match resolve tbl m with
  | some ps => ps.all pathSafe
  | none => false

def allSafe (tbl : List Method) : Bool := tbl.all (methodSafe tbl)

end Wz.Model.Config
