/-
C18 — model of the *default* system context of a wazero module and of the WASI functions that read it.

What is modelled (anchors in /repo):
* `wazero.NewModuleConfig` + `moduleConfig.toSysContext` + `internal/sys.NewContext` + `InitFSContext` +
  `stdinFileEntry`/`stdioWriterFileEntry`: which facility is installed for every field when the
  embedder supplies nothing.  The decision is *computed from the regenerated tables* of
  `Wz.Gen.SysDefaults` (tie A): a default that does not name one of the known fake constructors is
  interpreted as the corresponding REAL host facility (`Src.host`).
* The real host is a parameter record `Host` (arguments, environment, working directory, clocks,
  entropy, standard input).  `facilities h src` is the only place where it is read, and only under
  `Src.host`.  That the default context never reads it is therefore a theorem, not a convention.
* The fake clocks (start/step regenerated), the seeded random stream (an opaque parameter
  `rnd : Nat → Nat`; `math/rand` is not modelled), EOF stdin, discarding stdout/stderr, the three-entry
  file table, and all 46 functions of `wasi_snapshot_preview1` for *valid small arguments* (pointers in
  bounds, relative clean paths, descriptors < 2^31): errno, the bytes written to guest memory, and the
  effect on the context state.  Out-of-bounds pointers (EFAULT) belong to C15 and are not modelled.
* Behaviour under non-default sources (`Src.host`) is modelled only far enough to make the host
  dependence observable (so that the theorems are not vacuous); it is not validated against the code.
-/
import Wz.Gen.SysDefaults

namespace Wz.Model.SysDefault
open Wz.Gen.SysDefaults

/-- Everything of the real host that a leaking default could expose. -/
structure Host where
  args : List (List Nat)        -- os.Args
  env : List (List Nat)         -- os.Environ as "k=v"
  cwd : List Nat                -- name of the directory a default preopen would expose
  wall : Nat → Nat              -- k-th reading of the real wall clock (ns since the epoch)
  mono : Nat → Nat              -- k-th reading of the real monotonic clock
  entropy : Nat → Nat           -- crypto/rand
  stdin : List Nat              -- bytes waiting on os.Stdin

/-- Where a facility comes from. -/
inductive Src | fake | host
  deriving DecidableEq, Repr

/-- The resolved sources of a context (one per `Context` field / file-table entry class). -/
structure Sources where
  args : Src
  environ : Src
  stdin : Src
  stdout : Src
  stderr : Src
  rand : Src
  wall : Src
  wallRes : Src
  mono : Src
  monoRes : Src
  sleep : Src
  yield : Src
  preopens : Src
  listeners : Src
  deriving DecidableEq, Repr

def allFake : Sources :=
  ⟨.fake, .fake, .fake, .fake, .fake, .fake, .fake, .fake, .fake, .fake, .fake, .fake, .fake, .fake⟩

def lookup (t : List (String × String)) (k : String) : Option String :=
  (t.find? (·.1 == k)).map (·.2)

/-- A `NewContext` field is fake iff the regenerated nil branch installs exactly the named fake. -/
def ctxDefault (field fakeCtor : String) : Src :=
  if lookup newContextDefaults field == some fakeCtor then .fake else .host

/-- A `moduleConfig` field reaches `NewContext` as nil iff `NewModuleConfig` does not set it and
`toSysContext` passes exactly that field for the parameter. -/
def cfgNil (cfgField param : String) : Bool :=
  (lookup newModuleConfigSets cfgField).isNone && lookup toSysContextArgs param == some ("c." ++ cfgField)

/-- A local of `toSysContext` stays nil by default: declared with `var`, and every later assignment is
one of the known ones guarded by a config field that `NewModuleConfig` leaves nil. -/
def localNil (name : String) (allowed : List String) (guardField : String) : Bool :=
  let defs := (toSysContextLocals.filter (·.1 == name)).map (·.2)
  defs.head? == some "var zero" && (defs.drop 1).all (allowed.contains ·) &&
    (lookup newModuleConfigSets guardField).isNone

def boolSrc (b : Bool) : Src := if b then .fake else .host

/-- The sources of a module instantiated with `wazero.NewModuleConfig()`, computed from the
regenerated tables. -/
def defaultSources : Sources where
  args := boolSrc (cfgNil "args" "args" && lookup newContextDirect "args" == some "args")
  environ := boolSrc (localNil "environ" ["append(environ, result)"] "environ" &&
    lookup toSysContextArgs "environ" == some "environ" && lookup newContextDirect "environ" == some "environ")
  stdin := boolSrc (cfgNil "stdin" "stdin" && stdinFileEntry_nil == "&noopStdinFile" &&
    noopStdinFile_Read_body == ["return 0, 0"] && noopStdinFile_methods == ["Poll", "Read"] &&
    noopStdinFile_fields == ["noopStdioFile"] &&
    noopStdinFile_Poll_body == ["if flag != fsapi.POLLIN { return false, experimentalsys.ENOTSUP }", "return true, 0"])
  stdout := boolSrc (cfgNil "stdout" "stdout" && stdioWriterFileEntry_nil == "&noopStdoutFile" &&
    noopStdoutFile_Write_body == ["return len(buf), 0"] && noopStdoutFile_methods == ["Write"] &&
    noopStdoutFile_fields == ["noopStdioFile"])
  stderr := boolSrc (cfgNil "stderr" "stderr" && stdioWriterFileEntry_nil == "&noopStdoutFile" &&
    noopStdoutFile_Write_body == ["return len(buf), 0"] && noopStdoutFile_methods == ["Write"] &&
    noopStdoutFile_fields == ["noopStdioFile"])
  rand := boolSrc (cfgNil "randSource" "randSource" &&
    ctxDefault "randSource" "platform.NewFakeRandSource" == .fake &&
    NewFakeRandSource_body == "return rand.New(rand.NewSource(seed))")
  wall := boolSrc (cfgNil "walltime" "walltime" && ctxDefault "walltime" "platform.NewFakeWalltime" == .fake &&
    NewFakeWalltime_body == ["wt := atomic.AddInt64(&t, ms)", "wt / 1e9", "int32(wt % 1e9)"])
  wallRes := ctxDefault "walltimeResolution" "sys.ClockResolution(time.Microsecond.Nanoseconds())"
  mono := boolSrc (cfgNil "nanotime" "nanotime" && ctxDefault "nanotime" "platform.NewFakeNanotime" == .fake &&
    NewFakeNanotime_body == ["atomic.AddInt64(&t, ms)"])
  monoRes := ctxDefault "nanotimeResolution" "sys.ClockResolution(time.Nanosecond)"
  sleep := boolSrc (cfgNil "nanosleep" "nanosleep" && ctxDefault "nanosleep" "platform.FakeNanosleep" == .fake)
  yield := boolSrc (cfgNil "osyield" "osyield" && ctxDefault "osyield" "platform.FakeOsyield" == .fake)
  preopens := boolSrc (localNil "fs" ["f.preopens()"] "fsConfig" && localNil "guestPaths" ["f.preopens()"] "fsConfig" &&
    lookup toSysContextArgs "fs" == some "fs" && lookup toSysContextArgs "guestPaths" == some "guestPaths" &&
    initFSContextArgs == ["stdin", "stdout", "stderr", "fs", "guestPaths", "tcpListeners"] &&
    initFSContextInserts == ["inFile", "outWriter", "errWriter", "range fs: &FileEntry", "range tcpListeners: &FileEntry"])
  listeners := boolSrc (localNil "listeners" ["n.BuildTCPListeners()"] "sockConfig" &&
    lookup toSysContextArgs "tcpListeners" == some "listeners")

/-! ## Fake facilities -/

/-- k-th reading (k = 0, 1, …) of a counter started at `start` and advanced by `step` *before* each
reading (`atomic.AddInt64(&t, step)` returns the new value). -/
def counterReading (start step : Int) (k : Nat) : Int := start + ((k : Int) + 1) * step

/-- `NewFakeWalltime`'s closure: (sec, nsec) = (wt / 1e9, wt % 1e9) with Go's truncated division. -/
def fakeWalltimeSecNsec (k : Nat) : Int × Int :=
  let wt := counterReading NewFakeWalltime_start NewFakeWalltime_step k
  (Int.tdiv wt 1000000000, Int.tmod wt 1000000000)

/-- `Context.WalltimeNanos`: sec * 1e9 + nsec, as the uint64 the guest sees. -/
def fakeWallNanos (k : Nat) : Nat :=
  let (s, n) := fakeWalltimeSecNsec k
  ((s * 1000000000 + n) % (2 ^ 64 : Int)).toNat

def fakeMonoNanos (k : Nat) : Nat :=
  ((counterReading NewFakeNanotime_start NewFakeNanotime_step k) % (2 ^ 64 : Int)).toNat

/-- What the WASI functions read. The only definition that looks at the host. -/
structure Facilities where
  args : List (List Nat)
  env : List (List Nat)
  wall : Nat → Nat
  wallRes : Nat
  mono : Nat → Nat
  monoRes : Nat
  rand : Nat → Nat
  stdin : List Nat
  outToHost : Bool      -- bytes written to fd 1 reach the host
  errToHost : Bool
  realSleep : Bool
  realYield : Bool
  preopens : List (List Nat)   -- names of pre-opened host directories (fd 3, 4, …)

def facilities (rnd : Nat → Nat) (h : Host) (s : Sources) : Facilities where
  args := match s.args with | .fake => [] | .host => h.args
  env := match s.environ with | .fake => [] | .host => h.env
  wall := match s.wall with | .fake => fakeWallNanos | .host => h.wall
  wallRes := match s.wallRes with | .fake => 1000 | .host => 1
  mono := match s.mono with | .fake => fakeMonoNanos | .host => h.mono
  monoRes := match s.monoRes with | .fake => 1 | .host => 1
  rand := match s.rand with | .fake => rnd | .host => h.entropy
  stdin := match s.stdin with | .fake => [] | .host => h.stdin
  outToHost := match s.stdout with | .fake => false | .host => true
  errToHost := match s.stderr with | .fake => false | .host => true
  realSleep := match s.sleep with | .fake => false | .host => true
  realYield := match s.yield with | .fake => false | .host => true
  preopens := match s.preopens with | .fake => [] | .host => [h.cwd]

/-- The facilities of the all-fake context: no host in sight. -/
def fakeFacilities (rnd : Nat → Nat) : Facilities where
  args := []
  env := []
  wall := fakeWallNanos
  wallRes := 1000
  mono := fakeMonoNanos
  monoRes := 1
  rand := rnd
  stdin := []
  outToHost := false
  errToHost := false
  realSleep := false
  realYield := false
  preopens := []

/-! ## Context state and the WASI functions -/

inductive FdKind | stdin | stdout | stderr | dir (name : List Nat)
  deriving DecidableEq, Repr

structure St where
  wallK : Nat := 0            -- readings taken from the wall clock
  monoK : Nat := 0
  randPos : Nat := 0          -- bytes consumed from the random stream
  stdinPos : Nat := 0
  fds : List (Nat × FdKind)   -- open descriptors
  hostOut : Nat := 0          -- bytes delivered to the host's stdout/stderr
  slept : Nat := 0            -- nanoseconds really slept
  sleepAsked : Nat := 0       -- nanoseconds handed to the context's Nanosleep (real or not)
  yields : Nat := 0           -- real scheduler yields
  deriving Repr

def initFds (F : Facilities) : List (Nat × FdKind) :=
  [(0, .stdin), (1, .stdout), (2, .stderr)] ++
    (List.range F.preopens.length).zipWith (fun i n => (3 + i, FdKind.dir n)) F.preopens

def initSt (F : Facilities) : St := { fds := initFds F }

inductive Fn
  | args_get | args_sizes_get | environ_get | environ_sizes_get | clock_res_get | clock_time_get
  | fd_advise | fd_allocate | fd_close | fd_datasync | fd_fdstat_get | fd_fdstat_set_flags
  | fd_fdstat_set_rights | fd_filestat_get | fd_filestat_set_size | fd_filestat_set_times | fd_pread
  | fd_prestat_get | fd_prestat_dir_name | fd_pwrite | fd_read | fd_readdir | fd_renumber | fd_seek
  | fd_sync | fd_tell | fd_write | path_create_directory | path_filestat_get | path_filestat_set_times
  | path_link | path_open | path_readlink | path_remove_directory | path_rename | path_symlink
  | path_unlink_file | poll_oneoff | proc_exit | proc_raise | random_get | sched_yield | sock_accept
  | sock_recv | sock_send | sock_shutdown
  deriving DecidableEq, Repr

/-- One guest call: the function and its abstract arguments (see `step` for each shape). -/
structure Call where
  fn : Fn
  a : List Nat
  deriving DecidableEq, Repr

/-- Result observed by the guest: errno, bytes written to its memory (address, bytes) in order, and
`exit = some code` when the call terminated the module, `trap` when the call ended the run with a
host panic recovered by the engine. `bad` marks an ill-shaped argument list. -/
structure Res where
  errno : Nat := 0
  writes : List (Nat × List Nat) := []
  exit : Option Nat := none
  trap : Bool := false       -- the host function panicked; the engine turns it into a trap
  bad : Bool := false
  deriving DecidableEq, Repr

def le (n v : Nat) : List Nat := (List.range n).map (fun i => (v / 256 ^ i) % 256)

def err (e : Nat) : Res := { errno := e }
def ok (w : List (Nat × List Nat)) : Res := { writes := w }
def badCall : Res := { bad := true }

def St.kind? (st : St) (fd : Nat) : Option FdKind := (st.fds.find? (·.1 == fd)).map (·.2)

/-- `writeOffsetsAndNullTerminatedValues` -/
def nulTerminated (vals : List (List Nat)) (offsets buf : Nat) : List (Nat × List Nat) :=
  let rec go (vs : List (List Nat)) (oI bI : Nat) : List (Nat × List Nat) :=
    match vs with
    | [] => []
    | v :: rest => (offsets + oI, le 4 (buf + bI)) :: (buf + bI, v ++ [0]) :: go rest (oI + 4) (bI + v.length + 1)
  go vals 0 0

def sizeOf (vals : List (List Nat)) : Nat := (vals.map (·.length + 1)).sum

/-- pairs (ptr, len) from a flat list -/
def pairs : List Nat → Option (List (Nat × Nat))
  | [] => some []
  | p :: l :: rest => (pairs rest).map ((p, l) :: ·)
  | [_] => none

/-- `readv` over a byte source `src` at position `pos`: iovecs are filled in order, zero-length ones
are skipped, a short read stops. Returns the writes, the number read. -/
def readvFrom (src : List Nat) (pos : Nat) : List (Nat × Nat) → List (Nat × List Nat) × Nat
  | [] => ([], 0)
  | (p, l) :: rest =>
    if l == 0 then readvFrom src pos rest else
    let data := (src.drop pos).take l
    if data.length < l then ((if data.isEmpty then [] else [(p, data)]), data.length)
    else
      let (w, n) := readvFrom src (pos + l) rest
      ((p, data) :: w, l + n)

/-- subscription of poll_oneoff: userdata, type, and three type-specific numbers -/
structure Sub where
  ud : Nat
  ty : Nat
  x : Nat   -- clock id / fd
  y : Nat   -- timeout
  z : Nat   -- flags

def subs : List Nat → Option (List Sub)
  | [] => some []
  | a :: b :: c :: d :: e :: rest => (subs rest).map (⟨a, b, c, d, e⟩ :: ·)
  | _ => none

def event (out k ud errno ty : Nat) : Nat × List Nat := (out + 32 * k, le 8 ud ++ [errno % 256, 0] ++ le 4 ty)

/-- The subscription loop of `pollOneoffFn`: returns either an early errno or
(events written so far, nevents, minimal timeout, blocking fd-read subscriptions). -/
def pollLoop (st : St) (out : Nat) : List Sub → Nat → Option Nat → List Sub → List (Nat × List Nat) →
    Except (Nat × List (Nat × List Nat)) (List (Nat × List Nat) × Nat × Option Nat × List Sub)
  | [], n, to, blk, w => .ok (w, n, to, blk)
  | s :: rest, n, to, blk, w =>
    if s.ty == 0 then
      if s.z == 0 then
        let to' := match to with | none => some s.y | some t => some (min t s.y)
        pollLoop st out rest (n + 1) to' blk (w ++ [event out n s.ud 0 0])
      else if s.z == 1 then .error (ErrnoNotsup, w) else .error (ErrnoInval, w)
    else if s.ty == 1 then
      if s.x ≥ 2 ^ 31 then .error (ErrnoBadf, w)
      else match st.kind? s.x with
        | none => pollLoop st out rest (n + 1) to blk (w ++ [event out n s.ud ErrnoBadf 1])
        | some _ => pollLoop st out rest n to (blk ++ [s]) w
    else if s.ty == 2 then
      if s.x ≥ 2 ^ 31 then .error (ErrnoBadf, w)
      else
        let e := match st.kind? s.x with | none => ErrnoBadf | some _ => ErrnoNotsup
        pollLoop st out rest (n + 1) to blk (w ++ [event out n s.ud e 2])
    else .error (ErrnoInval, w)

def blockingEvents (out : Nat) : List Sub → Nat → List (Nat × List Nat)
  | [], _ => []
  | s :: rest, n => event out n s.ud 0 1 :: blockingEvents out rest (n + 1)

/-- Errno of a call that resolves a path relative to descriptor `fd` (`atPath`): with no directory in
the table it always fails. -/
def atPathErr (st : St) (fd : Nat) : Nat :=
  match st.kind? fd with
  | none => ErrnoBadf
  | some (.dir _) => ErrnoNoent     -- host directory: not modelled further
  | some _ => ErrnoNotdir

/-- `toTimes`: (is the wall clock read once?, errno) from fst_flags. The atim NOW reading happens
before the mtim flags are checked. -/
def toTimes (flags : Nat) : Bool × Option Nat :=
  let aSet := flags % 2 == 1
  let aNow := (flags / 2) % 2 == 1
  let mSet := (flags / 4) % 2 == 1
  let mNow := (flags / 8) % 2 == 1
  if aSet && aNow then (false, some ErrnoInval)
  else if mSet && mNow then (aNow, some ErrnoInval)
  else (aNow || mNow, none)

def isStdio : FdKind → Bool
  | .dir _ => false
  | _ => true

/-! The functions that can change the context state, one definition each. -/

def clockTimeGet (F : Facilities) (st : St) : List Nat → St × Res
  | [id, p] =>
    if id == 0 then ({ st with wallK := st.wallK + 1 }, ok [(p, le 8 (F.wall st.wallK))])
    else if id == 1 then ({ st with monoK := st.monoK + 1 }, ok [(p, le 8 (F.mono st.monoK))])
    else (st, err ErrnoInval)
  | _ => (st, badCall)

def randomGet (F : Facilities) (st : St) : List Nat → St × Res
  | [buf, n] =>
    ({ st with randPos := st.randPos + n },
      ok (if n == 0 then [] else [(buf, (List.range n).map (fun i => F.rand (st.randPos + i) % 256))]))
  | _ => (st, badCall)

def schedYield (F : Facilities) (st : St) : List Nat → St × Res
  | [] => ({ st with yields := st.yields + (if F.realYield then 1 else 0) }, ok [])
  | _ => (st, badCall)

def fdRead (F : Facilities) (st : St) : List Nat → St × Res
  | fd :: nreadPtr :: _n :: iov =>
    match pairs iov with
    | none => (st, badCall)
    | some iovs =>
      match st.kind? fd with
      | none => (st, err ErrnoBadf)
      | some .stdin =>
        let (w, n) := readvFrom F.stdin st.stdinPos iovs
        ({ st with stdinPos := st.stdinPos + n }, ok (w ++ [(nreadPtr, le 4 n)]))
      | some (.dir _) => (st, if iovs.all (·.2 == 0) then ok [(nreadPtr, le 4 0)] else err ErrnoIsdir)
      -- noopStdoutFile has no Read: ENOSYS from UnimplementedFile, mapped to EBADF by readv
      | some _ => (st, if iovs.all (·.2 == 0) then ok [(nreadPtr, le 4 0)] else err ErrnoBadf)
  | _ => (st, badCall)

def fdWrite (F : Facilities) (st : St) : List Nat → St × Res
  | fd :: nwPtr :: _n :: iov =>
    match pairs iov with
    | none => (st, badCall)
    | some iovs =>
      let total := (iovs.map (·.2)).sum
      match st.kind? fd with
      | none => (st, err ErrnoBadf)
      | some .stdout =>
        ({ st with hostOut := st.hostOut + (if F.outToHost then total else 0) }, ok [(nwPtr, le 4 total)])
      | some .stderr =>
        ({ st with hostOut := st.hostOut + (if F.errToHost then total else 0) }, ok [(nwPtr, le 4 total)])
      -- noopStdinFile has no Write: every iovec (even an empty one) is ENOSYS → EBADF
      | some _ => (st, if iovs.isEmpty then ok [(nwPtr, le 4 0)] else err ErrnoBadf)
  | _ => (st, badCall)

def pollOneoff (F : Facilities) (st : St) : List Nat → St × Res
  | out :: nevPtr :: n :: rest =>
    match subs rest with
    | none => (st, badCall)
    | some ss =>
      if n == 0 then (st, err ErrnoInval) else
      let w0 : List (Nat × List Nat) := [(out, List.replicate (n * 32) 0), (nevPtr, le 4 n)]
      match pollLoop st out ss 0 none [] [] with
      | .error (e, w) => (st, { errno := e, writes := w0 ++ w })
      | .ok (w, nev, to, blk) =>
        if nev == n then
          -- `timeout` starts at 1<<63 - 1 and is only lowered by clock subscriptions
          let t := to.getD (2 ^ 63 - 1)
          ({ st with slept := st.slept + (if F.realSleep then t else 0), sleepAsked := st.sleepAsked + t }, ok (w0 ++ w))
        else
          match st.kind? 0 with
          | none => (st, { errno := ErrnoBadf, writes := w0 ++ w })
          | some k =>
            -- noopStdinFile.Poll: always ready; a host stdin is ready iff bytes are waiting
            let ready := match k with
              | .stdin => F.stdin.length > st.stdinPos || F.stdin.isEmpty
              | _ => false
            if ready then (st, ok (w0 ++ w ++ blockingEvents out blk nev))
            else (st, ok (w0 ++ w ++ [(nevPtr, le 4 nev)]))
  | _ => (st, badCall)

def fdClose (st : St) : List Nat → St × Res
  | [fd] =>
    match st.kind? fd with
    | none => (st, err ErrnoBadf)
    | some _ => ({ st with fds := st.fds.filter (·.1 != fd) }, ok [])
  | _ => (st, badCall)

def fdFilestatSetTimes (st : St) : List Nat → St × Res
  | [fd, flags] =>
    match st.kind? fd with
    | none => (st, err ErrnoBadf)
    | some k =>
      let (reads, e) := toTimes flags
      let st' := if reads then { st with wallK := st.wallK + 1 } else st
      match e with
      | some e => (st', err e)
      | none =>
        -- `f.File.Utimens` is ENOSYS for the stdio files; the path-based fallback is skipped for
        -- entries without a file system (fix a31b0d4 of finding C15/F24: it used to dereference
        -- the nil `f.FS` of stdio entries), so the errno stays ENOSYS
        match k with
        | .dir _ => (st', err ErrnoNoent)
        | _ => (st', err ErrnoNosys)
  | _ => (st, badCall)

def pathFilestatSetTimes (st : St) : List Nat → St × Res
  | [fd, flags] =>
    -- `toTimes` runs (and may read the wall clock) before the descriptor is looked at
    let (reads, e) := toTimes flags
    let st' := if reads then { st with wallK := st.wallK + 1 } else st
    (st', err (e.getD (atPathErr st fd)))
  | _ => (st, badCall)

/-- All other functions never change the context state. -/
def pureRes (F : Facilities) (st : St) (fn : Fn) (a : List Nat) : Res :=
  match fn, a with
  | .args_get, [argv, buf] => ok (nulTerminated F.args argv buf)
  | .args_sizes_get, [p1, p2] => ok [(p1, le 4 F.args.length), (p2, le 4 (sizeOf F.args))]
  | .environ_get, [p, buf] => ok (nulTerminated F.env p buf)
  | .environ_sizes_get, [p1, p2] => ok [(p1, le 4 F.env.length), (p2, le 4 (sizeOf F.env))]
  | .clock_res_get, [id, p] =>
    if id == 0 then ok [(p, le 8 F.wallRes)]
    else if id == 1 then ok [(p, le 8 F.monoRes)]
    else err ErrnoInval
  | .proc_raise, [_] => err ErrnoNosys
  | .proc_exit, [code] => { exit := some code }
  | .fd_fdstat_set_rights, [_] => err ErrnoNosys
  | .fd_pread, fd :: nreadPtr :: _n :: iov =>
    match pairs iov with
    | none => badCall
    | some iovs =>
      match st.kind? fd with
      | none => err ErrnoBadf
      | some (.dir _) => if iovs.all (·.2 == 0) then ok [(nreadPtr, le 4 0)] else err ErrnoIsdir
      | some _ => if iovs.all (·.2 == 0) then ok [(nreadPtr, le 4 0)] else err ErrnoBadf
  | .fd_pwrite, fd :: nwPtr :: _n :: iov =>
    match pairs iov with
    | none => badCall
    | some iovs =>
      match st.kind? fd with
      | none => err ErrnoBadf
      | some _ => if iovs.all (·.2 == 0) then ok [(nwPtr, le 4 0)] else err ErrnoBadf
  | .fd_prestat_get, [fd, p] =>
    match st.kind? fd with
    | none => err ErrnoBadf
    | some (.dir name) => ok [(p, le 8 (name.length * 2 ^ 32))]
    | some _ => ok [(p, le 8 0)]   -- stdio entries are "preopens" with an empty name
  | .fd_prestat_dir_name, [fd, path, len] =>
    match st.kind? fd with
    | none => err ErrnoBadf
    | some k =>
      let name := match k with | .dir n => n | _ => []
      if name.length < len then err ErrnoNametoolong
      else ok (if len == 0 then [] else [(path, name.take len)])
  | .fd_fdstat_get, [fd, p] =>
    match st.kind? fd with
    | none => err ErrnoBadf
    | some (.dir _) => ok [(p, le 2 FILETYPE_DIRECTORY ++ le 2 0 ++ le 4 0 ++ le 8 0 ++ le 8 0)]
    | some _ => ok [(p, le 2 FILETYPE_BLOCK_DEVICE ++ le 2 0 ++ le 4 0 ++ le 8 fileRightsBase ++ le 8 0)]
  | .fd_filestat_get, [fd, p] =>
    match st.kind? fd with
    | none => err ErrnoBadf
    | some (.dir _) => ok [(p, le 8 0 ++ le 8 0 ++ le 8 FILETYPE_DIRECTORY ++ le 8 1 ++ le 8 0 ++ le 8 0 ++ le 8 0 ++ le 8 0)]
    | some _ => ok [(p, le 8 0 ++ le 8 0 ++ le 8 FILETYPE_BLOCK_DEVICE ++ le 8 1 ++ le 8 0 ++ le 8 0 ++ le 8 0 ++ le 8 0)]
  | .fd_advise, [fd, advice] =>
    match st.kind? fd with
    | none => err ErrnoBadf
    | some _ => if advice % 256 ≤ 5 then ok [] else err ErrnoInval
  | .fd_allocate, [fd, off, len] =>
    match st.kind? fd with
    | none => err ErrnoBadf
    | some _ => if off + len == 0 then ok [] else err ErrnoNosys
  | .fd_datasync, [fd] => match st.kind? fd with | none => err ErrnoBadf | some _ => ok []
  | .fd_sync, [fd] => match st.kind? fd with | none => err ErrnoBadf | some _ => ok []
  | .fd_fdstat_set_flags, [fd, flags] =>
    if (flags / 2) % 2 == 1 || (flags / 8) % 2 == 1 || (flags / 16) % 2 == 1 then err ErrnoInval
    else match st.kind? fd with | none => err ErrnoBadf | some _ => err ErrnoNosys
  | .fd_filestat_set_size, [fd, _] =>
    match st.kind? fd with | none => err ErrnoBadf | some _ => err ErrnoNosys
  | .fd_readdir, [fd, buflen] =>
    if buflen < 24 then err ErrnoInval
    else match st.kind? fd with | none => err ErrnoBadf | some (.dir _) => err ErrnoNoent | some _ => err ErrnoBadf
  | .fd_renumber, [fd, _to] =>
    match st.kind? fd with | none => err ErrnoBadf | some _ => err ErrnoNotsup
  | .fd_seek, [fd, _p] =>
    match st.kind? fd with | none => err ErrnoBadf | some (.dir _) => err ErrnoIsdir | some _ => err ErrnoNosys
  | .fd_tell, [fd, _p] =>
    match st.kind? fd with | none => err ErrnoBadf | some (.dir _) => err ErrnoIsdir | some _ => err ErrnoNosys
  | .path_create_directory, [fd] => err (atPathErr st fd)
  | .path_filestat_get, [fd] => err (atPathErr st fd)
  | .path_link, [fd, _] => err (atPathErr st fd)
  | .path_open, [fd] => err (atPathErr st fd)
  | .path_readlink, [fd] => err (atPathErr st fd)
  | .path_remove_directory, [fd] => err (atPathErr st fd)
  | .path_rename, [fd, _] => err (atPathErr st fd)
  | .path_symlink, [fd] => err (atPathErr st fd)
  | .path_unlink_file, [fd] => err (atPathErr st fd)
  | .sock_accept, [_] => err ErrnoBadf
  | .sock_recv, [_] => err ErrnoBadf
  | .sock_send, [_] => err ErrnoBadf
  | .sock_shutdown, [_] => err ErrnoBadf
  | _, _ => badCall

/-- One guest call in context state `st`. -/
def step (F : Facilities) (st : St) (c : Call) : St × Res :=
  match c.fn with
  | .clock_time_get => clockTimeGet F st c.a
  | .random_get => randomGet F st c.a
  | .sched_yield => schedYield F st c.a
  | .fd_read => fdRead F st c.a
  | .fd_write => fdWrite F st c.a
  | .poll_oneoff => pollOneoff F st c.a
  | .fd_close => fdClose st c.a
  | .fd_filestat_set_times => fdFilestatSetTimes st c.a
  | .path_filestat_set_times => pathFilestatSetTimes st c.a
  | fn => (st, pureRes F st fn c.a)

/-- Trace of a call list; a call that exits the module or traps ends the trace. -/
def traceF (F : Facilities) : St → List Call → List Res
  | _, [] => []
  | st, c :: rest =>
    let (st', r) := step F st c
    if r.exit.isSome || r.trap then [r] else r :: traceF F st' rest

/-- Final state after a call list (stops at an exit). -/
def runF (F : Facilities) : St → List Call → St
  | st, [] => st
  | st, c :: rest =>
    let (st', r) := step F st c
    if r.exit.isSome || r.trap then st' else runF F st' rest

/-- An instantiated module's system context. -/
structure Ctx where
  host : Host
  src : Sources
  rnd : Nat → Nat

def Ctx.fac (c : Ctx) : Facilities := facilities c.rnd c.host c.src

/-- `wazero.NewModuleConfig()` instantiated on host `h`. -/
def defaultCtx (rnd : Nat → Nat) (h : Host) : Ctx := { host := h, src := defaultSources, rnd := rnd }

/-- A context whose every facility is the real host's (what a leaking implementation would do). -/
def hostCtx (rnd : Nat → Nat) (h : Host) : Ctx :=
  { host := h, rnd := rnd,
    src := ⟨.host, .host, .host, .host, .host, .host, .host, .host, .host, .host, .host, .host, .host, .host⟩ }

def trace (c : Ctx) (calls : List Call) : List Res := traceF c.fac (initSt c.fac) calls
def finalSt (c : Ctx) (calls : List Call) : St := runF c.fac (initSt c.fac) calls

end Wz.Model.SysDefault
