/-
C04 — the store/linker model (hand-written after internal/wasm/store.go, module.go, table.go,
global.go and the two engines' storage of globals; tied to the code by correspondence, tie B).

What is modelled, following the order of `Store.instantiate`:
  resolveImports (per import: lookup by module/name/kind, then the type/limit/mutability checks),
  buildTables, buildGlobals (`GlobalInstance.initialize` reads the *field* `.Val` of an imported
  global), buildMemory, applyData (bounds check before each segment's copy; earlier segments
  persist), applyElements (an out-of-bounds active segment silently stops element initialisation —
  wazero's documented deviation), DoneInstantiation (the compiler copies `.Val` of the module's own
  globals into its module context), the start function.

Engine-specific storage of globals (`scheme`):
  interpreter  — `GlobalInstance.Me == nil`: the live value is the field `.Val`;
  compiler     — `GlobalInstance.Me != nil`: the live value is in the owner's module context
                 (`live`, one slot per global address), `.Val` keeps the initial value only.

Finding switch (F2): `constMutOK = true` is the code as it is (a `global.get` of a *mutable*
imported global is accepted in constant expressions), `false` is the repaired validator.
Core Lean only.
-/
namespace Wz.Model.Store

inductive VT where
  | i32 | i64 | f32 | f64 | funcref | externref
  deriving DecidableEq, Repr, Inhabited

structure GT where
  vt : VT
  mutable : Bool
  deriving DecidableEq, Repr, Inhabited

structure FT where
  params : List VT
  results : List VT
  deriving DecidableEq, Repr, Inhabited

/-- table type (import descriptor or definition) -/
structure TT where
  rt : VT
  min : Nat
  max : Option Nat
  deriving DecidableEq, Repr, Inhabited

/-- memory type as the decoder leaves it: `max` is always present (declared max clamped to the
configured limit, or the limit when no max is declared). -/
structure MT where
  min : Nat
  max : Nat
  /-- threads proposal: a shared memory (fixed buffer, atomic length) -/
  shared : Bool := false
  deriving DecidableEq, Repr, Inhabited

/-- the decoder's treatment of memory limits (`newMemorySizer` without capacity-from-max) -/
def decodeMT (limit min : Nat) (declared : Option Nat) : MT :=
  { min := min, max := match declared with | none => limit | some m => Nat.min m limit }

inductive ConstExpr where
  | const (bits : Nat)
  | globalGet (k : Nat)
  | refFunc (f : Nat)
  | refNull
  deriving DecidableEq, Repr, Inhabited

inductive ImportDesc where
  | func (ft : FT)
  | table (tt : TT)
  | mem (mt : MT)
  | global (gt : GT)
  deriving DecidableEq, Repr, Inhabited

structure Import where
  mod : String
  name : String
  desc : ImportDesc
  deriving Repr, Inhabited

/-- bodies of the generated functions: a constant, or "add 1 to global k (index space of the
defining module) and return it" -/
inductive Body where
  | const (c : Nat)
  | bump (k : Nat)
  deriving DecidableEq, Repr, Inhabited

structure LFunc where
  ft : FT
  body : Body
  deriving Repr, Inhabited

structure LGlobal where
  ty : GT
  init : ConstExpr
  deriving Repr, Inhabited

structure Elem where
  table : Nat
  off : ConstExpr
  items : List (Option Nat)
  deriving Repr, Inhabited

structure Data where
  off : ConstExpr
  bytes : List Nat
  deriving Repr, Inhabited

inductive Start where
  | none
  | trap
  | set (k v : Nat)
  | setTrap (k v : Nat)
  deriving DecidableEq, Repr, Inhabited

inductive Kind where
  | func | table | mem | global
  deriving DecidableEq, Repr, Inhabited

structure Export where
  name : String
  kind : Kind
  idx : Nat
  deriving Repr, Inhabited

structure ModDesc where
  imports : List Import := []
  funcs : List LFunc := []
  tables : List TT := []
  mem : Option MT := none
  globals : List LGlobal := []
  exports : List Export := []
  elems : List Elem := []
  datas : List Data := []
  start : Start := .none
  deriving Repr, Inhabited

/-! ## Store -/

structure GlobalInst where
  ty : GT
  /-- the field `GlobalInstance.Val` -/
  val : Nat
  /-- `GlobalInstance.Me != nil` (the compiler owns the live value) -/
  me : Bool
  deriving DecidableEq, Repr, Inhabited

structure TableInst where
  refs : List Nat          -- 0 = null, a+1 = function address a
  min : Nat                -- declared minimum (never updated by grow)
  max : Option Nat
  rt : VT
  deriving DecidableEq, Repr, Inhabited

structure MemInst where
  pages : Nat
  max : Nat
  bytes : List (Nat × Nat)  -- sparse: the latest entry for an address wins; default 0
  shared : Bool := false
  deriving Repr, Inhabited

inductive FBody where
  | const (c : Nat)
  | bump (gaddr : Nat)
  deriving DecidableEq, Repr, Inhabited

structure FuncInst where
  ft : FT
  body : FBody
  deriving Repr, Inhabited

structure Inst where
  name : String
  faddrs : List Nat
  taddrs : List Nat
  maddr : Option Nat
  gaddrs : List Nat
  exports : List Export
  deriving Repr, Inhabited

structure Store where
  /-- engine: `true` = compiler (`OwnsGlobals`), `false` = interpreter -/
  compiler : Bool := false
  /-- finding switch F2: mutable imported globals accepted in constant expressions (as-is) -/
  constMutOK : Bool := true
  funcs : List FuncInst := []
  tables : List TableInst := []
  mems : List MemInst := []
  globals : List GlobalInst := []
  /-- compiler: the owner's module-context slot of each global (by global address) -/
  live : List Nat := []
  insts : List Inst := []
  deriving Repr, Inhabited

/-! ## Globals: the two storage schemes -/

/-- `GlobalInstance.Value()` and the generated code's global read -/
def gvalue (s : Store) (a : Nat) : Nat :=
  match s.globals[a]? with
  | some g => if g.me then s.live.getD a 0 else g.val
  | none => 0

/-- `GlobalInstance.SetValue()` and the generated code's global write -/
def gset (s : Store) (a v : Nat) : Store :=
  match s.globals[a]? with
  | some g =>
    if g.me then { s with live := s.live.set a v }
    else { s with globals := s.globals.set a { g with val := v } }
  | none => s

/-- the field `.Val` (what `initialize`, `executeConstExpressionI32`, `applyElements` read) -/
def gfield (s : Store) (a : Nat) : Nat :=
  match s.globals[a]? with
  | some g => g.val
  | none => 0

/-! ## Import matching (the comparisons of `resolveImports`) -/

def matchFunc (expected actual : FT) : Bool := actual == expected

def matchTable (expected : TT) (t : TableInst) : Bool :=
  expected.rt == t.rt &&
  !(expected.min > t.min) &&
  (match expected.max with
   | none => true
   | some em => match t.max with
     | none => false
     | some am => !(em < am))

/-- `resolveImports`, memory case, as it is since finding F47 was repaired: the limits AND the shared flag -/
def matchMem (expected : MT) (m : MemInst) : Bool :=
  !(expected.min > m.pages) && !(expected.max < m.max) && (expected.shared == m.shared)

/-- the pinned tree compared the limits only (finding F47) -/
def matchMemAsIs (expected : MT) (m : MemInst) : Bool :=
  !(expected.min > m.pages) && !(expected.max < m.max)

def matchGlobal (expected : GT) (g : GlobalInst) : Bool :=
  expected.mutable == g.ty.mutable && expected.vt == g.ty.vt

/-- what an import resolves to: a store address -/
inductive Extern where
  | func (a : Nat)
  | table (a : Nat)
  | mem (a : Nat)
  | global (a : Nat)
  deriving DecidableEq, Repr, Inhabited

def descKind : ImportDesc → Kind
  | .func _ => .func | .table _ => .table | .mem _ => .mem | .global _ => .global

def findInst (s : Store) (name : String) : Option Inst := s.insts.find? (·.name == name)

def findExport (i : Inst) (name : String) (k : Kind) : Option Export :=
  match i.exports.find? (·.name == name) with
  | some e => if e.kind == k then some e else none
  | none => none

/-- one import: lookup then the check of its kind -/
def resolveOne (s : Store) (imp : Import) : Option Extern :=
  match findInst s imp.mod with
  | none => none
  | some ex =>
    match findExport ex imp.name (descKind imp.desc) with
    | none => none
    | some e =>
      match imp.desc with
      | .func ft =>
        match ex.faddrs[e.idx]? with
        | some a => match s.funcs[a]? with
          | some f => if matchFunc ft f.ft then some (.func a) else none
          | none => none
        | none => none
      | .table tt =>
        match ex.taddrs[e.idx]? with
        | some a => match s.tables[a]? with
          | some t => if matchTable tt t then some (.table a) else none
          | none => none
        | none => none
      | .mem mt =>
        match ex.maddr with
        | some a => match s.mems[a]? with
          | some m => if matchMem mt m then some (.mem a) else none
          | none => none
        | none => none
      | .global gt =>
        match ex.gaddrs[e.idx]? with
        | some a => match s.globals[a]? with
          | some g => if matchGlobal gt g then some (.global a) else none
          | none => none
        | none => none

def resolveAll (s : Store) : List Import → Option (List Extern)
  | [] => some []
  | imp :: rest =>
    match resolveOne s imp with
    | none => none
    | some e => match resolveAll s rest with
      | none => none
      | some es => some (e :: es)

/-! ## Constant expressions -/

/-- `validateConstExpression` for `global.get`: index within the imported globals; with the
repaired validator also immutable.  `imps` = the module's imported global types. -/
def constOK (constMutOK : Bool) (imps : List GT) : ConstExpr → Bool
  | .globalGet k => match imps[k]? with
    | some gt => constMutOK || !gt.mutable
    | none => false
  | _ => true

def importedGTs (d : ModDesc) : List GT :=
  d.imports.filterMap (fun i => match i.desc with | .global gt => some gt | _ => none)

/-- function validation: a `global.set` (here: in the start function) must target a mutable global -/
def startOK (d : ModDesc) : Bool :=
  let gts := importedGTs d ++ d.globals.map (·.ty)
  match d.start with
  | .set k _ | .setTrap k _ => match gts[k]? with
    | some gt => gt.mutable
    | none => false
  | _ => true

def validateDesc (constMutOK : Bool) (d : ModDesc) : Bool :=
  let imps := importedGTs d
  d.globals.all (fun g => constOK constMutOK imps g.init) &&
  d.datas.all (fun x => constOK constMutOK imps x.off) &&
  d.elems.all (fun x => constOK constMutOK imps x.off) &&
  startOK d

/-- evaluation at instantiation (`initialize` / `executeConstExpressionI32`): reads the FIELD `.Val`
of the imported global; `ref.func f` gives the function's reference -/
def evalConst (s : Store) (gaddrs faddrs : List Nat) : ConstExpr → Nat
  | .const b => b
  | .globalGet k => gfield s (gaddrs.getD k 0)
  | .refFunc f => faddrs.getD f 0 + 1
  | .refNull => 0

/-- the repaired alternative (reads through `Value()`); used by the specification only -/
def evalConstLive (s : Store) (gaddrs faddrs : List Nat) : ConstExpr → Nat
  | .const b => b
  | .globalGet k => gvalue s (gaddrs.getD k 0)
  | .refFunc f => faddrs.getD f 0 + 1
  | .refNull => 0

/-- offsets are i32: interpreted signed by `applyData` (negative = out of bounds), unsigned by
`applyElements`; the model keeps the 32-bit pattern -/
def isNeg32 (v : Nat) : Bool := v % 4294967296 ≥ 2147483648

/-! ## Memory and table cells -/

def MemInst.read (m : MemInst) (addr : Nat) : Nat :=
  match m.bytes.find? (·.1 == addr) with
  | some p => p.2
  | none => 0

def MemInst.write (m : MemInst) (addr v : Nat) : MemInst := { m with bytes := (addr, v) :: m.bytes }

def MemInst.size (m : MemInst) : Nat := m.pages * 65536

def writeBytes (m : MemInst) (off : Nat) : List Nat → MemInst
  | [] => m
  | b :: rest => writeBytes (m.write off b) (off + 1) rest

/-- `applyData` for one active segment: bounds check first, then the copy -/
def applyData1 (m : MemInst) (off : Nat) (bytes : List Nat) : Option MemInst :=
  let o := off % 4294967296
  if isNeg32 off || o + bytes.length > m.size then none else some (writeBytes m o bytes)

/-- all data segments in order; `none` = out of bounds at some segment, with the memories as left by
the earlier segments -/
def applyDatas (s : Store) (maddr : Option Nat) (gaddrs faddrs : List Nat) : List Data → Store × Bool
  | [] => (s, true)
  | d :: rest =>
    match maddr with
    | none => (s, false)
    | some ma =>
      match s.mems[ma]? with
      | none => (s, false)
      | some m =>
        match applyData1 m (evalConst s gaddrs faddrs d.off) d.bytes with
        | none => (s, false)
        | some m' => applyDatas { s with mems := s.mems.set ma m' } maddr gaddrs faddrs rest

def writeRefs (refs : List Nat) (off : Nat) (faddrs : List Nat) : List (Option Nat) → List Nat
  | [] => refs
  | none :: rest => writeRefs refs (off + 1) faddrs rest      -- null items are skipped (funcref tables)
  | some f :: rest => writeRefs (refs.set off (faddrs.getD f 0 + 1)) (off + 1) faddrs rest

/-- `applyElements`: an out-of-bounds (or empty) segment... empty is skipped; out-of-bounds STOPS the
whole element initialisation without an error. -/
def applyElems (s : Store) (taddrs gaddrs faddrs : List Nat) : List Elem → Store
  | [] => s
  | e :: rest =>
    if e.items.isEmpty then applyElems s taddrs gaddrs faddrs rest else
    match taddrs[e.table]? with
    | none => s
    | some ta =>
      match s.tables[ta]? with
      | none => s
      | some t =>
        let off := evalConst s gaddrs faddrs e.off % 4294967296
        if off + e.items.length > t.refs.length then s
        else
          let t' := { t with refs := writeRefs t.refs off faddrs e.items }
          applyElems { s with tables := s.tables.set ta t' } taddrs gaddrs faddrs rest

/-! ## Instantiation -/

inductive Outcome where
  | ok
  | invalid      -- rejected by validation (compile time)
  | importErr    -- resolveImports failed
  | dataErr      -- out-of-bounds active data segment
  | startErr     -- the start function trapped
  deriving DecidableEq, Repr, Inhabited

def splitExterns : List Extern → (List Nat × List Nat × Option Nat × List Nat)
  | [] => ([], [], none, [])
  | .func a :: r => let (f, t, m, g) := splitExterns r; (a :: f, t, m, g)
  | .table a :: r => let (f, t, m, g) := splitExterns r; (f, a :: t, m, g)
  | .mem a :: r => let (f, t, _, g) := splitExterns r; (f, t, some a, g)
  | .global a :: r => let (f, t, m, g) := splitExterns r; (f, t, m, a :: g)

def mkTable (tt : TT) : TableInst := { refs := List.replicate tt.min 0, min := tt.min, max := tt.max, rt := tt.rt }
def mkMem (mt : MT) : MemInst := { pages := mt.min, max := mt.max, bytes := [], shared := mt.shared }

/-- buildGlobals: each module-defined global is initialised from its constant expression, which can
only see the imported globals (`.Val` field!) -/
def mkGlobals (s : Store) (impG faddrs : List Nat) (gs : List LGlobal) : List GlobalInst :=
  gs.map (fun g => { ty := g.ty, val := evalConst s impG faddrs g.init, me := s.compiler })

def resolveBody (gaddrs : List Nat) : Body → FBody
  | .const c => .const c
  | .bump k => .bump (gaddrs.getD k 0)

def runStart (s : Store) (gaddrs : List Nat) : Start → Store × Bool
  | .none => (s, true)
  | .trap => (s, false)
  | .set k v => (gset s (gaddrs.getD k 0) v, true)
  | .setTrap k v => (gset s (gaddrs.getD k 0) v, false)

def range (a n : Nat) : List Nat := (List.range n).map (· + a)

/-- the allocation phase: everything `instantiate` does before it touches shared cells -/
structure Alloc where
  store : Store
  inst : Inst
  deriving Repr, Inhabited

def alloc (s : Store) (name : String) (d : ModDesc) (ext : List Extern) : Alloc :=
  let (impF, impT, impM, impG) := splitExterns ext
  let faddrs := impF ++ range s.funcs.length d.funcs.length
  let taddrs := impT ++ range s.tables.length d.tables.length
  let gaddrs := impG ++ range s.globals.length d.globals.length
  let maddr := match d.mem with | some _ => some s.mems.length | none => impM
  let newG := mkGlobals s impG faddrs d.globals
  let s1 : Store := { s with
    funcs := s.funcs ++ d.funcs.map (fun f => { ft := f.ft, body := resolveBody gaddrs f.body }),
    tables := s.tables ++ d.tables.map mkTable,
    mems := s.mems ++ (match d.mem with | some mt => [mkMem mt] | none => []),
    globals := s.globals ++ newG,
    -- DoneInstantiation copies `.Val` into the module context; modelled at allocation because
    -- nothing reads the new module's own slots in between
    live := s.live ++ newG.map (·.val) }
  { store := s1, inst := { name := name, faddrs := faddrs, taddrs := taddrs, maddr := maddr, gaddrs := gaddrs, exports := d.exports } }

/-- `Store.Instantiate` (after compilation). Returns the new store and the outcome. A failed
instantiation registers no instance. -/
def instantiate (s : Store) (name : String) (d : ModDesc) : Store × Outcome :=
  if !validateDesc s.constMutOK d then (s, .invalid) else
  match resolveAll s d.imports with
  | none => (s, .importErr)
  | some ext =>
    let a := alloc s name d ext
    let i := a.inst
    match applyDatas a.store i.maddr i.gaddrs i.faddrs d.datas with
    | (s2, false) => (s2, .dataErr)
    | (s2, true) =>
      let s3 := applyElems s2 i.taddrs i.gaddrs i.faddrs d.elems
      match runStart s3 i.gaddrs d.start with
      | (s4, false) => (s4, .startErr)
      | (s4, true) => ({ s4 with insts := s4.insts ++ [i] }, .ok)

/-! ## Operations after instantiation (through an instance = guest code, or through the host API) -/

def instGaddr (s : Store) (i k : Nat) : Option Nat := (s.insts[i]?).bind (fun x => x.gaddrs[k]?)
def instTaddr (s : Store) (i k : Nat) : Option Nat := (s.insts[i]?).bind (fun x => x.taddrs[k]?)
def instMaddr (s : Store) (i : Nat) : Option Nat := (s.insts[i]?).bind (fun x => x.maddr)
def instFaddr (s : Store) (i k : Nat) : Option Nat := (s.insts[i]?).bind (fun x => x.faddrs[k]?)

def mask (vt : VT) (v : Nat) : Nat :=
  match vt with
  | .i32 | .f32 => v % 4294967296
  | _ => v % 18446744073709551616

/-- calling function address `a`: result and new store -/
def callFunc (s : Store) (a : Nat) : Store × Option Nat :=
  match s.funcs[a]? with
  | none => (s, none)
  | some f =>
    match f.body with
    | .const c => (s, some c)
    | .bump ga =>
      let v := (gvalue s ga + 1) % 4294967296
      (gset s ga v, some v)

def memGrow (m : MemInst) (delta : Nat) : MemInst × Option Nat :=
  if m.pages + delta > m.max then (m, none) else ({ m with pages := m.pages + delta }, some m.pages)

/-- `TableInstance.Grow` (null initial reference) -/
def tableGrow (t : TableInst) (delta : Nat) : TableInst × Option Nat :=
  let cur := t.refs.length
  if delta == 0 then (t, some cur) else
  if cur + delta ≥ 4294967295 || (match t.max with | some m => cur + delta > m | none => false) then (t, none)
  else ({ t with refs := t.refs ++ List.replicate delta 0 }, some cur)

end Wz.Model.Store
