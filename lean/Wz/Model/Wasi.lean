/-
Footprint models of WASI host functions (imports/wasi_snapshot_preview1/*.go) for property C15.

Each model transcribes the integer handling of one Go function in Go's wrap-around arithmetic:
`uint32` values are naturals reduced with `w32` exactly where the Go expression is evaluated in 32 bits.
The model records
  * `acc`    – every `(offset, length)` the function got granted by `api.Memory.Read/Write*` (the guard is the
               regenerated `Wz.Gen.Memory.hasSize`, tie A),
  * `writes` – every write to guest memory, in execution order (exact bytes, or a region whose content is
               host-dependent),
  * `err`    – the errno, `panic` for a failed index/slice bounds check in the host (Go runtime error), `any`
               when the errno depends on the host file system, `exit` for proc_exit,
  * `alloc`  – host bytes allocated as a function of guest-supplied numbers,
  * `fds`    – the descriptor table after the call (only where the call changes it).
Views returned by `Memory.Read` alias guest memory, so the models thread the memory through every write.

Finding switch (DESIGN §8): `fixed = false` is poll_oneoff as it is on the pinned tree (F15), `fixed = true`
the repaired variant (64-bit product check, EFAULT).
-/
import Wz.Gen.Memory
import Wz.Gen.Wasi
import Wz.Model.DescTable

namespace Wz.Model.Wasi
open Wz.Gen.Wasi Wz.Model

def W32 : Nat := 4294967296
/-- reduction of a `uint32` expression -/
def w32 (x : Nat) : Nat := x % 4294967296

/-- Guest memory: `size` is `len(m.Buffer)`; `data` holds the contents (bytes beyond `data.size` read as 0). -/
structure Mem where
  size : Nat
  data : Array Nat
deriving Repr

def Mem.get (m : Mem) (a : Nat) : Nat := m.data.getD a 0

def writeArr (d : Array Nat) (a : Nat) : List Nat → Array Nat
  | [] => d
  | b :: bs => writeArr (d.setIfInBounds a b) (a + 1) bs

def Mem.read (m : Mem) (a n : Nat) : List Nat := (List.range n).map (fun i => m.get (a + i))
def Mem.write (m : Mem) (a : Nat) (bs : List Nat) : Mem := { m with data := writeArr m.data a bs }

/-- image constructor used by the oracle: fill byte plus runs -/
def Mem.ofRuns (size fill : Nat) (runs : List (Nat × List Nat)) : Mem :=
  { size := size, data := runs.foldl (fun d r => writeArr d r.1 r.2) (Array.replicate size fill) }

/-- The bounds check of every `api.Memory` accessor: the regenerated `MemoryInstance.hasSize`. -/
def Mem.has (m : Mem) (off cnt : Nat) : Bool :=
  Wz.Gen.Memory.hasSize (BitVec.ofNat 32 off) (BitVec.ofNat 64 cnt) (BitVec.ofNat 64 m.size)

def le16 (m : Mem) (a : Nat) : Nat := m.get a + 256 * m.get (a + 1)
def le32 (m : Mem) (a : Nat) : Nat :=
  m.get a + 256 * m.get (a + 1) + 65536 * m.get (a + 2) + 16777216 * m.get (a + 3)
def bytesLE (n v : Nat) : List Nat := (List.range n).map (fun i => (v / 256 ^ i) % 256)

inductive Wr where
  | bytes (off : Nat) (bs : List Nat)
  | region (off len : Nat)
deriving Repr, DecidableEq

def Wr.off : Wr → Nat
  | .bytes o _ => o
  | .region o _ => o
def Wr.len : Wr → Nat
  | .bytes _ bs => bs.length
  | .region _ l => l

inductive Err where
  | errno (n : Nat)
  | any
  | panic
  | exit
  | nz          -- some errno other than 0 (which one depends on the host file system / network)
deriving Repr, DecidableEq

inductive Kind where
  | stdin | stdout | stderr | pre | file | dir
  | lsn    -- pre-opened TCP listener (experimental/sock)
  | conn   -- accepted TCP connection
deriving Repr, DecidableEq

def Kind.isPreopen : Kind → Bool
  | .stdin | .stdout | .stderr | .pre | .lsn => true
  | _ => false

abbrev Fds := DescTable.Table Kind

structure Res where
  err : Err
  acc : List (Nat × Nat) := []
  writes : List Wr := []
  alloc : Nat := 0
  fds : Option Fds := none
deriving Repr

/-- `int32(uint32 value)` -/
def toI32 (x : Nat) : Int := if x < 2147483648 then (x : Int) else (x : Int) - 4294967296

def lookupFd (fds : Fds) (fd : Nat) : Option Kind := DescTable.lookup fds (toI32 fd)

/-- Host configuration the calls depend on. -/
structure Host where
  args : List (List Nat) := []
  env : List (List Nat) := []
  stdin : List Nat := []
  wall : Nat := 0
  wallRes : Nat := 0
  mono : Nat := 0
  monoRes : Nat := 0
  preName : List Nat := []
  /-- name lengths of the entries of the pre-opened directory / of the opened sub-directory, in the order the host
  file system lists them (without "." and "..") -/
  preEntries : List Nat := []
  dirEntries : List Nat := []
  /-- the same listings with the names themselves and the WASI file type of every entry (when known: the model then
  predicts the bytes of the dirents, not only their extent) -/
  preNames : List (List Nat × Nat) := []
  dirNames : List (List Nat × Nat) := []
  /-- state of the dirent caches of the directory descriptors: `false` = fresh (nothing read yet), `true` = the
  complete listing has been read before and is cached (`countRead = len`, `eof`) -/
  cacheFull : Bool := false
deriving Repr

/-- `nullTerminatedByteCount` -/
def nulSize (vs : List (List Nat)) : Nat := (vs.map (fun v => v.length + 1)).sum

def efault : Err := .errno ErrnoFault
def ebadf : Err := .errno ErrnoBadf
def einval : Err := .errno ErrnoInval

/-! ### poll_oneoff (poll.go) -/

structure PollSt where
  m : Mem
  ws : List Wr   -- latest first
  nevents : Nat
  blocking : List (Nat × Nat)   -- (address of userData, event type) of delayed events
deriving Repr

/-- `writeEvent(outBuf[off:], evt)` on the view `(base, len)`; `false` = a bounds check failed (after the
partial writes that precede it). `ud` is the address of the aliased 8-byte userData. -/
def writeEvent (m : Mem) (ws : List Wr) (base len off ud errno ty : Nat) : Mem × List Wr × Bool :=
  if off > len then (m, ws, false) else
  let avail := len - off
  let a := base + off
  let udBytes := (m.read ud 8).take (min avail 8)
  let m := if avail = 0 then m else m.write a udBytes
  let ws := if avail = 0 then ws else Wr.bytes a udBytes :: ws
  if avail ≤ 8 then (m, ws, false) else
  let m := m.write (a + 8) [errno % 256]
  let ws := Wr.bytes (a + 8) [errno % 256] :: ws
  if avail ≤ 9 then (m, ws, false) else
  let m := m.write (a + 9) [0]
  let ws := Wr.bytes (a + 9) [0] :: ws
  if avail < 14 then (m, ws, false) else
  (m.write (a + 10) (bytesLE 4 ty), Wr.bytes (a + 10) (bytesLE 4 ty) :: ws, true)

/-- The subscription loop. Result: final state and `some e` when the function left the loop with `e`. -/
def pollLoop (fds : Fds) (inp inLen out outLen n : Nat) : Nat → Nat → PollSt → PollSt × Option Err
  | 0, _, s => (s, none)
  | fuel + 1, i, s =>
    if i ≥ n then (s, none) else
    let inOffset := w32 (i * 48)
    let outOffset := w32 (s.nevents * 32)
    let idx := w32 (inOffset + 8)
    -- eventType := inBuf[inOffset+8]
    if idx ≥ inLen then (s, some .panic) else
    let eventType := s.m.get (inp + idx)
    -- argBuf := inBuf[inOffset+8+8:]
    let argOff := w32 (inOffset + 8 + 8)
    if argOff > inLen then (s, some .panic) else
    -- userData := inBuf[inOffset : inOffset+8]
    if inOffset > idx ∨ idx > inLen then (s, some .panic) else
    let argLen := inLen - argOff
    let arg := inp + argOff
    let ud := inp + inOffset
    if eventType = EventTypeClock then
      -- processClockEvent: inBuf[0:8], [8:16], [16:24], [24:32]
      if argLen < 32 then (s, some .panic) else
      let flags := le16 s.m (arg + 24)
      if flags = 1 then (s, some (.errno ErrnoNotsup))
      else if flags ≠ 0 then (s, some einval)
      else
        match writeEvent s.m s.ws out outLen outOffset ud 0 eventType with
        | (m, ws, false) => ({ s with m := m, ws := ws }, some .panic)
        | (m, ws, true) => pollLoop fds inp inLen out outLen n fuel (i + 1) { s with m := m, ws := ws, nevents := s.nevents + 1 }
    else if eventType = EventTypeFdRead then
      if argLen < 4 then (s, some .panic) else
      let fd := le32 s.m arg
      if fd ≥ 2147483648 then (s, some ebadf) else
      match lookupFd fds fd with
      | none =>
        match writeEvent s.m s.ws out outLen outOffset ud ErrnoBadf eventType with
        | (m, ws, false) => ({ s with m := m, ws := ws }, some .panic)
        | (m, ws, true) => pollLoop fds inp inLen out outLen n fuel (i + 1) { s with m := m, ws := ws, nevents := s.nevents + 1 }
      | some _ =>
        -- blocking (no descriptor is in non-blocking mode in the modelled states): delayed
        pollLoop fds inp inLen out outLen n fuel (i + 1) { s with blocking := (ud, eventType) :: s.blocking }
    else if eventType = EventTypeFdWrite then
      if argLen < 4 then (s, some .panic) else
      let fd := le32 s.m arg
      if fd ≥ 2147483648 then (s, some ebadf) else
      let errno := if (lookupFd fds fd).isSome then ErrnoNotsup else ErrnoBadf
      match writeEvent s.m s.ws out outLen outOffset ud errno eventType with
      | (m, ws, false) => ({ s with m := m, ws := ws }, some .panic)
      | (m, ws, true) => pollLoop fds inp inLen out outLen n fuel (i + 1) { s with m := m, ws := ws, nevents := s.nevents + 1 }
    else (s, some einval)

/-- write the delayed (stdin) events -/
def pollFlush (out outLen : Nat) : List (Nat × Nat) → PollSt → PollSt × Bool
  | [], s => (s, true)
  | (ud, ty) :: rest, s =>
    match writeEvent s.m s.ws out outLen (w32 (s.nevents * 32)) ud 0 ty with
    | (m, ws, false) => ({ s with m := m, ws := ws }, false)
    | (m, ws, true) => pollFlush out outLen rest { s with m := m, ws := ws, nevents := s.nevents + 1 }

/-- poll_oneoff after the three bounds checks: the loop, then the delayed (stdin) events. -/
def pollAfter (fds : Fds) (inp inLen out outLen n res : Nat) (acc : List (Nat × Nat)) (s0 : PollSt) : Res :=
  match pollLoop fds inp inLen out outLen n n 0 s0 with
  | (s, some e) => { err := e, acc := acc, writes := s.ws.reverse }
  | (s, none) =>
    if s.nevents = n then { err := .errno 0, acc := acc, writes := s.ws.reverse } else
    match lookupFd fds FdStdin with
    | none => { err := ebadf, acc := acc, writes := s.ws.reverse }
    | some .stdin =>
      match pollFlush out outLen s.blocking.reverse s with
      | (s, false) => { err := .panic, acc := acc, writes := s.ws.reverse }
      | (s, true) =>
        if s.nevents ≠ n then { err := .errno 0, acc := acc, writes := (Wr.bytes res (bytesLE 4 s.nevents) :: s.ws).reverse }
        else { err := .errno 0, acc := acc, writes := s.ws.reverse }
    | some _ => { err := .any, acc := acc, writes := (Wr.region res 4 :: Wr.region out outLen :: s.ws).reverse }

def pollOneoff (fixed : Bool) (fds : Fds) (m : Mem) (inp out n res : Nat) : Res :=
  if n = 0 then { err := einval } else
  if fixed && decide (n * 48 > 4294967295) then { err := efault } else
  let inLen := w32 (n * 48)
  if !m.has inp inLen then { err := efault } else
  let outLen := w32 (n * 32)
  if !m.has out outLen then { err := efault, acc := [(inp, inLen)] } else
  -- clear(outBuf)
  let m1 := if outLen = 0 then m else m.write out (List.replicate outLen 0)
  let ws := if outLen = 0 then [] else [Wr.bytes out (List.replicate outLen 0)]
  if !m1.has res 4 then { err := efault, acc := [(inp, inLen), (out, outLen)], writes := ws } else
  pollAfter fds inp inLen out outLen n res [(inp, inLen), (out, outLen), (res, 4)]
    { m := m1.write res (bytesLE 4 n), ws := Wr.bytes res (bytesLE 4 n) :: ws, nevents := 0, blocking := [] }

/-- a write that happens when the pointer is inside the memory (the host code does not look at the result, or the
call fails with EFAULT otherwise) -/
def optRegion (m : Mem) (off len : Nat) : List Wr := if m.has off len then [Wr.region off len] else []
def optBytes (m : Mem) (off : Nat) (bs : List Nat) : List Wr := if m.has off bs.length then [Wr.bytes off bs] else []

/-! ### readv / writev (fs.go) -/

inductive Reader where
  | stream (src : List Nat)   -- returns min(len, remaining) bytes
  | enosys                    -- unimplemented: ENOSYS, mapped to EBADF
  | unknown                   -- a real file: host-dependent

structure RvSt where
  m : Mem
  ws : List Wr               -- latest first
  acc : List (Nat × Nat)     -- latest first
  src : List Nat
  nread : Nat

/-- `readv` with a stream reader. `some e` = returned early with `e`. -/
def readvLoop (enosys : Bool) (snap : Option Mem) (iovs iovsStop : Nat) : Nat → Nat → RvSt → RvSt × Option Err
  | 0, _, s => (s, none)
  | fuel + 1, pos, s =>
    if pos ≥ iovsStop then (s, none) else
    -- le.Uint32(iovsBuf[iovsPos:]) and le.Uint32(iovsBuf[iovsPos+4:])
    if pos + 4 > iovsStop then (s, some .panic) else
    -- the entries are read from the live memory (as-is: `snap = none`), or from a copy of the iovec array taken
    -- when the call starts (repaired variant, F62)
    let em := snap.getD s.m
    let offset := le32 em (iovs + pos)
    let p4 := w32 (pos + 4)
    if p4 > iovsStop ∨ p4 + 4 > iovsStop then (s, some .panic) else
    let l := le32 em (iovs + p4)
    let next := w32 (pos + 8)
    if l = 0 then readvLoop enosys snap iovs iovsStop fuel next s else
    if !s.m.has offset l then (s, some efault) else
    let s := { s with acc := (offset, l) :: s.acc }
    if enosys then (s, some ebadf) else
    let k := min l s.src.length
    let bs := s.src.take k
    let s := if k = 0 then s else { s with m := s.m.write offset bs, ws := Wr.bytes offset bs :: s.ws }
    let s := { s with src := s.src.drop k, nread := w32 (s.nread + k) }
    if k < l then (s, none) else readvLoop enosys snap iovs iovsStop fuel next s

/-- all iovec buffers named by the first `cnt` entries that are readable (spec side, over ℕ) -/
def iovRegions (m : Mem) (iovs : Nat) : Nat → Nat → List (Nat × Nat)
  | 0, _ => []
  | cnt + 1, i =>
    if iovs + 8 * i + 8 ≤ m.size then (le32 m (iovs + 8 * i), le32 m (iovs + 8 * i + 4)) :: iovRegions m iovs cnt (i + 1)
    else []

/-- the buffers of the iovec array that `readv` can hand to the reader: those inside the memory -/
def iovWritable (m : Mem) (iovs iovsStop : Nat) : List Wr :=
  ((iovRegions m iovs (min (iovsStop / 8) (m.size / 8 + 1)) 0).filter (fun r => m.has r.1 r.2)).map
    (fun r => Wr.region r.1 r.2)


/-- some readable, non-empty iovec buffer overlaps the iovec array itself: what is read into it may change the
entries that `readv` reads next (F62) -/
def iovAliased (m : Mem) (iovs iovsStop : Nat) : Bool :=
  (iovRegions m iovs (min (iovsStop / 8) (m.size / 8 + 1)) 0).any (fun r =>
    m.has r.1 r.2 && decide (0 < r.2) && decide (r.1 < iovs + iovsStop) && decide (iovs < r.1 + r.2))

/-- `fixedRead` = the repaired `readv` (F62): the iovec array is copied when the call starts -/
def fdReadCommon (fixedRead : Bool) (rd : Reader) (m : Mem) (iovs iovsCount res : Nat) : Res :=
  let iovsStop := w32 (iovsCount * 8)   -- iovsCount << 3
  if !m.has iovs iovsStop then { err := efault } else
  let acc := [(iovs, iovsStop)]
  match rd with
  | .unknown =>
    -- as-is, with host-chosen data read into a buffer that covers later entries: the next reads go wherever that
    -- data says (inside the memory)
    if !fixedRead && iovAliased m iovs iovsStop then { err := .any, acc := acc, writes := [Wr.region 0 m.size] } else
    { err := .any, acc := acc, writes := iovWritable m iovs iovsStop ++ optRegion m res 4 }
  | _ =>
    let (src, en) := match rd with
      | .stream s => (s, false)
      | _ => ([], true)
    match readvLoop en (if fixedRead then some m else none) iovs iovsStop (iovsStop / 8 + 1) 0 { m := m, ws := [], acc := acc, src := src, nread := 0 } with
    | (s, some e) => { err := e, acc := s.acc.reverse, writes := s.ws.reverse }
    | (s, none) =>
      if !s.m.has res 4 then { err := efault, acc := s.acc.reverse, writes := s.ws.reverse }
      else { err := .errno 0, acc := ((res, 4) :: s.acc).reverse, writes := (Wr.bytes res (bytesLE 4 s.nread) :: s.ws).reverse }

def fdRead (fixedRead : Bool) (h : Host) (fds : Fds) (m : Mem) (fd iovs iovsCount res : Nat) : Res :=
  match lookupFd fds fd with
  | none => { err := ebadf }
  | some .stdin => fdReadCommon fixedRead (.stream h.stdin) m iovs iovsCount res
  | some .stdout | some .stderr => fdReadCommon fixedRead .enosys m iovs iovsCount res
  | some _ => fdReadCommon fixedRead .unknown m iovs iovsCount res

def fdPread (fixedRead : Bool) (fds : Fds) (m : Mem) (fd iovs iovsCount res : Nat) : Res :=
  match lookupFd fds fd with
  | none => { err := ebadf }
  | some .stdin | some .stdout | some .stderr => fdReadCommon fixedRead .enosys m iovs iovsCount res
  | some _ => fdReadCommon fixedRead .unknown m iovs iovsCount res

inductive Writer where
  | accept      -- writes everything (stdout/stderr on an io.Writer)
  | enosys      -- unimplemented for every call (Write on stdin)
  | enosysNE    -- unimplemented, but zero-length buffers return early (pwriter on stdio)
  | unknown

/-- `writev`: (acc, nwritten, early error) -/
def writevLoop (w : Writer) (m : Mem) (iovs iovsStop : Nat) : Nat → Nat → List (Nat × Nat) → Nat → List (Nat × Nat) × Nat × Option Err
  | 0, _, acc, nw => (acc, nw, none)
  | fuel + 1, pos, acc, nw =>
    if pos ≥ iovsStop then (acc, nw, none) else
    if pos + 4 > iovsStop then (acc, nw, some .panic) else
    let offset := le32 m (iovs + pos)
    let p4 := w32 (pos + 4)
    if p4 > iovsStop ∨ p4 + 4 > iovsStop then (acc, nw, some .panic) else
    let l := le32 m (iovs + p4)
    if !m.has offset l then (acc, nw, some efault) else
    let acc := (offset, l) :: acc
    match w with
    | .enosys => (acc, nw, some ebadf)
    | .enosysNE => if l = 0 then writevLoop w m iovs iovsStop fuel (w32 (pos + 8)) acc nw else (acc, nw, some ebadf)
    | .unknown => (acc, nw, some .any)
    | .accept => writevLoop w m iovs iovsStop fuel (w32 (pos + 8)) acc (w32 (nw + l))

def fdWriteCommon (w : Writer) (m : Mem) (iovs iovsCount res : Nat) : Res :=
  let iovsStop := w32 (iovsCount * 8)
  if !m.has iovs iovsStop then { err := efault } else
  match writevLoop w m iovs iovsStop (iovsStop / 8 + 1) 0 [(iovs, iovsStop)] 0 with
  | (acc, _, some .any) => { err := .any, acc := acc.reverse, writes := optRegion m res 4 }
  | (acc, _, some e) => { err := e, acc := acc.reverse }
  | (acc, nw, none) =>
    if !m.has res 4 then { err := efault, acc := acc.reverse }
    else { err := .errno 0, acc := ((res, 4) :: acc).reverse, writes := [Wr.bytes res (bytesLE 4 nw)] }

def fdWrite (fds : Fds) (m : Mem) (fd iovs iovsCount res : Nat) : Res :=
  match lookupFd fds fd with
  | none => { err := ebadf }
  | some .stdin => fdWriteCommon .enosys m iovs iovsCount res
  | some .stdout | some .stderr => fdWriteCommon .accept m iovs iovsCount res
  | some _ => fdWriteCommon .unknown m iovs iovsCount res

def fdPwrite (fds : Fds) (m : Mem) (fd iovs iovsCount res : Nat) : Res :=
  match lookupFd fds fd with
  | none => { err := ebadf }
  | some .stdin | some .stdout | some .stderr => fdWriteCommon .enosysNE m iovs iovsCount res
  | some _ => fdWriteCommon .unknown m iovs iovsCount res

/-! ### args_get / environ_get (wasi.go writeOffsetsAndNullTerminatedValues) -/

/-- loop state: (oI, bI, writes); `false` = a host index was out of range -/
def offsetsLoop (offsets offsetsLen bytes bytesLen : Nat) : List (List Nat) → Nat → Nat → List Wr → List Wr × Bool
  | [], _, _, ws => (ws, true)
  | v :: rest, oI, bI, ws =>
    let bytesOffset := w32 (bytes + bI)
    -- offsetsBuf[oI] … offsetsBuf[oI+3], one index check each
    let fit := if oI ≥ offsetsLen then 0 else min 4 (offsetsLen - oI)
    let ws := if fit = 0 then ws else Wr.bytes (offsets + oI) ((bytesLE 4 bytesOffset).take fit) :: ws
    if fit < 4 then (ws, false) else
    let oI := w32 (oI + 4)
    -- copy(bytesBuf[bI:], value)
    if bI > bytesLen then (ws, false) else
    let c := min v.length (bytesLen - bI)
    let ws := if c = 0 then ws else Wr.bytes (bytes + bI) (v.take c) :: ws
    let bI := w32 (bI + v.length)
    -- bytesBuf[bI] = 0
    if bI ≥ bytesLen then (ws, false) else
    offsetsLoop offsets offsetsLen bytes bytesLen rest oI (w32 (bI + 1)) (Wr.bytes (bytes + bI) [0] :: ws)

def writeOffsetsAndValues (m : Mem) (values : List (List Nat)) (offsets bytes bytesLen : Nat) : Res :=
  let offsetsLen := w32 (values.length * 4)
  if !m.has offsets offsetsLen then { err := efault } else
  if !m.has bytes bytesLen then { err := efault, acc := [(offsets, offsetsLen)] } else
  let acc := [(offsets, offsetsLen), (bytes, bytesLen)]
  match offsetsLoop offsets offsetsLen bytes bytesLen values 0 0 [] with
  | (ws, true) => { err := .errno 0, acc := acc, writes := ws.reverse }
  | (ws, false) => { err := .panic, acc := acc, writes := ws.reverse }

def argsGet (h : Host) (m : Mem) (argv argvBuf : Nat) : Res :=
  writeOffsetsAndValues m h.args argv argvBuf (w32 (nulSize h.args))
def environGet (h : Host) (m : Mem) (env envBuf : Nat) : Res :=
  writeOffsetsAndValues m h.env env envBuf (w32 (nulSize h.env))

/-- two consecutive `WriteUint32Le` -/
def write2xU32 (m : Mem) (p1 v1 p2 v2 : Nat) : Res :=
  if !m.has p1 4 then { err := efault } else
  let w1 := Wr.bytes p1 (bytesLE 4 v1)
  if !m.has p2 4 then { err := efault, acc := [(p1, 4)], writes := [w1] } else
  { err := .errno 0, acc := [(p1, 4), (p2, 4)], writes := [w1, Wr.bytes p2 (bytesLE 4 v2)] }

def argsSizesGet (h : Host) (m : Mem) (p1 p2 : Nat) : Res :=
  write2xU32 m p1 (w32 h.args.length) p2 (w32 (nulSize h.args))
def environSizesGet (h : Host) (m : Mem) (p1 p2 : Nat) : Res :=
  write2xU32 m p1 (w32 h.env.length) p2 (w32 (nulSize h.env))

/-! ### clocks, random, prestat -/

def writeU64 (m : Mem) (p v : Nat) : Res :=
  if !m.has p 8 then { err := efault } else { err := .errno 0, acc := [(p, 8)], writes := [Wr.bytes p (bytesLE 8 v)] }

def clockResGet (h : Host) (m : Mem) (id res : Nat) : Res :=
  if id = ClockIDRealtime then writeU64 m res h.wallRes
  else if id = ClockIDMonotonic then writeU64 m res h.monoRes
  else { err := einval }

def clockTimeGet (h : Host) (m : Mem) (id res : Nat) : Res :=
  if id = ClockIDRealtime then writeU64 m res h.wall
  else if id = ClockIDMonotonic then writeU64 m res h.mono
  else { err := einval }

/-- the harness' deterministic random source yields 0,1,2,… (mod 256) -/
def randomGet (m : Mem) (buf bufLen : Nat) : Res :=
  if !m.has buf bufLen then { err := efault } else
  { err := .errno 0, acc := [(buf, bufLen)],
    writes := if bufLen = 0 then [] else [Wr.bytes buf ((List.range bufLen).map (· % 256))] }

/-- `preopenPath`: `none` = EBADF; stdio entries are pre-opens that are not directories: ("", 0). -/
def preopenPath (h : Host) (fds : Fds) (fd : Nat) : Option (List Nat) :=
  match lookupFd fds fd with
  | some .pre => some h.preName
  | some .stdin | some .stdout | some .stderr | some .lsn => some []
  | _ => none

def fdPrestatGet (h : Host) (fds : Fds) (m : Mem) (fd res : Nat) : Res :=
  match preopenPath h fds fd with
  | none => { err := ebadf }
  | some name => writeU64 m res (name.length * 4294967296)

def fdPrestatDirName (h : Host) (fds : Fds) (m : Mem) (fd path pathLen : Nat) : Res :=
  match preopenPath h fds fd with
  | none => { err := ebadf }
  | some name =>
    if w32 name.length < pathLen then { err := .errno ErrnoNametoolong } else
    -- []byte(name)[:pathLen]
    if pathLen > name.length then { err := .panic } else
    if !m.has path pathLen then { err := efault } else
    { err := .errno 0, acc := [(path, pathLen)], writes := if pathLen = 0 then [] else [Wr.bytes path (name.take pathLen)] }

/-! ### descriptor-table functions (internal/sys/fs.go) -/

/-- The decision part of `FSContext.Renumber`: the errno, or (entry, from, to) when the move happens.
`bound = some b` is the repaired variant that rejects targets ≥ b (F16 switch). -/
def renumberCheck (bound : Option Nat) (fds : Fds) (fromFd toFd : Nat) : Except Err (Kind × Int × Int) :=
  let src := toI32 fromFd
  let dst := toI32 toFd
  match DescTable.lookup fds src with
  | none => .error ebadf
  | some k =>
    if dst < 0 then .error ebadf else
    if k.isPreopen then .error (.errno ErrnoNotsup) else
    if (match bound with | some b => decide (dst.toNat ≥ b) | none => false) then .error ebadf else
    match DescTable.lookup fds dst with
    | some k2 => if k2.isPreopen then .error (.errno ErrnoNotsup) else .ok (k, src, dst)
    | none => .ok (k, src, dst)

/-- item slots after `InsertAt(_, dst)` (see `Wz.C15.insertAt_slots`) -/
def slotsAfterInsertAt (fds : Fds) (dst : Int) : Nat := max (DescTable.slots fds) (64 * (dst.toNat / 64 + 1))

/-- `FSContext.Renumber`: Delete(from) then InsertAt(file, to). `alloc`: 8 bytes per new item slot. -/
def renumber (bound : Option Nat) (fds : Fds) (fromFd toFd : Nat) : Res :=
  match renumberCheck bound fds fromFd toFd with
  | .error e => { err := e }
  | .ok (k, src, dst) =>
    let t := (DescTable.insertAt (DescTable.delete fds src) k dst).1
    { err := .errno 0, fds := some t, alloc := 8 * (DescTable.slots t - DescTable.slots fds) }

def fdClose (fds : Fds) (fd : Nat) : Res :=
  match lookupFd fds fd with
  | none => { err := ebadf }
  | some _ => { err := .errno 0, fds := some (DescTable.delete fds (toI32 fd)) }

/-- result buffer is read (checked) before the descriptor is looked up -/
def statLike (fds : Fds) (m : Mem) (fd res size : Nat) : Res :=
  if !m.has res size then { err := efault } else
  match lookupFd fds fd with
  | none => { err := ebadf, acc := [(res, size)] }
  | some _ => { err := .any, acc := [(res, size)], writes := [Wr.region res size] }

/-- descriptor looked up first, result written last (fd_seek, fd_tell) -/
def seekLike (fds : Fds) (m : Mem) (fd res : Nat) : Res :=
  match lookupFd fds fd with
  | none => { err := ebadf }
  | some _ => { err := .any, writes := optRegion m res 8 }

end Wz.Model.Wasi
