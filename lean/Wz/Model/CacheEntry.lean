/-
C13 — model of the wazevo compilation-cache entry (internal/engine/wazevo/engine_cache.go):
`serializeCompiledModule`, `deserializeCompiledModule`, `getCompiledModuleFromCache`, byte for byte,
over an abstract checksum function `crc : Bytes → Nat` (the real one is CRC-32/Castagnoli, given below
as `crc32c` for the oracle).  Core Lean only.

Bytes are natural numbers (a real byte is < 256; nothing below depends on that bound except the
little-endian codec, which reduces mod 256 itself).
-/
import Wz.Gen.FileCache

namespace Wz.Model.CacheEntry

abbrev Bytes := List Nat

/-- `n` little-endian bytes of `v` (`u32.LeBytes`, `u64.LeBytes`; the conversion `uint32(x)`/`uint64(x)` is the
reduction modulo 256^n) -/
def le : Nat → Nat → Bytes
  | 0, _ => []
  | n + 1, v => (v % 256) :: le n (v / 256)

/-- `binary.LittleEndian.Uint32/Uint64` -/
def leDec : Bytes → Nat
  | [] => 0
  | b :: r => b + 256 * leDec r

/-- the part of `compiledModule` that is written to the cache -/
structure CM where
  /-- `functionOffsets` -/
  offsets : List Nat
  /-- `executable` -/
  exec : Bytes
  /-- `sourceMap`: pairs (wasmBinaryOffset, executableOffset relative to the executable's start) -/
  srcMap : List (Nat × Nat)
  deriving DecidableEq, Repr

/-- what `serializeCompiledModule` can represent without wrap-around; a compiled module without code has no
source map (`&cm.executable[0]` would panic in the serializer otherwise). -/
structure CM.WF (cm : CM) : Prop where
  noffs : cm.offsets.length < 2 ^ 32
  offs : ∀ o ∈ cm.offsets, o < 2 ^ 64
  execLen : cm.exec.length < 2 ^ 64
  smLen : cm.srcMap.length < 2 ^ 64
  sm : ∀ p ∈ cm.srcMap, p.1 < 2 ^ 64 ∧ p.2 < 2 ^ 64
  smExec : cm.exec = [] → cm.srcMap = []

def serSrcMap (sm : List (Nat × Nat)) : Bytes :=
  if sm.isEmpty then [0]
  else [1] ++ le 8 sm.length ++ sm.flatMap (fun p => le 8 p.1 ++ le 8 p.2)

/-- `serializeCompiledModule(wazeroVersion, cm)` -/
def serialize (crc : Bytes → Nat) (magic ver : Bytes) (cm : CM) : Bytes :=
  magic ++ [ver.length % 256] ++ ver ++ le 4 cm.offsets.length ++ cm.offsets.flatMap (le 8)
    ++ le 8 cm.exec.length ++ cm.exec ++ le 4 (crc cm.exec) ++ serSrcMap cm.srcMap

/-- result of a parse: value and the unread rest, or one of the three refusals -/
inductive R (α : Type) where
  | ok (a : α) (rest : Bytes)
  | stale
  | err (what : String)
  | panic (what : String)
  deriving Repr

/-- `readUint64`: one `Read` of 8 bytes; fewer than 8 (or none: EOF) is an error -/
def readU64 (r : Bytes) : Option (Nat × Bytes) :=
  if r.length < 8 then none else some (leDec (r.take 8), r.drop 8)

/-- `io.ReadFull(reader, buf[:n])` -/
def readFull (n : Nat) (r : Bytes) : Option (Bytes × Bytes) :=
  if r.length < n then none else some (r.take n, r.drop n)

/-- the loop over `functionsNum` offsets -/
def readOffsets : Nat → Bytes → Option (List Nat × Bytes)
  | 0, r => some ([], r)
  | n + 1, r =>
    match readU64 r with
    | none => none
    | some (x, r') =>
      match readOffsets n r' with
      | none => none
      | some (xs, r'') => some (x :: xs, r'')

/-- the loop over `sourceMapLen` pairs -/
def readPairs : Nat → Bytes → Option (List (Nat × Nat) × Bytes)
  | 0, r => some ([], r)
  | n + 1, r =>
    match readU64 r with
    | none => none
    | some (a, r1) =>
      match readU64 r1 with
      | none => none
      | some (b, r2) =>
        match readPairs n r2 with
        | none => none
        | some (ps, r3) => some ((a, b) :: ps, r3)

/-- the tail of `deserializeCompiledModule`: source-map presence byte and the optional source map -/
def deserSrcMap (offs : List Nat) (exec : Bytes) (r : Bytes) : R CM :=
  match r with
  | [] => .err "error reading source map presence"
  | flag :: r1 =>
    if flag = 1 then
      match readU64 r1 with
      | none => .err "error reading source map length"
      | some (n, r2) =>
        -- executableOffset := uintptr(unsafe.Pointer(&cm.executable[0]))
        if exec = [] then .panic "index out of range [0] with length 0"
        else
          match readPairs n r2 with
          | none => .err "error reading source map["
          | some (sm, r3) => .ok ⟨offs, exec, sm⟩ r3
    else .ok ⟨offs, exec, []⟩ r1

/-- `deserializeCompiledModule(wazeroVersion, reader)` on a file holding `e` -/
def deserializeR (crc : Bytes → Nat) (magic ver e : Bytes) : R CM :=
  let H := magic.length + 1 + ver.length + 4
  if e.length = 0 then .err "error reading header"
  else if e.length < H then .err "invalid header length"
  else
    let header := e.take H
    let r := e.drop H
    if header.take magic.length ≠ magic then .err "invalid magic number"
    else
      let vs := header.getD magic.length 0
      let vend := magic.length + 1 + vs
      if vend ≥ H then .stale
      else if (header.drop (magic.length + 1)).take vs ≠ ver then .stale
      else
        let nf := leDec (header.drop (H - 4))
        match readOffsets nf r with
        | none => .err "error reading func["
        | some (offs, r1) =>
          match readU64 r1 with
          | none => .err "error reading executable size"
          | some (el, r2) =>
            if el > 0 then
              match readFull el r2 with
              | none => .err "executable"   -- "error mmapping executable" or "error reading executable"
              | some (exec, r3) =>
                match readFull 4 r3 with
                | none => .err "could not read checksum"
                | some (c, r4) =>
                  if leDec c ≠ crc exec % 2 ^ 32 then .err "checksum mismatch"
                  else deserSrcMap offs exec r4
            else deserSrcMap offs [] r2

/-- the caller-visible result -/
inductive Res where
  | ok (cm : CM)
  | stale
  | err (what : String)
  | panic (what : String)
  deriving DecidableEq, Repr

def deserialize (crc : Bytes → Nat) (magic ver e : Bytes) : Res :=
  match deserializeR crc magic ver e with
  | .ok cm _ => .ok cm
  | .stale => .stale
  | .err s => .err s
  | .panic s => .panic s

/-- what `getCompiledModuleFromCache` + `CompileModule` do with the file found under the key -/
structure Outcome where
  /-- machine code taken from the cache and executed later -/
  code : Option CM
  /-- `fileCache.Delete(key)` was called -/
  deleted : Bool
  /-- `CompileModule` returns this error -/
  error : Option String
  /-- the module is compiled afresh (and added again) -/
  recompiled : Bool
  deriving DecidableEq, Repr

def getFromCache (crc : Bytes → Nat) (magic ver : Bytes) (entry : Option Bytes) : Outcome :=
  match entry with
  | none => ⟨none, false, none, true⟩
  | some e =>
    match deserialize crc magic ver e with
    | .ok cm => ⟨some cm, false, none, false⟩
    | .stale => ⟨none, true, none, true⟩
    | .err s => ⟨none, false, some s, false⟩
    | .panic s => ⟨none, false, some s, false⟩

/-! ### CRC-32/Castagnoli (reflected polynomial 0x82F63B78), for the oracle only -/

def crcBit (c : Nat) : Nat := if c % 2 = 1 then (c / 2) ^^^ 0x82F63B78 else c / 2

def crcByte (c b : Nat) : Nat :=
  let c := c ^^^ (b % 256)
  crcBit (crcBit (crcBit (crcBit (crcBit (crcBit (crcBit (crcBit c)))))))

def crc32c (bs : Bytes) : Nat := (bs.foldl crcByte 0xFFFFFFFF) ^^^ 0xFFFFFFFF

def magic : Bytes := Wz.Gen.FileCache.magic

end Wz.Model.CacheEntry
