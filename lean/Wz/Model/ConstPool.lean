/-
C05 (and C01), compiler amd64 back end: the per-function constant pool.

`machine.getOrAllocateConstLabel(&m.<indexField>, data)` (isa/amd64/machine.go) returns the label cached in the
index field when there is one - ignoring `data` - and otherwise allocates a label for `data` and caches it.
Every instruction lowered in the same function shares the machine, hence the cache.
-/
namespace Wz.Model.ConstPool

/-- index field ↦ the data whose label it caches -/
abbrev Pool := List (String × String)

def getOrAlloc (p : Pool) (idx data : String) : Pool × String :=
  match p.lookup idx with
  | some d => (p, d)
  | none => ((idx, data) :: p, data)

/-- the constants that a sequence of uses (index field, data it asks for) actually gets, in one function -/
def runUses : Pool → List (String × String) → List String
  | _, [] => []
  | p, (i, d) :: us => (getOrAlloc p i d).2 :: runUses (getOrAlloc p i d).1 us

/-- no index field is used with two different data variables -/
def Functional (us : List (String × String)) : Prop :=
  ∀ a ∈ us, ∀ b ∈ us, a.1 = b.1 → a.2 = b.2

theorem runUses_inv (p : Pool) (us : List (String × String))
    (hp : ∀ e ∈ p, ∀ u ∈ us, u.1 = e.1 → u.2 = e.2) (hf : Functional us) :
    runUses p us = us.map (·.2) := by
  induction us generalizing p with
  | nil => rfl
  | cons u us ih =>
    obtain ⟨i, d⟩ := u
    have hf' : Functional us := fun a ha b hb => hf a (List.mem_cons_of_mem _ ha) b (List.mem_cons_of_mem _ hb)
    simp only [runUses, List.map_cons]
    cases hl : p.lookup i with
    | some d' =>
      have hmem : (i, d') ∈ p := by
        clear hp ih
        induction p with
        | nil => simp [List.lookup] at hl
        | cons e es ihp =>
          obtain ⟨k, v⟩ := e
          by_cases hk : i = k
          · subst hk; simp [List.lookup] at hl; subst hl; exact List.mem_cons_self ..
          · have : (i == k) = false := by simpa using hk
            simp [List.lookup, this] at hl
            exact List.mem_cons_of_mem _ (ihp hl)
      have hd : d = d' := hp (i, d') hmem (i, d) (List.mem_cons_self ..) rfl
      simp only [getOrAlloc, hl, hd]
      congr 1
      exact ih p (fun e he u hu => hp e he u (List.mem_cons_of_mem _ hu)) hf'
    | none =>
      simp only [getOrAlloc, hl]
      congr 1
      apply ih _ _ hf'
      intro e he u hu hue
      cases he with
      | head => exact hf u (List.mem_cons_of_mem _ hu) (i, d) (List.mem_cons_self ..) hue
      | tail _ he' => exact hp e he' u (List.mem_cons_of_mem _ hu) hue

/-- If no index field is paired with two data variables, every use gets exactly the constant it asks for,
whatever else is lowered in the same function and in whatever order. -/
theorem each_use_gets_its_constant (us : List (String × String)) (hf : Functional us) :
    runUses [] us = us.map (·.2) :=
  runUses_inv [] us (fun e he => by cases he) hf

end Wz.Model.ConstPool
