/-
C01, optimizing compiler (wazevo): the SSA-level optimisation passes.

A fragment of wazevo's SSA (internal/engine/wazevo/ssa): functions made of basic blocks with block
parameters, integer instructions over i32/i64, loads, stores, calls, trapping instructions, conditional
and unconditional branches with block arguments, `Return`.  An executable semantics, and the passes of
`builder.runPreBlockLayoutPasses` (pass.go) as total functions:

  passSortSuccessors / passDeadBlockEliminationOpt   `deadBlockElim`
  passCalculateImmediateDominators (reverse post-order only)   `rpo`
  passRedundantPhiEliminationOpt                     `redundantPhiElim`
  passNopInstElimination                             `nopElim`
  passDeadCodeEliminationOpt (+ instruction groups)  `dce`, `gidsOf`

Core Lean only (the oracle links this file).  The tie to the Go code is the harness `harness/cmd/hssa`.
-/
namespace Wz.Model.SsaPass

abbrev Val := Nat
abbrev BlockId := Nat

inductive Ty where
  | i32 | i64
deriving DecidableEq, Repr, Inhabited

def Ty.bits : Ty → Nat
  | .i32 => 32
  | .i64 => 64

/-- side-effect classes of ssa/instructions.go -/
inductive Eff where
  | none | traps | strict
deriving DecidableEq, Repr

/-- the opcodes of the fragment, by their Go names (`Opcode…`) -/
inductive Opcode where
  | Iconst | Iadd | Isub | Imul | Band | Bor | Bxor | Ishl | Ushr | Sshr | Rotl | Rotr
  | Icmp | Select | Clz | Ctz | Popcnt | UExtend | SExtend | Ireduce
  | Load | Store | Istore8 | Istore16 | Istore32 | Call
  | Udiv | Sdiv | Urem | Srem | ExitWithCode | ExitIfTrueWithCode
  | Jump | Brz | Brnz | Return
deriving DecidableEq, Repr

/-- `instructionSideEffects` restricted to the fragment: a parameter-free table. -/
def sideEffect : Opcode → Eff
  | .Iconst => .none | .Iadd => .none | .Isub => .none | .Imul => .none
  | .Band => .none | .Bor => .none | .Bxor => .none
  | .Ishl => .none | .Ushr => .none | .Sshr => .none | .Rotl => .none | .Rotr => .none
  | .Icmp => .none | .Select => .none | .Clz => .none | .Ctz => .none | .Popcnt => .none
  | .UExtend => .none | .SExtend => .none | .Ireduce => .none
  | .Load => .none
  | .Store => .strict | .Istore8 => .strict | .Istore16 => .strict | .Istore32 => .strict
  | .Call => .strict
  | .Udiv => .traps | .Sdiv => .traps | .Urem => .traps | .Srem => .traps
  | .ExitWithCode => .strict | .ExitIfTrueWithCode => .strict
  | .Jump => .strict | .Brz => .strict | .Brnz => .strict | .Return => .strict

inductive BinOp where
  | iadd | isub | imul | band | bor | bxor | ishl | ushr | sshr | rotl | rotr
deriving DecidableEq, Repr

inductive UnOp where
  | clz | ctz | popcnt | uextend | sextend | ireduce
deriving DecidableEq, Repr

inductive DivOp where
  | udiv | sdiv | urem | srem
deriving DecidableEq, Repr

/-- `IntegerCmpCond` -/
inductive Cond where
  | eq | ne | slt | sge | sgt | sle | ult | uge | ugt | ule
deriving DecidableEq, Repr

inductive StoreOp where
  | store | istore8 | istore16 | istore32
deriving DecidableEq, Repr

/-- Instructions.  `r` is the result value, `ty` the type of the result (for `icmp` the type of the operands; the
result of `icmp` is i32), the remaining value fields are the operands in the order of `Instruction.Args()`
(`v, v2, v3, vs`).  `ctx` is the execution-context operand of the trapping instructions: it is not looked at
by the semantics but it is a use. -/
inductive Instr where
  | iconst (r : Val) (ty : Ty) (c : Nat)
  | bin (op : BinOp) (r : Val) (ty : Ty) (x y : Val)
  | icmp (r : Val) (ty : Ty) (c : Cond) (x y : Val)
  | select (r : Val) (ty : Ty) (c x y : Val)
  | un (op : UnOp) (r : Val) (ty : Ty) (x : Val)
  | load (r : Val) (ty : Ty) (ptr : Val) (off : Nat)
  | store (op : StoreOp) (ty : Ty) (v ptr : Val) (off : Nat)
  | call (fn sig : Nat) (rs : List (Val × Ty)) (args : List Val)
  | div (op : DivOp) (r : Val) (ty : Ty) (x y ctx : Val)
  | exitIf (ctx c : Val) (code : Nat)
  | exit (ctx : Val) (code : Nat)
  | jump (tgt : BlockId) (args : List Val)
  | brz (c : Val) (tgt : BlockId) (args : List Val)
  | brnz (c : Val) (tgt : BlockId) (args : List Val)
  | ret (vs : List Val)
deriving DecidableEq, Repr

def BinOp.opcode : BinOp → Opcode
  | .iadd => .Iadd | .isub => .Isub | .imul => .Imul | .band => .Band | .bor => .Bor | .bxor => .Bxor
  | .ishl => .Ishl | .ushr => .Ushr | .sshr => .Sshr | .rotl => .Rotl | .rotr => .Rotr

def UnOp.opcode : UnOp → Opcode
  | .clz => .Clz | .ctz => .Ctz | .popcnt => .Popcnt | .uextend => .UExtend | .sextend => .SExtend
  | .ireduce => .Ireduce

def DivOp.opcode : DivOp → Opcode
  | .udiv => .Udiv | .sdiv => .Sdiv | .urem => .Urem | .srem => .Srem

def StoreOp.opcode : StoreOp → Opcode
  | .store => .Store | .istore8 => .Istore8 | .istore16 => .Istore16 | .istore32 => .Istore32

def Instr.opcode : Instr → Opcode
  | .iconst .. => .Iconst
  | .bin op .. => op.opcode
  | .icmp .. => .Icmp
  | .select .. => .Select
  | .un op .. => op.opcode
  | .load .. => .Load
  | .store op .. => op.opcode
  | .call .. => .Call
  | .div op .. => op.opcode
  | .exitIf .. => .ExitIfTrueWithCode
  | .exit .. => .ExitWithCode
  | .jump .. => .Jump
  | .brz .. => .Brz
  | .brnz .. => .Brnz
  | .ret .. => .Return

/-- `Instruction.sideEffect()` -/
def Instr.eff (i : Instr) : Eff := sideEffect i.opcode

/-- the values an instruction defines -/
def Instr.results : Instr → List Val
  | .iconst r .. => [r]
  | .bin _ r .. => [r]
  | .icmp r .. => [r]
  | .select r .. => [r]
  | .un _ r .. => [r]
  | .load r .. => [r]
  | .call _ _ rs _ => rs.map (·.1)
  | .div _ r .. => [r]
  | _ => []

/-- `Instruction.Args()`: `v, v2, v3, vs…` -/
def Instr.operands : Instr → List Val
  | .iconst .. => []
  | .bin _ _ _ x y => [x, y]
  | .icmp _ _ _ x y => [x, y]
  | .select _ _ c x y => [c, x, y]
  | .un _ _ _ x => [x]
  | .load _ _ p _ => [p]
  | .store _ _ v p _ => [v, p]
  | .call _ _ _ args => args
  | .div _ _ _ x y ctx => [x, y, ctx]
  | .exitIf ctx c _ => [ctx, c]
  | .exit ctx _ => [ctx]
  | .jump _ args => args
  | .brz c _ args => c :: args
  | .brnz c _ args => c :: args
  | .ret vs => vs

/-- rewrite every operand (`resolveArgumentAlias` with `g` = `resolveAlias`) -/
def Instr.mapOperands (g : Val → Val) : Instr → Instr
  | .iconst r ty c => .iconst r ty c
  | .bin op r ty x y => .bin op r ty (g x) (g y)
  | .icmp r ty c x y => .icmp r ty c (g x) (g y)
  | .select r ty c x y => .select r ty (g c) (g x) (g y)
  | .un op r ty x => .un op r ty (g x)
  | .load r ty p off => .load r ty (g p) off
  | .store op ty v p off => .store op ty (g v) (g p) off
  | .call fn sig rs args => .call fn sig rs (args.map g)
  | .div op r ty x y ctx => .div op r ty (g x) (g y) (g ctx)
  | .exitIf ctx c code => .exitIf (g ctx) (g c) code
  | .exit ctx code => .exit (g ctx) code
  | .jump t args => .jump t (args.map g)
  | .brz c t args => .brz (g c) t (args.map g)
  | .brnz c t args => .brnz (g c) t (args.map g)
  | .ret vs => .ret (vs.map g)

/-- target and block arguments of a branch (`BranchData`) -/
def Instr.branch? : Instr → Option (BlockId × List Val)
  | .jump t args => some (t, args)
  | .brz _ t args => some (t, args)
  | .brnz _ t args => some (t, args)
  | _ => none

def Instr.setBranchArgs (as : List Val) : Instr → Instr
  | .jump t _ => .jump t as
  | .brz c t _ => .brz c t as
  | .brnz c t _ => .brnz c t as
  | i => i

structure Block where
  id : BlockId
  /-- id of the block's first instruction: the sort key of `passSortSuccessors` (`sortBlocks`) and of
  the order of `basicBlock.preds` (blocks are filled one after the other) -/
  key : Nat
  /-- `basicBlock.invalid`, set by dead-block elimination -/
  invalid : Bool
  params : List (Val × Ty)
  instrs : List Instr
deriving DecidableEq, Repr

/-- A function: its blocks in allocation order (the first one is the entry block, `basicBlocksPool.View(0)`)
and the alias table `valuesInfo[·].alias`, kept in resolved form: the target of an entry is never a key, so
`resolveAlias`, which follows chains in the Go code, is one lookup here. -/
structure Func where
  blocks : List Block
  alias : List (Val × Val)
deriving DecidableEq, Repr

/-! ### aliases -/

def aliasGet (al : List (Val × Val)) (v : Val) : Option Val :=
  match al with
  | [] => none
  | (k, t) :: rest => if k = v then some t else aliasGet rest v

/-- `builder.resolveAlias` -/
def res (al : List (Val × Val)) (v : Val) : Val := (aliasGet al v).getD v

/-- `builder.alias(dst, src)` on the resolved form: the source is resolved first, entries that point to `dst`
are redirected.  Where the Go code would build a cycle (and `resolveAlias` would not terminate), or where
`dst` has an alias already, nothing is recorded. -/
def aliasInsert (al : List (Val × Val)) (dst src : Val) : List (Val × Val) :=
  let t := res al src
  if t = dst then al
  else if (aliasGet al dst).isSome then al
  else (dst, t) :: al.map (fun e => (e.1, if e.2 = dst then t else e.2))

/-! ### semantics -/

def norm (ty : Ty) (n : Nat) : Nat := n % 2 ^ ty.bits

def evalBin (op : BinOp) (ty : Ty) (x y : Nat) : Nat :=
  let w := ty.bits
  let a := BitVec.ofNat w x
  let b := BitVec.ofNat w y
  let s := y % w
  match op with
  | .iadd => (a + b).toNat
  | .isub => (a - b).toNat
  | .imul => (a * b).toNat
  | .band => (a &&& b).toNat
  | .bor => (a ||| b).toNat
  | .bxor => (a ^^^ b).toNat
  | .ishl => (a <<< s).toNat
  | .ushr => (a >>> s).toNat
  | .sshr => (a.sshiftRight s).toNat
  | .rotl => (a.rotateLeft s).toNat
  | .rotr => (a.rotateRight s).toNat

def evalCond (c : Cond) (ty : Ty) (x y : Nat) : Nat :=
  let w := ty.bits
  let a := BitVec.ofNat w x
  let b := BitVec.ofNat w y
  let r : Bool := match c with
    | .eq => a == b
    | .ne => a != b
    | .slt => a.slt b
    | .sge => !(a.slt b)
    | .sgt => b.slt a
    | .sle => !(b.slt a)
    | .ult => a.ult b
    | .uge => !(a.ult b)
    | .ugt => b.ult a
    | .ule => !(b.ult a)
  if r then 1 else 0

/-- number of leading zero bits of `x < 2^w` -/
def clz (w x : Nat) : Nat := if x % 2 ^ w = 0 then w else w - 1 - Nat.log2 (x % 2 ^ w)

def ctzAux (x : Nat) : Nat → Nat → Nat
  | 0, acc => acc
  | k + 1, acc => if x % 2 = 1 then acc else ctzAux (x / 2) k (acc + 1)

def ctz (w x : Nat) : Nat := if x % 2 ^ w = 0 then w else ctzAux (x % 2 ^ w) w 0

def popcntAux (x : Nat) : Nat → Nat
  | 0 => 0
  | k + 1 => x % 2 + popcntAux (x / 2) k

def popcnt (w x : Nat) : Nat := popcntAux (x % 2 ^ w) w

/-- `ty` is the type of the result; extensions are from 32 to 64 bits, the reduction is to 32 bits -/
def evalUn (op : UnOp) (ty : Ty) (x : Nat) : Nat :=
  match op with
  | .clz => clz ty.bits x
  | .ctz => ctz ty.bits x
  | .popcnt => popcnt ty.bits x
  | .uextend => norm ty (x % 2 ^ 32)
  | .sextend => norm ty ((BitVec.ofNat 32 x).signExtend 64).toNat
  | .ireduce => norm ty x

def codeDivByZero : Nat := 10   -- wazevoapi.ExitCodeIntegerDivisionByZero
def codeOverflow : Nat := 11    -- wazevoapi.ExitCodeIntegerOverflow

/-- result or trap code -/
def evalDiv (op : DivOp) (ty : Ty) (x y : Nat) : Except Nat Nat :=
  let w := ty.bits
  let a := BitVec.ofNat w x
  let b := BitVec.ofNat w y
  if b.toNat = 0 then .error codeDivByZero
  else match op with
    | .udiv => .ok (a.udiv b).toNat
    | .urem => .ok (a.umod b).toNat
    | .sdiv => if a = BitVec.intMin w ∧ b = BitVec.allOnes w then .error codeOverflow else .ok (a.sdiv b).toNat
    | .srem => .ok (a.srem b).toNat

/-- memory: a write log (address, byte), newest first; unwritten bytes are 0 -/
abbrev Mem := List (Nat × Nat)

def memRead (m : Mem) (a : Nat) : Nat :=
  match m with
  | [] => 0
  | (k, b) :: rest => if k = a then b else memRead rest a

/-- little-endian read of `n` bytes -/
def memLoad (m : Mem) (a : Nat) : Nat → Nat
  | 0 => 0
  | n + 1 => memRead m a + 256 * memLoad m (a + 1) n

/-- little-endian write of the low `n` bytes of `v` -/
def memStore (m : Mem) (a v : Nat) : Nat → Mem
  | 0 => m
  | n + 1 => memStore ((a, v % 256) :: m) (a + 1) (v / 256) n

def StoreOp.bytes (op : StoreOp) (ty : Ty) : Nat :=
  match op with
  | .store => ty.bits / 8
  | .istore8 => 1
  | .istore16 => 2
  | .istore32 => 4

/-- What a call does is not known to the compiler: an arbitrary function of the callee, the argument values
and the memory; `none` is a trap inside the callee. -/
structure World where
  call : Nat → List Nat → Mem → Option (Mem × List Nat)

structure St where
  env : Val → Nat
  mem : Mem
  trace : List (Nat × List Nat)

def upd (f : Val → Nat) (k : Val) (v : Nat) : Val → Nat := fun x => if x = k then v else f x

def St.set (s : St) (r : Val) (v : Nat) : St := { s with env := upd s.env r v }

/-- bind results / block parameters: each value is reduced to its declared type; missing values are 0 -/
def bindVals (env : Val → Nat) : List (Val × Ty) → List Nat → Val → Nat
  | [], _ => env
  | (r, ty) :: rs, vs => bindVals (upd env r (norm ty (vs.headD 0))) rs vs.tail

inductive Ctl where
  | next (st : St)
  | goto (b : BlockId) (args : List Nat) (st : St)
  | ret (vs : List Nat) (st : St)
  | trap (code : Nat) (st : St)

def codeCallTrap : Nat := 0

/-- One instruction; `ρ` reads an operand (the environment after alias resolution). -/
def execInstr (w : World) (ρ : Val → Nat) (i : Instr) (st : St) : Ctl :=
  match i with
  | .iconst r ty c => .next (st.set r (norm ty c))
  | .bin op r ty x y => .next (st.set r (evalBin op ty (ρ x) (ρ y)))
  | .icmp r ty c x y => .next (st.set r (evalCond c ty (ρ x) (ρ y)))
  | .select r ty c x y => .next (st.set r (norm ty (if ρ c ≠ 0 then ρ x else ρ y)))
  | .un op r ty x => .next (st.set r (evalUn op ty (ρ x)))
  | .load r ty p off => .next (st.set r (norm ty (memLoad st.mem ((ρ p + off) % 2 ^ 64) (ty.bits / 8))))
  | .store op ty v p off =>
    .next { st with mem := memStore st.mem ((ρ p + off) % 2 ^ 64) (ρ v) (op.bytes ty) }
  | .call fn _ rs args =>
    let avs := args.map ρ
    let st1 := { st with trace := st.trace ++ [(fn, avs)] }
    match w.call fn avs st.mem with
    | none => .trap codeCallTrap st1
    | some (m, outs) => .next { st1 with env := bindVals st1.env rs outs, mem := m }
  | .div op r ty x y _ =>
    match evalDiv op ty (ρ x) (ρ y) with
    | .ok v => .next (st.set r v)
    | .error code => .trap code st
  | .exitIf _ c code => if ρ c ≠ 0 then .trap code st else .next st
  | .exit _ code => .trap code st
  | .jump t args => .goto t (args.map ρ) st
  | .brz c t args => if ρ c = 0 then .goto t (args.map ρ) st else .next st
  | .brnz c t args => if ρ c ≠ 0 then .goto t (args.map ρ) st else .next st
  | .ret vs => .ret (vs.map ρ) st

/-- the instructions of a block in order, up to the first transfer of control; `none`: fell off the end -/
def execBody (w : World) (al : List (Val × Val)) : List Instr → St → Option Ctl
  | [], _ => none
  | i :: is, st =>
    match execInstr w (fun v => st.env (res al v)) i st with
    | .next st' => execBody w al is st'
    | c => some c

inductive Outcome where
  | values (vs : List Nat) (mem : Mem) (trace : List (Nat × List Nat))
  | trap (code : Nat) (mem : Mem) (trace : List (Nat × List Nat))
  | outOfFuel
  /-- malformed function: branch to a missing (or invalid) block, arity mismatch, block without terminator -/
  | error
deriving DecidableEq, Repr

def Func.findBlock (f : Func) (b : BlockId) : Option Block :=
  f.blocks.find? (fun B => B.id = b ∧ ¬ B.invalid)

/-- Run from the entry of block `b` with the argument values `args`; one unit of fuel per block entered. -/
def runFrom (w : World) (f : Func) : Nat → BlockId → List Nat → St → Outcome
  | 0, _, _, _ => .outOfFuel
  | n + 1, b, args, st =>
    match f.findBlock b with
    | none => .error
    | some B =>
      if B.params.length ≠ args.length then .error
      else
        match execBody w f.alias B.instrs { st with env := bindVals st.env B.params args } with
        | some (.goto b' args' st') => runFrom w f n b' args' st'
        | some (.ret vs st') => .values vs st'.mem st'.trace
        | some (.trap c st') => .trap c st'.mem st'.trace
        | _ => .error

def St.init : St := { env := fun _ => 0, mem := [], trace := [] }

def Func.entry (f : Func) : BlockId := (f.blocks.head?.map (·.id)).getD 0

def run (w : World) (f : Func) (args : List Nat) (fuel : Nat) : Outcome :=
  runFrom w f fuel f.entry args St.init

/-! ### CFG helpers -/

/-- successors in the order of `basicBlock.success` before sorting: the branch instructions in order -/
def Block.succs (B : Block) : List BlockId := B.instrs.filterMap (fun i => i.branch?.map (·.1))

def Func.blockAny (f : Func) (b : BlockId) : Option Block := f.blocks.find? (fun B => B.id = b)

def insertBy (key : BlockId → Nat) (x : BlockId) : List BlockId → List BlockId
  | [] => [x]
  | y :: ys => if key x < key y then x :: y :: ys else y :: insertBy key x ys

/-- `passSortSuccessors`: successors in the order of their first instruction -/
def Func.sortedSuccs (f : Func) (B : Block) : List BlockId :=
  let key := fun b => ((f.blockAny b).map (·.key)).getD 0
  B.succs.foldl (fun acc x => insertBy key x acc) []

/-! ### passDeadBlockEliminationOpt -/

/-- The stack loop of `passDeadBlockEliminationOpt`: pop, mark visited, push the successors not yet visited.
`none`: out of fuel. -/
def reachLoop (f : Func) : Nat → List BlockId → List BlockId → Option (List BlockId)
  | 0, _, _ => none
  | _ + 1, [], vis => some vis
  | n + 1, b :: stk, vis =>
    let vis' := if b ∈ vis then vis else b :: vis
    let ss := match f.blockAny b with
      | some B => (f.sortedSuccs B).filter (fun s => s ∉ vis')
      | none => []
    reachLoop f n (ss.reverse ++ stk) vis'

def Func.numInstrs (f : Func) : Nat := (f.blocks.map (·.instrs.length)).sum

def reachable (f : Func) : Option (List BlockId) :=
  reachLoop f (2 * (f.blocks.length + f.numInstrs) + 2) [f.entry] []

/-- blocks not reached from the entry become `invalid` (they stay in the pool, and so do their branches in
the predecessor lists of their targets) -/
def deadBlockElim (f : Func) : Func :=
  match reachable f with
  | none => f
  | some vis => { f with blocks := f.blocks.map (fun B => if B.id ∈ vis then B else { B with invalid := true }) }

/-! ### passCalculateImmediateDominators: the reverse post-order -/

/-- The explore loop: a block is popped twice, first in state `seen` (it is pushed back, then its unseen valid
successors), then in state `done` (it is appended to the post-order).  `post` is built reversed. -/
def rpoLoop (f : Func) : Nat → List BlockId → List BlockId → List BlockId → List BlockId → List BlockId
  | 0, _, _, _, post => post
  | _ + 1, [], _, _, post => post
  | n + 1, b :: stk, seen, done, post =>
    if b ∈ done then rpoLoop f n stk seen done (b :: post)
    else
      let ss := match f.findBlock b with
        | some B => (f.sortedSuccs B).filter (fun s => (f.findBlock s).isSome ∧ s ∉ seen)
        | none => []
      let ss := ss.eraseDups
      rpoLoop f n (ss.reverse ++ b :: stk) (ss ++ seen) (b :: done) post

def rpo (f : Func) : List BlockId :=
  rpoLoop f (4 * (f.blocks.length + f.numInstrs) + 4) [f.entry] [f.entry] [] []

/-! ### passRedundantPhiEliminationOpt -/

def Func.allInstrs (f : Func) : List Instr := f.blocks.flatMap (·.instrs)

/-- The `idx`-th block argument, resolved, of every branch instruction that targets `b` (the branches of
`basicBlock.preds`; the branches of dead blocks are among them). -/
def Func.branchArgs (f : Func) (b : BlockId) (idx : Nat) : List Val :=
  f.allInstrs.filterMap (fun i =>
    match i.branch? with
    | some (t, as) => if t = b then (as[idx]?).map (res f.alias) else none
    | none => none)

/-- `nonSelfReferencingValue` when the parameter `phi` is redundant: every incoming value other than `phi`
itself is the same value. -/
def uniqueIncoming (phi : Val) (args : List Val) : Option Val :=
  match args.filter (· ≠ phi) with
  | [] => none
  | u :: rest => if rest.all (· = u) then some u else none

/-- the Go code panics ("BUG: params added but only self-referencing") when a parameter of a visited block
has no incoming value other than itself -/
def phiWouldPanic (f : Func) (B : Block) : Bool :=
  (B.params.zipIdx).any (fun (pt, idx) => ((f.branchArgs B.id idx).filter (· ≠ pt.1)).isEmpty)

/-- the redundant parameters of a block: (index, parameter, unique value) -/
def redundantParams (f : Func) (B : Block) : List (Nat × Val × Val) :=
  (B.params.zipIdx).filterMap (fun (pt, idx) =>
    (uniqueIncoming pt.1 (f.branchArgs B.id idx)).map (fun u => (idx, pt.1, u)))

/-- remove the `idx`-th block argument of a branch to `b` -/
def Instr.dropArg (b : BlockId) (idx : Nat) (i : Instr) : Instr :=
  match i.branch? with
  | some (t, as) => if t = b then i.setBranchArgs (as.eraseIdx idx) else i
  | none => i

/-- Remove the `idx`-th parameter `p` of block `b`: the argument disappears from every branch to `b`, the
parameter from the block, and `p` becomes an alias of `u`. -/
def removeParam (f : Func) (b : BlockId) (idx : Nat) (p u : Val) : Func :=
  { blocks := f.blocks.map (fun B =>
      { B with params := if B.id = b ∧ ¬ B.invalid then B.params.eraseIdx idx else B.params,
               instrs := B.instrs.map (Instr.dropArg b idx) }),
    alias := aliasInsert f.alias p u }

/-! The scan of the Go code also resolves the arguments of the predecessors' branches in place while it looks
at them (`b.resolveArgumentAlias(br)`).  That has no influence on the result of the pass, only on which operands
are stored resolved after it (dead-code elimination resolves all of them at the end); it is not modelled, and the
harness compares the intermediate stages with every operand resolved on both sides. -/

/-- One visit of a block in the loop of `passRedundantPhiEliminationOpt`: the redundant parameters are found
first, then removed (from the last to the first, so that the indices stay valid).  The entry block is never
visited (the Go loop skips the first block of the reverse post-order). -/
def phiVisit (f : Func) (b : BlockId) : Func × Bool :=
  if b = f.entry then (f, false) else
  match f.findBlock b with
  | none => (f, false)
  | some B =>
    if B.params.isEmpty then (f, false)
    else
      let red := redundantParams f B
      if red.isEmpty then (f, false)
      else (red.reverse.foldl (fun g r => removeParam g b r.1 r.2.1 r.2.2) f, true)

def phiRound (f : Func) (order : List BlockId) : Func × Bool :=
  order.foldl (fun (acc : Func × Bool) b =>
    let (g, ch) := phiVisit acc.1 b
    (g, acc.2 || ch)) (f, false)

def phiLoop : Nat → Func → List BlockId → Func
  | 0, f, _ => f
  | n + 1, f, order =>
    let (g, ch) := phiRound f order
    if ch then phiLoop n g order else g

def Func.numParams (f : Func) : Nat := (f.blocks.map (·.params.length)).sum

def redundantPhiElim (f : Func) : Func :=
  phiLoop (f.numParams + 1) f (rpo f).tail

/-! ### passNopInstElimination -/

/-- `InstructionOfValue`: the instruction that produces `v` (in any block of the pool) -/
def Func.defInstr (f : Func) (v : Val) : Option Instr :=
  f.allInstrs.find? (fun i => v ∈ i.results)

/-- the rule: a shift whose amount is defined by a constant that is 0 modulo the width of the shifted value -/
def nopRule (f : Func) (i : Instr) : Option (Val × Val) :=
  match i with
  | .bin op r ty x amount =>
    if op = .ishl ∨ op = .sshr ∨ op = .ushr then
      match f.defInstr amount with
      | some (.iconst _ _ c) => if c % 2 ^ 64 % ty.bits = 0 then some (r, x) else none
      | _ => none
    else none
  | _ => none

def nopElim (f : Func) : Func :=
  let is := (f.blocks.filter (fun B => ¬ B.invalid)).flatMap (·.instrs)
  { f with alias := is.foldl (fun al i =>
      match nopRule f i with
      | some (r, x) => aliasInsert al r x
      | none => al) f.alias }

/-! ### passDeadCodeEliminationOpt -/

def Func.validBlocks (f : Func) : List Block := f.blocks.filter (fun B => ¬ B.invalid)

def Func.validInstrs (f : Func) : List Instr := f.validBlocks.flatMap (·.instrs)

/-- group ids: the counter is assigned, then bumped after a `sideEffectStrict` instruction -/
def gidsFrom (tbl : Opcode → Eff) (g : Nat) : List Instr → List Nat
  | [] => []
  | i :: is => g :: gidsFrom tbl (if tbl i.opcode = .strict then g + 1 else g) is

/-- The live-instruction stack loop on values: `work` holds values whose producing instruction is to be marked
live; `live` the values whose producer has been marked (and whose operands were pushed).  `none`: out of fuel. -/
def liveLoop (f : Func) : Nat → List Val → List Val → Option (List Val)
  | 0, _, _ => none
  | _ + 1, [], live => some live
  | n + 1, v :: work, live =>
    if v ∈ live then liveLoop f n work live
    else
      let ds := f.allInstrs.filter (fun i => v ∈ i.results)
      liveLoop f n (ds.flatMap (fun i => i.operands.map (res f.alias)) ++ work) (v :: live)

/-- the operands (resolved) of the instructions of valid blocks that are not `sideEffectNone` -/
def liveRoots (tbl : Opcode → Eff) (f : Func) : List Val :=
  (f.validInstrs.filter (fun i => tbl i.opcode ≠ .none)).flatMap (fun i => i.operands.map (res f.alias))

def Func.numOperands (f : Func) : Nat := (f.allInstrs.map (·.operands.length)).sum

def liveSet (tbl : Opcode → Eff) (f : Func) : Option (List Val) :=
  liveLoop f (4 * (f.numOperands + f.numInstrs) + 4) (liveRoots tbl f) []

/-- an instruction stays iff it is not `sideEffectNone` or one of its results is live -/
def keeps (tbl : Opcode → Eff) (live : List Val) (i : Instr) : Bool :=
  tbl i.opcode ≠ .none || i.results.any (· ∈ live)

/-- which instructions stay; should the stack loop run out of fuel, all of them -/
def keepOf (tbl : Opcode → Eff) (live : Option (List Val)) (i : Instr) : Bool :=
  match live with
  | some live => keeps tbl live i
  | none => true

def keepFn (tbl : Opcode → Eff) (f : Func) : Instr → Bool := keepOf tbl (liveSet tbl f)

/-- `passDeadCodeEliminationOpt` for a side-effect table `tbl`: the instructions that stay have their operands
resolved, the others are unlinked. -/
def dceWith (tbl : Opcode → Eff) (f : Func) : Func :=
  let live := liveSet tbl f
  { f with blocks := f.blocks.map (fun B =>
      if B.invalid then B
      else { B with instrs := (B.instrs.filter (keepOf tbl live)).map (·.mapOperands (res f.alias)) }) }

def dce (f : Func) : Func := dceWith sideEffect f

/-- the group id of every instruction of the valid blocks (before removal), per block -/
def gidsBlocks (tbl : Opcode → Eff) (g : Nat) : List Block → List (List Nat)
  | [] => []
  | B :: Bs =>
    let gs := gidsFrom tbl g B.instrs
    gs :: gidsBlocks tbl (g + (B.instrs.filter (fun i => tbl i.opcode = .strict)).length) Bs

/-- for each valid block: the surviving instructions of `dce f` with their group ids -/
def dceWithGids (f : Func) : List (Block × List (Instr × Nat)) :=
  let bs := f.validBlocks
  let live := liveSet sideEffect f
  (bs.zip (gidsBlocks sideEffect 0 bs)).map (fun (B, gs) =>
    (B, ((B.instrs.zip gs).filter (fun p => keepOf sideEffect live p.1)).map
          (fun p => (p.1.mapOperands (res f.alias), p.2))))

/-! ### runPreBlockLayoutPasses -/

def runPasses (f : Func) : Func := dce (nopElim (redundantPhiElim (deadBlockElim f)))

/-! ### well-formed functions

`wellFormed` is a decidable check of what the proofs about the passes need: strict SSA with definitions that
dominate their uses (through a certificate: the values available at the entry of each block, and a rank that
grows along dominance), matching block-argument arities, and the little typing that the shift rule needs.
The certificate is computed from the function (`computeCert`); the check does not depend on how. -/

/-- resolved form of an alias table: the target of an entry is never a key -/
def AliasNF (al : List (Val × Val)) : Prop := ∀ k t, (k, t) ∈ al → aliasGet al t = none

def UniqueIds (f : Func) : Prop := (f.blocks.map (·.id)).Nodup

structure Cert where
  /-- values available at the entry of a block (before its parameters) on every path -/
  avail : BlockId → List Val
  /-- grows from a definition to every definition it is available at -/
  rank : Val → Nat
  /-- position of the block in the reverse post-order -/
  bidx : BlockId → Nat
  /-- more than the length of any block -/
  M : Nat
  /-- declared type of a value -/
  cty : Val → Ty
  /-- the parameters a block had originally: a parameter removed by `removeParam` stays defined at the entry of
  its block, through its alias -/
  pdefs : BlockId → List Val

/-- the results of an instruction with their types -/
def Instr.typedResults : Instr → List (Val × Ty)
  | .iconst r ty _ => [(r, ty)]
  | .bin _ r ty _ _ => [(r, ty)]
  | .icmp r _ _ _ _ => [(r, .i32)]
  | .select r ty _ _ _ => [(r, ty)]
  | .un _ r ty _ => [(r, ty)]
  | .load r ty _ _ => [(r, ty)]
  | .call _ _ rs _ => rs
  | .div _ r ty _ _ _ => [(r, ty)]
  | _ => []

def isShift (op : BinOp) : Prop := op = .ishl ∨ op = .sshr ∨ op = .ushr

instance (op : BinOp) : Decidable (isShift op) := by unfold isShift; infer_instance

/-- the check of one instruction at a point where the values `V` are available -/
def InstrOK (c : Cert) (f : Func) (B : Block) (V : List Val) (i : Instr) : Prop :=
  -- every operand resolves like an available value
  (∀ o ∈ i.operands, ∃ v ∈ V, res f.alias o = res f.alias v) ∧
  -- a result that has an alias resolves like an available value
  (∀ r ∈ i.results, res f.alias r = r ∨ ∃ v ∈ V, res f.alias r = res f.alias v) ∧
  -- the rank of a result is above everything available, inside the band of the block
  (∀ r ∈ i.results, (∀ v ∈ V, c.rank v < c.rank r) ∧ c.rank r < (c.bidx B.id + 1) * c.M) ∧
  (∀ p ∈ i.typedResults, c.cty p.1 = p.2) ∧
  (match i with
   | .bin op _ ty x _ => isShift op → c.cty x = ty
   | _ => True) ∧
  (match i.branch? with
   | some (t, as) =>
     match f.findBlock t with
     | some T => as.length = T.params.length ∧ (∀ v ∈ c.avail t, v ∈ V) ∧
         (∀ p ∈ as.zip T.params, c.cty p.1 = p.2.2) ∧
         -- a removed parameter of the target resolves like a value available here
         (∀ q ∈ c.pdefs t, q ∉ T.params.map (·.1) → ∃ v ∈ V, res f.alias q = res f.alias v)
     | none => False
   | none => True)

def BodyOK (c : Cert) (f : Func) (B : Block) : List Val → List Instr → Prop
  | _, [] => True
  | V, i :: is => InstrOK c f B V i ∧ BodyOK c f B (V ++ i.results) is

def BlockOK (c : Cert) (f : Func) (B : Block) : Prop :=
  (∀ p ∈ B.params, p.1 ∈ c.pdefs B.id ∧ c.cty p.1 = p.2 ∧ aliasGet f.alias p.1 = none) ∧
  (∀ q ∈ c.pdefs B.id, c.rank q = c.bidx B.id * c.M) ∧
  -- a parameter that was removed has an alias
  (∀ q ∈ c.pdefs B.id, q ∉ B.params.map (·.1) → aliasGet f.alias q ≠ none) ∧
  (∀ v ∈ c.avail B.id, c.rank v < c.bidx B.id * c.M) ∧
  BodyOK c f B (c.avail B.id ++ c.pdefs B.id) B.instrs ∧
  -- a block other than the entry has a predecessor that comes before it in the order
  (B.id ≠ f.entry → ∃ P ∈ f.blocks, P.invalid = false ∧ c.bidx P.id < c.bidx B.id ∧
      ∃ i ∈ P.instrs, i.branch?.map (·.1) = some B.id)

/-- all definitions of the function: block parameters and instruction results, of all blocks of the pool -/
def Func.allDefs (f : Func) : List Val :=
  f.blocks.flatMap (fun B => B.params.map (·.1) ++ B.instrs.flatMap (·.results))

/-- the result of a constant has no alias -/
def ConstNoKey (al : List (Val × Val)) : Instr → Prop
  | .iconst r _ _ => aliasGet al r = none
  | _ => True

instance (al : List (Val × Val)) (i : Instr) : Decidable (ConstNoKey al i) := by
  cases i <;> unfold ConstNoKey <;> infer_instance

structure WF (c : Cert) (f : Func) : Prop where
  ids : UniqueIds f
  nf : ∀ e ∈ f.alias, aliasGet f.alias e.2 = none
  alRank : ∀ e ∈ f.alias, c.rank e.2 < c.rank e.1
  alTy : ∀ e ∈ f.alias, c.cty e.1 = c.cty e.2
  /-- constants have no alias -/
  constKey : ∀ i ∈ f.allInstrs, ConstNoKey f.alias i
  /-- every value is defined once -/
  uniq : f.allDefs.Nodup
  entryAvail : c.avail f.entry = []
  /-- the parameters of the entry block are never removed -/
  entryGhost : ∀ B ∈ f.blocks, B.id = f.entry → ∀ q ∈ c.pdefs f.entry, q ∈ B.params.map (·.1)
  Mpos : 0 < c.M
  blocks : ∀ B ∈ f.blocks, B.invalid = false → BlockOK c f B

instance (c : Cert) (f : Func) (B : Block) (V : List Val) (i : Instr) : Decidable (InstrOK c f B V i) := by
  unfold InstrOK
  refine @instDecidableAnd _ _ inferInstance (@instDecidableAnd _ _ inferInstance
    (@instDecidableAnd _ _ inferInstance (@instDecidableAnd _ _ inferInstance (@instDecidableAnd _ _ ?_ ?_))))
  · cases i <;> infer_instance
  · cases i.branch? with
    | none => infer_instance
    | some p =>
      obtain ⟨t, as⟩ := p
      simp only []
      cases f.findBlock t <;> infer_instance

def BodyOK.dec (c : Cert) (f : Func) (B : Block) : (V : List Val) → (is : List Instr) → Decidable (BodyOK c f B V is)
  | _, [] => isTrue trivial
  | V, i :: is => @instDecidableAnd _ _ inferInstance (BodyOK.dec c f B (V ++ i.results) is)

instance (c : Cert) (f : Func) (B : Block) (V : List Val) (is : List Instr) : Decidable (BodyOK c f B V is) :=
  BodyOK.dec c f B V is

instance (c : Cert) (f : Func) (B : Block) : Decidable (BlockOK c f B) := by
  unfold BlockOK; infer_instance

instance (f : Func) : Decidable (UniqueIds f) := by unfold UniqueIds; infer_instance

instance (c : Cert) (f : Func) : Decidable (WF c f) :=
  decidable_of_iff
    (UniqueIds f ∧ (∀ e ∈ f.alias, aliasGet f.alias e.2 = none) ∧ (∀ e ∈ f.alias, c.rank e.2 < c.rank e.1) ∧
      (∀ e ∈ f.alias, c.cty e.1 = c.cty e.2) ∧
      (∀ i ∈ f.allInstrs, ConstNoKey f.alias i) ∧
      f.allDefs.Nodup ∧ c.avail f.entry = [] ∧
      (∀ B ∈ f.blocks, B.id = f.entry → ∀ q ∈ c.pdefs f.entry, q ∈ B.params.map (·.1)) ∧ 0 < c.M ∧
      (∀ B ∈ f.blocks, B.invalid = false → BlockOK c f B))
    ⟨fun ⟨a, b, c', d, e, g, h, eg, mp, i⟩ => ⟨a, b, c', d, e, g, h, eg, mp, i⟩,
     fun ⟨a, b, c', d, e, g, h, eg, mp, i⟩ => ⟨a, b, c', d, e, g, h, eg, mp, i⟩⟩

/-! #### the certificate -/

def assocD {α} (l : List (Nat × α)) (d : α) (k : Nat) : α :=
  match l with
  | [] => d
  | (k', a) :: rest => if k' = k then a else assocD rest d k

def indexOfD (l : List Nat) (x : Nat) : Nat :=
  match l with
  | [] => 0
  | y :: ys => if y = x then 0 else indexOfD ys x + 1

/-- values available just before the `k`-th instruction of `B`, given the availability at its entry -/
def availBefore (A : List Val) (B : Block) (k : Nat) : List Val :=
  A ++ B.params.map (·.1) ++ (B.instrs.take k).flatMap (·.results)

/-- one sweep of the availability analysis over the blocks `order` (the entry keeps `[]`): what is available at
the entry of a block is what is available at every branch to it from a valid block -/
def availSweep (f : Func) (univ : List Val) (order : List BlockId) (A : List (BlockId × List Val)) :
    List (BlockId × List Val) :=
  order.foldl (fun A b =>
    if b = f.entry then A
    else
      let ins : List (List Val) := f.validBlocks.flatMap (fun P =>
        (P.instrs.zipIdx).filterMap (fun (i, k) =>
          match i.branch? with
          | some (t, _) => if t = b then some (availBefore (assocD A univ P.id) P k) else none
          | none => none))
      (b, univ.filter (fun v => ins.all (fun s => v ∈ s))) :: A.filter (fun e => e.1 ≠ b)) A

def availLoop (f : Func) (univ : List Val) (order : List BlockId) :
    Nat → List (BlockId × List Val) → List (BlockId × List Val)
  | 0, A => A
  | n + 1, A =>
    let A' := availSweep f univ order A
    if order.all (fun b => (assocD A' univ b).length = (assocD A univ b).length) then A' else availLoop f univ order n A'

/-- The certificate of a function: availability by iteration from "everything" downwards, ranks from the
reverse post-order and the position in the block, declared types from the definitions. -/
def computeCert (f : Func) : Cert :=
  let order := rpo f
  let bs := f.validBlocks
  let M := (bs.map (·.instrs.length)).foldl max 0 + 2
  let bidx := fun b => indexOfD order b
  let univ := bs.flatMap (fun B => B.params.map (·.1) ++ B.instrs.flatMap (·.results))
  let A := availLoop f univ order (bs.length + 2) [(f.entry, [])]
  let ranks : List (Nat × Nat) := bs.flatMap (fun B =>
    B.params.map (fun p => (p.1, bidx B.id * M)) ++
    (B.instrs.zipIdx).flatMap (fun (i, k) => i.results.map (fun r => (r, bidx B.id * M + k + 1))))
  let tys : List (Nat × Ty) := bs.flatMap (fun B => B.params ++ B.instrs.flatMap (·.typedResults))
  { avail := fun b => if b = f.entry then [] else assocD A univ b,
    rank := assocD ranks 0,
    bidx := bidx,
    M := M,
    cty := assocD tys .i64,
    pdefs := fun b => match f.findBlock b with
      | some B => B.params.map (·.1)
      | none => [] }

/-- The reachable part of the function is well-formed SSA (the check is made after dead-block elimination,
which only marks blocks). -/
def wellFormed (f : Func) : Bool :=
  decide (WF (computeCert (deadBlockElim f)) (deadBlockElim f))

end Wz.Model.SsaPass
