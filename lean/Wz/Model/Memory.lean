/-
Model of `wasm.MemoryInstance` (internal/wasm/memory.go) for property C14.

The decision logic (`Grow`'s guard, `hasSize`, page/byte conversions, the decoder's memory sizer and
`Memory.Validate`) is NOT written here: it is imported from `Wz.Gen.Memory`, which the translator
regenerates from /repo on every run.  This file adds only the state update that the effectful
statements of `Grow` perform (checked against the real code by the correspondence harness).
-/
import Wz.Gen.Memory

namespace Wz.Model.Memory
open Wz.Gen.Memory

/-- A memory instance: the fields of `wasm.MemoryInstance` the property talks about.
`len` is `len(m.Buffer)` in bytes; `writes` is the sparse content (latest first; unwritten bytes are 0). -/
structure Mem where
  min    : BitVec 32
  cap    : BitVec 32
  max    : BitVec 32
  shared : Bool
  len    : BitVec 64
  writes : List (Nat × BitVec 8)
deriving Repr

/-- Byte at offset `i` (meaningful for `i < len`). -/
def Mem.byteAt (m : Mem) (i : Nat) : BitVec 8 :=
  match m.writes.find? (fun w => w.1 == i) with
  | some w => w.2
  | none => 0#8

def Mem.pages (m : Mem) : BitVec 32 := Pages m.len

/-- Result of decoding a memory type: sizer then Validate. -/
def decodeMemory (limit : BitVec 32) (capFromMax : Bool) (minP : BitVec 32) (maxP : Option (BitVec 32)) :
    Except Nat (BitVec 32 × BitVec 32 × BitVec 32) :=
  let r := memorySizer limit capFromMax minP maxP
  match Validate limit r.1 r.2.1 r.2.2 with
  | some e => .error e
  | none => .ok r

/-- `NewMemoryInstance` without allocator, non-shared: `make([]byte, minBytes, capBytes)`. -/
def newMem (min cap max : BitVec 32) (shared : Bool) : Mem :=
  { min := min, cap := (if shared then max else cap), max := max, shared := shared,
    len := MemoryPagesToBytesNum min, writes := [] }

/-- Outcome of `Grow`: `none` = Go panic. Otherwise the new state, the returned page count, and ok.
`hasAlloc`, `allocNil`, `moved` are the three conditions of `Grow` that depend on the custom allocator. -/
def grow (m : Mem) (δ : BitVec 32) (hasAlloc allocNil moved : Bool) : Option (Mem × BitVec 32 × Bool) :=
  match Grow δ m.shared m.len m.max m.cap hasAlloc allocNil moved with
  | none => none
  | some (r, false) => some (m, r, false)
  | some (r, true) =>
    if δ == 0#32 then some (m, r, true)
    else
      let newPages := m.pages + δ
      let newCap := if hasAlloc then (if m.shared then m.cap else newPages)
                    else if BitVec.ult m.cap newPages then newPages else m.cap
      some ({ m with len := MemoryPagesToBytesNum newPages, cap := newCap }, r, true)

/-- Host API `Read*`/`Write*` guard. -/
def Mem.hasSize (m : Mem) (off : BitVec 32) (n : BitVec 64) : Bool := Wz.Gen.Memory.hasSize off n m.len

def Mem.writeByte (m : Mem) (off : BitVec 32) (v : BitVec 8) : Mem × Bool :=
  if m.hasSize off 1#64 then ({ m with writes := (off.toNat, v) :: m.writes }, true) else (m, false)

def Mem.readByte (m : Mem) (off : BitVec 32) : Option (BitVec 8) :=
  if m.hasSize off 1#64 then some (m.byteAt off.toNat) else none

/-- `api.Memory.Size()`: `uint32(len(m.Buffer))`. -/
def Mem.apiSize (m : Mem) : BitVec 32 := Size m.len

/-- The compiler's `memory.size`: the byte length is loaded from the module context with a load of
`w` bits (32 on the pinned tree: `AsLoad(..., ssa.TypeI32)`), then shifted right by 16. -/
def Mem.compilerMemorySize (m : Mem) (w : Nat) : BitVec 32 :=
  if w == 32 then (m.len.setWidth 32) >>> 16 else (m.len >>> 16).setWidth 32

/-- The compiler's bounds check reads the length with `Uload32` (local, non-shared memory) or a
64-bit load (imported / shared). -/
def Mem.compilerLenView (m : Mem) (w : Nat) : BitVec 64 :=
  if w == 32 then (m.len.setWidth 32).setWidth 64 else m.len

end Wz.Model.Memory
