/-
Model for property C10 (module lifecycle and name registry).

Part 1: `Reg`, the sequential specification (what the property says): an atomic registry of module
instances with names, open/closed state and a runtime-closed flag.

Part 2: `Impl`, a model of what the code does, at the granularity of its atomic actions
(runtime.go failIfClosed / closed CAS; store_module_list.go registerModule / deleteModule / module
critical sections under Store.mux; module_instance.go CAS on Closed + ensureResourcesClosed;
store.go Store.CloseWithExitCode critical section, GetFunctionTypeID critical section).
Each client operation is a short program of atomic actions (`Pc`); `stepOp` executes one action.
Threads and interleavings are in Part 3.

Names are naturals, 0 = anonymous (""). Instances are identified by client-chosen handles `h`
(the harness uses the index of the instantiate request).

Finding switches (`Cfg`, DESIGN §8): every `false` is the behaviour of the pinned tree.
-/
namespace Wz.Model.Registry

/-- How an instantiate request reaches `Runtime.InstantiateModule`. -/
inductive Pre
  | none   -- InstantiateModule(compiled, config)
  | bin    -- InstantiateWithConfig(binary, config) = CompileModule; InstantiateModule
  | host   -- HostModuleBuilder.Instantiate = hostModuleBuilder.Compile; InstantiateModule
deriving Repr, DecidableEq, Hashable, Inhabited

inductive Op
  | instantiate (h name : Nat) (pre : Pre)
  | lookup (name : Nat)
  | compile
  | hostCompile (hasFuncs : Bool)
  | closeModule (h code : Nat)
  | closeRuntime (code : Nat)
  | isClosed (h : Nat)
deriving Repr, DecidableEq, Hashable, Inhabited

inductive Res
  | ok | errDup | errClosed | found (h : Nat) | notFound | closedIs (b : Bool) | panic | bad
deriving Repr, DecidableEq, Hashable, Inhabited

/-! ## Part 1: the sequential specification -/

structure Mod where
  h : Nat
  name : Nat
  isOpen : Bool
deriving Repr, DecidableEq, Hashable

/-- `mods` lists every instance ever created (an instantiate that fails on a duplicate name leaves a
stillborn, closed record so that its handle is never reused); newest first. -/
structure Reg where
  mods : List Mod := []
  rtClosed : Bool := false
deriving Repr, DecidableEq, Hashable

def Reg.init : Reg := {}

def Reg.has (r : Reg) (h : Nat) : Bool := r.mods.any (fun m => m.h == h)

/-- The open module that owns `name`, if any (anonymous modules own nothing). -/
def Reg.owner (r : Reg) (name : Nat) : Option Nat :=
  if name == 0 then none else
  (r.mods.find? (fun m => m.isOpen && m.name == name)).map (·.h)

def Reg.isOpen (r : Reg) (h : Nat) : Bool := r.mods.any (fun m => m.h == h && m.isOpen)

def closeMods (h : Nat) : List Mod → List Mod
  | [] => []
  | m :: ms => (if m.h == h then { m with isOpen := false } else m) :: closeMods h ms

def closeAllMods : List Mod → List Mod
  | [] => []
  | m :: ms => { m with isOpen := false } :: closeAllMods ms

def Reg.step (r : Reg) : Op → Reg × Res
  | .instantiate h name _ =>
    if r.rtClosed then (r, .errClosed)
    else if r.has h then (r, .bad)
    else if (r.owner name).isSome then ({ r with mods := ⟨h, name, false⟩ :: r.mods }, .errDup)
    else ({ r with mods := ⟨h, name, true⟩ :: r.mods }, .ok)
  | .lookup name =>
    match r.owner name with
    | some h => (r, .found h)
    | none => (r, .notFound)
  | .compile => (r, if r.rtClosed then .errClosed else .ok)
  | .hostCompile _ => (r, if r.rtClosed then .errClosed else .ok)
  | .closeModule h _ => if r.has h then ({ r with mods := closeMods h r.mods }, .ok) else (r, .bad)
  | .closeRuntime _ => ({ mods := closeAllMods r.mods, rtClosed := true }, .ok)
  | .isClosed h => if r.has h then (r, .closedIs (!r.isOpen h)) else (r, .bad)

def Reg.run (r : Reg) : List Op → Reg × List Res
  | [] => (r, [])
  | op :: ops =>
    let (r1, x) := r.step op
    let (r2, xs) := Reg.run r1 ops
    (r2, x :: xs)

/-! ## Part 2: the implementation model -/

/-- Finding switches; `false` = as on the pinned tree. -/
structure Cfg where
  /-- F8 repaired: `deleteModule` removes the name only if the map entry is this module. -/
  fixF8 : Bool := false
  /-- F9 repaired: `hostModuleBuilder.Compile` calls `failIfClosed`, and `GetFunctionTypeID` on a
  closed store returns an error instead of writing to the nil map. -/
  fixF9 : Bool := false
  /-- F10 repaired: CAS on `Closed` and `deleteModule` are one atomic action. -/
  atomicClose : Bool := false
  /-- F10 (runtime level) repaired: CAS on `runtime.closed` and `Store.CloseWithExitCode` are one atomic action. -/
  atomicRtClose : Bool := false
  /-- F10c repaired: the close notifier is attached before the instance is registered. -/
  notifierAtRegister : Bool := false
deriving Repr, DecidableEq, Hashable

def Cfg.asIs : Cfg := {}
def Cfg.repaired : Cfg := ⟨true, true, true, true, true⟩

/-- `wasm.ModuleInstance`, the fields the property talks about. -/
structure Inst where
  h : Nat
  name : Nat
  /-- `Closed` word: `none` = 0, `some code` = closed with that exit code -/
  closed : Option Nat
  /-- `CloseNotifier != nil` -/
  notifier : Bool
  /-- `Sys != nil` -/
  sys : Bool
  /-- effects (ghost): exit codes delivered to the close notifier, number of `FS().Close()` calls -/
  notified : List Nat
  fsCloses : Nat
deriving Repr, DecidableEq, Hashable

/-- `names = none` is the nil map after `Store.CloseWithExitCode` (also `typeIDs = nil`). -/
structure Impl where
  insts : List Inst := []
  list : List Nat := []
  names : Option (List (Nat × Nat)) := some []
  rtClosed : Option Nat := none
deriving Repr, DecidableEq, Hashable

def Impl.init : Impl := {}

def Impl.has (s : Impl) (h : Nat) : Bool := s.insts.any (fun i => i.h == h)

def Impl.get (s : Impl) (h : Nat) : Option Inst := s.insts.find? (fun i => i.h == h)

def updInst (h : Nat) (f : Inst → Inst) : List Inst → List Inst
  | [] => []
  | i :: is => (if i.h == h then f i else i) :: updInst h f is

def nameLookup (n : Nat) : List (Nat × Nat) → Option Nat
  | [] => none
  | (k, v) :: rest => if k == n then some v else nameLookup n rest

def nameErase (n : Nat) : List (Nat × Nat) → List (Nat × Nat)
  | [] => []
  | (k, v) :: rest => if k == n then nameErase n rest else (k, v) :: nameErase n rest

/-- `ensureResourcesClosed`: fire the notifier with the stored exit code, close the FS. -/
def ensureRes (i : Inst) : Inst :=
  let i1 := if i.notifier then { i with notified := i.notified ++ [i.closed.getD 0], notifier := false } else i
  if i1.sys then { i1 with fsCloses := i1.fsCloses + 1, sys := false } else i1

/-- `Store.deleteModule(m)` critical section. -/
def deleteModule (cfg : Cfg) (s : Impl) (h : Nat) : Impl :=
  match s.get h with
  | none => s
  | some i =>
    let list := s.list.filter (· != h)
    let names :=
      if i.name == 0 then s.names else
      match s.names with
      | none => none   -- delete on a nil map is a no-op
      | some nm =>
        if cfg.fixF8 then (if nameLookup i.name nm == some h then some (nameErase i.name nm) else some nm)
        else some (nameErase i.name nm)
    { s with list := list, names := names }

/-- `ModuleInstance.closeWithExitCode` as called from `Store.CloseWithExitCode` for every list element:
CAS, and the winner closes the resources. -/
def closeFromStore (code : Nat) (i : Inst) : Inst :=
  if i.closed.isSome then i else ensureRes { i with closed := some code }

def closeListed (code : Nat) (list : List Nat) : List Inst → List Inst
  | [] => []
  | i :: is => (if list.contains i.h then closeFromStore code i else i) :: closeListed code list is

/-- `Store.CloseWithExitCode` critical section. -/
def storeClose (s : Impl) (code : Nat) : Impl :=
  { s with insts := closeListed code s.list s.insts, list := [], names := none }

/-- Program counter of one client operation: the next atomic action. -/
inductive Pc
  | cFail                -- CompileModule: failIfClosed read
  | cTypes               -- CompileModule: GetFunctionTypeIDs critical section
  | hFail (funcs : Bool) -- hostModuleBuilder.Compile: failIfClosed read (repaired only)
  | hTypes               -- hostModuleBuilder.Compile: GetFunctionTypeIDs critical section
  | iFail                -- InstantiateModule: failIfClosed read
  | iReg                 -- Store.registerModule critical section (the instance is created here)
  | fCas (e : Res)       -- failed registration: m.Close: CAS on Closed
  | fDel (e : Res)       --   deleteModule critical section
  | fRes (e : Res)       --   ensureResourcesClosed
  | iNote                -- InstantiateModule: `mod.CloseNotifier = ...`
  | mCas                 -- ModuleInstance.CloseWithExitCode: CAS on Closed
  | mDel                 --   deleteModule critical section
  | mRes                 --   ensureResourcesClosed
  | rCas                 -- runtime.CloseWithExitCode: CAS on runtime.closed
  | rStore               --   Store.CloseWithExitCode critical section
  | look                 -- Store.module RLock section
  | isCl                 -- Closed.Load
  | done (r : Res)
deriving Repr, DecidableEq, Hashable, Inhabited

def startPc (cfg : Cfg) : Op → Pc
  | .instantiate _ _ .none => .iFail
  | .instantiate _ _ .bin => .cFail
  | .instantiate _ _ .host => if cfg.fixF9 then .hFail true else .hTypes
  | .lookup _ => .look
  | .compile => .cFail
  | .hostCompile f => if cfg.fixF9 then .hFail f else (if f then .hTypes else .done .ok)
  | .closeModule _ _ => .mCas
  | .closeRuntime _ => .rCas
  | .isClosed _ => .isCl

/-- After the compile part of an operation: plain compile requests are done, instantiate continues. -/
def afterCompile : Op → Pc
  | .instantiate _ _ _ => .iFail
  | _ => .done .ok

def typesSection (cfg : Cfg) (s : Impl) (op : Op) : Pc :=
  match s.names with
  | none => .done (if cfg.fixF9 then .errClosed else .panic)   -- `s.typeIDs[key] = id` on the nil map
  | some _ => afterCompile op

/-- One atomic action of operation `op` at `pc`. -/
def stepOp (cfg : Cfg) (s : Impl) (op : Op) (pc : Pc) : Impl × Pc :=
  match pc, op with
  | .done r, _ => (s, .done r)
  | .cFail, _ => if s.rtClosed.isSome then (s, .done .errClosed) else (s, .cTypes)
  | .cTypes, _ => (s, typesSection cfg s op)
  | .hFail f, _ =>
    if s.rtClosed.isSome then (s, .done .errClosed) else (s, if f then .hTypes else afterCompile op)
  | .hTypes, _ => (s, typesSection cfg s op)
  | .iFail, _ => if s.rtClosed.isSome then (s, .done .errClosed) else (s, .iReg)
  | .iReg, .instantiate h name _ =>
    if s.has h then (s, .done .bad) else
    let fresh : Inst := ⟨h, name, none, false, true, [], 0⟩
    match s.names with
    | none => ({ s with insts := fresh :: s.insts }, .fCas .errClosed)
    | some nm =>
      if name != 0 && (nameLookup name nm).isSome then
        ({ s with insts := fresh :: s.insts }, .fCas .errDup)
      else
        let i := if cfg.notifierAtRegister then { fresh with notifier := true } else fresh
        ({ s with insts := i :: s.insts, list := h :: s.list,
                  names := some (if name != 0 then (name, h) :: nm else nm) },
         if cfg.notifierAtRegister then .done .ok else .iNote)
  | .fCas e, .instantiate h _ _ =>
    ({ s with insts := updInst h (fun i => { i with closed := some 0 }) s.insts }, .fDel e)
  | .fDel e, .instantiate h _ _ => (deleteModule cfg s h, .fRes e)
  | .fRes e, .instantiate h _ _ => ({ s with insts := updInst h ensureRes s.insts }, .done e)
  | .iNote, .instantiate h _ _ =>
    ({ s with insts := updInst h (fun i => { i with notifier := true }) s.insts }, .done .ok)
  | .mCas, .closeModule h code =>
    match s.get h with
    | none => (s, .done .bad)
    | some i =>
      if i.closed.isSome then (s, .done .ok) else
      let s1 := { s with insts := updInst h (fun i => { i with closed := some code }) s.insts }
      if cfg.atomicClose then (deleteModule cfg s1 h, .mRes) else (s1, .mDel)
  | .mDel, .closeModule h _ => (deleteModule cfg s h, .mRes)
  | .mRes, .closeModule h _ => ({ s with insts := updInst h ensureRes s.insts }, .done .ok)
  | .rCas, .closeRuntime code =>
    if s.rtClosed.isSome then (s, .done .ok) else
    let s1 := { s with rtClosed := some code }
    if cfg.atomicRtClose then (storeClose s1 code, .done .ok) else (s1, .rStore)
  | .rStore, .closeRuntime code => (storeClose s code, .done .ok)
  | .look, .lookup name =>
    if name == 0 then (s, .done .notFound) else
    match s.names with
    | none => (s, .done .notFound)
    | some nm =>
      match nameLookup name nm with
      | some h => (s, .done (.found h))
      | none => (s, .done .notFound)
  | .isCl, .isClosed h =>
    match s.get h with
    | none => (s, .done .bad)
    | some i => (s, .done (.closedIs i.closed.isSome))
  | _, _ => (s, .done .bad)

/-- Run one operation to completion without interference (a sequential client). -/
def runOpFuel (cfg : Cfg) (op : Op) : Nat → Impl → Pc → Impl × Res
  | 0, s, _ => (s, .bad)
  | n + 1, s, pc =>
    match pc with
    | .done r => (s, r)
    | _ => let (s1, pc1) := stepOp cfg s op pc; runOpFuel cfg op n s1 pc1

/-- No operation has more than 8 actions. -/
def Impl.runOp (cfg : Cfg) (s : Impl) (op : Op) : Impl × Res := runOpFuel cfg op 10 s (startPc cfg op)

def Impl.run (cfg : Cfg) (s : Impl) : List Op → Impl × List Res
  | [] => (s, [])
  | op :: ops =>
    let (s1, x) := s.runOp cfg op
    let (s2, xs) := Impl.run cfg s1 ops
    (s2, x :: xs)

/-! ## Part 3: threads and interleavings -/

/-- A thread: the operation in progress (with its pc), the operations still to do, and the results so far. -/
structure Thread where
  cur : Option (Op × Pc) := none
  todo : List Op := []
  results : List (Op × Res) := []
deriving Repr, DecidableEq

structure Conc where
  shared : Impl := {}
  threads : List Thread := []
deriving Repr, DecidableEq

def updThread (t : Nat) (f : Thread → Thread) : List Thread → List Thread
  | [] => []
  | th :: ths => match t with
    | 0 => f th :: ths
    | t + 1 => th :: updThread t f ths

/-- One step of thread `th` on shared state `s`: invoke the next operation (no shared effect), perform
one atomic action, or (when the pc is `done`) return. -/
def stepThread (cfg : Cfg) (s : Impl) (th : Thread) : Impl × Thread :=
  match th.cur with
  | none =>
    match th.todo with
    | [] => (s, th)
    | op :: rest => (s, { th with cur := some (op, startPc cfg op), todo := rest })
  | some (op, .done r) => (s, { th with cur := none, results := th.results ++ [(op, r)] })
  | some (op, pc) =>
    let (s1, pc1) := stepOp cfg s op pc
    (s1, { th with cur := some (op, pc1) })

/-- Scheduler step: thread number `t` moves (out-of-range = stutter). -/
def Conc.step (cfg : Cfg) (c : Conc) (t : Nat) : Conc :=
  match c.threads[t]? with
  | none => c
  | some th =>
    let (s1, th1) := stepThread cfg c.shared th
    { shared := s1, threads := updThread t (fun _ => th1) c.threads }

def Conc.exec (cfg : Cfg) (c : Conc) : List Nat → Conc
  | [] => c
  | t :: sched => Conc.exec cfg (c.step cfg t) sched

def Conc.start (progs : List (List Op)) : Conc :=
  { shared := {}, threads := progs.map (fun p => { todo := p }) }

end Wz.Model.Registry
