/-
C09 — object-graph model of wazero's lifetimes (core Lean only; executable).

Layer 1 (`G`, `Prim`): a heap graph with three edge kinds
  * `perm` : Go pointers stored in fields that are written once and never cleared while the holder
             lives (moduleEngine.parent, ModuleInstance.Engine, TableInstance.involvingModuleInstances …)
  * `reg`  : Go pointers held by registries / handles, removable (store name map and module list,
             engine.compiledModules, host variables)
  * `raw`  : integers holding addresses (table entries, funcref globals, words of the opaque module
             context, `executable` addresses) — invisible to the collector
and the collector as an op `gc keep`: any `keep` that contains the root and is closed under perm∪reg
is admissible (the precise collector is the least such set; the oracle computes it).
The code never checks anything when it stores a raw address, so `raw` is unguarded; the ghost flag
`shadowOk` records whether every raw edge stored so far was shadowed by permanent pointers at the
time it was stored (`guardB`).

Layer 2 (`W`, `Op`): wazero's lifecycle operations as the primitive edges the code creates
(anchors: wazevo/engine.go, wazevo/module_engine.go, interpreter.go, wasm/store.go, wasm/table.go,
wasm/store_module_list.go, wasm/module_instance.go, runtime.go, cache.go).
-/
namespace Wz.Model.Lifetime

abbrev Node := Nat
abbrev Edge := Node × Node

structure G where
  next     : Nat := 0
  live     : List Node := []
  entries  : List Node := []
  perm     : List Edge := []
  reg      : List Edge := []
  raw      : List Edge := []
  shadowOk : Bool := true
deriving Repr, DecidableEq, Inhabited

/-! ### executable reachability -/

/-- one sweep over the edge list: add the target of every edge whose source is already in the set -/
def sweep (L : List Edge) (S : List Node) : List Node :=
  L.foldl (fun acc e => if acc.contains e.1 && !acc.contains e.2 then e.2 :: acc else acc) S

def closure (E : List Edge) : Nat → List Node → List Node
  | 0, S => S
  | n + 1, S =>
    let S' := sweep E S
    if S'.length == S.length then S' else closure E n S'

/-- nodes reachable from `S` along `E` (|E| sweeps suffice; soundness is what the proofs use) -/
def reachSet (E : List Edge) (S : List Node) : List Node := closure E (E.length + 1) S

def reachB (E : List Edge) (a b : Node) : Bool := (reachSet E [a]).contains b

/-- the unique permanent in-neighbour of `x`, if all permanent edges into `x` come from one node -/
def soleOwner (E : List Edge) (x : Node) : Option Node :=
  match E.filter (fun e => e.2 == x) with
  | [] => none
  | e :: rest => if rest.all (fun e' => e'.1 == e.1) then some e.1 else none

/-- shadow check of a raw edge x ⇢ y at the time it is stored: a permanent path x ⇝ y, or `x` is a
non-entry object (a private table) whose only holder `o` has a permanent path o ⇝ y. -/
def guardB (g : G) (x y : Node) : Bool :=
  reachB g.perm x y ||
  (!g.entries.contains x &&
    match soleOwner g.perm x with
    | some o => reachB g.perm o y
    | none => false)

def noOut (g : G) (b : Node) : Bool :=
  g.perm.all (fun e => e.1 != b) && g.raw.all (fun e => e.1 != b)

def validKeep (g : G) (keep : List Node) : Bool :=
  keep.contains 0 && keep.all (fun n => g.live.contains n) &&
  (g.perm ++ g.reg).all (fun e => !keep.contains e.1 || keep.contains e.2)

/-! ### primitives -/

inductive Prim
  | alloc (entry : Bool)
  | perm (a b : Node)
  | reg (a b : Node)
  | unreg (a b : Node)
  | raw (x y : Node)
  | gc (keep : List Node)
deriving Repr, DecidableEq

/-- A primitive whose guard fails leaves the graph unchanged (`primOk` tells). -/
def primOk (g : G) : Prim → Bool
  | .alloc _ => true
  | .perm a b => g.live.contains a && g.live.contains b && (g.entries.contains b || noOut g b)
  | .reg a b => g.live.contains a && g.live.contains b
  | .unreg _ _ => true
  | .raw x _ => g.live.contains x
  | .gc keep => validKeep g keep

def applyPrim (g : G) (p : Prim) : G :=
  if primOk g p then
    match p with
    | .alloc e => { g with next := g.next + 1, live := g.next :: g.live,
                           entries := if e then g.next :: g.entries else g.entries }
    | .perm a b => { g with perm := (a, b) :: g.perm }
    | .reg a b => { g with reg := (a, b) :: g.reg }
    | .unreg a b => { g with reg := g.reg.filter (fun e => !(e.1 == a && e.2 == b)) }
    | .raw x y => { g with raw := (x, y) :: g.raw, shadowOk := g.shadowOk && guardB g x y }
    | .gc keep => { g with live := keep }
  else g

def applyPrims (g : G) (ps : List Prim) : G := ps.foldl applyPrim g

/-- did every primitive of the list pass its guard? (a model-internal sanity answer for the oracle) -/
def primsOk (g : G) : List Prim → Bool
  | [] => true
  | p :: ps => primOk g p && primsOk (applyPrim g p) ps

/-- the precise collector: everything reachable from the host root -/
def preciseKeep (g : G) : List Node := reachSet (g.perm ++ g.reg) [0]

/-! ### wazero level -/

inductive EngineKind | compiler | interpreter
deriving Repr, DecidableEq

inductive TabMode
  | priv
  | exp
  | imp (k : Nat)
deriving Repr, DecidableEq

/-- a function reference value: the record it points to, the code it runs, and (for the outputs) the
constant the function adds -/
structure Ref where
  target : Node
  code   : Node
  tag    : Nat
deriving Repr, DecidableEq

structure Inst where
  idx     : Nat
  inst    : Node
  me      : Node
  fn      : Node
  cm      : Node
  code    : Node
  tab     : Node
  imp     : Option Nat
  tabMode : TabMode
  closed  : Bool := false
  held    : Bool := true   -- the host still holds api.Module / CompiledModule
deriving Repr, DecidableEq

structure W where
  g        : G
  kind     : EngineKind
  cache    : Bool
  /-- F7 switch: `true` = repaired variant in which a reference entering a table/global also records a
  permanent pointer holder → owner (the as-is code does not) -/
  pinRefs  : Bool
  insts    : List Inst := []
  slots    : List ((Node × Nat) × Ref) := []
  chain    : List Node := []      -- store.moduleList, head first (instance nodes)
  rtOpen   : Bool := true
  rtHeld   : Bool := true
  engOpen  : Bool := true
deriving Repr

def hostN : Node := 0
def rtN : Node := 1
def engN : Node := 2
def sharedN : Node := 3
def cacheN : Node := 4

def tagOf (i : Nat) : Nat := 100 * (i + 1)

/-- NewRuntime (+ NewCompilationCache): host, runtime/store, engine, shared trampolines, cache. -/
def initPrims (cache : Bool) : List Prim :=
  [.alloc true, .alloc true, .alloc true, .alloc true, .alloc true,
   .reg hostN rtN, .perm rtN engN, .reg engN sharedN] ++
  (if cache then [.reg hostN cacheN, .perm rtN cacheN, .perm cacheN engN] else [])

def W.init (kind : EngineKind) (cache pin : Bool) : W :=
  { g := applyPrims {} (initPrims cache), kind := kind, cache := cache, pinRefs := pin }

def W.find (w : W) (i : Nat) : Option Inst := w.insts.find? (·.idx == i)

def W.setInst (w : W) (r : Inst) : W :=
  { w with insts := w.insts.map (fun q => if q.idx == r.idx then r else q) }

inductive How | own | imp | slot (n : Nat) | glob
deriving Repr, DecidableEq
inductive Where | tab (n : Nat) | glob
deriving Repr, DecidableEq
inductive Via | tab (n : Nat) | imp | host
deriving Repr, DecidableEq

/-- canonical answers of the operations -/
inductive Ans
  | ok | okNull | val (n : Nat) | dangling | closed | trapTable | trapUnreachable
  | ierr | dup | nohandle | srcNohandle | srcClosed | dstNohandle | dstClosed
deriving Repr, DecidableEq

def Ans.toString : Ans → String
  | .ok => "ok" | .okNull => "ok-null" | .val n => s!"v={n}" | .dangling => "unsafe"
  | .closed => "closed" | .trapTable => "trap:table" | .trapUnreachable => "trap:unreachable"
  | .ierr => "ierr" | .dup => "dup" | .nohandle => "nohandle" | .srcNohandle => "src-nohandle"
  | .srcClosed => "src-closed" | .dstNohandle => "dst-nohandle" | .dstClosed => "dst-closed"

inductive Op
  | inst (i : Nat) (imp : Option Nat) (tab : TabMode)
  | pass (s : Nat) (how : How) (d : Nat) (wh : Where)
  | call (j : Nat) (via : Via) (x : Nat)
  | close (i : Nat)
  | closecm (i : Nat)
  | closert
  | closecache
  | drop (i : Nat)
  | droprt
  | gc
deriving Repr, DecidableEq

def globSlot : Nat := 1000

def W.lookup (w : W) (holder : Node) (n : Nat) : Option Ref :=
  (w.slots.find? (fun s => s.1.1 == holder && s.1.2 == n)).map (·.2)

def W.setSlot (w : W) (holder : Node) (n : Nat) (r : Option Ref) : W :=
  let rest := w.slots.filter (fun s => !(s.1.1 == holder && s.1.2 == n))
  { w with slots := match r with | some r => ((holder, n), r) :: rest | none => rest }

/-- prims of `engine.Close` (also reached from cache.Close): the engine forgets every compiled module
and the shared trampolines -/
def engineClosePrims (w : W) : List Prim :=
  w.insts.map (fun r => Prim.unreg engN r.cm) ++ [.unreg engN sharedN]

/-- unlink `n` from the store's module list (store_module_list.go deleteModule) -/
def unlinkPrims (chain : List Node) (n : Node) : List Prim :=
  let rec go : Option Node → List Node → List Prim
    | _, [] => []
    | prev, c :: rest =>
      if c == n then
        let nxt := rest.head?
        (match prev with | some p => [Prim.unreg p n, .unreg n p] | none => []) ++
        (match nxt with | some q => [Prim.unreg n q, .unreg q n] | none => []) ++
        (match prev, nxt with | some p, some q => [Prim.reg p q, .reg q p] | _, _ => [])
      else go (some c) rest
  go none chain

/-- the primitive effects and the answer of one operation; `none` answer = the model does not predict
(the history left the modelled fragment) -/
def stepPrims (w : W) : Op → List Prim × (W → W) × Ans
  | .inst i imp tab =>
    -- compiling on a closed wazevo engine cannot succeed (compiledModules is nil; on this tree it is a Go
    -- panic, finding N1; the model answers the ordinary error); the interpreter's engine.Close only
    -- clears its map and the engine stays usable
    if !(w.rtOpen && w.rtHeld && (w.engOpen || w.kind == .interpreter)) then
      ([], id, if w.rtHeld then Ans.ierr else Ans.nohandle)
    else if (w.find i).isSome then ([], id, Ans.dup)
    else
      let impI := imp.bind w.find
      let tabI := match tab with | .imp k => w.find k | _ => none
      let impBad := imp.isSome && !(match impI with | some r => !r.closed | none => false)
      let tabBad := (match tab with | .imp _ => true | _ => false) &&
        !(match tabI with | some r => !r.closed && r.tabMode == .exp | none => false)
      if impBad || tabBad then ([], id, Ans.ierr)
      else
        let n := w.g.next
        let cm := n; let code := n + 1; let inst := n + 2; let me := n + 3; let fn := n + 4
        let ownTab := match tab with | .imp _ => false | _ => true
        let tabN := match tabI with | some r => r.tab | none => n + 5
        let compile : List Prim :=
          [.alloc true, .alloc true, .perm cm code, .perm cm engN] ++
          (if w.kind == .compiler then [.perm cm sharedN] else []) ++ [.reg engN cm]
        let objs : List Prim :=
          [.alloc true, .alloc true, .alloc true] ++
          (if ownTab then [.alloc (tab == .exp)] else []) ++
          [.perm inst me, .perm me inst, .perm me cm, .perm me fn, .perm fn me, .perm inst rtN,
           .perm inst tabN]
        let imports : List Prim :=
          (match impI with
           | some r =>
             if w.kind == .compiler then [.perm me r.me, .raw me r.code, .raw me r.me]
             else [.perm me r.inst, .perm me r.cm]
           | none => []) ++
          (match tab with
           | .exp => [.perm tabN inst]
           | .imp _ => [.perm tabN inst]
           | .priv => [])
        let raws : List Prim :=
          if w.kind == .compiler then [.raw me inst, .raw me tabN, .raw fn code, .raw fn me] else []
        let register : List Prim :=
          [.reg rtN inst, .reg hostN inst, .reg hostN engN] ++
          (match w.chain.head? with | some h => [.reg inst h, .reg h inst] | none => [])
        let rec_ : Inst := { idx := i, inst := inst, me := me, fn := fn, cm := cm, code := code,
                             tab := tabN, imp := imp, tabMode := tab }
        (compile ++ objs ++ imports ++ raws ++ register,
         fun w' => { w' with insts := w'.insts ++ [rec_], chain := inst :: w'.chain }, Ans.ok)
  | .pass s how d wh =>
    match w.find s, w.find d with
    | some rs, some rd =>
      if !rs.held then ([], id, Ans.srcNohandle)
      else if rs.closed then ([], id, Ans.srcClosed)
      else
        let r : Option Ref := match how with
          | .own => some { target := rs.fn, code := rs.code, tag := tagOf s }
          | .imp => (rs.imp.bind w.find).map (fun k => { target := rs.me, code := k.code, tag := tagOf k.idx })
          | .slot n => w.lookup rs.tab n
          | .glob => w.lookup rs.me globSlot
        if !rd.held then ([], id, Ans.dstNohandle)
        else
          -- a call on a closed instance still RUNS the function (call_engine.go / interpreter.go check
          -- FailIfClosed only after the function returned): the store happens, the answer is the error
          let holder := match wh with | .tab _ => rd.tab | .glob => rd.me
          let slot := match wh with | .tab n => n | .glob => globSlot
          match r with
          | none => ([], fun w' => w'.setSlot holder slot none, if rd.closed then Ans.dstClosed else Ans.okNull)
          | some r =>
            ((if w.pinRefs then [Prim.perm holder r.target] else []) ++ [.raw holder r.target],
             fun w' => w'.setSlot holder slot (some r), if rd.closed then Ans.dstClosed else Ans.ok)
    | none, _ => ([], id, Ans.srcNohandle)
    | _, none => ([], id, Ans.dstNohandle)
  | .call j via x =>
    match w.find j with
    | none => ([], id, Ans.nohandle)
    | some rj =>
      if !rj.held then ([], id, Ans.nohandle)
      else
        -- FailIfClosed is evaluated after the function has run: a value becomes the closed error, a trap
        -- stays a trap, and a dangling reference is still used
        let fin (v : Nat) : Ans := if rj.closed then Ans.closed else Ans.val v
        let viaRef (r : Ref) : Ans :=
          if w.g.live.contains r.target && w.g.live.contains r.code then fin (x + r.tag) else Ans.dangling
        match via with
        | .host => ([], id, fin (x + tagOf j))
        | .imp =>
          match rj.imp.bind w.find with
          | some k => ([], id, if w.g.live.contains k.code then fin (x + tagOf k.idx) else Ans.dangling)
          | none => ([], id, Ans.trapUnreachable)
        | .tab n =>
          match w.lookup rj.tab n with
          | none => ([], id, Ans.trapTable)
          | some r => ([], id, viaRef r)
  | .close i =>
    match w.find i with
    | none => ([], id, Ans.nohandle)
    | some r =>
      if !r.held then ([], id, Ans.nohandle)
      else if r.closed then ([], id, Ans.ok)
      else
        ([.unreg rtN r.inst] ++ unlinkPrims w.chain r.inst,
         fun w' => { (w'.setInst { r with closed := true }) with chain := w'.chain.filter (· != r.inst) },
         Ans.ok)
  | .closecm i =>
    match w.find i with
    | none => ([], id, Ans.nohandle)
    | some r =>
      if !r.held then ([], id, Ans.nohandle) else ([.unreg engN r.cm], id, Ans.ok)
  | .closert =>
    if !w.rtHeld then ([], id, Ans.nohandle)
    else if !w.rtOpen then ([], id, Ans.ok)
    else
      (w.insts.map (fun r => Prim.unreg rtN r.inst) ++ (if w.cache then [] else engineClosePrims w),
       fun w' => { w' with insts := w'.insts.map (fun r => { r with closed := true }), rtOpen := false,
                           engOpen := w'.engOpen && w'.cache }, Ans.ok)
  | .closecache =>
    if !(w.cache && w.rtHeld) then ([], id, Ans.nohandle)
    else (engineClosePrims w, fun w' => { w' with engOpen := false }, Ans.ok)
  | .drop i =>
    match w.find i with
    | none => ([], id, Ans.ok)
    | some r =>
      let others := w.insts.any (fun q => q.idx != i && q.held)
      ([.unreg hostN r.inst] ++ (if others then [] else [.unreg hostN engN]),
       fun w' => w'.setInst { r with held := false }, Ans.ok)
  | .droprt => ([.unreg hostN rtN, .unreg hostN cacheN], fun w' => { w' with rtHeld := false }, Ans.ok)
  | .gc => ([.gc (preciseKeep w.g)], id, Ans.ok)

def stepW (w : W) (op : Op) : W × Ans :=
  let r := stepPrims w op
  -- the bookkeeping update never touches the graph: the graph changes only through primitives
  ({ r.2.1 w with g := applyPrims w.g r.1 }, r.2.2)

def runW (w : W) (ops : List Op) : W := ops.foldl (fun w op => (stepW w op).1) w

/-- answers of a history -/
def outsW (w : W) : List Op → List Ans
  | [] => []
  | op :: ops => (stepW w op).2 :: outsW (stepW w op).1 ops

/-- model-internal sanity of one step: all primitives passed their guards -/
def stepOk (w : W) (op : Op) : Bool := primsOk w.g (stepPrims w op).1

/-! ### the discipline (syntactic): references only enter tables that are exported/imported and
involve the defining instance, or tables/globals of the defining instance itself. -/

def W.involved (w : W) (tab : Node) (i : Nat) : Bool :=
  match w.find i with
  | some r => r.tab == tab && r.tabMode != .priv
  | none => false

/-- the instance that defines the function a reference denotes, as far as the holder of the reference
must keep alive: for `own` the source, for `imp` also the source (the record lives in the source's
module context, which pins the exporter), for copies out of a slot: unknown → only same-holder copies. -/
def disciplined (w : W) : Op → Bool
  | .pass s how d wh =>
    match w.find s, w.find d with
    | some rs, some rd =>
      let viaSharedTab := match wh with
        | .tab _ => rd.tabMode != .priv && w.involved rd.tab s
        | .glob => false
      match how with
      | .own | .imp => s == d || viaSharedTab
      | .slot _ => (s == d || (rs.tab == rd.tab && (match wh with | .tab _ => true | .glob => false)))
      | .glob => s == d
    | _, _ => true
  | _ => true

end Wz.Model.Lifetime
