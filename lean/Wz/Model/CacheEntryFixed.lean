/-
C13 — the REPAIRED variant of the cache-entry reader (Wz.Model.CacheEntry.deserializeR).

The as-is reader skips the 4-byte checksum field when the executable length is 0, although the writer always
emits it.  The repaired reader always reads the executable (of length 0: `[]`), always reads the 4 checksum
bytes and compares them with the checksum of the executable.  Core Lean only.
-/
import Wz.Model.CacheEntry

namespace Wz.Model.CacheEntry

/-- `deserializeCompiledModule` with the `if executableLen > 0` around executable + checksum removed -/
def deserializeRFixed (crc : Bytes → Nat) (magic ver e : Bytes) : R CM :=
  let H := magic.length + 1 + ver.length + 4
  if e.length = 0 then .err "error reading header"
  else if e.length < H then .err "invalid header length"
  else
    let header := e.take H
    let r := e.drop H
    if header.take magic.length ≠ magic then .err "invalid magic number"
    else
      let vs := header.getD magic.length 0
      let vend := magic.length + 1 + vs
      if vend ≥ H then .stale
      else if (header.drop (magic.length + 1)).take vs ≠ ver then .stale
      else
        let nf := leDec (header.drop (H - 4))
        match readOffsets nf r with
        | none => .err "error reading func["
        | some (offs, r1) =>
          match readU64 r1 with
          | none => .err "error reading executable size"
          | some (el, r2) =>
            match readFull el r2 with
            | none => .err "executable"
            | some (exec, r3) =>
              match readFull 4 r3 with
              | none => .err "could not read checksum"
              | some (c, r4) =>
                if leDec c ≠ crc exec % 2 ^ 32 then .err "checksum mismatch"
                else deserSrcMap offs exec r4

/-- the caller-visible result of the repaired reader -/
def deserializeFixed (crc : Bytes → Nat) (magic ver e : Bytes) : Res :=
  match deserializeRFixed crc magic ver e with
  | .ok cm _ => .ok cm
  | .stale => .stale
  | .err s => .err s
  | .panic s => .panic s

/-- the finding switch: `false` = the code as it is, `true` = the repaired reader -/
def deserializeSw (crcAlways : Bool) (crc : Bytes → Nat) (magic ver e : Bytes) : Res :=
  if crcAlways then deserializeFixed crc magic ver e else deserialize crc magic ver e

end Wz.Model.CacheEntry
