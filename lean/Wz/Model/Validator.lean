/-
C03: executable model of wazero's function-body validator
(`internal/wasm/func_validation.go`, `validateFunctionWithMaxStackValues`) restricted to the fragment W0
(the instructions of `Wz.Spec.Wasm`: numeric types only, block types "empty" or "one result", no block
parameters), together with the declarative typing rules of the WebAssembly specification for the same
fragment.

* `TI` is a typed, nested instruction syntax carrying every immediate the validator looks at.
* `erase` maps it to the untyped reference syntax `Wz.Spec.Wasm.Instr`.
* `check` is the ALGORITHM of the Go code: one operand stack of value types with the `valueTypeUnknown`
  marker (`none`), the list of stack limits, `tryPop / popAndVerifyType / push / unreachable /
  resetAtStackLimit / pushStackLimit / popStackLimit / requireStackValues` written like the Go functions,
  and a control stack.  Recursion over the nested syntax replaces the explicit `else` / `end` opcodes: on
  leaving a body the model does what the `OpcodeElse` / `OpcodeEnd` cases do.
* `HasType` / `WellTyped` are the declarative rules (WebAssembly 2.0 style: operand types may be the bottom
  type, which only arises in unreachable code).

Core Lean only; everything is computable (this file is linked into the `oracle` executable).

Quirks of the Go code that are modelled (accept/reject must agree with the real validator):
  Q1  `tryPop` does not remove the unknown marker when it is the only value above the limit, but it does
      remove an unknown VALUE that lies higher (pushed by `select` on two unknown operands).
  Q2  `select` pushes the type of the SECOND popped operand if the first one is unknown.
  Q3  memory alignment: the Go test is `1<<align > width/8` on a (64 bit) `int`; for `align = 63` the left
      side is negative and for `align ≥ 64` it is `0`, so such alignments are ACCEPTED (`alignOK`).  The
      specification requires `2^align ≤ width/8`.  (`align` is a LEB128 `uint32`, so 63 … 2^32-1 are
      encodable.)  This is the one place where the algorithm accepts something the declarative rules
      reject; the soundness theorem therefore has the side condition `alignSane`.
  Q4  `br_table` with the reference-types feature (on in `CoreFeaturesV2`): operands that are unknown make
      the corresponding position of the expected label type unknown, and the other labels only have to agree
      with the default label at the known positions (and in arity).  Without the feature all labels must have
      exactly the type of the default label.  (`Ctx.refTypes`.)
  Q5  `requireStackValues` first pops `len(want)` values, then (if `checkAboveLimit`) tests that nothing but
      possibly the unknown marker is left above the limit, and only then compares types; the popped values
      stay popped.
  Q6  an `if` without `else` requires params = results, i.e. the empty block type in W0.  In the nested
      syntax a missing `else` is an empty else branch: for the empty block type both are accepted/rejected
      alike (the `end` check of the then-branch is the `else` check), and for a one-result block type the
      empty else branch fails the `end` check, as the missing `else` fails the params = results check.
  Q7  the limit `maximumStackPointer ≤ 2^27` (`maxStackValues`) is not modelled: a W0 body that exceeds it has
      more than 2^27 instructions.
  Q8  the function-level frame has NO stack limit (`stackLimits` is empty, limit 0, `popStackLimit` on the empty
      list is a no-op).
-/
import Wz.Spec.Wasm

namespace Wz.Model.Validator
open Wz.Spec.Wasm (VT FuncType Instr)

/-! ## typed syntax -/

inductive TI where
  | const (t : VT) (bits : Nat)
  | num (name : String)
  | localGet (i : Nat) | localSet (i : Nat) | localTee (i : Nat)
  | globalGet (i : Nat) | globalSet (i : Nat)
  | load (t : VT) (width : Nat) (signed : Bool) (align off : Nat)
  | store (t : VT) (width : Nat) (align off : Nat)
  | memSize | memGrow | memCopy | memFill
  | drop | select | unreachable | nop | ret
  | br (l : Nat) | brIf (l : Nat) | brTable (ls : List Nat) (d : Nat)
  | call (f : Nat) | callIndirect (ti : Nat)
  | block (bt : Option VT) (body : List TI)
  | loop (bt : Option VT) (body : List TI)
  | ite (bt : Option VT) (th el : List TI)
deriving Repr, Inhabited

/-- shape of a numeric instruction: unary `[a] → [r]` or binary `[a, a] → [r]` -/
inductive NumShape where
  | un (a r : VT)
  | bin (a r : VT)
deriving Repr, DecidableEq

/-- The numeric instructions of W0 (opcodes 0x45 … 0xc4 and the eight saturating truncations), by the names of
wazero's `InstructionName` (with `f32.convert_i64_u` spelled in the standard way). -/
def numShape : String → Option NumShape
  | "i32.eqz" => some (.un .i32 .i32)
  | "i32.eq" | "i32.ne" | "i32.lt_s" | "i32.lt_u" | "i32.gt_s" | "i32.gt_u"
  | "i32.le_s" | "i32.le_u" | "i32.ge_s" | "i32.ge_u" => some (.bin .i32 .i32)
  | "i64.eqz" => some (.un .i64 .i32)
  | "i64.eq" | "i64.ne" | "i64.lt_s" | "i64.lt_u" | "i64.gt_s" | "i64.gt_u"
  | "i64.le_s" | "i64.le_u" | "i64.ge_s" | "i64.ge_u" => some (.bin .i64 .i32)
  | "f32.eq" | "f32.ne" | "f32.lt" | "f32.gt" | "f32.le" | "f32.ge" => some (.bin .f32 .i32)
  | "f64.eq" | "f64.ne" | "f64.lt" | "f64.gt" | "f64.le" | "f64.ge" => some (.bin .f64 .i32)
  | "i32.clz" | "i32.ctz" | "i32.popcnt" => some (.un .i32 .i32)
  | "i32.add" | "i32.sub" | "i32.mul" | "i32.div_s" | "i32.div_u" | "i32.rem_s" | "i32.rem_u"
  | "i32.and" | "i32.or" | "i32.xor" | "i32.shl" | "i32.shr_s" | "i32.shr_u" | "i32.rotl" | "i32.rotr" =>
    some (.bin .i32 .i32)
  | "i64.clz" | "i64.ctz" | "i64.popcnt" => some (.un .i64 .i64)
  | "i64.add" | "i64.sub" | "i64.mul" | "i64.div_s" | "i64.div_u" | "i64.rem_s" | "i64.rem_u"
  | "i64.and" | "i64.or" | "i64.xor" | "i64.shl" | "i64.shr_s" | "i64.shr_u" | "i64.rotl" | "i64.rotr" =>
    some (.bin .i64 .i64)
  | "f32.abs" | "f32.neg" | "f32.ceil" | "f32.floor" | "f32.trunc" | "f32.nearest" | "f32.sqrt" =>
    some (.un .f32 .f32)
  | "f32.add" | "f32.sub" | "f32.mul" | "f32.div" | "f32.min" | "f32.max" | "f32.copysign" =>
    some (.bin .f32 .f32)
  | "f64.abs" | "f64.neg" | "f64.ceil" | "f64.floor" | "f64.trunc" | "f64.nearest" | "f64.sqrt" =>
    some (.un .f64 .f64)
  | "f64.add" | "f64.sub" | "f64.mul" | "f64.div" | "f64.min" | "f64.max" | "f64.copysign" =>
    some (.bin .f64 .f64)
  | "i32.wrap_i64" => some (.un .i64 .i32)
  | "i32.trunc_f32_s" | "i32.trunc_f32_u" => some (.un .f32 .i32)
  | "i32.trunc_f64_s" | "i32.trunc_f64_u" => some (.un .f64 .i32)
  | "i64.extend_i32_s" | "i64.extend_i32_u" => some (.un .i32 .i64)
  | "i64.trunc_f32_s" | "i64.trunc_f32_u" => some (.un .f32 .i64)
  | "i64.trunc_f64_s" | "i64.trunc_f64_u" => some (.un .f64 .i64)
  | "f32.convert_i32_s" | "f32.convert_i32_u" => some (.un .i32 .f32)
  | "f32.convert_i64_s" | "f32.convert_i64_u" => some (.un .i64 .f32)
  | "f32.demote_f64" => some (.un .f64 .f32)
  | "f64.convert_i32_s" | "f64.convert_i32_u" => some (.un .i32 .f64)
  | "f64.convert_i64_s" | "f64.convert_i64_u" => some (.un .i64 .f64)
  | "f64.promote_f32" => some (.un .f32 .f64)
  | "i32.reinterpret_f32" => some (.un .f32 .i32)
  | "i64.reinterpret_f64" => some (.un .f64 .i64)
  | "f32.reinterpret_i32" => some (.un .i32 .f32)
  | "f64.reinterpret_i64" => some (.un .i64 .f64)
  | "i32.extend8_s" | "i32.extend16_s" => some (.un .i32 .i32)
  | "i64.extend8_s" | "i64.extend16_s" | "i64.extend32_s" => some (.un .i64 .i64)
  | "i32.trunc_sat_f32_s" | "i32.trunc_sat_f32_u" => some (.un .f32 .i32)
  | "i32.trunc_sat_f64_s" | "i32.trunc_sat_f64_u" => some (.un .f64 .i32)
  | "i64.trunc_sat_f32_s" | "i64.trunc_sat_f32_u" => some (.un .f32 .i64)
  | "i64.trunc_sat_f64_s" | "i64.trunc_sat_f64_u" => some (.un .f64 .i64)
  | _ => none

/-- signature of a numeric instruction: parameter types (first operand first) and the result type -/
def numSig (name : String) : Option (List VT × VT) :=
  match numShape name with
  | some (.un a r) => some ([a], r)
  | some (.bin a r) => some ([a, a], r)
  | none => none

/-! ## erasure to the reference syntax -/

def arity (bt : Option VT) : Nat := match bt with | none => 0 | some _ => 1

/-! `nop` is erased to an empty block (which does nothing). -/
mutual
def eraseI : TI → Instr
  | .const _ b => .const b
  | .num name =>
    match numShape name with
    | some (.bin _ _) => .num2 name
    | _ => .num1 name
  | .localGet i => .localGet i | .localSet i => .localSet i | .localTee i => .localTee i
  | .globalGet i => .globalGet i | .globalSet i => .globalSet i
  | .load t w sg _ off => .load t w sg off
  | .store _ w _ off => .store w off
  | .memSize => .memSize | .memGrow => .memGrow | .memCopy => .memCopy | .memFill => .memFill
  | .drop => .drop | .select => .select | .unreachable => .unreachable
  | .nop => .block 0 []
  | .ret => .ret
  | .br l => .br l | .brIf l => .brIf l | .brTable ls d => .brTable ls d
  | .call f => .call f | .callIndirect ti => .callIndirect ti
  | .block bt body => .block (arity bt) (erase body)
  | .loop _ body => .loop (erase body)
  | .ite bt th el => .ite (arity bt) (erase th) (erase el)
def erase : List TI → List Instr
  | [] => []
  | i :: is => eraseI i :: erase is
end

/-! ## validation context -/

structure Ctx where
  types : List FuncType := []
  funcs : List Nat := []                 -- type index per function index, imports first
  globals : List (VT × Bool) := []       -- type, mutable
  hasMem : Bool := false
  hasTable : Bool := false
  locals : List VT := []                 -- parameters ++ declared locals
  results : List VT := []
  refTypes : Bool := true                -- `api.CoreFeatureReferenceTypes` (only `br_table` looks at it in W0)
deriving Repr, Inhabited

/-! ## the value type stack (`valueTypeStack`) -/

/-- operand type: `none` is `valueTypeUnknown` (algorithm) / the bottom type (declarative rules) -/
abbrev OT := Option VT

structure VS where
  stack : List OT := []        -- top first (the Go slice grows at the end: `stack[len-1]` is our head)
  limits : List Nat := []      -- innermost first (`stackLimits[len-1]` is our head)
deriving Repr, Inhabited

namespace VS

def limit (s : VS) : Nat := s.limits.headD 0

/-- `tryPop`: `none` = not ok. -/
def tryPop (s : VS) : Option (OT × VS) :=
  if s.stack.length ≤ s.limit then none
  else if s.stack.length = s.limit + 1 ∧ s.stack.head? = some none then some (none, s)
  else
    match s.stack with
    | x :: r => some (x, { s with stack := r })
    | [] => none

def pop (s : VS) : Except String (OT × VS) :=
  match s.tryPop with
  | some r => .ok r
  | none => .error "invalid operation: trying to pop below the limit"

def popAndVerifyType (s : VS) (expected : VT) : Except String VS :=
  match s.tryPop with
  | none => .error "operand missing"
  | some (have_, s') =>
    if have_ = some expected ∨ have_ = none then .ok s' else .error "type mismatch"

def push (s : VS) (v : OT) : VS := { s with stack := v :: s.stack }

def resetAtStackLimit (s : VS) : VS := { s with stack := s.stack.drop (s.stack.length - s.limit) }

def unreachable (s : VS) : VS := s.resetAtStackLimit.push none

def popStackLimit (s : VS) : VS := { s with limits := s.limits.tail }

def pushStackLimit (s : VS) (params : Nat) : VS := { s with limits := (s.stack.length - params) :: s.limits }

/-- the first loop of `requireStackValues`: `n` times `tryPop`; the popped values in pop order -/
def popN (s : VS) : Nat → Option (List OT × VS)
  | 0 => some ([], s)
  | n + 1 =>
    match s.tryPop with
    | none => none
    | some (x, s') =>
      match popN s' n with
      | none => none
      | some (xs, s'') => some (x :: xs, s'')

/-- the last loop of `requireStackValues`: `have` (pop order) against `want` (reversed) -/
def typesOK : List OT → List VT → Bool
  | v :: vs, w :: ws => (v == some w || v == none) && typesOK vs ws
  | _, _ => true

def requireStackValues (s : VS) (want : List VT) (checkAboveLimit : Bool) : Except String VS :=
  match s.popN want.length with
  | none => .error "not enough values"
  | some (popped, s') =>
    if checkAboveLimit ∧
        ¬ (s'.limit = s'.stack.length ∨ (s'.limit + 1 = s'.stack.length ∧ s'.stack.head? = some none)) then
      .error "too many values"
    else if typesOK popped want.reverse then .ok s'
    else .error "type mismatch"

/-- `for i := 0; i < len(ps); i++ { popAndVerifyType(ps[len(ps)-1-i]) }` is `popAll ps.reverse` -/
def popAll (s : VS) : List VT → Except String VS
  | [] => .ok s
  | t :: ts =>
    match s.popAndVerifyType t with
    | .ok s' => popAll s' ts
    | .error e => .error e

/-- `for _, t := range ts { push(t) }` -/
def pushAll (s : VS) : List VT → VS
  | [] => s
  | t :: ts => pushAll (s.push (some t)) ts

/-- pop the parameters (last one first), push the results -/
def applySig (s : VS) (params results : List VT) : Except String VS :=
  match s.popAll params.reverse with
  | .ok s' => .ok (s'.pushAll results)
  | .error e => .error e

/-- the `OpcodeEnd` case for a frame with the given result types -/
def endBlock (s : VS) (results : List VT) : Except String VS :=
  match s.requireStackValues results true with
  | .ok s' => .ok ((s'.resetAtStackLimit.pushAll results).popStackLimit)
  | .error e => .error e

end VS

/-! ## the control stack (`controlBlockStack`) -/

inductive Kind | func | block | loop | ite
deriving DecidableEq, Repr

structure CF where
  kind : Kind
  results : List VT            -- W0: no block parameters
deriving Repr

/-- the types a branch to this frame needs: the parameters (none) of a loop, else the results -/
def CF.labelTypes (f : CF) : List VT := if f.kind = .loop then [] else f.results

def btResults (bt : Option VT) : List VT := bt.toList

/-! ## side conditions -/

/-- the load/store instructions that exist: access width per value type -/
def memWidthOK (t : VT) (width : Nat) : Bool :=
  match t with
  | .i32 => width == 8 || width == 16 || width == 32
  | .i64 => width == 8 || width == 16 || width == 32 || width == 64
  | .f32 => width == 32
  | .f64 => width == 64

/-- `signed` is only an attribute of the narrow integer loads -/
def loadOK (t : VT) (width : Nat) (signed : Bool) : Bool :=
  memWidthOK t width && (!signed || width < t.bits)

/-- Go: `!(1<<align > width/8)` with `1<<align` evaluated on a 64 bit `int` (quirk Q3) -/
def alignOK (align width : Nat) : Bool := align ≥ 63 || 2 ^ align ≤ width / 8

/-- `br_table`, reference types enabled: pop one operand per position of the default label type (last
position first); an unknown operand makes the position unknown.  Returns the adjusted type (in REVERSED
order: last position first). -/
def brTablePop (s : VS) : List VT → Except String (List OT × VS)
  | [] => .ok ([], s)
  | exp :: rest =>
    match s.pop with
    | .error e => .error e
    | .ok (actual, s') =>
      if actual = none then
        match brTablePop s' rest with
        | .ok (ts, s'') => .ok (none :: ts, s'')
        | .error e => .error e
      else if actual = some exp then
        match brTablePop s' rest with
        | .ok (ts, s'') => .ok (some exp :: ts, s'')
        | .error e => .error e
      else .error "type mismatch"

/-- one table label against the (possibly partly unknown) default type, both in the same (reversed) order -/
def labelAgrees : List OT → List VT → Bool
  | [], [] => true
  | d :: ds, t :: ts => (d == none || d == some t) && labelAgrees ds ts
  | _, _ => false

/-! `alignSane`: no load/store of the body uses an alignment exponent ≥ 63 (see quirk Q3) -/
mutual
def alignSaneI : TI → Bool
  | .load _ _ _ al _ => al < 63
  | .store _ _ al _ => al < 63
  | .block _ body => alignSane body
  | .loop _ body => alignSane body
  | .ite _ th el => alignSane th && alignSane el
  | _ => true
def alignSane : List TI → Bool
  | [] => true
  | i :: is => alignSaneI i && alignSane is
end

/-! ## the algorithm -/

mutual
def checkInstr (C : Ctx) (cs : List CF) : TI → VS → Except String VS
  | .const t _, s => .ok (s.push (some t))
  | .num name, s =>
    match numSig name with
    | some (ps, r) => s.applySig ps [r]
    | none => .error "invalid numeric instruction"
  | .localGet i, s =>
    match C.locals[i]? with
    | some t => s.applySig [] [t]
    | none => .error "invalid local index"
  | .localSet i, s =>
    match C.locals[i]? with
    | some t => s.applySig [t] []
    | none => .error "invalid local index"
  | .localTee i, s =>
    match C.locals[i]? with
    | some t => s.applySig [t] [t]
    | none => .error "invalid local index"
  | .globalGet i, s =>
    match C.globals[i]? with
    | some (t, _) => s.applySig [] [t]
    | none => .error "invalid global index"
  | .globalSet i, s =>
    match C.globals[i]? with
    | some (t, true) => s.applySig [t] []
    | some (_, false) => .error "global.set when not mutable"
    | none => .error "invalid global index"
  | .load t w sg al _, s =>
    if C.hasMem = false then .error "memory must exist"
    else if loadOK t w sg = false then .error "no such instruction"
    else if alignOK al w = false then .error "invalid memory alignment"
    else s.applySig [.i32] [t]
  | .store t w al _, s =>
    if C.hasMem = false then .error "memory must exist"
    else if memWidthOK t w = false then .error "no such instruction"
    else if alignOK al w = false then .error "invalid memory alignment"
    else s.applySig [.i32, t] []
  | .memSize, s => if C.hasMem = false then .error "memory must exist" else s.applySig [] [.i32]
  | .memGrow, s => if C.hasMem = false then .error "memory must exist" else s.applySig [.i32] [.i32]
  | .memCopy, s => if C.hasMem = false then .error "memory must exist" else s.applySig [.i32, .i32, .i32] []
  | .memFill, s => if C.hasMem = false then .error "memory must exist" else s.applySig [.i32, .i32, .i32] []
  | .drop, s =>
    match s.pop with
    | .ok (_, s') => .ok s'
    | .error e => .error e
  | .select, s =>
    match s.popAndVerifyType .i32 with
    | .error e => .error e
    | .ok s1 =>
      match s1.pop with
      | .error e => .error e
      | .ok (v1, s2) =>
        match s2.pop with
        | .error e => .error e
        | .ok (v2, s3) =>
          if v1 ≠ v2 ∧ v1 ≠ none ∧ v2 ≠ none then .error "type mismatch on 1st and 2nd select operands"
          else if v1 = none then .ok (s3.push v2) else .ok (s3.push v1)
  | .unreachable, s => .ok s.unreachable
  | .nop, s => .ok s
  | .ret, s =>
    match s.requireStackValues C.results false with
    | .ok s' => .ok s'.unreachable
    | .error e => .error e
  | .br l, s =>
    match cs[l]? with
    | none => .error "invalid br operation: index out of range"
    | some target =>
      match s.requireStackValues target.labelTypes false with
      | .ok s' => .ok s'.unreachable
      | .error e => .error e
  | .brIf l, s =>
    match cs[l]? with
    | none => .error "invalid br_if: index out of range"
    | some target =>
      match s.popAndVerifyType .i32 with
      | .error e => .error e
      | .ok s1 =>
        match s1.requireStackValues target.labelTypes false with
        | .ok s2 => .ok (s2.pushAll target.labelTypes)
        | .error e => .error e
  | .brTable ls d, s =>
    match cs[d]? with
    | none => .error "invalid br_table: default index out of range"
    | some dflt =>
      match s.popAndVerifyType .i32 with
      | .error e => .error e
      | .ok s1 =>
        if C.refTypes then
          match brTablePop s1 dflt.labelTypes.reverse with
          | .error e => .error e
          | .ok (dtRev, s2) =>
            if ls.all (fun l => match cs[l]? with
                | none => false
                | some f => labelAgrees dtRev f.labelTypes.reverse) then .ok s2.unreachable
            else .error "inconsistent block type for br_table"
        else
          match s1.requireStackValues dflt.labelTypes false with
          | .error e => .error e
          | .ok s2 =>
            if ls.all (fun l => match cs[l]? with
                | none => false
                | some f => f.labelTypes == dflt.labelTypes) then .ok s2.unreachable
            else .error "inconsistent block type for br_table"
  | .call f, s =>
    match C.funcs[f]? with
    | none => .error "invalid function index"
    | some ti =>
      match C.types[ti]? with
      | none => .error "invalid type index"
      | some ft => s.applySig ft.params ft.results
  | .callIndirect ti, s =>
    match C.types[ti]? with
    | none => .error "invalid type index at call_indirect"
    | some ft =>
      if C.hasTable = false then .error "unknown table index"
      else
        match s.popAndVerifyType .i32 with
        | .error e => .error e
        | .ok s1 => s1.applySig ft.params ft.results
  | .block bt body, s =>
    match checkSeq C (⟨.block, btResults bt⟩ :: cs) body (s.pushStackLimit 0) with
    | .error e => .error e
    | .ok s' => s'.endBlock (btResults bt)
  | .loop bt body, s =>
    match checkSeq C (⟨.loop, btResults bt⟩ :: cs) body (s.pushStackLimit 0) with
    | .error e => .error e
    | .ok s' => s'.endBlock (btResults bt)
  | .ite bt th el, s =>
    match s.popAndVerifyType .i32 with
    | .error e => .error e
    | .ok s0 =>
      match checkSeq C (⟨.ite, btResults bt⟩ :: cs) th (s0.pushStackLimit 0) with
      | .error e => .error e
      | .ok s1 =>
        -- `OpcodeElse`: popResults(results, checkAboveLimit = true), reset, (no params to push)
        match s1.requireStackValues (btResults bt) true with
        | .error e => .error e
        | .ok s2 =>
          match checkSeq C (⟨.ite, btResults bt⟩ :: cs) el s2.resetAtStackLimit with
          | .error e => .error e
          | .ok s3 => s3.endBlock (btResults bt)
def checkSeq (C : Ctx) (cs : List CF) : List TI → VS → Except String VS
  | [], s => .ok s
  | i :: is, s =>
    match checkInstr C cs i s with
    | .ok s' => checkSeq C cs is s'
    | .error e => .error e
end

/-- a function body: the outermost frame has the function's result types, no stack limit, and ends with the
`OpcodeEnd` check. -/
def check (C : Ctx) (body : List TI) : Except String Unit :=
  match checkSeq C [⟨.func, C.results⟩] body {} with
  | .error e => .error e
  | .ok s =>
    match s.endBlock C.results with
    | .ok _ => .ok ()
    | .error e => .error e

def accepts (C : Ctx) (body : List TI) : Bool :=
  match check C body with
  | .ok _ => true
  | .error _ => false

/-! ## declarative typing (the specification's rules)

Stacks are lists with the TOP FIRST.  `HasType C ls is ts1 ts2`: in context `C` with label types `ls`
(innermost first) the sequence `is` has type `ts1 → ts2` (it consumes `ts1`, top first, and produces `ts2`).
A function type's parameters `[p1, p2]` therefore appear as the stack `[p2, p1] = params.reverse`.
Operand types are value types or bottom (`none`, WebAssembly 2.0 "operand type"); bottom only arises from the
stack-polymorphic instructions and matches every type (`sub`). -/

/-- `a` matches `b`: bottom matches everything -/
def OT.le (a b : OT) : Prop := a = none ∨ a = b

/-- pointwise matching of stack types -/
def StkLe : List OT → List OT → Prop
  | [], [] => True
  | a :: as, b :: bs => OT.le a b ∧ StkLe as bs
  | _, _ => False

def somes (ts : List VT) : List OT := ts.map some

inductive HasType (C : Ctx) : List (List VT) → List TI → List OT → List OT → Prop
  -- structural rules
  | nil {ls} : HasType C ls [] [] []
  | cons {ls i is ts1 ts2 ts3} :
      HasType C ls [i] ts1 ts2 → HasType C ls is ts2 ts3 → HasType C ls (i :: is) ts1 ts3
  | frame {ls is ts1 ts2} (ts : List OT) :
      HasType C ls is ts1 ts2 → HasType C ls is (ts1 ++ ts) (ts2 ++ ts)
  | sub {ls is ts1 ts2 ts1' ts2'} :
      HasType C ls is ts1 ts2 → StkLe ts1' ts1 → StkLe ts2 ts2' → HasType C ls is ts1' ts2'
  -- plain instructions
  | const {ls t b} : HasType C ls [.const t b] [] [some t]
  | num {ls name ps r} : numSig name = some (ps, r) → HasType C ls [.num name] (somes ps.reverse) [some r]
  | localGet {ls i t} : C.locals[i]? = some t → HasType C ls [.localGet i] [] [some t]
  | localSet {ls i t} : C.locals[i]? = some t → HasType C ls [.localSet i] [some t] []
  | localTee {ls i t} : C.locals[i]? = some t → HasType C ls [.localTee i] [some t] [some t]
  | globalGet {ls i t mu} : C.globals[i]? = some (t, mu) → HasType C ls [.globalGet i] [] [some t]
  | globalSet {ls i t} : C.globals[i]? = some (t, true) → HasType C ls [.globalSet i] [some t] []
  | load {ls t w sg al off} : C.hasMem = true → loadOK t w sg = true → 2 ^ al ≤ w / 8 →
      HasType C ls [.load t w sg al off] [some .i32] [some t]
  | store {ls t w al off} : C.hasMem = true → memWidthOK t w = true → 2 ^ al ≤ w / 8 →
      HasType C ls [.store t w al off] [some t, some .i32] []
  | memSize {ls} : C.hasMem = true → HasType C ls [.memSize] [] [some .i32]
  | memGrow {ls} : C.hasMem = true → HasType C ls [.memGrow] [some .i32] [some .i32]
  | memCopy {ls} : C.hasMem = true → HasType C ls [.memCopy] [some .i32, some .i32, some .i32] []
  | memFill {ls} : C.hasMem = true → HasType C ls [.memFill] [some .i32, some .i32, some .i32] []
  | drop {ls} (t : OT) : HasType C ls [.drop] [t] []
  | select {ls} (t : OT) : HasType C ls [.select] [some .i32, t, t] [t]
  | nop {ls} : HasType C ls [.nop] [] []
  -- stack-polymorphic instructions
  | unreachable {ls} (ts1 ts2 : List OT) : HasType C ls [.unreachable] ts1 ts2
  | ret {ls} (ts1 ts2 : List OT) : HasType C ls [.ret] (somes C.results.reverse ++ ts1) ts2
  | br {ls l lt} (ts1 ts2 : List OT) : ls[l]? = some lt → HasType C ls [.br l] (somes lt.reverse ++ ts1) ts2
  | brIf {ls l lt} : ls[l]? = some lt →
      HasType C ls [.brIf l] (some .i32 :: somes lt.reverse) (somes lt.reverse)
  /- `br_table` (2.0): there is a sequence `ts` of operand types matching the type of every label -/
  | brTable {ls tbl d} (ts : List OT) (ts1 ts2 : List OT) :
      (∀ l, l ∈ d :: tbl → ∃ lt, ls[l]? = some lt ∧ StkLe ts (somes lt.reverse)) →
      HasType C ls [.brTable tbl d] (some .i32 :: ts ++ ts1) ts2
  -- calls
  | call {ls f ti ft} : C.funcs[f]? = some ti → C.types[ti]? = some ft →
      HasType C ls [.call f] (somes ft.params.reverse) (somes ft.results.reverse)
  | callIndirect {ls ti ft} : C.hasTable = true → C.types[ti]? = some ft →
      HasType C ls [.callIndirect ti] (some .i32 :: somes ft.params.reverse) (somes ft.results.reverse)
  -- structured control (W0 block types: no parameters, at most one result)
  | block {ls bt body} : HasType C (btResults bt :: ls) body [] (somes (btResults bt)) →
      HasType C ls [.block bt body] [] (somes (btResults bt))
  | loop {ls bt body} : HasType C ([] :: ls) body [] (somes (btResults bt)) →
      HasType C ls [.loop bt body] [] (somes (btResults bt))
  | ite {ls bt th el} :
      HasType C (btResults bt :: ls) th [] (somes (btResults bt)) →
      HasType C (btResults bt :: ls) el [] (somes (btResults bt)) →
      HasType C ls [.ite bt th el] [some .i32] (somes (btResults bt))

/-- a function body is well typed: `[] → results` with the function's results as the only label -/
def WellTyped (C : Ctx) (body : List TI) : Prop :=
  HasType C [C.results] body [] (somes C.results.reverse)

end Wz.Model.Validator
