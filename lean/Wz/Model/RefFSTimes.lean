/-
Modification times set explicitly by the guest (`fd_filestat_set_times` / `path_filestat_set_times` with the MTIM
flag) on top of the reference file system.  The host decides every other time stamp, so the reference keeps, per
inode, only a time the guest SET and nothing has changed since (`none` = unknown: not compared).  A descriptor
stays valid until closed whatever was done with it before (directory listings included), so setting times through
it succeeds exactly when it is open, and affects that inode only.
Core Lean only.
-/
import Wz.Model.RefFS

namespace Wz.Model.RefFS

abbrev Times := List (Nat × Nat)   -- inode ↦ mtime set by the guest and still valid

/-- `fd_filestat_set_times(fd, mtim, MTIM)` -/
def FS.fdSetTimes (fs : FS) (ts : Times) (fd : Int) (t : Nat) : Times × E :=
  match fs.desc fd with
  | .error e => (ts, e)
  | .ok (_, d) => (aset ts d.ino t, .ok)

/-- the mtime `fd_filestat_get(fd)` must report, if the reference knows it -/
def FS.fdMtime (fs : FS) (ts : Times) (fd : Int) : E × Option Nat :=
  match fs.desc fd with
  | .error e => (e, none)
  | .ok (_, d) => (.ok, aget ts d.ino)

/-- `path_filestat_set_times(dirfd, path, mtim, MTIM)` -/
def FS.pathSetTimes (fs : FS) (ts : Times) (dirfd : Int) (comps0 : List String) (t : Nat) : Times × E :=
  match fs.atPath dirfd comps0 with
  | .error e => (ts, e)
  | .ok (start, comps) =>
    match fs.resolve start comps with
    | .error e => (ts, e)
    | .ok ino => (aset ts ino t, .ok)

def FS.pathMtime (fs : FS) (ts : Times) (dirfd : Int) (comps0 : List String) : E × Option Nat :=
  match fs.atPath dirfd comps0 with
  | .error e => (e, none)
  | .ok (start, comps) =>
    match fs.resolve start comps with
    | .error e => (e, none)
    | .ok ino => (.ok, aget ts ino)

theorem aget_aset_same {β} (l : List (Nat × β)) (k : Nat) (v : β) : aget (aset l k v) k = some v := by
  simp [aget, aset]

theorem find_filter_ne {β} (l : List (Nat × β)) (k k' : Nat) (h : k' ≠ k) :
    (l.filter (·.1 != k)).find? (·.1 == k') = l.find? (·.1 == k') := by
  induction l with
  | nil => rfl
  | cons a l ih =>
    by_cases ha : a.1 = k
    · have hk : (a.1 == k') = false := by
        rw [ha]; exact beq_false_of_ne (fun e => h e.symm)
      have hf : (a.1 != k) = false := by simp [ha]
      rw [List.filter_cons, hf, List.find?_cons, hk]
      simpa using ih
    · have hf : (a.1 != k) = true := by simp [ha]
      rw [List.filter_cons, hf]
      simp only [if_true, List.find?_cons]
      cases hb : a.1 == k' <;> simp [ih]

theorem aget_aset_other {β} (l : List (Nat × β)) (k k' : Nat) (v : β) (h : k' ≠ k) :
    aget (aset l k v) k' = aget l k' := by
  have h1 : (k == k') = false := beq_false_of_ne (fun e => h e.symm)
  simp only [aget, aset, List.find?_cons, h1, find_filter_ne l k k' h]

end Wz.Model.RefFS
