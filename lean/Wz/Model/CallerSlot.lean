/-
C04 (also C12, C20), compiler: the caller-module slot.

All modules running on one call stack share one word of the execution context,
`executionContext.callerModuleContextPtr`.  Compiled code of module M stores M's context into it
(`Compiler.storeCallerModuleContext`) and the Go handlers of exits that act "on behalf of the executing
module" (module-aware host functions, memory.grow, table.grow, ref.func, atomics wait/notify, listeners) read
it back (`callEngine.callerModuleInstance`).  Code of other modules runs in between (calls, returns) and
stores its own context.

Model: a trace of events of ANY interleaving of modules' code; the handler of an exit observes the slot.
-/
namespace Wz.Model.CallerSlot

inductive Ev where
  | store (m : Nat)   -- code of module m executes `callerModuleContextPtr := m`
  | exit (m : Nat)    -- code of module m leaves to a Go handler that reads the slot
  | other             -- anything else (arithmetic, calls, returns, exits whose handler ignores the slot)
deriving DecidableEq, Repr

/-- what each slot-reading handler saw: (executing module, observed module) -/
def run : List Ev → Nat → List (Nat × Nat)
  | [], _ => []
  | .store m :: es, _ => run es m
  | .exit m :: es, slot => (m, slot) :: run es slot
  | .other :: es, slot => run es slot

/-- The discipline the front end follows: every slot-reading exit of module m is IMMEDIATELY preceded by m's
own store (nothing, in particular no call into another module, in between).  `last` = the module whose store
was the immediately preceding event, if any. -/
def disciplinedFrom : Option Nat → List Ev → Bool
  | _, [] => true
  | _, .store m :: es => disciplinedFrom (some m) es
  | last, .exit m :: es => last == some m && disciplinedFrom none es
  | _, .other :: es => disciplinedFrom none es

def Disciplined (es : List Ev) : Prop := disciplinedFrom none es = true

instance (es : List Ev) : Decidable (Disciplined es) := by unfold Disciplined; infer_instance

theorem disciplinedFrom_sees_own (es : List Ev) (last : Option Nat) (slot : Nat)
    (h : disciplinedFrom last es = true) (hl : ∀ m, last = some m → slot = m) :
    ∀ p ∈ run es slot, p.2 = p.1 := by
  induction es generalizing last slot with
  | nil => intro p hp; cases hp
  | cons e es ih =>
    cases e with
    | store m =>
      simp only [disciplinedFrom] at h
      simp only [run]
      exact ih (some m) m h (fun m' hm => by cases hm; rfl)
    | exit m =>
      simp only [disciplinedFrom, Bool.and_eq_true, beq_iff_eq] at h
      intro p hp
      simp only [run] at hp
      cases hp with
      | head => exact hl m h.1
      | tail _ hm => exact ih none slot h.2 (fun _ hn => by cases hn) p hm
    | other =>
      simp only [disciplinedFrom] at h
      simp only [run]
      exact ih none slot h (fun _ hn => by cases hn)

/-- Under the discipline every slot-reading handler observes the module that is executing, whatever the other
modules' code does in between and whatever the slot held at the start. -/
theorem disciplined_sees_own (es : List Ev) (slot : Nat) (h : Disciplined es) :
    ∀ p ∈ run es slot, p.2 = p.1 :=
  disciplinedFrom_sees_own es none slot h (fun _ hn => by cases hn)

end Wz.Model.CallerSlot
