/-
Model of the value marshalling at the host/guest boundary (property C08).

* `api.Encode*/Decode*` for the integer and reference types are NOT written here: they are regenerated
  from api/wasm.go into `Wz.Gen.ApiCodec` on every run (tie A).  The float encoders go through
  `math.Float32bits` etc. and are the identity on bit patterns (hand-written below, tie B).
* `callGoFunc` (internal/wasm/gofunc.go): the per-kind conversions slot -> Go value (parameters) and
  Go value -> slot (results) used for host functions defined by reflection (`WithFunc`).
  Go values are represented by their bit patterns (`BitVec 32` / `BitVec 64`), so "bit for bit" is
  plain equality.
* the two engines' view of a slot of a 32-bit type.

Finding switches (DESIGN §8): `Variant` selects, per finding, the as-is or the repaired conversion.
-/
import Wz.Gen.ApiCodec

namespace Wz.Model.Marshal

/-- The Go kinds `parseGoReflectFunc`/`getTypeOf` accept for parameters and results. -/
inductive Kind where
  | int32 | uint32 | int64 | uint64 | float32 | float64 | uintptr
deriving DecidableEq, Repr

/-- Wasm value types at the boundary. -/
inductive VT where
  | i32 | i64 | f32 | f64 | externref
deriving DecidableEq, Repr

/-- `getTypeOf`. -/
def Kind.vt : Kind → VT
  | .int32 | .uint32 => .i32
  | .int64 | .uint64 => .i64
  | .float32 => .f32
  | .float64 => .f64
  | .uintptr => .externref

def VT.is32 : VT → Bool
  | .i32 | .f32 => true
  | _ => false

/-- Width in bits of a Go value of the kind (uintptr is 64 bits on the supported platforms). -/
@[reducible] def Kind.width : Kind → Nat
  | .int32 | .uint32 | .float32 => 32
  | _ => 64

def Kind.is32 (k : Kind) : Bool := k.vt.is32

/-! ### float32 through float64 -/

def isNaN32 (b : BitVec 32) : Bool := (b &&& 0x7f800000#32) == 0x7f800000#32 && (b &&& 0x007fffff#32) != 0#32

/-- The quiet bit of a float32 NaN: bit 22 (`0x00400000`). -/
def quietBit : BitVec 32 := BitVec.twoPow 32 22

/-- Signalling NaN: a NaN whose quiet bit is clear. -/
def isSNaN32 (b : BitVec 32) : Bool := isNaN32 b && !b.getLsbD 22

/-- The composite `float32(float64(x))` on a bit pattern: every non-NaN float32 is exactly representable
as a float64 (IEEE 754 §5.4.2) so it comes back unchanged; a NaN comes back with its quiet bit set and
its sign and payload kept (CVTSS2SD/CVTSD2SS, FCVT).  Tied to the CPU by the harness: exhaustively over
all 2^32 patterns in the thorough tier. -/
def viaF64 (b : BitVec 32) : BitVec 32 := if isNaN32 b then b ||| quietBit else b

/-- The same fact stated abstractly: any pair of conversions with the two IEEE laws. -/
structure F32Conv where
  widen : BitVec 32 → BitVec 64
  narrow : BitVec 64 → BitVec 32
  exact : ∀ b, isNaN32 b = false → narrow (widen b) = b
  quiets : ∀ b, isNaN32 b = true → narrow (widen b) = b ||| quietBit

/-! ### callGoFunc -/

/-- Which variant of the code is modelled.  `asIs` is the pinned tree. -/
structure Variant where
  /-- F5 repaired: reflected `int32` results are stored zero-extended (`uint64(uint32(ret.Int()))`). -/
  int32ResultZeroExt : Bool
  /-- F6 repaired (parameter direction): `float32` parameters are set bit-exactly. -/
  f32ParamExact : Bool
  /-- F6 repaired (result direction): `float32` results are read bit-exactly. -/
  f32ResultExact : Bool
deriving DecidableEq, Repr

def asIs : Variant := ⟨false, false, false⟩
def repaired : Variant := ⟨true, true, true⟩

/-- Parameter direction: the Go value `callGoFunc` builds from stack slot `raw` for a parameter of kind `k`.
`SetInt(int64(raw))`/`SetUint(raw)` on a 32-bit kind truncate; `SetFloat(float64(Float32frombits(uint32(raw))))`
on a float32 goes through float64. -/
def decodeParam (v : Variant) : (k : Kind) → BitVec 64 → BitVec k.width
  | .int32, raw => raw.setWidth 32
  | .uint32, raw => raw.setWidth 32
  | .int64, raw => raw
  | .uint64, raw => raw
  | .uintptr, raw => raw
  | .float64, raw => raw
  | .float32, raw => if v.f32ParamExact then raw.setWidth 32 else viaF64 (raw.setWidth 32)

/-- Result direction: the slot `callGoFunc` stores for a result `x` of kind `k`.
`uint64(ret.Int())` sign-extends an int32 (F5); `ret.Uint()` zero-extends;
`uint64(Float32bits(float32(ret.Float())))` goes through float64 (F6). -/
def encodeResult (v : Variant) : (k : Kind) → BitVec k.width → BitVec 64
  | .int32, x => if v.int32ResultZeroExt then x.setWidth 64 else x.signExtend 64
  | .uint32, x => x.setWidth 64
  | .int64, x => x
  | .uint64, x => x
  | .uintptr, x => x
  | .float64, x => x
  | .float32, x => if v.f32ResultExact then x.setWidth 64 else (viaF64 x).setWidth 64

/-- A slot is canonical for its type when a 32-bit value has a zero upper half. -/
def canonical (t : VT) (s : BitVec 64) : Bool := !t.is32 || (s >>> 32 == 0#64)

/-- The canonical slot holding the same 32-bit (or 64-bit) value. -/
def canon (t : VT) (s : BitVec 64) : BitVec 64 := if t.is32 then (s.setWidth 32).setWidth 64 else s

/-! ### what the engines read from a slot written by the host

The compiler's trampoline reloads a 32-bit result with a 32-bit load (`movzx`/`movss`), the interpreter
pushes the whole uint64 onto its value stack and its i32 comparison compares the whole words. -/

inductive Engine where
  | interpreter | compiler
deriving DecidableEq, Repr

def guestView (e : Engine) (t : VT) (slot : BitVec 64) : BitVec 64 :=
  match e with
  | .interpreter => slot
  | .compiler => canon t slot

/-- `local != const` computed in wasm on an i32 (the constant is pushed canonically). -/
def wasmNeI32 (e : Engine) (slot : BitVec 64) (c : BitVec 32) : Bool :=
  guestView e .i32 slot != c.setWidth 64

/-! ### the stack-based forms and the float encoders -/

/-- `api.EncodeF32` = `uint64(math.Float32bits(x))`, `api.DecodeF32` = `Float32frombits(uint32(s))`: identity on bits. -/
def EncodeF32 (x : BitVec 32) : BitVec 64 := x.setWidth 64
def DecodeF32 (s : BitVec 64) : BitVec 32 := s.setWidth 32
def EncodeF64 (x : BitVec 64) : BitVec 64 := x
def DecodeF64 (s : BitVec 64) : BitVec 64 := s

/-! ### `Call` / `CallWithStack` slice sizing (module_engine.go NewFunction, interpreter callEngine) -/

/-- Number of uint64 slots of the shared param/result slice. -/
def sliceSize (params results : Nat) : Nat := if params > results then params else results

end Wz.Model.Marshal
