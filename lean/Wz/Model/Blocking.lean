/-
A guest instruction that BLOCKS (memory.atomic.wait32/64) instead of cycling.

`MemoryInstance.wait` (internal/wasm/memory.go) parks the calling goroutine on a channel until one of the
sources it listens to fires.  The model abstracts one wait as the earliest firing time among the sources the
implementation listens to; "never" is `none`.  Which sources are listened to is a code shape, regenerated into
`Wz.Gen.Shapes` (ids `c07.wait_wakeups`, `c07.wait_listens_done`) and compared in `Wz/Props/C07.lean`.
Core Lean only.
-/
namespace Wz.Model.Blocking

/-- The sources a wait listens to. -/
structure Sources where
  notify  : Bool
  timeout : Bool
  /-- the call's context being done / the module being closed -/
  stop    : Bool
  deriving Repr, DecidableEq

/-- The pinned tree: `<-ready` alone for a negative timeout, `select { <-ready; <-time.After(timeout) }` otherwise. -/
def asIs : Sources := { notify := true, timeout := true, stop := false }
/-- Any repaired variant additionally listens to the cause. -/
def repaired : Sources := { notify := true, timeout := true, stop := true }

/-- One wait: the guest's timeout (`none` = -1, wait forever), when another agent notifies (`none` = never),
when the cause (cancel / deadline / close) fires (`none` = never).  Times are relative to the start of the wait. -/
structure Scenario where
  timeout  : Option Nat
  notifyAt : Option Nat
  stopAt   : Option Nat
  deriving Repr, DecidableEq

def minOpt : Option Nat → Option Nat → Option Nat
  | none, b => b
  | a, none => a
  | some a, some b => some (min a b)

def gate (on : Bool) (t : Option Nat) : Option Nat := if on then t else none

/-- The moment the wait returns (`none`: the goroutine is parked forever). -/
def returnsAt (s : Sources) (sc : Scenario) : Option Nat :=
  minOpt (gate s.notify sc.notifyAt) (minOpt (gate s.timeout sc.timeout) (gate s.stop sc.stopAt))

theorem minOpt_le_right (a : Option Nat) (t : Nat) : ∃ r, minOpt a (some t) = some r ∧ r ≤ t := by
  cases a with
  | none => exact ⟨t, rfl, Nat.le_refl t⟩
  | some x => exact ⟨min x t, rfl, Nat.min_le_right x t⟩

theorem minOpt_eq_none (a b : Option Nat) : minOpt a b = none ↔ a = none ∧ b = none := by
  cases a <;> cases b <;> simp [minOpt]

end Wz.Model.Blocking
