/-
Model of `descriptor.Table` (internal/descriptor/table.go) for property C15: a bitmap (`masks`, one
64-bit word per 64 keys) plus a dense slice (`items`) indexed by the descriptor number.

Transcription notes
* a mask is a `Nat` whose bits 0..63 are the Go `uint64`; `1 << shift` is `2 ^ shift`;
* `bits.TrailingZeros64(^mask)` under the guard `^mask != 0` is `firstClear mask` (lowest clear bit);
* `mask & ^(1<<shift)` is only executed under the guard "bit is set", where it equals `mask ^^^ 2^shift`;
* keys are `Int` (Go `int32`); `Insert` computes `Key(index)*64 + Key(shift)` in int32 — the wrap of that
  product needs 2^31 live descriptors and is not modelled (`ok` is `key < 2^31` as in `key >= 0`).
The correspondence with the real table is checked on every run by `hc15` (direct op sequences).
-/
namespace Wz.Model.DescTable

structure Table (α : Type) where
  masks : List Nat
  items : List (Option α)
deriving Repr

def empty {α} : Table α := ⟨[], []⟩

/-- `grow(n)`: `n` more mask words and `64*n` more item slots. -/
def grow {α} (t : Table α) (n : Nat) : Table α :=
  { masks := t.masks ++ List.replicate n 0, items := t.items ++ List.replicate (n * 64) none }

/-- lowest clear bit among bits 0..63 (`none` = the word is full). -/
def firstClear (mask : Nat) : Option Nat := (List.range 64).find? (fun i => !mask.testBit i)

/-- first word that is not full, scanning from index `idx`. -/
def findFree : List Nat → Nat → Option (Nat × Nat)
  | [], _ => none
  | m :: ms, idx =>
    match firstClear m with
    | some s => some (idx, s)
    | none => findFree ms (idx + 1)

def setBit {α} (t : Table α) (index shift : Nat) (item : α) : Table α :=
  { masks := t.masks.set index (t.masks.getD index 0 ||| 2 ^ shift),
    items := t.items.set (index * 64 + shift) (some item) }

/-- `Insert`: lowest free key; grows by one word when every word is full. Returns (table, key, ok). -/
def insert {α} (t : Table α) (item : α) : Table α × Nat × Bool :=
  match findFree t.masks 0 with
  | some (index, shift) =>
    (setBit t index shift item, index * 64 + shift, decide (index * 64 + shift < 2147483648))
  | none =>
    let index := t.masks.length
    (setBit (grow t 1) index 0 item, index * 64, decide (index * 64 < 2147483648))

/-- `InsertAt`: grows the table so that `key` fits, whatever `key` is. -/
def insertAt {α} (t : Table α) (item : α) (key : Int) : Table α × Bool :=
  if key < 0 then (t, false) else
  let k := key.toNat
  let index := k / 64
  let t' := if index + 1 > t.masks.length then grow t (index + 1 - t.masks.length) else t
  (setBit t' index (k % 64) item, true)

def lookup {α} (t : Table α) (key : Int) : Option α :=
  if key < 0 then none else
  let k := key.toNat
  if k < t.items.length then
    if (t.masks.getD (k / 64) 0).testBit (k % 64) then (t.items.getD k none) else none
  else none

def delete {α} (t : Table α) (key : Int) : Table α :=
  if key < 0 then t else
  let k := key.toNat
  let index := k / 64
  if index < t.masks.length then
    let mask := t.masks.getD index 0
    if mask.testBit (k % 64) then
      { masks := t.masks.set index (mask ^^^ 2 ^ (k % 64)), items := t.items.set k none }
    else t
  else t

/-- `Reset`: `clear` keeps the lengths. -/
def reset {α} (t : Table α) : Table α :=
  { masks := t.masks.map (fun _ => 0), items := t.items.map (fun _ => none) }

/-- `Len`: number of set bits (= number of present items under the invariant). -/
def count {α} (t : Table α) : Nat := (t.items.filter Option.isSome).length

/-- Representation invariant: one item slot per mask bit, and a bit is set iff the item is present. -/
def Inv {α} (t : Table α) : Prop :=
  t.items.length = 64 * t.masks.length ∧
  ∀ k, k < t.items.length → ((t.masks.getD (k / 64) 0).testBit (k % 64) = (t.items.getD k none).isSome)

/-- Number of item slots the table occupies (the host memory it holds is proportional to this). -/
def slots {α} (t : Table α) : Nat := t.items.length

inductive Op (α : Type) where
  | insert (item : α)
  | insertAt (item : α) (key : Int)
  | delete (key : Int)
  | reset

def apply {α} (t : Table α) : Op α → Table α
  | .insert it => (insert t it).1
  | .insertAt it k => (insertAt t it k).1
  | .delete k => delete t k
  | .reset => reset t

def applyAll {α} (t : Table α) (ops : List (Op α)) : Table α := ops.foldl apply t

end Wz.Model.DescTable
