/-
The two engines' per-function-object state (`callEngine`) as state machines, for property C06.

Compiler (internal/engine/wazevo/call_engine.go): `execCtx.exitCode`, the Go-allocated native stack
(`stack`, `stackTop`), the dispatch loop of `callWithStack` over exit codes, `growStack`, and the
deferred recover.  Everything that is decision logic is NOT written here but imported from
`Wz.Gen.ExitCodes`, regenerated from /repo on every run: the exit-code table, the exit-code → action
switch, the overflow test and new-length rule of `growStack`, `alignedStackTop`,
`requiredInitialStackSize`, and whether the deferred function resets `exitCode` on error.

Native code is modelled by what it does at the Go boundary (assumed, not verified): it never reads
`exitCode`, writes it (non-OK) on every exit to Go, leaves it untouched on a normal return, and asks
for stack through `ExitCodeGrowStack` while the frame it is about to build does not fit.

Interpreter (internal/engine/interpreter/interpreter.go): `frames`, `stack`, `pushFrame`'s ceiling
test and `recoverOnCall`.

Core Lean only (linked into the oracle).
-/
import Wz.Gen.ExitCodes

namespace Wz.Model.CallEngine
open Wz.Gen.ExitCodes

/-! ### growStack -/

/-- One `growStack()`: `none` = `ErrRuntimeStackOverflow`, else the new `len(c.stack)`.
Finding switch (F24): `capped = false` is the code as it is (regenerated test and length rule: the
stack may end anywhere between the ceiling and twice the ceiling, depending on where the doubling
sequence of this function object happens to cross it); `capped = true` is the repaired variant in
which no stack is ever longer than the ceiling. -/
def growLen (capped : Bool) (len req : Nat) : Option Nat :=
  if capped then
    (if callStackCeiling ≤ len then none else some (min (growNewLen len req) callStackCeiling))
  else
    (if growOverflows callStackCeiling len then none else some (growNewLen len req))

/-- Lengths visited by repeated growth (unbounded recursion), until overflow. -/
def growSeq (capped : Bool) : Nat → Nat → Nat → List Nat
  | 0, _, _ => []
  | k + 1, len, req =>
    match growLen capped len req with
    | none => []
    | some n => n :: growSeq capped k n req

def requiredInitial (n : Nat) : Nat := requiredInitialStackSize n

/-! ### the compiler's callEngine -/

structure CE where
  exitCode : Nat   -- execCtx.exitCode
  base : Nat       -- &stack[0]
  len : Nat        -- len(stack)
  top : Nat        -- stackTop
  required : Nat   -- requiredInitialStackSize() of this function object (constant)
deriving DecidableEq, Repr

/-- `callEngine.init` for a function whose param/result slice has `n` slots; `alloc` is the Go
allocator (any function from a length to an address). -/
def CE.fresh (alloc : Nat → Nat) (n : Nat) : CE :=
  let l := requiredInitialStackSize n
  { exitCode := 0, base := alloc l, len := l, top := alignedStackTop (alloc l) l, required := l }

/-- The invariant of an idle function object. -/
def Inv (ce : CE) : Prop :=
  ce.exitCode = 0 ∧ ce.top % 16 = 0 ∧ ce.base ≤ ce.top ∧ ce.top < ce.base + ce.len ∧ ce.required ≤ ce.len
    ∧ 16 ≤ ce.len ∧ ce.base + ce.len ≤ ce.top + 16

instance (ce : CE) : Decidable (Inv ce) := by unfold Inv; infer_instance

inductive PanicVal
  | err (n : Nat) | str (n : Nat) | val (n : Nat) | exitErr (c : Nat)
deriving DecidableEq, Repr

/-- What the Go code serviced by a `resume` action does: maybe closes the module, maybe panics. -/
structure HostBeh where
  closes : Option Nat := none
  panics : Option PanicVal := none
deriving DecidableEq, Repr

inductive Ev
  /-- native code exits to Go with `code` (low 8 bits = kind) -/
  | exit (code : Nat) (host : HostBeh)
  /-- native code needs `bytes` of stack below the top (`none`: unbounded recursion); it exits with
  `ExitCodeGrowStack` (`stackGrowRequiredSize = req`) as long as it does not have them -/
  | need (bytes : Option Nat) (req : Nat)
deriving DecidableEq, Repr

inductive Err
  | runtime (name : String)     -- panic(wasmruntime.<name>) wrapped by FromRecovered
  | overflow                    -- wasmruntime.ErrRuntimeStackOverflow returned by growStack
  | panicked (v : PanicVal)     -- the host panic value
  | exit (c : Nat)              -- *sys.ExitError
  | bug                         -- panic("BUG")
  | undefinedBehaviour          -- native code resumed with stale pointers (never under Inv)
  | stuck                       -- model artefact: growth loop out of fuel (proved impossible)
deriving DecidableEq, Repr

def nameOf (code : Nat) : Option String :=
  (exitCodes.find? (fun p => p.2 == code % (exitCodeMask + 1))).map (·.1)

/-- The regenerated switch of `callWithStack`. -/
def actionOf (code : Nat) : Action :=
  match nameOf code with
  | none => dispatchDefault
  | some n =>
    match dispatch.find? (fun p => p.1 == n) with
    | none => dispatchDefault
    | some p => p.2

def recoveredToErr : PanicVal → Err
  | .exitErr c => .exit c
  | v => .panicked v

def closeWith (closed : Option Nat) (c : Option Nat) : Option Nat :=
  match closed with
  | some x => some x
  | none => c

/-- `cloneStack` + `growStack`'s assignments: a new stack of `n` bytes with an aligned top. -/
def CE.realloc (alloc : Nat → Nat) (ce : CE) (n : Nat) : CE :=
  { ce with base := alloc n, len := n, top := alignedStackTop (alloc n) n }

/-- Result of the dispatch loop before the deferred function: `(recovered panic, returned err)`. -/
structure LoopRes where
  recovered : Option Err := none   -- value a panic carried (already classified)
  returned : Option Err := none    -- error returned without panic (stack overflow)
  ce : CE
  closed : Option Nat
deriving DecidableEq, Repr

def growFuel : Nat := 64

/-- Does the native code have the stack it needs? -/
def fits (ce : CE) : Option Nat → Bool
  | some b => decide (b ≤ ce.top - ce.base)
  | none => false

/-- Repeated `ExitCodeGrowStack` exits until `bytes` fit (or overflow). -/
def satisfy (capped : Bool) (alloc : Nat → Nat) : Nat → CE → Option Nat → Nat → Except (Err × CE) CE
  | 0, ce, _, _ => .error (.stuck, ce)
  | k + 1, ce, bytes, req =>
    if fits ce bytes then .ok ce
    else
      match growLen capped ce.len req with
      | none => .error (.overflow, ce)   -- the stack stays as long as it has become
      | some n => satisfy capped alloc k { (ce.realloc alloc n) with exitCode := 0 } bytes req

/-- The dispatch loop of `callWithStack` (after `entrypoint`), structural on the native events. -/
def loop (capped : Bool) (alloc : Nat → Nat) : List Ev → CE → Option Nat → LoopRes
  | [], ce, closed =>
    -- native code returned normally; the loop reads whatever is in exitCode
    match actionOf ce.exitCode with
    | .ret => { ce := ce, closed := closed }
    | .panicErr n => { recovered := some (.runtime n), ce := ce, closed := closed }
    | .panicBug => { recovered := some .bug, ce := ce, closed := closed }
    | _ => { recovered := some .undefinedBehaviour, ce := ce, closed := closed }
  | .need bytes req :: rest, ce, closed =>
    match satisfy capped alloc growFuel ce bytes req with
    | .ok ce' => loop capped alloc rest ce' closed
    | .error (e, ce') => { returned := some e, ce := { ce' with exitCode := 1 }, closed := closed }
  | .exit code host :: rest, ce, closed =>
    let ce := { ce with exitCode := code }
    match actionOf code with
    | .ret => { ce := ce, closed := closed }
    | .panicErr n => { recovered := some (.runtime n), ce := ce, closed := closed }
    | .panicBug => { recovered := some .bug, ce := ce, closed := closed }
    | .growStack =>
      match growLen capped ce.len 0 with
      | none => { returned := some .overflow, ce := ce, closed := closed }
      | some n => loop capped alloc rest { (ce.realloc alloc n) with exitCode := 0 } closed
    | .checkExit =>
      match closed with
      | some c => { recovered := some (.exit c), ce := ce, closed := closed }
      | none => loop capped alloc rest { ce with exitCode := 0 } closed
    | .resume | .resumeOrPanic _ =>
      let closed := closeWith closed host.closes
      match host.panics with
      | some v => { recovered := some (recoveredToErr v), ce := ce, closed := closed }
      | none => loop capped alloc rest { ce with exitCode := 0 } closed

structure CallRes where
  err : Option Err
  ce : CE
  closed : Option Nat
deriving DecidableEq, Repr

/-- The deferred function of `callWithStack`, with the regenerated facts as switches. -/
def deferred (r : LoopRes) : CallRes :=
  let err : Option Err :=
    match r.recovered with
    | some e => if deferWrapsRecovered then some e else r.returned
    | none =>
      if deferFailIfClosedUnlessOverflow && r.returned == some .overflow then r.returned
      else r.closed.map Err.exit
  let ce := if err.isSome && deferResetsExitCodeOnError then { r.ce with exitCode := 0 } else r.ce
  { err := err, ce := ce, closed := r.closed }

/-- `callEngine.callWithStack`: module closed-state `closed`, native behaviour `evs`. -/
def call (capped : Bool) (alloc : Nat → Nat) (ce : CE) (closed : Option Nat) (evs : List Ev) : CallRes :=
  if entryChecksAlignment && ce.top % 16 != 0 then
    { err := some .bug, ce := ce, closed := closed }
  else deferred (loop capped alloc evs ce closed)

/-! ### the interpreter's callEngine -/

structure ICE where
  frames : Nat
  stack : Nat
deriving DecidableEq, Repr

def IInv (ce : ICE) : Prop := ce.frames = 0 ∧ ce.stack = 0

inductive IEv
  | pushFrame | popFrame
  | pushValues (n : Nat) | popValues (n : Nat)
  | panic (e : Err)
deriving DecidableEq, Repr

/-- Run until the end or the first panic. `some e` = panicked. -/
def irun (ceiling : Nat) : List IEv → ICE → Option Err × ICE
  | [], ce => (none, ce)
  | .pushFrame :: rest, ce =>
    if interpPushOverflows ceiling ce.frames then (some .overflow, ce)
    else irun ceiling rest { ce with frames := ce.frames + 1 }
  | .popFrame :: rest, ce => irun ceiling rest { ce with frames := ce.frames - 1 }
  | .pushValues n :: rest, ce => irun ceiling rest { ce with stack := ce.stack + n }
  | .popValues n :: rest, ce => irun ceiling rest { ce with stack := ce.stack - n }
  | .panic e :: _, ce => (some e, ce)

/-- `callEngine.call` + `recoverOnCall`: on panic the frames and the value stack are truncated. -/
def icall (ceiling : Nat) (ce : ICE) (closed : Option Nat) (evs : List IEv) : Option Err × ICE :=
  match irun ceiling evs ce with
  | (none, ce') => (if interpDeferFailIfClosed then closed.map Err.exit else none, ce')
  | (some e, ce') =>
    if interpDeferRecovers then
      (some e, if interpRecoverTruncates then { frames := 0, stack := 0 } else ce')
    else (some .undefinedBehaviour, ce')

/-- Net effect on (frames, stack) of a panic-free event list, `none` if it would underflow. -/
def balanced : List IEv → Nat → Nat → Bool
  | [], f, s => f == 0 && s == 0
  | .pushFrame :: rest, f, s => balanced rest (f + 1) s
  | .popFrame :: rest, f, s => f > 0 && balanced rest (f - 1) s
  | .pushValues n :: rest, f, s => balanced rest f (s + n)
  | .popValues n :: rest, f, s => n ≤ s && balanced rest f (s - n)
  | .panic _ :: _, _, _ => true

end Wz.Model.CallEngine
