/-
Model of a read-only mount (`wazero.FSConfig.WithReadOnlyDirMount` = `sysfs.ReadFS{FS: DirFS}`) and of a
Go `fs.FS` mount (`WithFSMount` = `sysfs.AdaptFS`) for property C17.

NOT written here (regenerated from the wazero checkout on every run into `Wz.Gen.ReadFS`, tie A):
  * the flag decision of `(*ReadFS).OpenFile` (`ReadFS_OpenFile`), WASI `openFlags`, all `Oflag` constants;
  * the method tables `readFSTable`, `readFileTable`, `adaptFSTable`, `fsFileTable`: what each wrapper does for
    every method of `experimental/sys.FS` / `experimental/sys.File`.

Written here by hand (checked against the real code by the correspondence harness, tie B):
  * which interface methods can change a file system (the classification the property is about);
  * how a request on the mount is served according to the regenerated tables (`serve`);
  * which requests each WASI function may issue on the mount (`wasiReqs`, an over-approximation);
  * `path_open`'s own pre-check in front of `ReadFS.OpenFile`;
  * the as-is (pinned tree, finding F18) and repaired variants of the flag decision, for the witness theorems.
-/
import Wz.Gen.ReadFS

namespace Wz.Model.ReadFS
open Wz.Gen.ReadFS

deriving instance DecidableEq for Except

/-! ## Classification: which methods change the tree (names, types, sizes, contents, mtimes) -/

/-- `sys.FS` methods that create, remove, rename, link or re-timestamp/chmod. -/
def mutatingFS : List FSMethod := [.Chmod, .Link, .Mkdir, .Rename, .Rmdir, .Symlink, .Unlink, .Utimens]
/-- `sys.FS` methods that only read. `OpenFile` is in neither list: it is classified by its flag word. -/
def nonMutatingFS : List FSMethod := [.Lstat, .Readlink, .Stat]
/-- `sys.File` methods that write, resize or re-timestamp. -/
def mutatingFile : List FileMethod := [.Pwrite, .Truncate, .Utimens, .Write]
/-- `sys.File` methods that leave the tree as it is (reads, seeks, stats, close, fsync, changing the
append mode of the open file description). -/
def nonMutatingFile : List FileMethod :=
  [.Close, .Datasync, .Dev, .Ino, .IsAppend, .IsDir, .Pread, .Read, .Readdir, .Seek, .SetAppend, .Stat, .Sync]

/-- access-mode bits of an Oflag word -/
def accMask : BitVec 32 := O_RDWR ||| O_WRONLY
/-- flags that make `open` itself change the tree even with a read-only access mode -/
def creatTrunc : BitVec 32 := O_CREAT ||| O_TRUNC

/-- An Oflag word is read-only: access mode `O_RDONLY`, neither `O_CREAT` nor `O_TRUNC`.
(OS assumption of C17: `open` with such a word, and reads on the result, do not change the tree.) -/
def readOnlyFlag (f : BitVec 32) : Bool := (f &&& accMask == O_RDONLY) && (f &&& creatTrunc == 0#32)

/-! ## What reaches the wrapped file system -/

/-- A call that reaches the wrapped (writable) `sys.FS` or one of its files. -/
inductive UCall where
  | fs (m : FSMethod)          -- a method other than OpenFile on the wrapped FS
  | open (flag : BitVec 32)    -- OpenFile on the wrapped FS with this flag word
  | file (m : FileMethod)      -- a method on a file that the wrapped FS returned
  | unknown                    -- code the extractor could not analyse
deriving DecidableEq, Repr

def UCall.nonMutating : UCall → Bool
  | .fs m => nonMutatingFS.contains m
  | .open f => readOnlyFlag f
  | .file m => nonMutatingFile.contains m
  | .unknown => false

/-- A request made on the mount itself (on the `ReadFS` value or on a file it returned). -/
inductive Req where
  | fs (m : FSMethod) (flag : BitVec 32)   -- `flag` matters only for `OpenFile`
  | file (m : FileMethod)
deriving DecidableEq, Repr

/-- Calls on the wrapped value that an override may cause, as an over-approximation. -/
def viaTable {M : Type} (wrap : M → UCall) (m : M) : Override M → List UCall
  | .inherited => [wrap m]
  | .constErrno _ => []
  | .refuses calls => calls.map wrap
  | .openDecision => [.unknown]
  | .other calls unknown => wrap m :: (calls.map wrap ++ if unknown then [.unknown] else [])

/-- The flag decision, parametrised so that the as-is and repaired variants can be compared. -/
def openVia (decision : BitVec 32 → Except Nat (BitVec 32)) (flag : BitVec 32) : List UCall :=
  match decision flag with
  | .error _ => []
  | .ok f => [.open f]

/-- How the read-only mount serves a request: the regenerated decision for OpenFile, the regenerated
tables for everything else. Files are `readFile` wrappers only if `OpenFile` still wraps them. -/
def serve : Req → List UCall
  | .fs .OpenFile flag =>
    match readFSTable .OpenFile with
    | .openDecision => openVia ReadFS_OpenFile flag
    | o => viaTable (fun _ => .open flag) .OpenFile o
  | .fs m _ => viaTable .fs m (readFSTable m)
  | .file m =>
    if ReadFS_OpenFile_wrapsInReadFile then viaTable .file m (readFileTable m) else [.file m]

/-- The same for a Go `fs.FS` mount (`AdaptFS`): only the FS-level table is interpreted; files are `fsFile`. -/
def serveAdapt : Req → List UCall
  | .fs m _ => viaTable .fs m (adaptFSTable m)
  | .file m => viaTable .file m (fsFileTable m)

/-! ## WASI layer -/

/-- Outcome of `path_open` on a read-only mount, up to the call of the wrapped FS. -/
inductive OpenOutcome where
  | einval                      -- path_open's own check: O_DIRECTORY together with O_CREAT
  | refused (errno : Nat)       -- ReadFS.OpenFile refused
  | delegated (flag : BitVec 32) -- the wrapped FS's OpenFile is called with `flag`
deriving DecidableEq, Repr

/-- `pathOpenFn`: flags from `openFlags`, then the EINVAL pre-check, then `ReadFS.OpenFile`. -/
def pathOpen (decision : BitVec 32 → Except Nat (BitVec 32)) (dirflags oflags fdflags : BitVec 16) (rights : BitVec 32) :
    OpenOutcome :=
  let fl := openFlags dirflags oflags fdflags rights
  if (fl &&& O_DIRECTORY != 0#32) && (oflags &&& WASI_O_CREAT != 0#16) then .einval
  else match decision fl with
    | .error e => .refused e
    | .ok f => .delegated f

/-- The WASI functions that take a path or a descriptor of the mount. -/
inductive WasiOp where
  | pathOpen (dirflags oflags fdflags : BitVec 16) (rights : BitVec 32)
  | pathCreateDirectory | pathRemoveDirectory | pathUnlinkFile | pathRename | pathLink | pathSymlink
  | pathFilestatSetTimes | pathFilestatGet | pathReadlink
  | fdWrite | fdPwrite | fdAllocate | fdFilestatSetSize | fdFilestatSetTimes | fdFdstatSetFlags
  | fdSync | fdDatasync | fdRead | fdPread | fdSeek | fdTell | fdReaddir | fdFilestatGet | fdFdstatGet
  | fdClose | fdRenumber | fdAdvise | fdPrestatGet
deriving DecidableEq, Repr

/-- every path function first checks that the descriptor it resolves against is a directory -/
def atPathReqs : List Req := [.file .IsDir]

/-- the root directory of a pre-open is opened lazily, `OpenFile(".", O_RDONLY)`, by whichever call touches it first -/
def lazyRootReqs : List Req := [.fs .OpenFile O_RDONLY]

/-- Requests specific to one WASI function. -/
def wasiReqsOf : WasiOp → List Req
  | .pathOpen d o f r =>
    let fl := openFlags d o f r
    atPathReqs ++
      (if (fl &&& O_DIRECTORY != 0#32) && (o &&& WASI_O_CREAT != 0#16) then []
       else [.fs .OpenFile fl, .file .IsDir, .file .Close])
  | .pathCreateDirectory => atPathReqs ++ [.fs .Mkdir 0#32]
  | .pathRemoveDirectory => atPathReqs ++ [.fs .Rmdir 0#32]
  | .pathUnlinkFile => atPathReqs ++ [.fs .Unlink 0#32]
  | .pathRename => atPathReqs ++ [.fs .Rename 0#32]
  | .pathLink => atPathReqs ++ [.fs .Link 0#32]
  | .pathSymlink => atPathReqs ++ [.fs .Symlink 0#32]
  -- with LOOKUP_SYMLINK_FOLLOW: FS.Utimens; without: OpenFile(O_WRONLY), File.Utimens, File.Close
  | .pathFilestatSetTimes => atPathReqs ++ [.fs .Utimens 0#32, .fs .OpenFile O_WRONLY, .file .Utimens, .file .Close]
  | .pathFilestatGet => atPathReqs ++ [.fs .Stat 0#32, .fs .Lstat 0#32]
  | .pathReadlink => atPathReqs ++ [.fs .Readlink 0#32]
  | .fdWrite => [.file .Write]
  | .fdPwrite => [.file .Pwrite]
  | .fdAllocate => [.file .Stat, .file .Truncate]
  | .fdFilestatSetSize => [.file .Truncate]
  | .fdFilestatSetTimes => [.file .Utimens, .fs .Utimens 0#32]
  | .fdFdstatSetFlags => [.file .Stat, .file .SetAppend]
  | .fdSync => [.file .Sync]
  | .fdDatasync => [.file .Datasync]
  | .fdRead => [.file .Read]
  | .fdPread => [.file .Pread]
  | .fdSeek => [.file .IsDir, .file .Seek]
  | .fdTell => [.file .IsDir, .file .Seek]
  | .fdReaddir => [.file .IsDir, .file .Readdir, .file .Seek, .file .Stat, .file .Ino, .fs .Stat 0#32, .fs .Lstat 0#32]
  | .fdFilestatGet => [.file .Stat]
  | .fdFdstatGet => [.file .Stat, .file .IsAppend, .file .IsDir]
  | .fdClose => [.file .Close]
  | .fdRenumber => [.file .Close]
  | .fdAdvise => []
  | .fdPrestatGet => [.file .IsDir]

/-- Requests a WASI function may make on the mount (over-approximation; the harness checks that every
request the real function makes is in this list). -/
def wasiReqs (op : WasiOp) : List Req := lazyRootReqs ++ wasiReqsOf op

/-- Everything that reaches the wrapped FS during a history of WASI calls on a read-only mount. -/
def run (ops : List WasiOp) : List UCall := (ops.flatMap wasiReqs).flatMap serve

/-! ## Variants of the flag decision (finding F18) -/

/-- As on the pinned tree: only the access modes 1 and 2 are refused; everything else, including
`O_CREAT`/`O_TRUNC` with `O_RDONLY` and the access-mode value 3, is passed on. -/
def asIsOpenFile (flag : BitVec 32) : Except Nat (BitVec 32) :=
  if (flag &&& accMask == O_WRONLY) || (flag &&& accMask == O_RDWR) then
    if flag &&& O_DIRECTORY != 0#32 then .error EISDIR else .error ENOSYS
  else .ok flag

/-- Repaired: additionally refuse `O_CREAT`/`O_TRUNC` and the access-mode value 3 with EROFS. -/
def repairedOpenFile (flag : BitVec 32) : Except Nat (BitVec 32) :=
  if (flag &&& accMask == O_WRONLY) || (flag &&& accMask == O_RDWR) then
    if flag &&& O_DIRECTORY != 0#32 then .error EISDIR else .error ENOSYS
  else if flag &&& accMask == O_RDONLY then
    if flag &&& creatTrunc != 0#32 then .error EROFS else .ok flag
  else .error EROFS

def sameDecision : Except Nat (BitVec 32) → Except Nat (BitVec 32) → Bool
  | .error a, .error b => a == b
  | .ok a, .ok b => a == b
  | _, _ => false

/-- Which variant the regenerated decision agrees with on the four witness words of F18
(used by the harness to label what it sees; not a proof). -/
def variantName : String :=
  let ws : List (BitVec 32) := [O_CREAT, O_TRUNC, O_RDWR ||| O_WRONLY, O_RDONLY, O_WRONLY, O_RDWR ||| O_DIRECTORY]
  if ws.all (fun w => sameDecision (ReadFS_OpenFile w) (repairedOpenFile w)) then "repaired"
  else if ws.all (fun w => sameDecision (ReadFS_OpenFile w) (asIsOpenFile w)) then "as-is"
  else "other"

end Wz.Model.ReadFS
