/-
Footprint models of the remaining 24 functions of wasi_snapshot_preview1 (imports/wasi_snapshot_preview1/fs.go,
sock.go, proc.go, internal/sys/fs.go) for property C15, the dispatcher over all 46 functions and the table of
designated output regions.

A call of one of these functions is answered by a list of *alternatives* (`List Res`): the arguments, the memory
image and the descriptor table decide everything the host code decides by itself (pointer checks, path syntax,
descriptor kind, flag checks, result pointers, the new descriptor number); what the host file system or the
network decides (does `f.txt` exist, is a connection pending) selects one of the alternatives.  `Err.any` (the
errno is not constrained, 0 included) appears only where success and failure have the same footprint and the same
table; `Err.nz` is "an errno other than 0".

Finding switches (DESIGN §8): `fixedRead = false` is `readv` as it is on the pinned tree (F62: the iovec entries are read
from the live memory while earlier buffers are filled), `fixedRead = true` reads them from a copy taken at the start;
`fixed = false` is sock_recv as it is on the pinned tree (F61: with RI_RECV_PEEK the
first iovec is used without looking at ri_data_len, and `ri_data + 4` is computed in 32 bits), `fixed = true` the
repaired variant.
-/
import Wz.Model.Wasi

namespace Wz.Model.Wasi
open Wz.Gen.Wasi Wz.Model

/-- errno numbers that are not among the regenerated constants of `Wz.Gen.Wasi` (internal/wasip1/errno.go; the
numbers are tied by the differential comparison of every errno the code returns) -/
def ErrnoPerm : Nat := 63
def ErrnoRange : Nat := 68

def eperm : Err := .errno ErrnoPerm
def enotdir : Err := .errno ErrnoNotdir
def enosys : Err := .errno ErrnoNosys
def enotsup : Err := .errno ErrnoNotsup
def enoent : Err := .errno ErrnoNoent

def W64 : Nat := 18446744073709551616

/-- one alternative: errno only -/
def rE (e : Err) : List Res := [{ err := e }]

/-- `IsDir()` of the file behind a descriptor -/
def Kind.isDir : Kind → Bool
  | .pre | .dir => true
  | _ => false

/-- descriptors whose `File` is not backed by the host file system: every operation on them is decided by wazero
(stdio on readers/writers, sockets) -/
def Kind.isSynthetic : Kind → Bool
  | .stdin | .stdout | .stderr | .lsn | .conn => true
  | _ => false

def Kind.isStdio : Kind → Bool
  | .stdin | .stdout | .stderr => true
  | _ => false

/-! ### path syntax: `fs.ValidPath(path.Clean(p))` (atPath) -/

/-- `strings.Split(p, "/")` on bytes -/
def splitSlash (bs : List Nat) : List (List Nat) :=
  bs.foldr (fun b acc =>
    if b = 47 then [] :: acc else
    match acc with
    | [] => [[b]]
    | x :: xs => (b :: x) :: xs) [[]]

/-- one element of `path.Clean`: the stack holds the kept elements, latest first -/
def cleanStep (rooted : Bool) (st : List (List Nat)) (e : List Nat) : List (List Nat) :=
  if e = [] ∨ e = [46] then st
  else if e = [46, 46] then
    match st with
    | top :: rest => if top = [46, 46] then e :: st else rest
    | [] => if rooted then [] else [e]
  else e :: st

/-- `utf8.Valid` -/
def utf8Valid : List Nat → Bool
  | [] => true
  | b0 :: rest =>
    let cont := fun (b : Nat) => decide (128 ≤ b ∧ b ≤ 191)
    if b0 < 128 then utf8Valid rest
    else if 194 ≤ b0 ∧ b0 ≤ 223 then
      match rest with
      | b1 :: r => cont b1 && utf8Valid r
      | _ => false
    else if 224 ≤ b0 ∧ b0 ≤ 239 then
      match rest with
      | b1 :: b2 :: r =>
        (if b0 = 224 then decide (160 ≤ b1 ∧ b1 ≤ 191)
         else if b0 = 237 then decide (128 ≤ b1 ∧ b1 ≤ 159)
         else cont b1) && cont b2 && utf8Valid r
      | _ => false
    else if 240 ≤ b0 ∧ b0 ≤ 244 then
      match rest with
      | b1 :: b2 :: b3 :: r =>
        (if b0 = 240 then decide (144 ≤ b1 ∧ b1 ≤ 191)
         else if b0 = 244 then decide (128 ≤ b1 ∧ b1 ≤ 143)
         else cont b1) && cont b2 && cont b3 && utf8Valid r
      | _ => false
    else false

/-- `fs.ValidPath(path.Clean(p))`: the cleaned path is not rooted, does not start with `..` and is valid UTF-8
(`Clean` leaves no empty or `.` element and `..` only in front). -/
def pathOK (bs : List Nat) : Bool :=
  let rooted := decide (bs.head? = some 47)
  let st := (splitSlash bs).foldl (cleanStep rooted) []
  !rooted && decide (st.getLast? ≠ some [46, 46]) && st.all utf8Valid

/-- `atPath`: `none` = the path and the descriptor are accepted (the operation on the host file system follows) -/
def atPath (fds : Fds) (m : Mem) (fd p len : Nat) : Option Err :=
  if !m.has p len then some efault
  else if !pathOK (m.read p len) then some eperm
  else match lookupFd fds fd with
    | none => some ebadf
    | some k => if k.isDir then none else some enotdir

/-- `toTimes`: EINVAL when both "set" and "now" are asked for one of the two times -/
def timesInval (fst : Nat) : Bool :=
  let f := fst % 65536
  (f % 2 = 1 && (f / 2) % 2 = 1) || ((f / 4) % 2 = 1 && (f / 8) % 2 = 1)

/-! ### functions that take no pointer -/

def fdAdvise (fds : Fds) (fd advice : Nat) : List Res :=
  match lookupFd fds fd with
  | none => rE ebadf
  | some _ => if advice % 256 ≤ 5 then rE (.errno 0) else rE einval

def fdAllocate (fds : Fds) (fd off len : Nat) : List Res :=
  match lookupFd fds fd with
  | none => rE ebadf
  | some k =>
    let tail := (off + len) % W64          -- int64(offset + length)
    if tail ≥ 9223372036854775808 then rE einval else
    if k.isSynthetic then (if tail = 0 then rE (.errno 0) else rE enosys)   -- Stat().Size = 0; Truncate unimplemented
    else rE .any

/-- fd_datasync, fd_sync -/
def fdSyncLike (fds : Fds) (fd : Nat) : List Res :=
  match lookupFd fds fd with
  | none => rE ebadf
  | some k => if k.isSynthetic then rE (.errno 0) else rE .any

def fdFdstatSetFlags (fds : Fds) (fd flags : Nat) : List Res :=
  let f := flags % 65536
  -- FD_DSYNC (2) | FD_RSYNC (8) | FD_SYNC (16)
  if (f / 2) % 2 = 1 ∨ (f / 8) % 2 = 1 ∨ (f / 16) % 2 = 1 then rE einval else
  match lookupFd fds fd with
  | none => rE ebadf
  | some k => if k.isStdio then rE enosys else rE .any

def fdFilestatSetSize (fds : Fds) (fd : Nat) : List Res :=
  match lookupFd fds fd with
  | none => rE ebadf
  | some k => if k.isSynthetic then rE enosys else rE .any

def fdFilestatSetTimes (fds : Fds) (fd fst : Nat) : List Res :=
  match lookupFd fds fd with
  | none => rE ebadf
  | some k =>
    if timesInval fst then rE einval else
    if k.isSynthetic then rE enosys else rE .any

/-! ### fd_readdir -/

def largestDirent : Nat := 4294967295 - 24

/-- `maxDirents` over the name lengths: (bufToWrite, direntCount, truncatedLen); `none` = the host panics with
"invalid filename: too large" (a host file name of about 4 GiB) -/
def maxDirentsLoop : List Nat → Nat → Nat → Nat → Option (Nat × Nat × Nat)
  | [], _, btw, cnt => some (btw, cnt, 0)
  | n :: rest, rem, btw, cnt =>
    if rem = 0 then some (btw, cnt, 0) else
    if 24 + n > largestDirent then none else
    let entryLen := 24 + n
    if entryLen > rem then
      let t := if rem ≥ 24 then 24 else rem
      some (w32 (btw + t), cnt + 1, t)
    else maxDirentsLoop rest (rem - entryLen) (w32 (btw + entryLen)) (cnt + 1)

def maxDirents (names : List Nat) (bufLen : Nat) : Option (Nat × Nat × Nat) := maxDirentsLoop names bufLen 0 0

/-- `writeDirents` on a view of `len` bytes: the position after the last entry, `none` = a slice bound or a
`le.Put*` length check fails in the host.  `skip` is the index whose name is not written. -/
def writeDirentsLoop (len : Nat) (skip : Option Nat) : List Nat → Nat → Nat → Nat → Option Nat
  | _, 0, _, pos => some pos
  | [], _ + 1, _, _ => none                       -- dirents[i] out of range
  | n :: rest, k + 1, i, pos =>
    if pos > len then none else                   -- buf[pos:]
    if len - pos < 24 then none else              -- le.PutUint64(buf) … le.PutUint32(buf[20:])
    let pos := w32 (pos + 24)
    if skip = some i then writeDirentsLoop len skip rest k (i + 1) pos else
    if pos > len then none else                   -- copy(buf[pos:], name)
    writeDirentsLoop len skip rest k (i + 1) (w32 (pos + w32 n))

def writeDirents (len : Nat) (names : List Nat) (direntCount truncatedLen : Nat) : Option Nat :=
  if truncatedLen > 0 then
    if truncatedLen < 24 then writeDirentsLoop len none names (direntCount - 1) 0 0
    else writeDirentsLoop len (some (direntCount - 1)) names direntCount 0 0
  else writeDirentsLoop len none names direntCount 0 0

/-- the listing of a directory descriptor whose dirent cache is fresh (every harness case starts a new module
instance): "." and ".." first, then the entries in host order -/
def listing (h : Host) : Kind → List Nat
  | .pre => 1 :: 2 :: h.preEntries
  | _ => 1 :: 2 :: h.dirEntries

/-- the bytes `writeDirents` stores for `count` entries starting at `pos`: d_next, d_namlen, d_type and the name
(d_ino is the host's business); `skip` = index of the entry whose name is not written -/
def direntWrites (buf : Nat) (skip : Option Nat) : List (List Nat × Nat) → Nat → Nat → Nat → Nat → List Wr
  | _, 0, _, _, _ => []
  | [], _ + 1, _, _, _ => []
  | (name, ty) :: rest, k + 1, i, pos, dNext =>
    let hdr := [Wr.bytes (buf + pos) (bytesLE 8 (dNext % W64)),
                Wr.bytes (buf + pos + 16) (bytesLE 4 (w32 name.length) ++ bytesLE 4 ty)]
    if skip = some i then hdr ++ direntWrites buf skip rest k (i + 1) (pos + 24) (dNext + 1)
    else hdr ++ (if name.isEmpty then [] else [Wr.bytes (buf + pos + 24) name]) ++
      direntWrites buf skip rest k (i + 1) (pos + 24 + name.length) (dNext + 1)

/-- the exact part of what fd_readdir stores, kept inside the `bufToWrite` bytes by construction -/
def exactDirents (buf bufToWrite dNext : Nat) (ents : List (List Nat × Nat)) (direntCount truncatedLen : Nat) : List Wr :=
  let ws := if truncatedLen > 0 then
      if truncatedLen < 24 then direntWrites buf none ents (direntCount - 1) 0 0 dNext
      else direntWrites buf (some (direntCount - 1)) ents direntCount 0 0 dNext
    else direntWrites buf none ents direntCount 0 0 dNext
  ws.filter (fun w => decide (buf ≤ w.off) && decide (w.off + w.len ≤ buf + bufToWrite))

/-- fd_readdir once `DirentCache.Read` has returned the entries `names` (name lengths; `ents` = the same entries
with name bytes and file type when the host listing is known, else `[]`) -/
def readdirEmit (m : Mem) (buf bufLen res : Nat) (names : List Nat) (ents : List (List Nat × Nat)) (dNext : Nat) : List Res :=
  match maxDirents names bufLen with
  | none => rE .panic
  | some (bufToWrite, direntCount, truncatedLen) =>
    let bufused := if truncatedLen > 0 then bufLen else bufToWrite
    let ex := if ents.map (fun e => e.1.length) = names then exactDirents buf bufToWrite dNext ents direntCount truncatedLen else []
    if bufToWrite > 0 then
      if !m.has buf bufToWrite then rE efault else
      match writeDirents bufToWrite names direntCount truncatedLen with
      | none => [{ err := .panic, writes := [Wr.region buf bufToWrite] }]
      | some _ =>
        if !m.has res 4 then [{ err := efault, writes := Wr.region buf bufToWrite :: ex }]
        else [{ err := .errno 0, writes := Wr.region buf bufToWrite :: (ex ++ [Wr.bytes res (bytesLE 4 bufused)]) }]
    else
      if !m.has res 4 then rE efault else [{ err := .errno 0, writes := [Wr.bytes res (bytesLE 4 bufused)] }]

/-- `countRead` of the dirent cache: 0 on a fresh cache, the whole listing on a completely read one -/
def countRead (h : Host) (k : Kind) : Nat := if h.cacheFull then (listing h k).length else 0

/-- the listing with names and types, when the host configuration has it -/
def listingNames (h : Host) : Kind → List (List Nat × Nat)
  | .pre => ([46], 3) :: ([46, 46], 3) :: h.preNames
  | _ => ([46], 3) :: ([46, 46], 3) :: h.dirNames

def fdReaddir (h : Host) (fds : Fds) (m : Mem) (fd buf bufLen cookie res : Nat) : List Res :=
  if bufLen < DirentSize then rE einval else
  match lookupFd fds fd with
  | none => rE ebadf
  | some k =>
    if !k.isDir then rE ebadf else                  -- ENOTDIR is mapped to EBADF
    -- DirentCache.Read: a cookie beyond what has been read is ENOENT; a cookie of 0 on a read cache rewinds (dump
    -- the cache, read again): the entries from `cookie` on, at most maxDirEntries of them
    if cookie > countRead h k then rE enoent else
    let maxDirEntries := w32 (w32 (bufLen / DirentSize + 1) + 1)
    readdirEmit m buf bufLen res (((listing h k).drop cookie).take maxDirEntries)
      (((listingNames h k).drop cookie).take maxDirEntries) (cookie + 1)

/-! ### path functions -/

/-- path_create_directory, path_remove_directory, path_unlink_file: `atPath`, then the host file system decides -/
def pathOp (fds : Fds) (m : Mem) (fd p len : Nat) : List Res :=
  match atPath fds m fd p len with
  | some e => rE e
  | none => rE .any

def pathFilestatGet (fds : Fds) (m : Mem) (fd p len res : Nat) : List Res :=
  match atPath fds m fd p len with
  | some e => rE e
  | none =>
    -- Lstat/Stat fails (errno of the host), or the 64-byte result is written (EFAULT when it does not fit)
    if m.has res 64 then [{ err := .errno 0, writes := [Wr.region res 64] }, { err := .nz }]
    else rE .nz

def pathFilestatSetTimes (fds : Fds) (m : Mem) (fd p len fst : Nat) : List Res :=
  if timesInval fst then rE einval else pathOp fds m fd p len

/-- the part of `(buf, bufLen)` that lies inside the memory -/
def clip (m : Mem) (off len : Nat) : Nat := if off ≥ m.size then 0 else min len (m.size - off)

def pathReadlink (fds : Fds) (m : Mem) (fd p len buf bufLen res : Nat) : List Res :=
  if len = 0 ∨ bufLen = 0 then rE einval else
  match atPath fds m fd p len with
  | some e => rE e
  | none =>
    -- Readlink fails / ERANGE / EFAULT of the buffer: nothing written.  Otherwise the target (its length is the
    -- host's, at most bufLen) is written to buf, then bufused (EFAULT after the buffer was written, or success).
    let w := Wr.region buf (clip m buf bufLen)
    if m.has res 4 then [{ err := .nz }, { err := .errno 0, writes := [w, Wr.region res 4] }]
    else [{ err := .nz }, { err := efault, writes := [w] }]

/-- descriptor number `Table.Insert` hands out, and the table afterwards -/
def insertFd (fds : Fds) (k : Kind) : Fds × Nat × Bool := DescTable.insert fds k

/-- path_open after `OpenFile` succeeded with a file of kind `k`: the descriptor is inserted (lowest free number)
and written to the result; no alternative when the table is full or the result pointer is outside (the new
descriptor is closed again: an errno, covered by `nz`). `alloc`: 8 bytes per new item slot of the table. -/
def pathOpened (fds : Fds) (m : Mem) (res : Nat) (k : Kind) : List Res :=
  match insertFd fds k with
  | (_, _, false) => []
  | (t, newFd, true) =>
    if m.has res 4 then [{ err := .errno 0, writes := [Wr.bytes res (bytesLE 4 newFd)], fds := some t,
                           alloc := 8 * (DescTable.slots t - DescTable.slots fds) }]
    else []

def pathOpen (fds : Fds) (m : Mem) (fd p len oflags res : Nat) : List Res :=
  match atPath fds m fd p len with
  | some e => rE e
  | none =>
    if len = 0 then rE einval else
    let o := oflags % 65536
    let isDir := (o / 2) % 2 = 1          -- O_DIRECTORY
    if isDir ∧ o % 2 = 1 then rE einval else    -- O_DIRECTORY with O_CREAT
    -- OpenFile fails, the descriptor table is full, or the opened file is not the directory that was asked for:
    -- an errno, table as before.  Otherwise see `pathOpened`.
    { err := .nz } :: (pathOpened fds m res .dir ++ (if isDir then [] else pathOpened fds m res .file))

/-- path_rename, path_link: two `atPath`, then the host file system (ENOSYS across file systems included) -/
def pathOp2 (fds : Fds) (m : Mem) (fd1 p1 len1 fd2 p2 len2 : Nat) : List Res :=
  match atPath fds m fd1 p1 len1 with
  | some e => rE e
  | none =>
    match atPath fds m fd2 p2 len2 with
    | some e => rE e
    | none => rE .any

def pathSymlink (fds : Fds) (m : Mem) (old oldLen fd new newLen : Nat) : List Res :=
  match lookupFd fds fd with
  | none => rE ebadf
  | some k =>
    if !k.isDir then rE enotdir else
    if oldLen = 0 ∨ newLen = 0 then rE einval else
    if !m.has old oldLen then rE efault else
    pathOp fds m fd new newLen

/-! ### sockets (sock.go, FSContext.SockAccept) -/


def sockAccept (fds : Fds) (m : Mem) (fd res : Nat) : List Res :=
  match lookupFd fds fd with
  | some .lsn =>
    -- no connection pending / SetNonblock fails / table full: an errno.  Otherwise the connection is inserted; the
    -- result of writing the new descriptor number is NOT looked at (errno 0 even when the pointer is outside).
    { err := .nz } ::
      (match insertFd fds .conn with
       | (_, _, false) => []
       | (t, newFd, true) =>
         [{ err := .errno 0, fds := some t, alloc := 8 * (DescTable.slots t - DescTable.slots fds),
            writes := optBytes m res (bytesLE 4 newFd) }])
  | _ => rE ebadf

def sockRecv (fixed fixedRead : Bool) (fds : Fds) (m : Mem) (fd iovs cnt riFlags res roFlags : Nat) : List Res :=
  match lookupFd fds fd with
  | some .conn =>
    let f := riFlags % 256
    if f / 4 ≠ 0 then rE enotsup else         -- anything but RI_RECV_PEEK | RI_RECV_WAITALL
    if f % 2 = 1 then
      -- RI_RECV_PEEK: the first iovec only
      let done := fun (ws : List Wr) =>
        ({ err := .errno 0, writes := ws ++ optRegion m res 4 ++ optBytes m roFlags [0, 0] } : Res)
      -- repaired variant: no iovec, nothing to peek into (ro_datalen = 0); the iovec is read as one 8-byte access
      if fixed && decide (cnt = 0) then
        [{ err := .errno 0, writes := optBytes m res (bytesLE 4 0) ++ optBytes m roFlags [0, 0] }] else
      if fixed && !m.has iovs 8 then rE einval else
      if !m.has iovs 4 then rE einval else
      let p4 := if fixed then iovs + 4 else w32 (iovs + 4)
      if !m.has p4 4 then rE einval else
      let addr := le32 m iovs
      let l := le32 m p4
      if !m.has addr l then rE einval else
      [{ err := .nz }, done [Wr.region addr l]]
    else
      let iovsStop := w32 (cnt * 8)
      if !m.has iovs iovsStop then rE efault else
      -- readv with the connection as reader: what arrives when is the network's business; as-is (F62) data received
      -- into a buffer that covers later iovec entries redirects the next reads
      if !fixedRead && iovAliased m iovs iovsStop then [{ err := .any, writes := [Wr.region 0 m.size] }] else
      [{ err := .any, writes := iovWritable m iovs iovsStop ++ optRegion m res 4 ++ optRegion m roFlags 2 }]
  | _ => rE ebadf

def sockSend (fds : Fds) (m : Mem) (fd iovs cnt siFlags res : Nat) : List Res :=
  if siFlags ≠ 0 then rE enotsup else
  match lookupFd fds fd with
  | some .conn =>
    let iovsStop := w32 (cnt * 8)
    if !m.has iovs iovsStop then rE efault else
    match writevLoop .unknown m iovs iovsStop (iovsStop / 8 + 1) 0 [] 0 with
    | (_, _, some .any) => [{ err := .any, writes := optRegion m res 4 }]
    | (_, _, some e) => rE e
    | (_, nw, none) => [{ err := .errno 0, writes := optBytes m res (bytesLE 4 nw) }]
  | _ => rE ebadf

def sockShutdown (fds : Fds) (fd how : Nat) : List Res :=
  match lookupFd fds fd with
  | some .conn =>
    let h := how % 256
    if h = 1 ∨ h = 2 ∨ h = 3 then rE .any else rE einval
  | _ => rE ebadf

/-! ### dispatcher and the designated output regions (specification, over ℕ) -/

/-- the 22 functions of `Wz.Model.Wasi` (one alternative each) -/
inductive Fn1 where
  | poll_oneoff | fd_read | fd_pread | fd_write | fd_pwrite | args_get | environ_get | args_sizes_get | environ_sizes_get | clock_res_get | clock_time_get | random_get | fd_prestat_get | fd_prestat_dir_name | fd_renumber | fd_close | fd_fdstat_get | fd_filestat_get | fd_seek | fd_tell | proc_exit | sched_yield
deriving Repr, DecidableEq

def Fn1.all : List Fn1 :=
  [.poll_oneoff, .fd_read, .fd_pread, .fd_write, .fd_pwrite, .args_get, .environ_get, .args_sizes_get, .environ_sizes_get, .clock_res_get, .clock_time_get, .random_get, .fd_prestat_get, .fd_prestat_dir_name, .fd_renumber, .fd_close, .fd_fdstat_get, .fd_filestat_get, .fd_seek, .fd_tell, .proc_exit, .sched_yield]

def Fn1.name : Fn1 → String
  | .poll_oneoff => "poll_oneoff"
  | .fd_read => "fd_read"
  | .fd_pread => "fd_pread"
  | .fd_write => "fd_write"
  | .fd_pwrite => "fd_pwrite"
  | .args_get => "args_get"
  | .environ_get => "environ_get"
  | .args_sizes_get => "args_sizes_get"
  | .environ_sizes_get => "environ_sizes_get"
  | .clock_res_get => "clock_res_get"
  | .clock_time_get => "clock_time_get"
  | .random_get => "random_get"
  | .fd_prestat_get => "fd_prestat_get"
  | .fd_prestat_dir_name => "fd_prestat_dir_name"
  | .fd_renumber => "fd_renumber"
  | .fd_close => "fd_close"
  | .fd_fdstat_get => "fd_fdstat_get"
  | .fd_filestat_get => "fd_filestat_get"
  | .fd_seek => "fd_seek"
  | .fd_tell => "fd_tell"
  | .proc_exit => "proc_exit"
  | .sched_yield => "sched_yield"

def modelled1 : List String := Fn1.all.map Fn1.name

/-- the 24 functions of this file -/
inductive Fn2 where
  | fd_readdir | path_open | path_filestat_get | path_readlink | fd_fdstat_set_flags | fd_filestat_set_size
  | fd_filestat_set_times | path_filestat_set_times | fd_allocate | fd_advise | fd_datasync | fd_sync
  | fd_fdstat_set_rights | path_create_directory | path_remove_directory | path_unlink_file | path_rename
  | path_symlink | path_link | sock_accept | sock_recv | sock_send | sock_shutdown | proc_raise
deriving Repr, DecidableEq

def Fn2.all : List Fn2 :=
  [.fd_readdir, .path_open, .path_filestat_get, .path_readlink, .fd_fdstat_set_flags, .fd_filestat_set_size,
   .fd_filestat_set_times, .path_filestat_set_times, .fd_allocate, .fd_advise, .fd_datasync, .fd_sync,
   .fd_fdstat_set_rights, .path_create_directory, .path_remove_directory, .path_unlink_file, .path_rename,
   .path_symlink, .path_link, .sock_accept, .sock_recv, .sock_send, .sock_shutdown, .proc_raise]

def Fn2.name : Fn2 → String
  | .fd_readdir => "fd_readdir" | .path_open => "path_open" | .path_filestat_get => "path_filestat_get"
  | .path_readlink => "path_readlink" | .fd_fdstat_set_flags => "fd_fdstat_set_flags"
  | .fd_filestat_set_size => "fd_filestat_set_size" | .fd_filestat_set_times => "fd_filestat_set_times"
  | .path_filestat_set_times => "path_filestat_set_times" | .fd_allocate => "fd_allocate" | .fd_advise => "fd_advise"
  | .fd_datasync => "fd_datasync" | .fd_sync => "fd_sync" | .fd_fdstat_set_rights => "fd_fdstat_set_rights"
  | .path_create_directory => "path_create_directory" | .path_remove_directory => "path_remove_directory"
  | .path_unlink_file => "path_unlink_file" | .path_rename => "path_rename" | .path_symlink => "path_symlink"
  | .path_link => "path_link" | .sock_accept => "sock_accept" | .sock_recv => "sock_recv" | .sock_send => "sock_send"
  | .sock_shutdown => "sock_shutdown" | .proc_raise => "proc_raise"

def modelled2 : List String := Fn2.all.map Fn2.name

def modelled : List String := modelled1 ++ modelled2

def call1e (fixed fixedRead : Bool) (h : Host) (fds : Fds) (m : Mem) (fn : Fn1) (a : List Nat) : Option Res :=
  match fn with
  | .poll_oneoff => (match a with | [i, o, n, r] => some (pollOneoff fixed fds m (w32 i) (w32 o) (w32 n) (w32 r)) | _ => none)
  | .fd_read => (match a with | [fd, iovs, cnt, r] => some (fdRead fixedRead h fds m (w32 fd) (w32 iovs) (w32 cnt) (w32 r)) | _ => none)
  | .fd_pread => (match a with | [fd, iovs, cnt, _, r] => some (fdPread fixedRead fds m (w32 fd) (w32 iovs) (w32 cnt) (w32 r)) | _ => none)
  | .fd_write => (match a with | [fd, iovs, cnt, r] => some (fdWrite fds m (w32 fd) (w32 iovs) (w32 cnt) (w32 r)) | _ => none)
  | .fd_pwrite => (match a with | [fd, iovs, cnt, _, r] => some (fdPwrite fds m (w32 fd) (w32 iovs) (w32 cnt) (w32 r)) | _ => none)
  | .args_get => (match a with | [p, q] => some (argsGet h m (w32 p) (w32 q)) | _ => none)
  | .environ_get => (match a with | [p, q] => some (environGet h m (w32 p) (w32 q)) | _ => none)
  | .args_sizes_get => (match a with | [p, q] => some (argsSizesGet h m (w32 p) (w32 q)) | _ => none)
  | .environ_sizes_get => (match a with | [p, q] => some (environSizesGet h m (w32 p) (w32 q)) | _ => none)
  | .clock_res_get => (match a with | [id, r] => some (clockResGet h m (w32 id) (w32 r)) | _ => none)
  | .clock_time_get => (match a with | [id, _, r] => some (clockTimeGet h m (w32 id) (w32 r)) | _ => none)
  | .random_get => (match a with | [b, l] => some (randomGet m (w32 b) (w32 l)) | _ => none)
  | .fd_prestat_get => (match a with | [fd, r] => some (fdPrestatGet h fds m (w32 fd) (w32 r)) | _ => none)
  | .fd_prestat_dir_name => (match a with | [fd, p, l] => some (fdPrestatDirName h fds m (w32 fd) (w32 p) (w32 l)) | _ => none)
  | .fd_renumber => (match a with | [f, t] => some (renumber none fds (w32 f) (w32 t)) | _ => none)
  | .fd_close => (match a with | [fd] => some (fdClose fds (w32 fd)) | _ => none)
  | .fd_fdstat_get => (match a with | [fd, r] => some (statLike fds m (w32 fd) (w32 r) 24) | _ => none)
  | .fd_filestat_get => (match a with | [fd, r] => some (statLike fds m (w32 fd) (w32 r) 64) | _ => none)
  | .fd_seek => (match a with | [fd, _, _, r] => some (seekLike fds m (w32 fd) (w32 r)) | _ => none)
  | .fd_tell => (match a with | [fd, r] => some (seekLike fds m (w32 fd) (w32 r)) | _ => none)
  | .proc_exit => (match a with | [_] => some { err := .exit } | _ => none)
  | .sched_yield => (match a with | [] => some { err := .errno 0 } | _ => none)


/-- the same, by name -/
def call1 (fixed fixedRead : Bool) (h : Host) (fds : Fds) (m : Mem) (fn : String) (a : List Nat) : Option Res :=
  match Fn1.all.find? (fun f => f.name == fn) with
  | some f => call1e fixed fixedRead h fds m f a
  | none => none

/-- the 24 functions of this file; 32-bit parameters are reduced with `w32`, 64-bit ones with `% 2^64` -/
def call2e (fixedRecv fixedRead : Bool) (h : Host) (fds : Fds) (m : Mem) (fn : Fn2) (a : List Nat) : Option (List Res) :=
  match fn with
  | .fd_readdir => (match a with | [fd, b, l, c, r] => some (fdReaddir h fds m (w32 fd) (w32 b) (w32 l) (c % W64) (w32 r)) | _ => none)
  | .path_open => (match a with | [fd, _, p, l, o, _, _, _, r] => some (pathOpen fds m (w32 fd) (w32 p) (w32 l) (w32 o) (w32 r)) | _ => none)
  | .path_filestat_get => (match a with | [fd, _, p, l, r] => some (pathFilestatGet fds m (w32 fd) (w32 p) (w32 l) (w32 r)) | _ => none)
  | .path_readlink => (match a with | [fd, p, l, b, bl, r] => some (pathReadlink fds m (w32 fd) (w32 p) (w32 l) (w32 b) (w32 bl) (w32 r)) | _ => none)
  | .fd_fdstat_set_flags => (match a with | [fd, f] => some (fdFdstatSetFlags fds (w32 fd) (w32 f)) | _ => none)
  | .fd_filestat_set_size => (match a with | [fd, _] => some (fdFilestatSetSize fds (w32 fd)) | _ => none)
  | .fd_filestat_set_times => (match a with | [fd, _, _, f] => some (fdFilestatSetTimes fds (w32 fd) (w32 f)) | _ => none)
  | .path_filestat_set_times => (match a with | [fd, _, p, l, _, _, f] => some (pathFilestatSetTimes fds m (w32 fd) (w32 p) (w32 l) (w32 f)) | _ => none)
  | .fd_allocate => (match a with | [fd, o, l] => some (fdAllocate fds (w32 fd) (o % W64) (l % W64)) | _ => none)
  | .fd_advise => (match a with | [fd, _, _, adv] => some (fdAdvise fds (w32 fd) (w32 adv)) | _ => none)
  | .fd_datasync => (match a with | [fd] => some (fdSyncLike fds (w32 fd)) | _ => none)
  | .fd_sync => (match a with | [fd] => some (fdSyncLike fds (w32 fd)) | _ => none)
  | .fd_fdstat_set_rights => (match a with | [_, _, _] => some (rE enosys) | _ => none)
  | .path_create_directory => (match a with | [fd, p, l] => some (pathOp fds m (w32 fd) (w32 p) (w32 l)) | _ => none)
  | .path_remove_directory => (match a with | [fd, p, l] => some (pathOp fds m (w32 fd) (w32 p) (w32 l)) | _ => none)
  | .path_unlink_file => (match a with | [fd, p, l] => some (pathOp fds m (w32 fd) (w32 p) (w32 l)) | _ => none)
  | .path_rename => (match a with | [fd, p, l, fd2, p2, l2] => some (pathOp2 fds m (w32 fd) (w32 p) (w32 l) (w32 fd2) (w32 p2) (w32 l2)) | _ => none)
  | .path_symlink => (match a with | [o, ol, fd, n, nl] => some (pathSymlink fds m (w32 o) (w32 ol) (w32 fd) (w32 n) (w32 nl)) | _ => none)
  | .path_link => (match a with | [fd, _, p, l, fd2, p2, l2] => some (pathOp2 fds m (w32 fd) (w32 p) (w32 l) (w32 fd2) (w32 p2) (w32 l2)) | _ => none)
  | .sock_accept => (match a with | [fd, _, r] => some (sockAccept fds m (w32 fd) (w32 r)) | _ => none)
  | .sock_recv => (match a with | [fd, iovs, cnt, f, r, r2] => some (sockRecv fixedRecv fixedRead fds m (w32 fd) (w32 iovs) (w32 cnt) (w32 f) (w32 r) (w32 r2)) | _ => none)
  | .sock_send => (match a with | [fd, iovs, cnt, f, r] => some (sockSend fds m (w32 fd) (w32 iovs) (w32 cnt) (w32 f) (w32 r)) | _ => none)
  | .sock_shutdown => (match a with | [fd, how] => some (sockShutdown fds (w32 fd) (w32 how)) | _ => none)
  | .proc_raise => (match a with | [_] => some (rE enosys) | _ => none)

/-- the same, by name -/
def call2 (fixedRecv fixedRead : Bool) (h : Host) (fds : Fds) (m : Mem) (fn : String) (a : List Nat) : Option (List Res) :=
  match Fn2.all.find? (fun f => f.name == fn) with
  | some f => call2e fixedRecv fixedRead h fds m f a
  | none => none

/-- all 46 functions: the alternatives of a call.  Finding switches: `fixed` = repaired poll_oneoff (F15), `fixedRecv` =
repaired RI_RECV_PEEK of sock_recv (F61), `fixedRead` = repaired `readv` of fd_read / fd_pread / sock_recv (F62) -/
def call (fixed fixedRecv fixedRead : Bool) (h : Host) (fds : Fds) (m : Mem) (fn : String) (a : List Nat) : Option (List Res) :=
  match call1 fixed fixedRead h fds m fn a with
  | some r => some [r]
  | none => call2 fixedRecv fixedRead h fds m fn a

/-- designated output regions of the 24 functions of this file (arguments already reduced to 32 bits) -/
def designated2e (m : Mem) (fn : Fn2) (a : List Nat) : List (Nat × Nat) :=
  match fn with
  | .fd_readdir => (match a with | [_, b, l, _, r] => [(b, l), (r, 4)] | _ => [])
  | .path_open => (match a with | [_, _, _, _, _, _, _, _, r] => [(r, 4)] | _ => [])
  | .path_filestat_get => (match a with | [_, _, _, _, r] => [(r, 64)] | _ => [])
  | .path_readlink => (match a with | [_, _, _, b, bl, r] => [(b, bl), (r, 4)] | _ => [])
  | .sock_accept => (match a with | [_, _, r] => [(r, 4)] | _ => [])
  | .sock_recv => (match a with | [_, iovs, cnt, _, r, r2] => iovRegions m iovs cnt 0 ++ [(r, 4), (r2, 2)] | _ => [])
  | .sock_send => (match a with | [_, _, _, _, r] => [(r, 4)] | _ => [])
  | _ => []

/-- designated output regions of the 22 functions of the first batch (arguments already reduced to 32 bits) -/
def designated1e (h : Host) (m : Mem) (fn : Fn1) (a : List Nat) : List (Nat × Nat) :=
  match fn with
  | .poll_oneoff => (match a with | [_, o, n, r] => [(o, 32 * n), (r, 4)] | _ => [])
  | .fd_read => (match a with | [_, iovs, cnt, r] => iovRegions m iovs cnt 0 ++ [(r, 4)] | _ => [])
  | .fd_pread => (match a with | [_, iovs, cnt, _, r] => iovRegions m iovs cnt 0 ++ [(r, 4)] | _ => [])
  | .fd_write => (match a with | [_, _, _, r] => [(r, 4)] | _ => [])
  | .fd_pwrite => (match a with | [_, _, _, _, r] => [(r, 4)] | _ => [])
  | .args_get => (match a with | [p, q] => [(p, 4 * h.args.length), (q, nulSize h.args)] | _ => [])
  | .environ_get => (match a with | [p, q] => [(p, 4 * h.env.length), (q, nulSize h.env)] | _ => [])
  | .args_sizes_get => (match a with | [p, q] => [(p, 4), (q, 4)] | _ => [])
  | .environ_sizes_get => (match a with | [p, q] => [(p, 4), (q, 4)] | _ => [])
  | .clock_res_get => (match a with | [_, r] => [(r, 8)] | _ => [])
  | .clock_time_get => (match a with | [_, _, r] => [(r, 8)] | _ => [])
  | .random_get => (match a with | [b, l] => [(b, l)] | _ => [])
  | .fd_prestat_get => (match a with | [_, r] => [(r, 8)] | _ => [])
  | .fd_prestat_dir_name => (match a with | [_, p, l] => [(p, l)] | _ => [])
  | .fd_fdstat_get => (match a with | [_, r] => [(r, 24)] | _ => [])
  | .fd_filestat_get => (match a with | [_, r] => [(r, 64)] | _ => [])
  | .fd_seek => (match a with | [_, _, _, r] => [(r, 8)] | _ => [])
  | .fd_tell => (match a with | [_, r] => [(r, 8)] | _ => [])
  | _ => []

/-- Output regions the signature designates, over the naturals (no wrap-around; arguments already reduced to 32
bits); mirror of `designated` in harness/cmd/hc15/spec.go (the harness compares the two tables on every generated
case). -/
def designated (h : Host) (m : Mem) (fn : String) (a : List Nat) : List (Nat × Nat) :=
  match Fn2.all.find? (fun f => f.name == fn) with
  | some f => designated2e m f a
  | none =>
    match Fn1.all.find? (fun f => f.name == fn) with
    | some f => designated1e h m f a
    | none => []

/-- every byte of the write lies in one of the regions -/
def Wr.within (w : Wr) (rs : List (Nat × Nat)) : Prop :=
  ∀ a, w.off ≤ a → a < w.off + w.len → ∃ r ∈ rs, r.1 ≤ a ∧ a < r.1 + r.2

end Wz.Model.Wasi
