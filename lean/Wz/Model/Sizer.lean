/-
C12, part 1: the decoder's memory sizer under the two settings of `WithMemoryCapacityFromMax`.

The decision logic itself is NOT written here: `memorySizer` and `Validate` are regenerated from
/repo into `Wz.Gen.Memory` (targets of C14, reused) and composed by `Wz.Model.Memory.decodeMemory`.
This file adds the two hand-written *variants* of the sizer behind the finding switch F11
(DESIGN section 8): `sizerAsIs` (the pinned tree: the capacity-from-max branch returns the declared
maximum unclamped) and `sizerFixed` (a valid declared maximum above the configured limit is clamped in
both branches).  `Wz.C12.sizer_matches_variant` proves that the regenerated definition is one of the
two, so any other change of `newMemorySizer` breaks an obligation.
-/
import Wz.Model.Memory

namespace Wz.Model.Sizer
open Wz.Gen.Memory Wz.Model.Memory

abbrev Triple := BitVec 32 × BitVec 32 × BitVec 32

/-- `newMemorySizer` as on the pinned tree. -/
def sizerAsIs (limit : BitVec 32) (cfm : Bool) (minP : BitVec 32) (maxP : Option (BitVec 32)) : Triple :=
  match maxP with
  | some mx =>
    if cfm then (minP, mx, mx)
    else if BitVec.ult 65536#32 mx then (minP, minP, mx)
    else if BitVec.ult limit mx then (minP, minP, limit)
    else (minP, minP, mx)
  | none => if cfm then (minP, limit, limit) else (minP, minP, limit)

/-- The repaired sizer: a valid (≤ 65536) declared maximum above the limit is clamped to the limit
whether or not the capacity is taken from the maximum; an invalid one still propagates (and is
rejected by `Validate`). -/
def sizerFixed (limit : BitVec 32) (cfm : Bool) (minP : BitVec 32) (maxP : Option (BitVec 32)) : Triple :=
  match maxP with
  | some mx =>
    if cfm then
      (if (BitVec.ule mx 65536#32 && BitVec.ult limit mx) then (minP, limit, limit) else (minP, mx, mx))
    else if BitVec.ult 65536#32 mx then (minP, minP, mx)
    else if BitVec.ult limit mx then (minP, minP, limit)
    else (minP, minP, mx)
  | none => if cfm then (minP, limit, limit) else (minP, minP, limit)

/-- Decode = sizer then the regenerated `Validate`; `none` = rejected. The observable part of an
accepted memory is (min, max): the capacity is the performance knob. -/
def decodeWith (sz : BitVec 32 → Bool → BitVec 32 → Option (BitVec 32) → Triple)
    (limit : BitVec 32) (cfm : Bool) (minP : BitVec 32) (maxP : Option (BitVec 32)) :
    Option (BitVec 32 × BitVec 32) :=
  let r := sz limit cfm minP maxP
  match Validate limit r.1 r.2.1 r.2.2 with
  | some _ => none
  | none => some (r.1, r.2.2)

/-- What C12 asks of the sizer: the capacity option changes neither acceptance nor (min, max). -/
def CapacityIndependent (sz : BitVec 32 → Bool → BitVec 32 → Option (BitVec 32) → Triple)
    (limit minP : BitVec 32) (maxP : Option (BitVec 32)) : Prop :=
  decodeWith sz limit false minP maxP = decodeWith sz limit true minP maxP

instance (sz) (limit minP : BitVec 32) (maxP : Option (BitVec 32)) :
    Decidable (CapacityIndependent sz limit minP maxP) := by
  unfold CapacityIndependent; exact inferInstance

end Wz.Model.Sizer
