/-
C01, optimizing compiler (wazevo), front end on structured control flow: a CHECKER ("translation validation") for
the output of `Wz.Model.FrontendCF.lowerCF`.

`validate f : Bool` re-walks the structured function `f` against the function `g = resolveOps (lowerCF f)` (every
operand resolved through the alias table `findValue` recorded) with a symbolic state - current block, position in
it, the value stack of SSA values, the SSA value that holds each local (or "unknown") - exactly as the translation
walks it (same allocation order of the blocks, same unreachable-code rule), and checks
  * that the instructions found in `g` are the ones `FrontendSL.lowerI` emits on the symbolic stack, that no
    result id is the id of a value the symbolic state tracks (so a definition never disturbs a tracked value, also
    when a loop body is executed again);
  * at every branch: the target block, the number and types of the arguments, the Wasm-level arguments (block results)
    on top of the stack, and for every local for which the CERTIFICATE names a value at the target's entry: that value
    is a parameter of the target whose argument on this branch is the current value of the local, or it IS the current
    value; the values kept below on the stack are not parameters of the target.
The certificate `certOf` (value of each local at the entry of each block, or none when dead/unknown) is read off the
final state of the builder: the values `findValue` created for the entry of a block (`Bld.ents`), else the exit value
of the single predecessor.  Nothing about how it was computed is used by the proof:
`Wz.C01.frontcf_refines_validated` shows that `validate f = true` implies the refinement for `f`.
The harness evaluates `validate` on every generated function.

Core Lean only.
-/
import Wz.Model.FrontendCF

namespace Wz.Model.FrontendCF
open Wz.Model.SsaPass Wz.Model.FrontendSL

/-- every operand resolved through the alias table, the table dropped -/
def resolveOps (f : Func) : Func :=
  { blocks := f.blocks.map (fun B => { B with instrs := B.instrs.map (·.mapOperands (res f.alias)) }), alias := [] }

/-! ## the certificate -/

/-- per block, per local: the SSA value that holds the local at the entry of the block -/
abbrev Ent := List (List (Option TV))

def entOf (ent : Ent) (b : Nat) : List (Option TV) := ent.getD b []

def lookupEnt : List (Nat × Nat × TV) → Nat → Nat → Option TV
  | [], _, _ => none
  | (b, x, v) :: rest, blk, var => if b = blk ∧ x = var then some v else lookupEnt rest blk var

/-- the value of variable `x` at the exit of block `blk` (`fuel`: bound on the chain of single predecessors) -/
def exitVal (b : Bld) : Nat → Nat → Nat → Option TV
  | 0, _, _ => none
  | fuel + 1, blk, x =>
    let B := b.blk blk
    match B.defs.lookup x with
    | some v => some v
    | none =>
      match lookupEnt b.ents blk x with
      | some v => some v
      | none =>
        if blk = 0 then (b.zeros.get (b.varTy x)).map (fun z => (z, b.varTy x))
        else match B.singlePred with
          | some p => exitVal b fuel p x
          | none => none

def entryVal (b : Bld) (blk x : Nat) : Option TV :=
  match lookupEnt b.ents blk x with
  | some v => some v
  | none =>
    match (b.blk blk).singlePred with
    | some p => exitVal b (b.blocks.length + 1) p x
    | none => none

def certOf (b : Bld) : Ent :=
  let al := aliasTable b.aliases
  (List.range b.blocks.length).map (fun blk =>
    (List.range b.varTys.length).map (fun x => (entryVal b blk x).map (fun v => (res al v.1, v.2))))

/-! ## the checker -/

structure Ctx where
  g : Func
  ent : Ent
  lt : List Ty
  res : List Ty

def instrsOf (g : Func) (b : Nat) : List Instr := ((g.findBlock b).map (·.instrs)).getD []
def paramsOf (g : Func) (b : Nat) : List TV := ((g.findBlock b).map (·.params)).getD []

/-- some instruction of a valid block branches to `t` -/
def hasPred (g : Func) (t : Nat) : Bool :=
  g.blocks.any (fun B => !B.invalid && B.instrs.any (fun i => (i.branch?.map (·.1)) == some t))

/-- the live symbolic state -/
structure CS where
  blk : Nat
  /-- instructions of `blk` already accounted for -/
  pos : Nat
  /-- the value stack, top first -/
  stack : List TV
  /-- the value that holds each local, if known -/
  vars : List (Option TV)
  /-- the id the next allocated block gets -/
  nb : Nat
deriving DecidableEq, Repr, Inhabited

inductive CR where
  | fail
  | dead (nb : Nat)
  | live (c : CS)
deriving DecidableEq, Repr, Inhabited

def varIds (vars : List (Option TV)) : List Nat := vars.filterMap (fun o => o.map (·.1))

/-- no tracked value has one of the ids `rs` -/
def freshFor (c : CS) (rs : List Val) : Bool :=
  rs.all (fun q => !(c.stack.map (·.1)).contains q && !(varIds c.vars).contains q)

/-- the instructions of the current block at the current position are `is` -/
def expect (g : Func) (c : CS) (is : List Instr) : Bool :=
  ((instrsOf g c.blk).drop c.pos).take is.length == is

/-- a label: target block, the types a branch carries, the stack kept below them, is it the function's label -/
structure Lab where
  tgt : Nat
  tys : List Ty
  outer : List TV
  isRet : Bool
deriving DecidableEq, Repr, Inhabited

def indexOf? (l : List Nat) (x : Nat) : Option Nat :=
  match l with
  | [] => none
  | y :: ys => if y = x then some 0 else (indexOf? ys x).map (· + 1)

/-- the check of one local at a branch with arguments `args` to a block with parameters `P` -/
def varOK (P : List TV) (args : List Val) (cur : Option TV) (want : Option TV) : Bool :=
  match want with
  | none => true
  | some v =>
    match cur with
    | none => false
    | some cu =>
      cu.2 == v.2 &&
      (match indexOf? (P.map (·.1)) v.1 with
       | some k => args[k]? == some cu.1 && (P[k]?.map (·.2)) == some v.2
       | none => cu.1 == v.1)

def varsOK (P : List TV) (args : List Val) : List (Option TV) → List (Option TV) → Bool
  | _, [] => true
  | [], _ :: _ => false
  | cu :: cus, w :: ws => varOK P args cu w && varsOK P args cus ws

/-- a branch with arguments `args` from state `c` to the (non-return) label `lab` -/
def edgeOK (cx : Ctx) (c : CS) (lab : Lab) (args : List Val) : Bool :=
  let P := paramsOf cx.g lab.tgt
  let n := lab.tys.length
  (cx.g.findBlock lab.tgt).isSome &&
  args.length == P.length &&
  decide (n ≤ P.length) &&
  args.take n == peekVals c.stack n &&
  (P.take n).map (·.2) == lab.tys &&
  hasPrefix lab.tys.reverse (c.stack.map (·.2)) &&
  decide ((P.map (·.1)).Nodup) &&
  decide (lab.outer.length + n ≤ c.stack.length) &&
  truncStack c.stack lab.outer.length == lab.outer &&
  lab.outer.all (fun p => !(P.map (·.1)).contains p.1) &&
  (entOf cx.ent lab.tgt).length == cx.lt.length &&
  varsOK P args c.vars (entOf cx.ent lab.tgt)

/-- the block that stands for the return block, as `toFunc` builds it -/
def retBlockOK (cx : Ctx) : Bool :=
  match cx.g.findBlock retBlk with
  | some R => R.params.map (·.2) == cx.res && decide ((R.params.map (·.1)).Nodup) &&
      R.instrs == [.ret (R.params.map (·.1))]
  | none => false

/-- the state at the entry of block `tgt` reached with `n` Wasm-level arguments over the stack `outer` -/
def entryCS (cx : Ctx) (tgt n : Nat) (outer : List TV) (nb : Nat) : CS :=
  { blk := tgt, pos := 0, stack := ((paramsOf cx.g tgt).take n).reverse ++ outer, vars := entOf cx.ent tgt, nb := nb }

/-- the instruction at the current position is the unconditional branch to `lab` -/
def chkJump (cx : Ctx) (c : CS) (lab : Lab) : Bool :=
  if lab.isRet then
    hasPrefix lab.tys.reverse (c.stack.map (·.2)) && expect cx.g c [.ret (peekVals c.stack lab.tys.length)]
  else
    match (instrsOf cx.g c.blk)[c.pos]? with
    | some (.jump t args) => t == lab.tgt && edgeOK cx c lab args
    | _ => false

/-- after the `end` of a construct whose continuation is `lab` -/
def afterBlock (cx : Ctx) (lab : Lab) (nb : Nat) : CR :=
  if hasPred cx.g lab.tgt then .live (entryCS cx lab.tgt lab.tys.length lab.outer nb) else .dead nb

/-- the end of an arm whose continuation is `lab`: the jump, if the end is live; the block counter -/
def finishArm (cx : Ctx) (lab : Lab) : CR → Option Nat
  | .fail => none
  | .dead nb => some nb
  | .live c =>
    if c.stack.length == lab.tys.length + lab.outer.length && chkJump cx c lab then some c.nb else none

/-- a straight-line instruction that does not touch the locals and is not `return` -/
def chkOp (cx : Ctx) (c : CS) (i : SI) : CR :=
  match tcStep [] i (c.stack.map (·.2)) with
  | none => .fail
  | some _ =>
    let k := (lowerI i ⟨0, c.stack, []⟩).1.length
    let r := if k = 0 then 0
             else (((instrsOf cx.g c.blk)[c.pos]?).map (fun j => j.results.headD 0)).getD 0
    let out := lowerI i ⟨r, c.stack, []⟩
    if freshFor c (out.1.flatMap (·.results)) && expect cx.g c out.1 then
      .live { c with pos := c.pos + out.1.length, stack := out.2.stack }
    else .fail

mutual
def chkI (cx : Ctx) (labs : List Lab) (c : CS) : CI → CR
  | .op .ret =>
    if hasPrefix cx.res.reverse (c.stack.map (·.2)) && expect cx.g c [.ret (peekVals c.stack cx.res.length)]
    then .dead c.nb else .fail
  | .op (.localGet x) =>
    match cx.lt[x]?, c.vars.getD x none with
    | some t, some v => if v.2 = t then .live { c with stack := v :: c.stack } else .fail
    | _, _ => .fail
  | .op (.localSet x) =>
    match c.stack, cx.lt[x]? with
    | v :: stk, some t =>
      if v.2 = t ∧ x < c.vars.length then .live { c with stack := stk, vars := c.vars.set x (some v) } else .fail
    | _, _ => .fail
  | .op (.localTee x) =>
    match c.stack, cx.lt[x]? with
    | v :: _, some t =>
      if v.2 = t ∧ x < c.vars.length then .live { c with vars := c.vars.set x (some v) } else .fail
    | _, _ => .fail
  | .op i => chkOp cx c i
  | .unreachable => if expect cx.g c [.exit execCtx codeUnreachable] then .dead c.nb else .fail
  | .br l =>
    match labs[l]? with
    | some lab => if chkJump cx c lab then .dead c.nb else .fail
    | none => .fail
  | .brIf l =>
    match c.stack, labs[l]? with
    | v :: stk, some lab =>
      let c1 : CS := { c with stack := stk }
      let E := c.nb
      let okBr := match (instrsOf cx.g c.blk)[c.pos]? with
        | some (.brnz cv t args) =>
          cv == v.1 && t == lab.tgt &&
          (if lab.isRet then
             args == peekVals stk lab.tys.length && hasPrefix lab.tys.reverse (stk.map (·.2)) && retBlockOK cx
           else edgeOK cx c1 lab args)
        | _ => false
      let labE : Lab := { tgt := E, tys := [], outer := stk, isRet := false }
      let okJ := match (instrsOf cx.g c.blk)[c.pos + 1]? with
        | some (.jump t args) => t == E && edgeOK cx c1 labE args
        | _ => false
      if v.2 = .i32 ∧ okBr = true ∧ okJ = true then .live (entryCS cx E 0 stk (c.nb + 1)) else .fail
    | _, _ => .fail
  | .block bt body =>
    if bt.params ≠ [] then .fail else
    let lab : Lab := { tgt := c.nb, tys := bt.results, outer := c.stack, isRet := false }
    match finishArm cx lab (chkL cx (lab :: labs) { c with nb := c.nb + 1 } body) with
    | some nb => afterBlock cx lab nb
    | none => .fail
  | .loop bt body =>
    if bt.params ≠ [] then .fail else
    let labH : Lab := { tgt := c.nb, tys := [], outer := c.stack, isRet := false }
    let labA : Lab := { tgt := c.nb + 1, tys := bt.results, outer := c.stack, isRet := false }
    if chkJump cx c labH then
      match finishArm cx labA (chkL cx (labH :: labs) (entryCS cx c.nb 0 c.stack (c.nb + 2)) body) with
      | some nb => afterBlock cx labA nb
      | none => .fail
    else .fail
  | .ite bt he th el =>
    if bt.params ≠ [] then .fail else
    if !he && !el.isEmpty then .fail else
    match c.stack with
    | v :: stk =>
      let c1 : CS := { c with stack := stk }
      let T := c.nb
      let E := c.nb + 1
      let labT : Lab := { tgt := T, tys := [], outer := stk, isRet := false }
      let labE : Lab := { tgt := E, tys := [], outer := stk, isRet := false }
      let labF : Lab := { tgt := c.nb + 2, tys := bt.results, outer := stk, isRet := false }
      let okBr := match (instrsOf cx.g c.blk)[c.pos]? with
        | some (.brz cv t args) => cv == v.1 && t == E && edgeOK cx c1 labE args
        | _ => false
      let okJ := match (instrsOf cx.g c.blk)[c.pos + 1]? with
        | some (.jump t args) => t == T && edgeOK cx c1 labT args
        | _ => false
      if v.2 = .i32 ∧ okBr = true ∧ okJ = true then
        match finishArm cx labF (chkL cx (labF :: labs) (entryCS cx T 0 stk (c.nb + 3)) th) with
        | some nb1 =>
          match finishArm cx labF (chkL cx (labF :: labs) (entryCS cx E 0 stk nb1) el) with
          | some nb2 => afterBlock cx labF nb2
          | none => .fail
        | none => .fail
      else .fail
    | [] => .fail
def chkL (cx : Ctx) (labs : List Lab) (c : CS) : List CI → CR
  | [] => .live c
  | i :: is =>
    match chkI cx labs c i with
    | .live c' => chkL cx labs c' is
    | r => r
end

/-- the context of a function: the resolved output of the translation and the certificate of its builder -/
def ctxOf (f : Function) : Ctx :=
  { g := resolveOps (lowerCF f), ent := certOf (build f), lt := f.params ++ f.locals, res := f.results }

def retLab (f : Function) : Lab := { tgt := retBlk, tys := f.results, outer := [], isRet := true }

/-- the state in which the body starts: in the entry block after the zero constants of the locals -/
def startCS (f : Function) : CS :=
  { blk := 0, pos := (initLS f.sig).1.length, stack := [], vars := (initLS f.sig).2.locals.map some, nb := 1 }

/-- the entry block is the first block, has id 0, the parameters of `LowerToSSA`, and starts with the zero
constants of the locals -/
def entryOK (f : Function) : Bool :=
  let g := (ctxOf f).g
  match g.blocks with
  | B :: _ => B.id == 0 && !B.invalid && B.params == entryParams f.sig &&
      B.instrs.take (initLS f.sig).1.length == (initLS f.sig).1
  | [] => false

/-- **the check**: `validate f = true` implies that `lowerCF f` refines `f` (`Wz.C01.frontcf_refines_validated`) -/
def validate (f : Function) : Bool :=
  entryOK f &&
  (match chkL (ctxOf f) [retLab f] (startCS f) f.body with
   | .fail => false
   | .dead _ => true
   | .live c => c.stack.length == f.results.length && chkJump (ctxOf f) c (retLab f))

end Wz.Model.FrontendCF
