/-
C02, core 2: the compiler front end's bounds-check elision
(internal/engine/wazevo/frontend/lower.go memOpSetup, reloadAfterCall/reloadMemoryBaseLen;
frontend.go getKnownSafeBound, recordKnownSafeBound, resetAbsoluteAddressInSafeBounds,
finalizeKnownSafeBoundsAtTheEndOfBlock, initializeCurrentBlockKnownBounds).

The model is an *instrumented execution along one dynamic path* of a function: the static cache
(`State`: SSA value id ↦ checked ceiling and whether a cached absolute-address SSA value exists) is
updated exactly as the compiler updates it while lowering the instructions on that path, and next to
it the dynamic facts are tracked (the value the cached absolute-address SSA value holds; the real
memory base/length; the SSA variables that cache base/length).  SSA values are immutable, so the
valuation `val` is fixed along the path (per-iteration instances of loop-defined values are
distinct ids: the state restored at a loop back edge mentions only values that dominate the loop).
-/
namespace Wz.Model.SafeBounds

/-- `knownSafeBound` of one SSA value: `bound` (0 = not valid), and the dynamic value of the cached
`absoluteAddr` SSA value (`none` = `ssa.ValueInvalid`). -/
structure Entry where
  v : Nat
  bound : Nat
  addr : Option Nat
deriving Repr, DecidableEq

/-- `knownSafeBounds` restricted to `knownSafeBoundsSet`. -/
abbrev State := List Entry

/-- `getKnownSafeBound(v)` when `.valid()`. -/
def State.get (st : State) (v : Nat) : Option Entry := st.find? (fun e => e.v == v && decide (0 < e.bound))

def State.set (st : State) (e : Entry) : State := e :: st.filter (fun x => x.v != e.v)

/-- `recordKnownSafeBound(v, safeBound, absoluteAddr)`. -/
def record (st : State) (v bound : Nat) (addr : Option Nat) : State :=
  match st.get v with
  | none => st.set ⟨v, bound, addr⟩
  | some e => if e.bound < bound then st.set { e with bound := bound } else st

/-- `resetAbsoluteAddressInSafeBounds`. -/
def resetAddrs (st : State) : State := st.map (fun e => { e with addr := none })

/-- The real memory (`base`, `len`: what the module context holds now) and the SSA variables that
cache them inside the function (`cbase`, `clen`). -/
structure Dyn where
  base : Nat
  len : Nat
  cbase : Nat
  clen : Nat
deriving Repr, DecidableEq

inductive Op where
  /-- a load/store/atomic with dynamic base = SSA value `v`, static offset `off`, width `size` -/
  | access (v off size : Nat)
  /-- call / call_indirect / memory.grow: the memory may have grown and moved to (base', len');
      afterwards `reloadAfterCall` runs (non-shared memory) -/
  | call (base' len' : Nat)
  /-- entering a new basic block: the current state is the end state of the predecessor the
      execution came from, `others` the recorded end states of the other predecessors -/
  | enterBlock (others : List State) (isSealed : Bool)
  /-- loop back edge: the loop header was lowered once, from the state computed when it was first
      entered (the state after the `k`-th op of this path) -/
  | loopBack (k : Nat)
deriving Repr

inductive Ev where
  | trap (v ceil : Nat)
  /-- access performed at host address `addr`; `checked` = a bounds check was emitted;
      `base`/`len` = the real memory at that moment -/
  | ok (addr v ceil base len : Nat) (checked : Bool)
deriving Repr, DecidableEq

/-- memOpSetup, executed. -/
def stepAccess (val : Nat → Nat) (st : State) (d : Dyn) (v off size : Nat) : State × Ev :=
  let ceil := off + size
  let known := st.get v
  match known with
  | some e =>
    if ceil ≤ e.bound then
      match e.addr with
      | some a => (st, .ok a v ceil d.base d.len false)
      | none =>
        let a := d.cbase + val v
        (st.set { e with addr := some a }, .ok a v ceil d.base d.len false)
    else
      if d.clen < val v + ceil then (st, .trap v ceil)
      else
        let a := match e.addr with | some a => a | none => d.cbase + val v
        (record st v ceil (some a), .ok a v ceil d.base d.len true)
  | none =>
    if d.clen < val v + ceil then (st, .trap v ceil)
    else
      let a := d.cbase + val v
      (record st v ceil (some a), .ok a v ceil d.base d.len true)

/-- initializeCurrentBlockKnownBounds for ≥ 2 predecessors: ids valid in every predecessor, with
the minimum bound and no absolute address. -/
def intersect (cur : State) (others : List State) : State :=
  cur.filterMap (fun e =>
    if 0 < e.bound ∧ others.all (fun o => (o.get e.v).isSome) then
      some ⟨e.v, others.foldl (fun m o => match o.get e.v with | some x => min m x.bound | none => m) e.bound, none⟩
    else none)

/-- Deduplicated view of the valid entries (first occurrence wins), as `knownSafeBoundsSet`. -/
def normalize (st : State) : State :=
  st.foldr (fun e acc => if 0 < e.bound then e :: acc.filter (fun x => x.v != e.v) else acc) []

def enterBlock (cur : State) (others : List State) (isSealed : Bool) : State :=
  match others with
  | [] => if isSealed then normalize cur else resetAddrs (normalize cur)
  | _ => intersect (normalize cur) others

structure Cfg where
  st : State
  dyn : Dyn
  hist : List State     -- state after each op so far (oldest first)
deriving Repr

def init (base len : Nat) : Cfg := ⟨[], ⟨base, len, base, len⟩, []⟩

/-- Run a path. `none` = ill-formed path (memory shrinks; loop-back target carries absolute
addresses or does not exist — the front end never produces these: loop headers are unsealed when
first entered).  Stops at the first trap. -/
def run (val : Nat → Nat) : List Op → Cfg → Option (List Ev)
  | [], _ => some []
  | .access v off size :: ops, c =>
    let r := stepAccess val c.st c.dyn v off size
    match r.2 with
    | .trap v' ceil => some [.trap v' ceil]
    | .ok a v' ceil b l chk =>
      (run val ops ⟨r.1, c.dyn, c.hist ++ [r.1]⟩).map (.ok a v' ceil b l chk :: ·)
  | .call base' len' :: ops, c =>
    if len' < c.dyn.len then none
    else
      -- the callee may grow/move the memory; then reloadMemoryBaseLen: both SSA variables are
      -- re-loaded and the absolute addresses are dropped
      let st' := resetAddrs c.st
      run val ops ⟨st', ⟨base', len', base', len'⟩, c.hist ++ [st']⟩
  | .enterBlock others isSealed :: ops, c =>
    let st' := enterBlock c.st others isSealed
    run val ops ⟨st', c.dyn, c.hist ++ [st']⟩
  | .loopBack k :: ops, c =>
    match c.hist[k]? with
    | none => none
    | some st' =>
      if st'.all (fun e => e.addr.isNone) then run val ops ⟨st', c.dyn, c.hist ++ [st']⟩ else none

end Wz.Model.SafeBounds
