/-
C01, optimizing compiler (wazevo): the FRONT END, i.e. the translation of a WebAssembly function body to SSA
(`internal/engine/wazevo/frontend/frontend.go: LowerToSSA`, `lower.go: lowerCurrentOpcode`, `ssa/builder.go`),
for STRAIGHT-LINE integer code: one basic block, no control instruction except the function's final `end`
and `return`.

* `SI` / `Fn` is the source fragment with typed, enumerated operators; `SI.toInstr` embeds it into
  `Wz.Spec.Wasm.Instr` (by instruction NAME), and the semantics of a fragment function is
  `Wz.Spec.Wasm.invoke` on the one-function module `Fn.toModule` (`runSpec`).  No second source semantics.
* `lowerSL : Fn → SsaPass.Func` mirrors the Go code:
    - `LowerToSSA`: the entry block `blk0` gets the parameters `exec_ctx:i64` (value 0), `module_ctx:i64`
      (value 1), then one parameter per Wasm parameter (`entryBlock.AddParam`, values 2, 3, …), each defining
      the SSA variable of that local;
    - `declareWasmLocals` / `builder.InsertZeroValue`: for the declared locals, ONE zero constant per type, emitted
      the first time a local of that type is declared; an uninitialised local reads that value
      (`builder.findValue` on the sealed entry block returns `b.zeros[type]`);
    - `loweringState.values`: the value stack of SSA values (`stack`, top first), with the type every Go
      `ssa.Value` carries; `basicBlock.lastDefinitions`: the current definition of every local variable
      (`locals`); `builder.nextValueID` (`next`): every instruction result takes the next id;
    - one case per opcode of `lowerCurrentOpcode` (see `lowerI`): which instructions are emitted, in which order,
      with which operands, and where the result type comes from (`x.Type()` for `Iadd`…, `Select`, `Clz`…,
      `Sdiv`…; fixed for `Icmp`, `Ireduce`, `SExtend`, `UExtend`, `Iconst`); `eqz` materialises a zero constant
      and compares with it; `local.get/set/tee`, `drop` emit nothing; the trapping divisions are the single
      SSA instructions `Sdiv/Udiv/Srem/Urem x, y, exec_ctx` (the front end emits no explicit checks: the zero /
      overflow checks are produced by the back ends from these instructions);
    - `return`: `Return` of the top `len(results)` values, then the rest of the body is dead
      (`state.unreachable`): nothing is emitted for it, and nothing at the function's `end`;
    - the function's `end` in reachable state: `Jump blk_ret, <top len(results) values>`.
  The jump to the builder's special return block (`basicBlockIDReturnBlock`, a block without instructions which
  both back ends compile as "move the arguments to the result registers and return") is represented by
  `Instr.ret` in the `SsaPass.Func`; `Lowered.viaReturnBlock` remembers which of the two it was, and `format`
  prints it as Go does.
* `format` prints the lowered function in the text format of `ssaBuilder.Format()` (what
  `frontend_test.go` compares), which is how the harness `hfront` compares the model with the real front end.
* `wellTyped` is the stack typing of the fragment in the style of the Wasm validator (live code only: what
  follows a `return` is not looked at; at the end the results must be on top of the stack).

Not in this fragment: `i32.extend8_s/16_s`, `i64.extend8_s/16_s` (the SSA model `SsaPass` has `SExtend` from 32
to 64 bits only; they are added, by wrapping, in `Wz.Model.FrontendSLX`), floats, memory, globals, calls, control
flow, reference types, v128.
On ill-typed input (stack underflow) Go would panic with an index out of range; here the missing value is value 0.

Core Lean only (linked into the `oracle` executable).
-/
import Wz.Spec.Wasm
import Wz.Model.SsaPass

namespace Wz.Model.FrontendSL
open Wz.Model.SsaPass

/-! ## the source fragment -/

inductive IBin | add | sub | mul | and | or | xor | shl | shrS | shrU | rotl | rotr
deriving DecidableEq, Repr, Inhabited

inductive IRel | eq | ne | ltS | ltU | gtS | gtU | leS | leU | geS | geU
deriving DecidableEq, Repr, Inhabited

inductive ICnt | clz | ctz | popcnt
deriving DecidableEq, Repr, Inhabited

inductive IDiv | divS | divU | remS | remU
deriving DecidableEq, Repr, Inhabited

/-- instructions of the fragment; `t` is the type in the instruction's name (`i32.add` = `bin .i32 .add`) -/
inductive SI where
  | const (t : Ty) (v : Nat)
  | localGet (i : Nat) | localSet (i : Nat) | localTee (i : Nat)
  | drop | select
  | bin (t : Ty) (op : IBin)
  | rel (t : Ty) (op : IRel)
  | eqz (t : Ty)
  | cnt (t : Ty) (op : ICnt)
  | wrap          -- i32.wrap_i64
  | extendS       -- i64.extend_i32_s
  | extendU       -- i64.extend_i32_u
  | extend32S     -- i64.extend32_s
  | div (t : Ty) (op : IDiv)
  | ret
deriving DecidableEq, Repr, Inhabited

structure Fn where
  params : List Ty
  results : List Ty
  locals : List Ty
  body : List SI
deriving DecidableEq, Repr, Inhabited

def Ty.toVT : Ty → Wz.Spec.Wasm.VT
  | .i32 => .i32
  | .i64 => .i64

/-! ### instruction names (literal, one per instruction) -/

def binName : Ty → IBin → String
  | .i32, .add => "i32.add" | .i32, .sub => "i32.sub" | .i32, .mul => "i32.mul"
  | .i32, .and => "i32.and" | .i32, .or => "i32.or" | .i32, .xor => "i32.xor"
  | .i32, .shl => "i32.shl" | .i32, .shrS => "i32.shr_s" | .i32, .shrU => "i32.shr_u"
  | .i32, .rotl => "i32.rotl" | .i32, .rotr => "i32.rotr"
  | .i64, .add => "i64.add" | .i64, .sub => "i64.sub" | .i64, .mul => "i64.mul"
  | .i64, .and => "i64.and" | .i64, .or => "i64.or" | .i64, .xor => "i64.xor"
  | .i64, .shl => "i64.shl" | .i64, .shrS => "i64.shr_s" | .i64, .shrU => "i64.shr_u"
  | .i64, .rotl => "i64.rotl" | .i64, .rotr => "i64.rotr"

def relName : Ty → IRel → String
  | .i32, .eq => "i32.eq" | .i32, .ne => "i32.ne" | .i32, .ltS => "i32.lt_s" | .i32, .ltU => "i32.lt_u"
  | .i32, .gtS => "i32.gt_s" | .i32, .gtU => "i32.gt_u" | .i32, .leS => "i32.le_s" | .i32, .leU => "i32.le_u"
  | .i32, .geS => "i32.ge_s" | .i32, .geU => "i32.ge_u"
  | .i64, .eq => "i64.eq" | .i64, .ne => "i64.ne" | .i64, .ltS => "i64.lt_s" | .i64, .ltU => "i64.lt_u"
  | .i64, .gtS => "i64.gt_s" | .i64, .gtU => "i64.gt_u" | .i64, .leS => "i64.le_s" | .i64, .leU => "i64.le_u"
  | .i64, .geS => "i64.ge_s" | .i64, .geU => "i64.ge_u"

def eqzName : Ty → String
  | .i32 => "i32.eqz" | .i64 => "i64.eqz"

def cntName : Ty → ICnt → String
  | .i32, .clz => "i32.clz" | .i32, .ctz => "i32.ctz" | .i32, .popcnt => "i32.popcnt"
  | .i64, .clz => "i64.clz" | .i64, .ctz => "i64.ctz" | .i64, .popcnt => "i64.popcnt"

def divName : Ty → IDiv → String
  | .i32, .divS => "i32.div_s" | .i32, .divU => "i32.div_u" | .i32, .remS => "i32.rem_s" | .i32, .remU => "i32.rem_u"
  | .i64, .divS => "i64.div_s" | .i64, .divU => "i64.div_u" | .i64, .remS => "i64.rem_s" | .i64, .remU => "i64.rem_u"

def SI.toInstr : SI → Wz.Spec.Wasm.Instr
  | .const t v => .const (v % 2 ^ t.bits)
  | .localGet i => .localGet i | .localSet i => .localSet i | .localTee i => .localTee i
  | .drop => .drop | .select => .select
  | .bin t op => .num2 (binName t op)
  | .rel t op => .num2 (relName t op)
  | .eqz t => .num1 (eqzName t)
  | .cnt t op => .num1 (cntName t op)
  | .wrap => .num1 "i32.wrap_i64"
  | .extendS => .num1 "i64.extend_i32_s"
  | .extendU => .num1 "i64.extend_i32_u"
  | .extend32S => .num1 "i64.extend32_s"
  | .div t op => .num2 (divName t op)
  | .ret => .ret

/-- the one-function module of a fragment function -/
def Fn.toModule (f : Fn) : Wz.Spec.Wasm.Module :=
  { types := [⟨f.params.map Ty.toVT, f.results.map Ty.toVT⟩],
    funcs := [⟨0, f.locals.map Ty.toVT, f.body.map SI.toInstr⟩] }

/-- reference semantics of a fragment function: `Wz.Spec.Wasm.invoke` on the embedding -/
def runSpec (f : Fn) (args : List Nat) (fuel : Nat) : Wz.Spec.Wasm.Outcome :=
  (Wz.Spec.Wasm.invoke f.toModule fuel 0 args {}).1

/-- arguments as the embedder passes them: as many as parameters, each within its type -/
def ArgsOK (f : Fn) (args : List Nat) : Prop :=
  args.length = f.params.length ∧ ∀ p ∈ args.zip f.params, p.1 < 2 ^ p.2.bits

instance (f : Fn) (args : List Nat) : Decidable (ArgsOK f args) := by unfold ArgsOK; infer_instance

/-- the specification's trap kinds for the exit codes of the SSA trapping instructions -/
def trapKind (c : Nat) : String := if c = codeDivByZero then "div0" else "overflow"

/-- the exit code of a trap kind of the fragment -/
def trapCode (k : String) : Nat := if k = "div0" then codeDivByZero else codeOverflow

/-- an outcome of the reference semantics as an outcome of the SSA semantics (no memory, no calls) -/
def ofSpec : Wz.Spec.Wasm.Outcome → Outcome
  | .values vs => .values vs [] []
  | .trap k => .trap (trapCode k) [] []
  | .exhausted => .outOfFuel

/-- an outcome of the SSA semantics in the vocabulary of the reference semantics -/
def ofSsa : Outcome → Wz.Spec.Wasm.Outcome
  | .values vs _ _ => .values vs
  | .trap c _ _ => .trap (trapKind c)
  | .outOfFuel => .exhausted
  | .error => .trap "malformed-ssa"

/-! ## the fragment's type check -/

/-- `pre` is a prefix of `l` -/
def hasPrefix (pre l : List Ty) : Bool := l.take pre.length == pre

/-- one instruction on the type stack (top first); `none`: ill-typed -/
def tcStep (lt : List Ty) : SI → List Ty → Option (List Ty)
  | .const t _, s => some (t :: s)
  | .localGet i, s => (lt[i]?).map (· :: s)
  | .localSet i, a :: s => if lt[i]? = some a then some s else none
  | .localTee i, a :: s => if lt[i]? = some a then some (a :: s) else none
  | .drop, _ :: s => some s
  | .select, c :: b :: a :: s => if c = .i32 ∧ a = b then some (a :: s) else none
  | .bin t _, b :: a :: s => if a = t ∧ b = t then some (t :: s) else none
  | .rel t _, b :: a :: s => if a = t ∧ b = t then some (.i32 :: s) else none
  | .eqz t, a :: s => if a = t then some (.i32 :: s) else none
  | .cnt t _, a :: s => if a = t then some (t :: s) else none
  | .wrap, a :: s => if a = .i64 then some (.i32 :: s) else none
  | .extendS, a :: s => if a = .i32 then some (.i64 :: s) else none
  | .extendU, a :: s => if a = .i32 then some (.i64 :: s) else none
  | .extend32S, a :: s => if a = .i64 then some (.i64 :: s) else none
  | .div t _, b :: a :: s => if a = t ∧ b = t then some (t :: s) else none
  | _, _ => none

/-- the body from a given type stack: at `return` and at the end the results are on top of the stack (last
result topmost); what follows a `return` is not looked at -/
def tcBody (lt res : List Ty) : List SI → List Ty → Bool
  | [], s => hasPrefix res.reverse s
  | .ret :: _, s => hasPrefix res.reverse s
  | i :: is, s =>
    match tcStep lt i s with
    | some s' => tcBody lt res is s'
    | none => false

def wellTyped (f : Fn) : Bool := tcBody (f.params ++ f.locals) f.results f.body []

/-! ## the translation -/

/-- an SSA value with the type it carries (`ssa.Value` embeds its type) -/
abbrev TV := Nat × Ty

/-- `loweringState` + the builder's counters, inside the entry block -/
structure LS where
  /-- `builder.nextValueID` -/
  next : Nat
  /-- `loweringState.values`, top first -/
  stack : List TV
  /-- the current definition of each Wasm local (`lastDefinitions` of the entry block, or the zero value of its
  type) -/
  locals : List TV
deriving DecidableEq, Repr, Inhabited

def execCtx : Val := 0
def moduleCtx : Val := 1

def LS.pop (s : LS) : TV × LS := (s.stack.headD (0, .i32), { s with stack := s.stack.tail })
def LS.peek (s : LS) : TV := s.stack.headD (0, .i32)
def LS.push (s : LS) (v : TV) : LS := { s with stack := v :: s.stack }
/-- `allocateValue` for the result of an instruction that is pushed -/
def LS.pushNew (s : LS) (t : Ty) : LS := { s with next := s.next + 1, stack := (s.next, t) :: s.stack }

def IBin.toSsa : IBin → BinOp
  | .add => .iadd | .sub => .isub | .mul => .imul | .and => .band | .or => .bor | .xor => .bxor
  | .shl => .ishl | .shrS => .sshr | .shrU => .ushr | .rotl => .rotl | .rotr => .rotr

def IRel.toSsa : IRel → Cond
  | .eq => .eq | .ne => .ne | .ltS => .slt | .ltU => .ult | .gtS => .sgt | .gtU => .ugt
  | .leS => .sle | .leU => .ule | .geS => .sge | .geU => .uge

def ICnt.toSsa : ICnt → UnOp
  | .clz => .clz | .ctz => .ctz | .popcnt => .popcnt

def IDiv.toSsa : IDiv → DivOp
  | .divS => .sdiv | .divU => .udiv | .remS => .srem | .remU => .urem

/-- `lowerCurrentOpcode` in reachable state, for every instruction of the fragment but `return`: the
instructions inserted into the current block, and the new state -/
def lowerI : SI → LS → List Instr × LS
  | .const t v, s => ([.iconst s.next t (v % 2 ^ t.bits)], s.pushNew t)
  | .localGet i, s => ([], s.push (s.locals.getD i (0, .i32)))
  | .localSet i, s => let (v, s) := s.pop; ([], { s with locals := s.locals.set i v })
  | .localTee i, s => ([], { s with locals := s.locals.set i s.peek })
  | .drop, s => ([], s.pop.2)
  | .select, s =>
    let (c, s) := s.pop
    let (v2, s) := s.pop
    let (v1, s) := s.pop
    ([.select s.next v1.2 c.1 v1.1 v2.1], s.pushNew v1.2)
  | .bin _ op, s =>
    let (y, s) := s.pop
    let (x, s) := s.pop
    ([.bin op.toSsa s.next x.2 x.1 y.1], s.pushNew x.2)
  | .rel _ op, s =>
    let (y, s) := s.pop
    let (x, s) := s.pop
    ([.icmp s.next x.2 op.toSsa x.1 y.1], s.pushNew .i32)
  | .eqz t, s =>
    let (x, s) := s.pop
    ([.iconst s.next t 0, .icmp (s.next + 1) x.2 .eq x.1 s.next],
      { s with next := s.next + 2, stack := (s.next + 1, .i32) :: s.stack })
  | .cnt _ op, s =>
    let (x, s) := s.pop
    ([.un op.toSsa s.next x.2 x.1], s.pushNew x.2)
  | .wrap, s =>
    let (x, s) := s.pop
    ([.un .ireduce s.next .i32 x.1], s.pushNew .i32)
  | .extendS, s =>
    let (x, s) := s.pop
    ([.un .sextend s.next .i64 x.1], s.pushNew .i64)
  | .extendU, s =>
    let (x, s) := s.pop
    ([.un .uextend s.next .i64 x.1], s.pushNew .i64)
  | .extend32S, s =>
    let (x, s) := s.pop
    ([.un .sextend s.next .i64 x.1], s.pushNew .i64)
  | .div _ op, s =>
    let (y, s) := s.pop
    let (x, s) := s.pop
    ([.div op.toSsa s.next x.2 x.1 y.1 execCtx], s.pushNew x.2)
  | .ret, s => ([], s)

/-- `nPeekDup(n)`: the top `n` values, the deepest first -/
def LS.peekN (s : LS) (n : Nat) : List Val := ((s.stack.take n).map (·.1)).reverse

/-- the body in reachable state: at `return` (`lowerReturn`) and at the function's `end` (`insertJumpToBlock` to
the return block) the top `nres` values are returned; after `return` nothing is emitted -/
def lowerBody (nres : Nat) : List SI → LS → List Instr
  | [], s => [.ret (s.peekN nres)]
  | .ret :: _, s => [.ret (s.peekN nres)]
  | i :: is, s => (lowerI i s).1 ++ lowerBody nres is (lowerI i s).2

/-- `builder.zeros` for the two integer types -/
structure Zeros where
  z32 : Option Val := none
  z64 : Option Val := none
deriving DecidableEq, Repr, Inhabited

def Zeros.get (z : Zeros) : Ty → Option Val
  | .i32 => z.z32
  | .i64 => z.z64

def Zeros.set (z : Zeros) (t : Ty) (v : Val) : Zeros :=
  match t with
  | .i32 => { z with z32 := some v }
  | .i64 => { z with z64 := some v }

/-- `declareWasmLocals`: `InsertZeroValue` emits a constant the first time a type is seen -/
def declLocals : List Ty → Nat → Zeros → List Instr × Nat × Zeros
  | [], n, z => ([], n, z)
  | t :: ts, n, z =>
    match z.get t with
    | some _ => declLocals ts n z
    | none =>
      let r := declLocals ts (n + 1) (z.set t n)
      (.iconst n t 0 :: r.1, r.2)

/-- the parameters of the entry block: execution context, module context, the Wasm parameters -/
def entryParams (f : Fn) : List TV :=
  (execCtx, .i64) :: (moduleCtx, .i64) :: f.params.zipIdx.map (fun (t, i) => (i + 2, t))

/-- the state in which the body is lowered -/
def initLS (f : Fn) : List Instr × LS :=
  let d := declLocals f.locals (f.params.length + 2) {}
  (d.1, { next := d.2.1, stack := [],
          locals := (entryParams f).drop 2 ++ f.locals.map (fun t => ((d.2.2.get t).getD 0, t)) })

def entryInstrs (f : Fn) : List Instr :=
  (initLS f).1 ++ lowerBody f.results.length f.body (initLS f).2

/-- `LowerToSSA` on a function of the fragment -/
def lowerSL (f : Fn) : Func :=
  { blocks := [{ id := 0, key := 0, invalid := false, params := entryParams f, instrs := entryInstrs f }],
    alias := [] }

/-- is the block terminated by `Jump blk_ret` (the function's `end` is reachable) rather than `Return`? -/
def viaReturnBlock (f : Fn) : Bool := !f.body.contains .ret

/-! ## `ssaBuilder.Format()` -/

def hexDigits (n : Nat) : String := String.ofList (Nat.toDigits 16 n)

def showTy : Ty → String
  | .i32 => "i32" | .i64 => "i64"

/-- `Value.Format`: annotated values by name -/
def showVal (v : Val) : String :=
  if v = execCtx then "exec_ctx" else if v = moduleCtx then "module_ctx" else s!"v{v}"

def showDef (r : Val) (t : Ty) : String := s!"{showVal r}:{showTy t} = "

def showCond : Cond → String
  | .eq => "eq" | .ne => "neq" | .slt => "lt_s" | .sge => "ge_s" | .sgt => "gt_s" | .sle => "le_s"
  | .ult => "lt_u" | .uge => "ge_u" | .ugt => "gt_u" | .ule => "le_u"

def showBinOp : BinOp → String
  | .iadd => "Iadd" | .isub => "Isub" | .imul => "Imul" | .band => "Band" | .bor => "Bor" | .bxor => "Bxor"
  | .ishl => "Ishl" | .ushr => "Ushr" | .sshr => "Sshr" | .rotl => "Rotl" | .rotr => "Rotr"

def showDivOp : DivOp → String
  | .udiv => "Udiv" | .sdiv => "Sdiv" | .urem => "Urem" | .srem => "Srem"

def commaVals (vs : List Val) : String := ", ".intercalate (vs.map showVal)

/-- `Instruction.Format` for the instructions the fragment produces (`retBlk`: the final instruction is the jump
to the return block) -/
def showInstr (retBlk : Bool) : Instr → String
  | .iconst r t c => showDef r t ++ (match t with | .i32 => "Iconst_32 0x" | .i64 => "Iconst_64 0x") ++ hexDigits c
  | .bin op r t x y => showDef r t ++ s!"{showBinOp op} {showVal x}, {showVal y}"
  | .icmp r _ c x y => showDef r .i32 ++ s!"Icmp {showCond c}, {showVal x}, {showVal y}"
  | .select r t c x y => showDef r t ++ s!"Select {showVal c}, {showVal x}, {showVal y}"
  | .un .clz r t x => showDef r t ++ s!"Clz {showVal x}"
  | .un .ctz r t x => showDef r t ++ s!"Ctz {showVal x}"
  | .un .popcnt r t x => showDef r t ++ s!"Popcnt {showVal x}"
  | .un .ireduce r t x => showDef r t ++ s!"Ireduce {showVal x}"
  | .un .sextend r t x => showDef r t ++ s!"SExtend {showVal x}, 32->64"
  | .un .uextend r t x => showDef r t ++ s!"UExtend {showVal x}, 32->64"
  | .div op r t x y _ => showDef r t ++ s!"{showDivOp op} {showVal x}, {showVal y}"
  | .ret vs =>
    if retBlk then (if vs.isEmpty then "Jump blk_ret" else "Jump blk_ret, " ++ commaVals vs)
    else (if vs.isEmpty then "Return" else "Return " ++ commaVals vs)
  | _ => "?"

def showParam (p : TV) : String := s!"{showVal p.1}:{showTy p.2}"

/-- the lines of `ssaBuilder.Format()` (without the empty first line and the tabs) -/
def format (f : Fn) : List String :=
  s!"blk0: ({", ".intercalate ((entryParams f).map showParam)})" ::
    (entryInstrs f).map (showInstr (viaReturnBlock f))

end Wz.Model.FrontendSL
