/-
C01 (lowering): model of the INTERPRETER's lowering of structured control flow to a flat operation list
(`internal/engine/interpreter/compiler.go`, `interpreter.go: lowerIR`) and of the call engine's execution of
those operations (`interpreter.go: callNativeFunc`), for the fragment

  const, unary / binary integer numerics, local.get / local.set / local.tee, drop, select, unreachable,
  return, br, br_if, br_table, block, loop, if/else   over i32 / i64,   one function, no calls / memory / globals.

* `FI` / `Fn` is the fragment's own syntax (block types and constant types are kept because the lowering looks at
  them); `FI.toInstr` embeds it into `Wz.Spec.Wasm.Instr`, and the STRUCTURED semantics of a fragment function
  is `Wz.Spec.Wasm.invoke` on that embedding (`runStruct`): no second structured semantics is defined here.
* `Op τ` mirrors `unionOperation` for the kinds the compiler emits on the fragment, with the same information:
  `τ = Label` before label resolution (`SymOp`), `τ = Nat` (an index into the operation list, `retAddr = 2^64-1`
  for the return label) after it (`FlatOp`).
* `lowerSym` mirrors `compiler.compile` / `handleInstruction` as a recursion over the nested syntax (the explicit
  `else` / `end` opcodes become the code emitted when a body has been lowered): the static stack height in
  uint64 slots (parameters and locals included, as in `initializeStack` with `callFrameStackSize = 0`), the
  frame-id counter (`nextFrameID`: function frame 1, then blocks / loops / ifs and the else-label of every
  `br_if` in order of appearance in LIVE code), the unreachable state (after `br`, `br_table`, `return`,
  `unreachable` the rest of the enclosing body is skipped without allocating ids or emitting anything),
  `getFrameDropRange` (`none` = `nopinclusiveRange`; a `Drop` with the nop range is not emitted),
  `ensureContinuation` (a block gets `Br cont; Label cont` at its reachable `end` only if live code branches to
  it: `targetsS`).  `lower` then resolves labels as `lowerIR` does (address of the LAST `Label` operation carrying
  the label; the return label becomes `math.MaxUint64`).
* `runFlat` mirrors `callNativeFunc` on a single value stack (top first) which holds parameters, locals and
  operands, with the outcomes of Go made explicit: `panic` is an out-of-range slice / index expression.
  Numeric operations are executed by the specification function `Wz.Spec.Num.scalar` of their Wasm name (the
  agreement of the interpreter's numeric cases with that table is C01 `interp_refines_spec_straightline` / C05,
  not this file).
* `wellTyped` is a decidable stack-typing check of LIVE code in the style of the Wasm validator (operand types,
  label types, block results); dead code (after `br`/`br_table`/`return`/`unreachable` in the same body) is not
  looked at, so every function of the fragment accepted by the validator is accepted, and more.

Not modelled: uint32 / int32 wrap-around of frame ids, heights and ranges (bodies have < 2^31 instructions),
`ensureTermination` (`BuiltinFunctionCheckExitCode` after loop headers; the harness compiles without it),
operation lists of 2^64-1 or more operations (the return address `math.MaxUint64` is then a valid index; the
theorems assume `(lowerSym f).length < retAddr`; a Go slice has fewer than 2^63 elements),
v128 (two-slot values), block parameters (multi-value block types), DWARF offsets.

Core Lean only (linked into the `oracle` executable).
-/
import Wz.Spec.Wasm

namespace Wz.Model.FlatLower
open Wz.Spec Wz.Spec.Wasm

/-! ## the source fragment -/

inductive Ty | i32 | i64
deriving DecidableEq, Repr, Inhabited

def Ty.bits : Ty → Nat | .i32 => 32 | .i64 => 64
def Ty.toVT : Ty → VT | .i32 => .i32 | .i64 => .i64

inductive FI where
  | const (t : Ty) (v : Nat)
  | num1 (name : String)
  | num2 (name : String)
  | localGet (i : Nat) | localSet (i : Nat) | localTee (i : Nat)
  | drop | select | unreachable | ret
  | br (l : Nat) | brIf (l : Nat) | brTable (ls : List Nat) (d : Nat)
  | block (bt : Option Ty) (body : List FI)
  | loop (bt : Option Ty) (body : List FI)
  | ite (bt : Option Ty) (th el : List FI)
deriving Repr, Inhabited

structure Fn where
  params : List Ty
  results : List Ty
  locals : List Ty
  body : List FI
deriving Repr, Inhabited

def arity (bt : Option Ty) : Nat := match bt with | none => 0 | some _ => 1

mutual
def FI.toInstr : FI → Instr
  | .const t v => .const (v % 2 ^ t.bits)
  | .num1 n => .num1 n
  | .num2 n => .num2 n
  | .localGet i => .localGet i | .localSet i => .localSet i | .localTee i => .localTee i
  | .drop => .drop | .select => .select | .unreachable => .unreachable | .ret => .ret
  | .br l => .br l | .brIf l => .brIf l | .brTable ls d => .brTable ls d
  | .block bt body => .block (arity bt) (toInstrs body)
  | .loop _ body => .loop (toInstrs body)
  | .ite bt th el => .ite (arity bt) (toInstrs th) (toInstrs el)
def toInstrs : List FI → List Instr
  | [] => []
  | i :: is => i.toInstr :: toInstrs is
end

/-- the one-function module of a fragment function -/
def Fn.toModule (f : Fn) : Module :=
  { types := [⟨f.params.map Ty.toVT, f.results.map Ty.toVT⟩],
    funcs := [⟨0, f.locals.map Ty.toVT, toInstrs f.body⟩] }

/-- STRUCTURED reference semantics of a fragment function: `Wz.Spec.Wasm.invoke` on the embedding -/
def runStruct (f : Fn) (args : List Nat) (fuel : Nat) : Outcome :=
  (invoke f.toModule fuel 0 args {}).1

/-! ## numeric instructions of the fragment: operand type, result type -/

def sig1 : String → Option (Ty × Ty)
  | "i32.eqz" | "i32.clz" | "i32.ctz" | "i32.popcnt" | "i32.extend8_s" | "i32.extend16_s" => some (.i32, .i32)
  | "i64.clz" | "i64.ctz" | "i64.popcnt" | "i64.extend8_s" | "i64.extend16_s" | "i64.extend32_s" =>
    some (.i64, .i64)
  | "i64.eqz" | "i32.wrap_i64" => some (.i64, .i32)
  | "i64.extend_i32_s" | "i64.extend_i32_u" => some (.i32, .i64)
  | _ => none

def sig2 : String → Option (Ty × Ty)
  | "i32.eq" | "i32.ne" | "i32.lt_s" | "i32.lt_u" | "i32.gt_s" | "i32.gt_u"
  | "i32.le_s" | "i32.le_u" | "i32.ge_s" | "i32.ge_u"
  | "i32.add" | "i32.sub" | "i32.mul" | "i32.div_s" | "i32.div_u" | "i32.rem_s" | "i32.rem_u"
  | "i32.and" | "i32.or" | "i32.xor" | "i32.shl" | "i32.shr_s" | "i32.shr_u" | "i32.rotl" | "i32.rotr" =>
    some (.i32, .i32)
  | "i64.eq" | "i64.ne" | "i64.lt_s" | "i64.lt_u" | "i64.gt_s" | "i64.gt_u"
  | "i64.le_s" | "i64.le_u" | "i64.ge_s" | "i64.ge_u" => some (.i64, .i32)
  | "i64.add" | "i64.sub" | "i64.mul" | "i64.div_s" | "i64.div_u" | "i64.rem_s" | "i64.rem_u"
  | "i64.and" | "i64.or" | "i64.xor" | "i64.shl" | "i64.shr_s" | "i64.shr_u" | "i64.rotl" | "i64.rotr" =>
    some (.i64, .i64)
  | _ => none

/-! ## flat operations -/

inductive LabelKind | header | els | cont | ret
deriving DecidableEq, Repr, Inhabited

/-- `label` of operations.go: kind and frame id -/
structure Label where
  kind : LabelKind
  id : Nat
deriving DecidableEq, Repr, Inhabited

/-- `inclusiveRange` with `0 ≤ Start ≤ End` (counted from the top of the stack) -/
structure Range where
  start : Nat
  stop : Nat
deriving DecidableEq, Repr, Inhabited

/-- a drop range argument: `none` is `nopinclusiveRange` -/
abbrev DropR := Option Range

/-- the operations emitted on the fragment; `τ` is the type of branch targets -/
inductive Op (τ : Type) where
  | unreachable
  | label (l : Label)
  | br (t : τ)
  | brIf (thn els : τ) (drop : DropR)
  | brTable (ts : List (τ × DropR))          -- targets in order, the default target last (`Us` pairs)
  | drop (r : Range)
  | select
  | pick (depth : Nat)
  | set (depth : Nat)
  | const (t : Ty) (v : Nat)                  -- ConstI32 / ConstI64 with U1 = v
  | num1 (name : String)
  | num2 (name : String)
deriving Repr, Inhabited

abbrev SymOp := Op Label
abbrev FlatOp := Op Nat

def Op.mapT {α β} (f : α → β) : Op α → Op β
  | .unreachable => .unreachable
  | .label l => .label l
  | .br t => .br (f t)
  | .brIf a b d => .brIf (f a) (f b) d
  | .brTable ts => .brTable (ts.map (fun p => (f p.1, p.2)))
  | .drop r => .drop r
  | .select => .select
  | .pick d => .pick d
  | .set d => .set d
  | .const t v => .const t v
  | .num1 n => .num1 n
  | .num2 n => .num2 n

/-! ## lowering -/

inductive FrKind | block | loop | ite | func
deriving DecidableEq, Repr, Inhabited

/-- `controlFrame`: kind, frame id, `originalStackLenWithoutParamUint64`, number of results (blocks of the
fragment have no parameters) -/
structure Fr where
  kind : FrKind
  id : Nat
  orig : Nat
  res : Nat
deriving Repr, Inhabited

/-- `controlFrame.asLabel` -/
def Fr.label (f : Fr) : Label :=
  match f.kind with
  | .loop => ⟨.header, f.id⟩
  | .func => ⟨.ret, 0⟩
  | _ => ⟨.cont, f.id⟩

/-- `getFrameDropRange` at static height `h`: `Start` = params (0) of a loop that is branched to, else the
number of results; `End = h - 1 - orig`; `nopinclusiveRange` unless `Start ≤ End` -/
def dropRange (f : Fr) (isEnd : Bool) (h : Nat) : DropR :=
  let start := if !isEnd && f.kind == .loop then 0 else f.res
  if start + f.orig + 1 ≤ h then some ⟨start, h - 1 - f.orig⟩ else none

/-- `emit(newOperationDrop r)`: the nop range is not emitted -/
def emitDrop {τ} : DropR → List (Op τ)
  | none => []
  | some r => [.drop r]

/-- instructions after which the compiler is in the unreachable state -/
def FI.terminator : FI → Bool
  | .br _ | .brTable _ _ | .ret | .unreachable => true
  | _ => false

mutual
/-- does live code of the instruction branch to the label at relative depth `d` (`ensureContinuation`)? -/
def targetsI (d : Nat) : FI → Bool
  | .br l => l == d
  | .brIf l => l == d
  | .brTable ls l => ls.contains d || l == d
  | .block _ b => targetsS (d + 1) b
  | .loop _ b => targetsS (d + 1) b
  | .ite _ t e => targetsS (d + 1) t || targetsS (d + 1) e
  | _ => false
def targetsS (d : Nat) : List FI → Bool
  | [] => false
  | i :: rest => targetsI d i || (!i.terminator && targetsS d rest)
end

/-- result of lowering a piece of code: emitted operations, frame-id counter, and the static height if the end
is reachable (`none`: unreachable state) -/
structure LR where
  ops : List SymOp
  next : Nat
  h : Option Nat

def frameAt (fs : List Fr) (l : Nat) : Fr := fs.getD l ⟨.func, 0, 0, 0⟩

mutual
/-- one instruction in the reachable state at static height `h` (frames innermost first; `next` is
`currentFrameID`) -/
def lowerI (fs : List Fr) (h next : Nat) : FI → LR
  | .const t v => ⟨[.const t (v % 2 ^ t.bits)], next, some (h + 1)⟩
  | .num1 n => ⟨[.num1 n], next, some h⟩
  | .num2 n => ⟨[.num2 n], next, some (h - 1)⟩
  | .localGet i => ⟨[.pick (h - 1 - i)], next, some (h + 1)⟩
  | .localSet i => ⟨[.set (h - 1 - i)], next, some (h - 1)⟩
  | .localTee i => ⟨[.pick 0, .set (h - i)], next, some h⟩
  | .drop => ⟨[.drop ⟨0, 0⟩], next, some (h - 1)⟩
  | .select => ⟨[.select], next, some (h - 2)⟩
  | .unreachable => ⟨[.unreachable], next, none⟩
  | .ret =>
    let fr := fs.getLastD ⟨.func, 0, 0, 0⟩
    ⟨emitDrop (dropRange fr false h) ++ [.br fr.label], next, none⟩
  | .br l =>
    let fr := frameAt fs l
    ⟨emitDrop (dropRange fr false h) ++ [.br fr.label], next, none⟩
  | .brIf l =>
    let fr := frameAt fs l
    let id := next + 1
    ⟨[.brIf fr.label ⟨.header, id⟩ (dropRange fr false (h - 1)), .label ⟨.header, id⟩], id, some (h - 1)⟩
  | .brTable ls d =>
    let tgt := fun l => let fr := frameAt fs l; (fr.label, dropRange fr false (h - 1))
    ⟨[.brTable (ls.map tgt ++ [tgt d])], next, none⟩
  | .block bt body =>
    let id := next + 1
    let fr : Fr := ⟨.block, id, h, arity bt⟩
    let r := lowerS (fr :: fs) h id body
    let tail : List SymOp :=
      match r.h with
      | some h' =>
        emitDrop (dropRange fr true h') ++
          (if targetsS 0 body then [.br ⟨.cont, id⟩, .label ⟨.cont, id⟩] else [])
      | none => [.label ⟨.cont, id⟩]
    ⟨r.ops ++ tail, r.next, some (h + arity bt)⟩
  | .loop bt body =>
    let id := next + 1
    let fr : Fr := ⟨.loop, id, h, arity bt⟩
    let r := lowerS (fr :: fs) h id body
    let tail : List SymOp :=
      match r.h with
      | some h' => emitDrop (dropRange fr true h')
      | none => [.label ⟨.cont, id⟩]
    ⟨[.br ⟨.header, id⟩, .label ⟨.header, id⟩] ++ r.ops ++ tail, r.next, some (h + arity bt)⟩
  | .ite bt th el =>
    let id := next + 1
    let fr : Fr := ⟨.ite, id, h - 1, arity bt⟩
    let r1 := lowerS (fr :: fs) (h - 1) id th
    let mid : List SymOp :=
      match r1.h with
      | some h' => emitDrop (dropRange fr false h') ++ [.br ⟨.cont, id⟩, .label ⟨.els, id⟩]
      | none => [.label ⟨.els, id⟩]
    let r2 := lowerS (fr :: fs) (h - 1) r1.next el
    let tail : List SymOp :=
      match r2.h with
      | some h' => emitDrop (dropRange fr true h') ++ [.br ⟨.cont, id⟩, .label ⟨.cont, id⟩]
      | none => [.label ⟨.cont, id⟩]
    ⟨[.brIf ⟨.header, id⟩ ⟨.els, id⟩ none, .label ⟨.header, id⟩] ++ r1.ops ++ mid ++ r2.ops ++ tail,
      r2.next, some (h - 1 + arity bt)⟩
/-- a body: instructions after a terminator are skipped -/
def lowerS (fs : List Fr) (h next : Nat) : List FI → LR
  | [] => ⟨[], next, some h⟩
  | i :: rest =>
    let r := lowerI fs h next i
    match r.h with
    | none => r
    | some h' =>
      let r2 := lowerS fs h' r.next rest
      ⟨r.ops ++ r2.ops, r2.next, r2.h⟩
end

/-- the function frame: id 1 (`nextFrameID` is first called for it), height 0, the function's results -/
def Fn.frame (f : Fn) : Fr := ⟨.func, 1, 0, f.results.length⟩

/-- `compiler.compile`: default values of the locals, the body, and (if its end is reachable) the function's
`end`: drop everything below the results and branch to the return label -/
def lowerSym (f : Fn) : List SymOp :=
  let r := lowerS [f.frame] (f.params.length + f.locals.length) 1 f.body
  f.locals.map (fun t => Op.const t 0) ++ r.ops ++
    (match r.h with
     | some h' => emitDrop (dropRange f.frame true h') ++ [.br ⟨.ret, 0⟩]
     | none => [])

/-! ### label resolution (`lowerIR`) -/

def retAddr : Nat := 2 ^ 64 - 1

/-- address of a label: index of the last `Label` operation carrying it (0 if there is none) -/
def addrFrom (l : Label) : List SymOp → Nat → Nat → Nat
  | [], _, acc => acc
  | .label l' :: rest, i, acc => addrFrom l rest (i + 1) (if l' = l then i else acc)
  | _ :: rest, i, acc => addrFrom l rest (i + 1) acc

def addrOf (ops : List SymOp) (l : Label) : Nat := addrFrom l ops 0 0

/-- `setLabelAddress` -/
def resolveT (ops : List SymOp) (l : Label) : Nat :=
  match l.kind with
  | .ret => retAddr
  | _ => addrOf ops l

def resolve (ops : List SymOp) : List FlatOp := ops.map (Op.mapT (resolveT ops))

/-- THE LOWERING: the operation list the call engine executes -/
def lower (f : Fn) : List FlatOp := resolve (lowerSym f)

/-! ## execution of the flat code (`callNativeFunc`) -/

inductive FlatOut where
  | values (vs : List Nat)
  | trap (kind : String)
  | panic (what : String)     -- Go run-time panic: slice bounds / index out of range
  | exhausted
deriving Repr, DecidableEq, Inhabited

/-- how a specification outcome looks on the flat machine -/
def FlatOut.ofSpec : Outcome → FlatOut
  | .values vs => .values vs
  | .trap k => .trap k
  | .exhausted => .exhausted

inductive Step where
  | cont (pc : Nat) (stk : List Nat)
  | trap (kind : String)
  | panic (what : String)
deriving Repr, Inhabited

/-- `ce.drop`: remove the elements `start … stop` counted from the top; `none` if the slice expression
`ce.stack[:len-1-End]` would be out of range -/
def applyDrop (r : DropR) (stk : List Nat) : Option (List Nat) :=
  match r with
  | none => some stk
  | some r =>
    if r.stop < stk.length ∧ r.start ≤ stk.length then some (stk.take r.start ++ stk.drop (r.stop + 1)) else none

/-- a numeric operation: the specification function of its name, as in the reference semantics -/
def numStep (name : String) (args : List Nat) (rest : List Nat) (pc : Nat) : Step :=
  match Num.scalar name args with
  | some r =>
    match numResult r with
    | .ok v => .cont (pc + 1) (v :: rest)
    | .error k => .trap k
  | none => .trap "unsupported"

/-- one operation on the stack (top first) -/
def step (op : FlatOp) (pc : Nat) (stk : List Nat) : Step :=
  match op with
  | .unreachable => .trap "unreachable"
  | .label _ => .cont (pc + 1) stk
  | .br t => .cont t stk
  | .brIf thn els d =>
    match stk with
    | c :: s =>
      if c > 0 then
        match applyDrop d s with
        | some s' => .cont thn s'
        | none => .panic "drop"
      else .cont els s
    | [] => .panic "pop"
  | .brTable ts =>
    match stk with
    | c :: s =>
      match ts.getLast? with
      | none => .panic "br_table"
      | some dflt =>
        let (t, d) := ts.getD c dflt
        match applyDrop d s with
        | some s' => .cont t s'
        | none => .panic "drop"
    | [] => .panic "pop"
  | .drop r =>
    match applyDrop (some r) stk with
    | some s' => .cont (pc + 1) s'
    | none => .panic "drop"
  | .select =>
    match stk with
    | c :: v2 :: v1 :: s => .cont (pc + 1) ((if c = 0 then v2 else v1) :: s)
    | _ => .panic "pop"
  | .pick d =>
    match stk[d]? with
    | some v => .cont (pc + 1) (v :: stk)
    | none => .panic "pick"
  | .set d =>
    match stk with
    | v :: s =>
      -- `ce.stack[index] = ce.popValue()` with `index = len - 1 - d` taken before the pop: for `d = 0` the
      -- write goes to the slot that has just been popped
      if d = 0 then .cont (pc + 1) s
      else if d - 1 < s.length then .cont (pc + 1) (s.set (d - 1) v) else .panic "set"
    | [] => .panic "pop"
  | .const _ v => .cont (pc + 1) (v :: stk)
  | .num1 n =>
    match stk with
    | a :: s => numStep n [a] s pc
    | _ => .panic "pop"
  | .num2 n =>
    match stk with
    | b :: a :: s => numStep n [a, b] s pc
    | _ => .panic "pop"

/-- the loop `for frame.pc < bodyLen`: run from `pc`; the stack when the loop is left -/
def runFrom (code : List FlatOp) : Nat → Nat → List Nat → Except FlatOut (List Nat)
  | 0, _, _ => .error .exhausted
  | fuel + 1, pc, stk =>
    match code[pc]? with
    | none => .ok stk
    | some op =>
      match step op pc stk with
      | .cont pc' stk' => runFrom code fuel pc' stk'
      | .trap k => .error (.trap k)
      | .panic w => .error (.panic w)

/-- execute flat code of a function with `nres` results on the arguments: the parameters are pushed
(`ce.pushValues(params)`), the code runs, the results are popped (`ce.popValues(results)`) -/
def runCode (code : List FlatOp) (nres : Nat) (args : List Nat) (fuel : Nat) : FlatOut :=
  match runFrom code fuel 0 args.reverse with
  | .ok stk => if nres ≤ stk.length then .values (stk.take nres).reverse else .panic "results"
  | .error o => o

def runFlat (f : Fn) (args : List Nat) (fuel : Nat) : FlatOut :=
  runCode (lower f) f.results.length args fuel

/-! ## well-typedness (of live code) -/

structure Ctx where
  locals : List Ty
  labels : List (List Ty)     -- operand types of a branch to each label (top first), innermost first
  results : List Ty           -- function results, top first

def hasPrefix (want st : List Ty) : Bool := st.take want.length == want

def btTypes (bt : Option Ty) : List Ty := bt.toList

/-- a body may end unreachable, or with exactly the wanted types -/
def endOK (want : List Ty) : Option (Option (List Ty)) → Bool
  | none => false
  | some none => true
  | some (some st') => st' == want

mutual
/-- `none`: ill typed; `some none`: well typed and the end is unreachable; `some (some st)`: stack afterwards -/
def checkI (C : Ctx) (st : List Ty) : FI → Option (Option (List Ty))
  | .const t _ => some (some (t :: st))
  | .num1 n =>
    match sig1 n, st with
    | some (a, r), x :: s => if x = a then some (some (r :: s)) else none
    | _, _ => none
  | .num2 n =>
    match sig2 n, st with
    | some (a, r), x :: y :: s => if x = a ∧ y = a then some (some (r :: s)) else none
    | _, _ => none
  | .localGet i =>
    match C.locals[i]? with
    | some t => some (some (t :: st))
    | none => none
  | .localSet i =>
    match C.locals[i]?, st with
    | some t, x :: s => if x = t then some (some s) else none
    | _, _ => none
  | .localTee i =>
    match C.locals[i]?, st with
    | some t, x :: s => if x = t then some (some (x :: s)) else none
    | _, _ => none
  | .drop =>
    match st with
    | _ :: s => some (some s)
    | [] => none
  | .select =>
    match st with
    | c :: x :: y :: s => if c = .i32 ∧ x = y then some (some (x :: s)) else none
    | _ => none
  | .unreachable => some none
  | .ret => if hasPrefix C.results st then some none else none
  | .br l =>
    match C.labels[l]? with
    | some ts => if hasPrefix ts st then some none else none
    | none => none
  | .brIf l =>
    match C.labels[l]?, st with
    | some ts, c :: s => if c = .i32 ∧ hasPrefix ts s then some (some s) else none
    | _, _ => none
  | .brTable ls d =>
    match C.labels[d]?, st with
    | some ts, c :: s =>
      if c = .i32 ∧ hasPrefix ts s ∧ ls.all (fun l => C.labels[l]? == some ts) then some none else none
    | _, _ => none
  | .block bt body =>
    if endOK (btTypes bt) (checkS { C with labels := btTypes bt :: C.labels } [] body) then
      some (some (btTypes bt ++ st))
    else none
  | .loop bt body =>
    if endOK (btTypes bt) (checkS { C with labels := [] :: C.labels } [] body) then
      some (some (btTypes bt ++ st))
    else none
  | .ite bt th el =>
    match st with
    | c :: s =>
      if c = .i32 ∧ endOK (btTypes bt) (checkS { C with labels := btTypes bt :: C.labels } [] th) = true ∧
          endOK (btTypes bt) (checkS { C with labels := btTypes bt :: C.labels } [] el) = true then
        some (some (btTypes bt ++ s))
      else none
    | [] => none
def checkS (C : Ctx) (st : List Ty) : List FI → Option (Option (List Ty))
  | [] => some (some st)
  | i :: rest =>
    match checkI C st i with
    | none => none
    | some none => some none
    | some (some st') => checkS C st' rest
end

def Fn.ctx (f : Fn) : Ctx :=
  { locals := f.params ++ f.locals, labels := [f.results.reverse], results := f.results.reverse }

def wellTyped (f : Fn) : Bool := endOK f.results.reverse (checkS f.ctx [] f.body)

end Wz.Model.FlatLower
