/-
Model of `descriptor.Table` (internal/descriptor/table.go) and of `FSContext.Renumber`/`CloseFile`
(internal/sys/fs.go) for property C16.  Core Lean only.

`Table` is the Go structure literally: a slice of 64-bit occupancy words (`masks`) and the dense slice of
items (`items`, `len(items) = 64*len(masks)`; the zero `Item` in free slots).  Keys are `Int` (Go: `~int32`);
the wrap-around of `Key(index)*64` at 2^31 live slots is NOT modelled (it needs a 16 GiB table; listed as an
assumption of the check).
-/
import Wz.Gen.WasiFs

namespace Wz.Model.FdTable

/-- `bits.TrailingZeros64(x)`: number of trailing zero bits, 64 for 0. Written as the obvious scan. -/
def tzGo (x : BitVec 64) : Nat → Nat → Nat
  | 0, i => i
  | fuel + 1, i => if x.getLsbD i then i else tzGo x fuel (i + 1)

def trailingZeros64 (x : BitVec 64) : Nat := tzGo x 64 0

structure Table (α : Type) where
  masks : List (BitVec 64)
  items : List α
deriving Repr

variable {α : Type} [Inhabited α]

def Table.empty : Table α := { masks := [], items := [] }

/-- `grow(n)`: n more mask words and n*64 more zero items. -/
def Table.grow (t : Table α) (n : Nat) : Table α :=
  { masks := t.masks ++ List.replicate n 0#64, items := t.items ++ List.replicate (n * 64) default }

/-- the `for index, mask := range t.masks` scan of `Insert`: first word that is not full. -/
def findFree : List (BitVec 64) → Nat → Option (Nat × Nat)
  | [], _ => none
  | m :: ms, idx => if ~~~m != 0#64 then some (idx, trailingZeros64 (~~~m)) else findFree ms (idx + 1)

def Table.setSlot (t : Table α) (index shift : Nat) (a : α) : Table α :=
  { masks := t.masks.set index (t.masks.getD index 0#64 ||| (1#64 <<< shift)),
    items := t.items.set (index * 64 + shift) a }

/-- `Insert(item)`: (new table, key). (`ok` is `key >= 0`, always true below 2^31 slots.) -/
def Table.insert (t : Table α) (a : α) : Table α × Nat :=
  match findFree t.masks 0 with
  | some (index, shift) => (t.setSlot index shift a, index * 64 + shift)
  | none =>
    -- grow by one word and retry from the new word: its complement is all ones, shift 0
    let t' := t.grow 1
    let index := t.masks.length
    (t'.setSlot index (trailingZeros64 (~~~(0#64))) a, index * 64 + trailingZeros64 (~~~(0#64)))

def testBit (m : BitVec 64) (shift : Nat) : Bool := (m &&& (1#64 <<< shift)) != 0#64

/-- `Lookup(key)` -/
def Table.lookup (t : Table α) (key : Int) : Option α :=
  if key < 0 then none
  else
    let i := key.toNat
    if i < t.items.length then
      if testBit (t.masks.getD (i / 64) 0#64) (i % 64) then some (t.items.getD i default) else none
    else none

/-- `InsertAt(item, key)`: false for a negative key. -/
def Table.insertAt (t : Table α) (a : α) (key : Int) : Table α × Bool :=
  if key < 0 then (t, false)
  else
    let k := key.toNat
    let index := k / 64
    let t1 := if index + 1 > t.masks.length then t.grow (index + 1 - t.masks.length) else t
    ({ masks := t1.masks.set index (t1.masks.getD index 0#64 ||| (1#64 <<< (k % 64))),
       items := t1.items.set k a }, true)

/-- `Delete(key)` -/
def Table.delete (t : Table α) (key : Int) : Table α :=
  if key < 0 then t
  else
    let k := key.toNat
    let index := k / 64
    if index < t.masks.length then
      let mask := t.masks.getD index 0#64
      if testBit mask (k % 64) then
        { masks := t.masks.set index (mask &&& ~~~(1#64 <<< (k % 64))), items := t.items.set k default }
      else t
    else t

/-- `Reset()`: `clear` of both slices (lengths kept). -/
def Table.reset (t : Table α) : Table α :=
  { masks := List.replicate t.masks.length 0#64, items := List.replicate t.items.length default }

/-- `Len()` -/
def popcount (m : BitVec 64) : Nat := ((List.range 64).filter (fun i => m.getLsbD i)).length
def Table.len (t : Table α) : Nat := (t.masks.map popcount).sum

/-- representation invariant -/
def Table.WF (t : Table α) : Prop := t.items.length = 64 * t.masks.length

/-! ### Operations as data (for histories) -/

inductive Op (α : Type) where
  | insert (a : α)
  | insertAt (a : α) (key : Int)
  | lookup (key : Int)
  | delete (key : Int)
  | reset

inductive Out (α : Type) where
  | key (k : Nat)
  | ok (b : Bool)
  | item (o : Option α)
  | unit
deriving DecidableEq

def Table.step (t : Table α) : Op α → Table α × Out α
  | .insert a => let r := t.insert a; (r.1, .key r.2)
  | .insertAt a k => let r := t.insertAt a k; (r.1, .ok r.2)
  | .lookup k => (t, .item (t.lookup k))
  | .delete k => (t.delete k, .unit)
  | .reset => (t.reset, .unit)

def Table.run (t : Table α) : List (Op α) → Table α × List (Out α)
  | [] => (t, [])
  | op :: ops => let r := t.step op; let rs := r.1.run ops; (rs.1, r.2 :: rs.2)

/-! ### FSContext: the descriptor level of the open-file table

An entry is what the property needs of `*FileEntry`: an identity, whether it is a pre-open, and whether
its `File` has been closed.  Entries live in a store indexed by identity (Go: the heap object behind the
pointer), the table maps descriptors to identities. -/

structure Entry where
  id : Nat
  preopen : Bool
deriving DecidableEq, Repr, Inhabited

structure Ctx where
  table : Table (Option Entry)      -- `nil` pointer = none
  closed : List Nat                  -- identities whose File.Close() has been called
  next : Nat                         -- next fresh identity
deriving Repr

inductive Errno where
  | ok | ebadf | enotsup
deriving DecidableEq, Repr

def Errno.toNat : Errno → Nat
  | .ok => 0
  | .ebadf => Wz.Gen.WasiFs.ErrnoBadf
  | .enotsup => Wz.Gen.WasiFs.ErrnoNotsup

def Ctx.lookup (c : Ctx) (fd : Int) : Option Entry := (c.table.lookup fd).join

/-- `openedFiles.Insert(&FileEntry{...})` of a freshly opened file (OpenFile / InitFSContext). -/
def Ctx.openNew (c : Ctx) (preopen : Bool) : Ctx × Nat :=
  let e : Entry := { id := c.next, preopen := preopen }
  let r := c.table.insert (some e)
  ({ c with table := r.1, next := c.next + 1 }, r.2)

/-- `CloseFile(fd)` (File.Close of an OS file does not fail in the model). -/
def Ctx.close (c : Ctx) (fd : Int) : Ctx × Errno :=
  match c.lookup fd with
  | none => (c, .ebadf)
  | some e => ({ c with closed := e.id :: c.closed, table := c.table.delete fd }, .ok)

/-- `Renumber(from, to)`.  `selfNoop = false` is the pinned tree; `true` is the repaired variant
(`from == to` returns success after the validity/pre-open checks without touching anything). -/
def Ctx.renumber (selfNoop : Bool) (c : Ctx) (from_ to : Int) : Ctx × Errno :=
  match c.lookup from_ with
  | none => (c, .ebadf)
  | some fromFile =>
    if to < 0 then (c, .ebadf)
    else if fromFile.preopen then (c, .enotsup)
    else if selfNoop && from_ == to then (c, .ok)
    else
      match c.lookup to with
      | some toFile =>
        if toFile.preopen then (c, .enotsup)
        else
          let c1 := { c with closed := toFile.id :: c.closed }
          let t1 := c1.table.delete from_
          let r := t1.insertAt (some fromFile) to
          ({ c1 with table := r.1 }, if r.2 then .ok else .ebadf)
      | none =>
        let t1 := c.table.delete from_
        let r := t1.insertAt (some fromFile) to
        ({ c with table := r.1 }, if r.2 then .ok else .ebadf)

/-- a descriptor is usable: in the table and its file not closed -/
def Ctx.live (c : Ctx) (fd : Int) : Bool :=
  match c.lookup fd with
  | none => false
  | some e => !c.closed.contains e.id

/-- stdio (0,1,2) and one pre-opened directory (3), as `InitFSContext` builds it. -/
def Ctx.init : Ctx :=
  let c0 : Ctx := { table := Table.empty, closed := [], next := 0 }
  let c1 := (c0.openNew true).1
  let c2 := (c1.openNew true).1
  let c3 := (c2.openNew true).1
  (c3.openNew true).1

end Wz.Model.FdTable
