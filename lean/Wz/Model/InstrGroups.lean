/-
C01, compiler: instruction groups.

`passDeadCodeEliminationOpt` (internal/engine/wazevo/ssa/pass.go) numbers every SSA instruction with an
*instruction group id*: the counter is assigned first and bumped after every instruction whose side-effect
class is `sideEffectStrict` (stores, calls, exits).  The back ends merge the definition of an operand into its
single consumer (a load into a compare, a compare into a branch) only when `instr.GroupID()` equals the group
of the instruction being lowered (`MatchInstr`, `MatchInstrOneOf` in backend/compiler.go): merging executes
the definition at the consumer's position, i.e. it sinks it past everything in between.

This file models exactly that: the numbering, and a small machine on which sinking a load can be stated.
The shape of the numbering loop, of the two matchers and of every later `AllocateInstruction` (which must
give the new instruction a group) is regenerated from the source (`Wz.Gen.InstrGroups`) and compared with
what the model assumes in `Wz/Props/C01.lean`.  Finding F39 was a violation of the last item: the branch
that replaces one on a split critical edge was left in group 0.
-/
namespace Wz.Model.InstrGroups

/-- side-effect classes of ssa/instructions.go -/
inductive Eff where
  | none | traps | strict
deriving DecidableEq, Repr

structure State where
  regs : Nat → Nat
  mem  : Nat → Nat

def upd (f : Nat → Nat) (k v : Nat) : Nat → Nat := fun x => if x = k then v else f x

def State.setReg (s : State) (d v : Nat) : State := { s with regs := upd s.regs d v }

/-- A small SSA-like machine: loads and pure operations define registers, traps may end the run, stores
and calls change the memory. -/
inductive Ins where
  | load (dst addr : Nat)                       -- regs[dst] := mem[addr]
  | pure (dst : Nat) (f : (Nat → Nat) → Nat)    -- regs[dst] := f regs
  | trapIf (c : Nat)                            -- trap when regs[c] ≠ 0
  | store (addr src : Nat)                      -- mem[addr] := regs[src]
  | call (g : (Nat → Nat) → (Nat → Nat))        -- an arbitrary effect on the memory

def Ins.eff : Ins → Eff
  | .load _ _ => .none
  | .pure _ _ => .none
  | .trapIf _ => .traps
  | .store _ _ => .strict
  | .call _ => .strict

/-- one instruction; `none` = trapped -/
def step : Ins → State → Option State
  | .load d a, s => some (s.setReg d (s.mem a))
  | .pure d f, s => some (s.setReg d (f s.regs))
  | .trapIf c, s => if s.regs c = 0 then some s else none
  | .store a r, s => some { s with mem := upd s.mem a (s.regs r) }
  | .call g, s => some { s with mem := g s.mem }

def exec : List Ins → State → Option State
  | [], s => some s
  | i :: is, s => (step i s).bind (exec is)

/-! ### The numbering of `passDeadCodeEliminationOpt`: assign, then bump on `strict`. -/

def bump (g : Nat) (e : Eff) : Nat := if e = .strict then g + 1 else g

def gidsFrom (g : Nat) : List Ins → List Nat
  | [] => []
  | i :: is => g :: gidsFrom (bump g i.eff) is

def countStrict : List Ins → Nat
  | [] => 0
  | i :: is => (if i.eff = .strict then 1 else 0) + countStrict is

/-- `d` is neither written nor read by `i` (SSA: the value has exactly one use, the consumer). -/
def Indep (d : Nat) : Ins → Prop
  | .load dst _ => dst ≠ d
  | .pure dst f => dst ≠ d ∧ ∀ r v, f (upd r d v) = f r
  | .trapIf c => c ≠ d
  | .store _ src => src ≠ d
  | .call _ => True

end Wz.Model.InstrGroups
