/-
Reference model for property C16: a POSIX-style file system (inodes: directories and regular files), open
file descriptions (offset, append flag, access mode) and the descriptor table of `Wz.Model.FdTable`, with
the WASI calls of the property.  Core Lean only.

This is the SPECIFICATION side ("what a simple reference model predicts"): it follows POSIX/Linux for the
restricted alphabet (no symlinks, permissions, special files), and wazero's documented choices where WASI
leaves them open (access mode from rights/oflags as `openFlags` computes it; O_DIRECTORY|O_CREAT = EINVAL;
seek on a directory = EISDIR; renumber onto/from a pre-open = ENOTSUP).
-/
import Wz.Model.FdTable

namespace Wz.Model.RefFS
open Wz.Model.FdTable (Ctx Entry)

inductive E where
  | ok | badf | exist | inval | isdir | noent | notdir | notempty | notsup | io
deriving DecidableEq, Repr

def E.name : E → String
  | .ok => "ESUCCESS" | .badf => "EBADF" | .exist => "EEXIST" | .inval => "EINVAL" | .isdir => "EISDIR"
  | .noent => "ENOENT" | .notdir => "ENOTDIR" | .notempty => "ENOTEMPTY" | .notsup => "ENOTSUP" | .io => "EIO"

/-! ### File content: one byte list per file -/

/-- `pwrite(bs, off)`: a gap between the old end and `off` reads as zeros; a zero-length write changes nothing -/
def writeAt (c : List Nat) (off : Nat) (bs : List Nat) : List Nat :=
  if bs.isEmpty then c
  else c.take off ++ List.replicate (off - c.length) 0 ++ bs ++ c.drop (off + bs.length)

/-- `pread(len, off)` -/
def readAt (c : List Nat) (off len : Nat) : List Nat := (c.drop off).take len

/-- `ftruncate(size)` -/
def truncateTo (c : List Nat) (size : Nat) : List Nat := c.take size ++ List.replicate (size - c.length) 0

/-! ### Inodes -/

structure Node where
  isDir : Bool
  content : List Nat
  children : List (String × Nat)
  dead : Bool := false           -- a directory that was removed (rmdir, or replaced by a rename) while still open
deriving Repr, Inhabited

/-- open file description -/
structure Desc where
  ino : Nat
  offset : Nat
  append : Bool
  canRead : Bool
  canWrite : Bool
  isDir : Bool
  name : List String := []       -- path from the mount root at open time (`FileEntry.Name`); used by the as-is variant only
deriving Repr, Inhabited, DecidableEq

structure FS where
  nodes : List (Nat × Node)
  nextIno : Nat
  ctx : Ctx
  descs : List (Nat × Desc)       -- keyed by `Entry.id`
  selfNoop : Bool                 -- finding switch F17 (see `Ctx.renumber`)
  byName : Bool := false          -- finding switch F24: `true` = pinned tree: a path relative to a directory
                                  -- descriptor is resolved as <name of the directory when it was opened>/<path> from the
                                  -- mount root (`atPath`: `f.Name + "/" + pathName`); `false` = POSIX: from the directory itself
deriving Repr

def aget {β} (l : List (Nat × β)) (k : Nat) : Option β := (l.find? (·.1 == k)).map (·.2)
def aset {β} (l : List (Nat × β)) (k : Nat) (v : β) : List (Nat × β) := (k, v) :: l.filter (·.1 != k)

def FS.node (fs : FS) (ino : Nat) : Option Node := aget fs.nodes ino
def FS.setNode (fs : FS) (ino : Nat) (n : Node) : FS := { fs with nodes := aset fs.nodes ino n }

def child (n : Node) (name : String) : Option Nat := (n.children.find? (·.1 == name)).map (·.2)
def addChild (n : Node) (name : String) (ino : Nat) : Node :=
  { n with children := (name, ino) :: n.children.filter (·.1 != name) }
def delChild (n : Node) (name : String) : Node := { n with children := n.children.filter (·.1 != name) }

/-- root inode 0; stdio 0-2 and the pre-open 3 (description of the root directory) -/
def FS.init (selfNoop : Bool) (byName : Bool := false) : FS :=
  { nodes := [(0, { isDir := true, content := [], children := [] })], nextIno := 1,
    ctx := Ctx.init,
    descs := [(3, { ino := 0, offset := 0, append := false, canRead := true, canWrite := false, isDir := true })],
    selfNoop := selfNoop, byName := byName }

/-- walk `comps` from directory `start` -/
def FS.resolve (fs : FS) : Nat → List String → Except E Nat
  | cur, [] => .ok cur
  | cur, c :: cs =>
    match fs.node cur with
    | none => .error .noent
    | some n =>
      if !n.isDir then .error .notdir
      else match child n c with
        | none => .error .noent
        | some i => fs.resolve i cs

/-- parent directory inode and final component; `comps = []` has no parent -/
def FS.resolveParent (fs : FS) (start : Nat) (comps : List String) : Except E (Nat × String) :=
  match comps.getLast? with
  | none => .error .inval
  | some last =>
    match fs.resolve start comps.dropLast with
    | .error e => .error e
    | .ok p =>
      match fs.node p with
      | none => .error .noent
      | some n => if n.isDir then .ok (p, last) else .error .notdir

/-- the live description behind a descriptor -/
def FS.desc (fs : FS) (fd : Int) : Except E (Nat × Desc) :=
  match fs.ctx.lookup fd with
  | none => .error .badf
  | some e =>
    if fs.ctx.closed.contains e.id then .error .badf
    else match aget fs.descs e.id with
      | none => .error .badf
      | some d => .ok (e.id, d)

/-- `atPath`: the directory a path argument starts from -/
def FS.atDir (fs : FS) (fd : Int) : Except E Nat :=
  match fs.desc fd with
  | .error e => .error e
  | .ok (_, d) => if d.isDir then .ok d.ino else .error .notdir

/-- where a path argument is resolved: (start directory, components) -/
def FS.atPath (fs : FS) (fd : Int) (comps : List String) : Except E (Nat × List String) :=
  match fs.desc fd with
  | .error e => .error e
  | .ok (_, d) =>
    if !d.isDir then .error .notdir
    else if fs.byName then .ok (0, d.name ++ comps)
    else if ((fs.node d.ino).map (·.dead)).getD false && !comps.isEmpty then .error .noent   -- nothing lives in a removed directory
    else .ok (d.ino, comps)

structure OpenArgs where
  creat : Bool
  directory : Bool
  excl : Bool
  trunc : Bool
  append : Bool
  rightRead : Bool
  rightWrite : Bool

/-- access mode as `openFlags` derives it: (canRead, canWrite) -/
def OpenArgs.mode (a : OpenArgs) : Bool × Bool :=
  if a.rightRead && a.rightWrite then (true, true)
  else if a.rightWrite then (false, true)
  else if a.rightRead then (true, false)
  else if a.trunc || a.creat || a.append then (true, true) else (true, false)

def FS.install (fs : FS) (d : Desc) : FS × Nat :=
  let r := fs.ctx.openNew false
  ({ fs with ctx := r.1, descs := aset fs.descs fs.ctx.next d }, r.2)

/-- path_open -/
def FS.pathOpen (fs : FS) (dirfd : Int) (comps0 : List String) (a : OpenArgs) : FS × E × Nat :=
  match fs.atPath dirfd comps0 with
  | .error e => (fs, e, 0)
  | .ok (start, comps) =>
    if a.directory && a.creat then (fs, .inval, 0)
    else
      let (rd, wr) := a.mode
      let openNode (fs : FS) (ino : Nat) (n : Node) : FS × E × Nat :=
        if n.isDir then
          if a.creat || wr || a.trunc then (fs, .isdir, 0)
          else
            let r := fs.install { ino := ino, offset := 0, append := a.append, canRead := rd, canWrite := false, isDir := true, name := comps }
            (r.1, .ok, r.2)
        else if a.directory then (fs, .notdir, 0)
        else
          let fs1 := if a.trunc then fs.setNode ino { n with content := [] } else fs
          let r := fs1.install { ino := ino, offset := 0, append := a.append, canRead := rd, canWrite := wr, isDir := false, name := comps }
          (r.1, .ok, r.2)
      if comps.isEmpty then
        match fs.node start with
        | none => (fs, .noent, 0)
        | some n => openNode fs start n
      else
        match fs.resolveParent start comps with
        | .error e => (fs, e, 0)
        | .ok (p, name) =>
          match fs.node p with
          | none => (fs, .noent, 0)
          | some pn =>
            match child pn name with
            | some ino =>
              if a.creat && a.excl then (fs, .exist, 0)
              else match fs.node ino with
                | none => (fs, .noent, 0)
                | some n => openNode fs ino n
            | none =>
              if !a.creat then (fs, .noent, 0)
              else
                let ino := fs.nextIno
                let fs1 := { fs with nextIno := ino + 1 }
                let fs2 := (fs1.setNode ino { isDir := false, content := [], children := [] }).setNode p (addChild pn name ino)
                let r := fs2.install { ino := ino, offset := 0, append := a.append, canRead := rd, canWrite := wr, isDir := false, name := comps }
                (r.1, .ok, r.2)

def FS.fdClose (fs : FS) (fd : Int) : FS × E :=
  let r := fs.ctx.close fd
  ({ fs with ctx := r.1 }, if r.2 == .ok then .ok else .badf)

def FS.fdRenumber (fs : FS) (a b : Int) : FS × E :=
  let r := fs.ctx.renumber fs.selfNoop a b
  ({ fs with ctx := r.1 }, match r.2 with | .ok => .ok | .ebadf => .badf | .enotsup => .notsup)

def FS.setDesc (fs : FS) (id : Nat) (d : Desc) : FS := { fs with descs := aset fs.descs id d }

def FS.content (fs : FS) (ino : Nat) : List Nat := ((fs.node ino).map (·.content)).getD []

def FS.setContent (fs : FS) (ino : Nat) (c : List Nat) : FS :=
  match fs.node ino with
  | none => fs
  | some n => fs.setNode ino { n with content := c }

/-- fd_read with one iovec of `len` bytes (a zero-length iovec is skipped before the file is consulted) -/
def FS.fdRead (fs : FS) (fd : Int) (len : Nat) : FS × E × List Nat :=
  match fs.desc fd with
  | .error e => (fs, e, [])
  | .ok (id, d) =>
    if len == 0 then (fs, .ok, [])
    else if d.isDir then (fs, .isdir, [])
    else if !d.canRead then (fs, .badf, [])
    else
      let data := readAt (fs.content d.ino) d.offset len
      (fs.setDesc id { d with offset := d.offset + data.length }, .ok, data)

/-- fd_pread (offset ≥ 0) -/
def FS.fdPread (fs : FS) (fd : Int) (len off : Nat) : FS × E × List Nat :=
  match fs.desc fd with
  | .error e => (fs, e, [])
  | .ok (_, d) =>
    if len == 0 then (fs, .ok, [])
    else if d.isDir then (fs, .isdir, [])
    else if !d.canRead then (fs, .badf, [])
    else (fs, .ok, readAt (fs.content d.ino) off len)

/-- fd_write with one iovec -/
def FS.fdWrite (fs : FS) (fd : Int) (bs : List Nat) : FS × E × Nat :=
  match fs.desc fd with
  | .error e => (fs, e, 0)
  | .ok (id, d) =>
    if d.isDir then (fs, .isdir, 0)
    else if bs.isEmpty then (fs, .ok, 0)
    else if !d.canWrite then (fs, .badf, 0)
    else
      let c := fs.content d.ino
      let off := if d.append then c.length else d.offset
      ((fs.setContent d.ino (writeAt c off bs)).setDesc id { d with offset := off + bs.length }, .ok, bs.length)

/-- fd_pwrite (offset ≥ 0). On a description opened with append the Go runtime refuses WriteAt. -/
def FS.fdPwrite (fs : FS) (fd : Int) (bs : List Nat) (off : Nat) : FS × E × Nat :=
  match fs.desc fd with
  | .error e => (fs, e, 0)
  | .ok (_, d) =>
    if d.isDir then (fs, .isdir, 0)
    else if bs.isEmpty then (fs, .ok, 0)
    else if d.append then (fs, .io, 0)
    else if !d.canWrite then (fs, .badf, 0)
    else (fs.setContent d.ino (writeAt (fs.content d.ino) off bs), .ok, bs.length)

/-- fd_seek; whence 0 = SET, 1 = CUR, 2 = END -/
def FS.fdSeek (fs : FS) (fd : Int) (off : Int) (whence : Nat) : FS × E × Nat :=
  match fs.desc fd with
  | .error e => (fs, e, 0)
  | .ok (id, d) =>
    if d.isDir then (fs, .isdir, 0)
    else if whence > 2 then (fs, .inval, 0)
    else
      let base : Int := if whence == 0 then 0 else if whence == 1 then d.offset else (fs.content d.ino).length
      let n := base + off
      if n < 0 then (fs, .inval, 0)
      else (fs.setDesc id { d with offset := n.toNat }, .ok, n.toNat)

def FS.fdTell (fs : FS) (fd : Int) : FS × E × Nat := fs.fdSeek fd 0 1

/-- fd_filestat_get: (filetype, size) -/
def FS.fdStat (fs : FS) (fd : Int) : E × Nat × Nat :=
  match fs.desc fd with
  | .error e => (e, 0, 0)
  | .ok (_, d) =>
    if d.isDir then (.ok, Wz.Gen.WasiFs.FILETYPE_DIRECTORY, 0)
    else (.ok, Wz.Gen.WasiFs.FILETYPE_REGULAR_FILE, (fs.content d.ino).length)

/-- fd_filestat_set_size -/
def FS.fdSetSize (fs : FS) (fd : Int) (size : Int) : FS × E :=
  match fs.desc fd with
  | .error e => (fs, e)
  | .ok (_, d) =>
    if size < 0 then (fs, .inval)
    else if d.isDir then (fs, .isdir)
    else if !d.canWrite then (fs, .inval)
    else (fs.setContent d.ino (truncateTo (fs.content d.ino) size.toNat), .ok)

def FS.pathStat (fs : FS) (dirfd : Int) (comps0 : List String) : E × Nat × Nat :=
  match fs.atPath dirfd comps0 with
  | .error e => (e, 0, 0)
  | .ok (start, comps) =>
    match fs.resolve start comps with
    | .error e => (e, 0, 0)
    | .ok ino =>
      match fs.node ino with
      | none => (.noent, 0, 0)
      | some n =>
        if n.isDir then (.ok, Wz.Gen.WasiFs.FILETYPE_DIRECTORY, 0)
        else (.ok, Wz.Gen.WasiFs.FILETYPE_REGULAR_FILE, n.content.length)

def FS.mkdir (fs : FS) (dirfd : Int) (comps0 : List String) : FS × E :=
  match fs.atPath dirfd comps0 with
  | .error e => (fs, e)
  | .ok (start, comps) =>
    match fs.resolveParent start comps with
    | .error e => (fs, if comps.isEmpty then .exist else e)
    | .ok (p, name) =>
      match fs.node p with
      | none => (fs, .noent)
      | some pn =>
        match child pn name with
        | some _ => (fs, .exist)
        | none =>
          let ino := fs.nextIno
          let fs1 := { fs with nextIno := ino + 1 }
          ((fs1.setNode ino { isDir := true, content := [], children := [] }).setNode p (addChild pn name ino), .ok)

def FS.unlink (fs : FS) (dirfd : Int) (comps0 : List String) : FS × E :=
  match fs.atPath dirfd comps0 with
  | .error e => (fs, e)
  | .ok (start, comps) =>
    match fs.resolveParent start comps with
    | .error e => (fs, if comps.isEmpty then .isdir else e)
    | .ok (p, name) =>
      match fs.node p with
      | none => (fs, .noent)
      | some pn =>
        match child pn name with
        | none => (fs, .noent)
        | some ino =>
          match fs.node ino with
          | none => (fs, .noent)
          | some n => if n.isDir then (fs, .isdir) else (fs.setNode p (delChild pn name), .ok)

def FS.rmdir (fs : FS) (dirfd : Int) (comps0 : List String) : FS × E :=
  match fs.atPath dirfd comps0 with
  | .error e => (fs, e)
  | .ok (start, comps) =>
    match fs.resolveParent start comps with
    | .error e => (fs, e)
    | .ok (p, name) =>
      match fs.node p with
      | none => (fs, .noent)
      | some pn =>
        match child pn name with
        | none => (fs, .noent)
        | some ino =>
          match fs.node ino with
          | none => (fs, .noent)
          | some n =>
            if !n.isDir then (fs, .notdir)
            else if !n.children.isEmpty then (fs, .notempty)
            else ((fs.setNode ino { n with dead := true }).setNode p (delChild pn name), .ok)

/-- is `anc` the directory `ino` or one of its ancestors-by-containment? (fuel = number of nodes) -/
def FS.contains (fs : FS) : Nat → Nat → Nat → Bool
  | 0, _, _ => false
  | fuel + 1, anc, ino =>
    anc == ino ||
    match fs.node anc with
    | none => false
    | some n => n.children.any (fun c => fs.contains fuel c.2 ino)

/-- path_rename (both paths relative to directories of the same mount; old ≠ new) -/
def FS.rename (fs : FS) (fd1 : Int) (c10 : List String) (fd2 : Int) (c20 : List String) : FS × E :=
  match fs.atPath fd1 c10 with
  | .error e => (fs, e)
  | .ok (s1, c1) =>
    match fs.atPath fd2 c20 with
    | .error e => (fs, e)
    | .ok (s2, c2) =>
      match fs.resolveParent s1 c1 with
      | .error e => (fs, e)
      | .ok (p1, n1) =>
        match (fs.node p1).bind (fun pn => child pn n1) with
        | none => (fs, .noent)
        | some ino =>
          match fs.resolveParent s2 c2 with
          | .error e => (fs, e)
          | .ok (p2, n2) =>
            match fs.node ino, fs.node p2 with
            | some n, some pn2 =>
              let doMove (fs : FS) : FS :=
                match fs.node p1 with
                | none => fs
                | some pn1 =>
                  let fs1 := fs.setNode p1 (delChild pn1 n1)
                  match fs1.node p2 with
                  | none => fs1
                  | some q => fs1.setNode p2 (addChild q n2 ino)
              if n.isDir && fs.contains (fs.nodes.length + 1) ino p2 then (fs, .inval)
              else
                match child pn2 n2 with
                | none => (doMove fs, .ok)
                | some tgt =>
                  if tgt == ino then (fs, .ok)
                  else match fs.node tgt with
                    | none => (fs, .noent)
                    | some tn =>
                      if n.isDir then
                        if !tn.isDir then (fs, .notdir)
                        else if !tn.children.isEmpty then (fs, .notempty)
                        else (doMove (fs.setNode tgt { tn with dead := true }), .ok)
                      else
                        if tn.isDir then (fs, .isdir) else (doMove fs, .ok)
            | _, _ => (fs, .noent)

/-- names and kinds in the directory behind `fd` (what a complete fd_readdir enumeration must yield
besides "." and "..") -/
def FS.ls (fs : FS) (fd : Int) : E × List (String × Bool) :=
  match fs.desc fd with
  | .error e => (e, [])
  | .ok (_, d) =>
    if !d.isDir then (.badf, [])
    else match fs.node d.ino with
      | none => (.noent, [])
      | some n =>
        if n.dead then (.noent, []) else
        (.ok, n.children.map (fun c => (c.1, ((fs.node c.2).map (·.isDir)).getD false)))

/-- the tree below `ino` as (path, isDir, content) triples (fuel = number of nodes) -/
def FS.dump (fs : FS) : Nat → Nat → String → List (String × Bool × List Nat)
  | 0, _, _ => []
  | fuel + 1, ino, pfx =>
    match fs.node ino with
    | none => []
    | some n =>
      n.children.flatMap (fun c =>
        let p := if pfx == "" then c.1 else pfx ++ "/" ++ c.1
        match fs.node c.2 with
        | none => []
        | some cn => (p, cn.isDir, cn.content) :: (if cn.isDir then fs.dump fuel c.2 p else []))

end Wz.Model.RefFS
