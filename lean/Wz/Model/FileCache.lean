/-
C13 — model of the cache directory and of `fileCache.Add` (internal/filecache/file_cache.go).

File system: a directory `Name ⇀ inode`, inodes with their bytes and the length of the prefix that is
known to be on stable storage (`synced`).  Temp files get fresh unique names (`os.CreateTemp`: O_EXCL
with a random component, retried until unused), writes append (any prefix of a write may have happened
when the process dies: writes are modelled byte by byte), `Sync` makes everything written so far
durable, `Rename` atomically replaces the destination, `Remove` unlinks a name.  A power loss keeps, for
every inode, its durable prefix and an ARBITRARY amount of what was written after the last `Sync`.

`Add` is the list of calls regenerated from the source (`Wz.Gen.FileCache.addSteps`, `addCleanup`),
expanded into micro-operations.  Writers (any number) interleave micro-operations under an arbitrary
schedule; a schedule may also make any call fail (the error path of `Add` then runs the deferred
cleanup) and may delete final names (`fileCache.Delete`).  A process that dies simply is not
scheduled any more.  Core Lean only.
-/
import Wz.Gen.FileCache

namespace Wz.Model.FileCache
open Wz.Gen.FileCache (AddStep)

abbrev Bytes := List Nat

inductive Name where
  /-- the final name of a key (hex SHA-256) -/
  | final (key : Nat)
  /-- `<key>.<nonce>.tmp` -/
  | temp (key : Nat) (nonce : Nat)
  deriving DecidableEq, Repr

structure File where
  data : Bytes := []
  /-- bytes `[0, synced)` are on stable storage -/
  synced : Nat := 0
  deriving DecidableEq, Repr

structure FS where
  dir : Name → Option Nat
  ino : Nat → File
  nextIno : Nat
  nextNonce : Nat

def FS.empty : FS := ⟨fun _ => none, fun _ => {}, 0, 0⟩

/-- bytes visible under a name -/
def FS.content (fs : FS) (n : Name) : Option Bytes := (fs.dir n).map (fun i => (fs.ino i).data)

/-- `os.CreateTemp(dir, key+".*.tmp")`: a name that does not exist, a new empty inode -/
def FS.createTemp (fs : FS) (key : Nat) : FS × Name × Nat :=
  let n := Name.temp key fs.nextNonce
  let i := fs.nextIno
  ({ dir := fun x => if x = n then some i else fs.dir x,
     ino := fun j => if j = i then {} else fs.ino j,
     nextIno := i + 1, nextNonce := fs.nextNonce + 1 }, n, i)

/-- one more byte written through an open descriptor of inode `i` -/
def FS.append (fs : FS) (i : Nat) (b : Nat) : FS :=
  { fs with ino := fun j => if j = i then { fs.ino i with data := (fs.ino i).data ++ [b] } else fs.ino j }

/-- `file.Sync()` -/
def FS.sync (fs : FS) (i : Nat) : FS :=
  { fs with ino := fun j => if j = i then { fs.ino i with synced := (fs.ino i).data.length } else fs.ino j }

/-- `os.Rename(src, dst)`: atomic replace; fails when `src` does not exist -/
def FS.rename (fs : FS) (src dst : Name) : Option FS :=
  match fs.dir src with
  | none => none
  | some i => some { fs with dir := fun x => if x = dst then some i else if x = src then none else fs.dir x }

/-- `os.Remove(name)` -/
def FS.remove (fs : FS) (n : Name) : FS :=
  { fs with dir := fun x => if x = n then none else fs.dir x }

/-- power loss: inode `i` keeps `max synced (keep i)` bytes (at most what was written) -/
def FS.powerLoss (fs : FS) (keep : Nat → Nat) : FS :=
  { fs with ino := fun i =>
      { data := (fs.ino i).data.take (max (fs.ino i).synced (keep i)),
        synced := min (fs.ino i).synced (fs.ino i).data.length } }

/-- micro-operations of a writer -/
inductive MOp where
  | createTemp
  | write (b : Nat)
  | sync
  | close
  | rename
  | remove
  | unsupported (what : String)
  deriving DecidableEq, Repr

/-- `io.Copy` is the sequence of its byte writes -/
def expandStep (content : Bytes) : AddStep → List MOp
  | .createTemp => [.createTemp]
  | .copy => content.map .write
  | .sync => [.sync]
  | .close => [.close]
  | .rename => [.rename]
  | .remove => [.remove]
  | .other s => [.unsupported s]

def expand (content : Bytes) (steps : List AddStep) : List MOp := steps.flatMap (expandStep content)

structure Writer where
  key : Nat
  content : Bytes
  /-- remaining micro-operations -/
  prog : List MOp
  /-- deferred cleanup (runs when a call has failed) -/
  cleanup : List MOp
  /-- `file.Name()` -/
  tmp : Option Name := none
  /-- the inode behind `file` -/
  ino : Option Nat := none
  isOpen : Bool := false
  /-- `err != nil`: the deferred function is running; its own errors are ignored -/
  failed : Bool := false

/-- a process that is about to call `Add(key, content)` with the given step lists -/
def Writer.startWith (steps cleanup : List AddStep) (key : Nat) (content : Bytes) : Writer :=
  { key := key, content := content, prog := expand content steps, cleanup := expand [] cleanup }

/-- … with the step lists of the real `Add` -/
def Writer.start (key : Nat) (content : Bytes) : Writer :=
  Writer.startWith Wz.Gen.FileCache.addSteps Wz.Gen.FileCache.addCleanup key content

/-- the current call returned an error: on the main path jump to the deferred cleanup, inside the
cleanup ignore it and go on -/
def Writer.fail (w : Writer) (rest : List MOp) : Writer :=
  if w.failed then { w with prog := rest } else { w with failed := true, prog := w.cleanup }

/-- writer executes its next micro-operation -/
def execOp (fs : FS) (w : Writer) : FS × Writer :=
  match w.prog with
  | [] => (fs, w)
  | .createTemp :: rest =>
    let (fs', n, i) := fs.createTemp w.key
    (fs', { w with prog := rest, tmp := some n, ino := some i, isOpen := true })
  | .write b :: rest =>
    match w.ino, w.isOpen with
    | some i, true => (fs.append i b, { w with prog := rest })
    | _, _ => (fs, w.fail rest)
  | .sync :: rest =>
    match w.ino, w.isOpen with
    | some i, true => (fs.sync i, { w with prog := rest })
    | _, _ => (fs, w.fail rest)
  | .close :: rest =>
    if w.isOpen then (fs, { w with prog := rest, isOpen := false }) else (fs, w.fail rest)
  | .rename :: rest =>
    match w.tmp with
    | none => (fs, w.fail rest)
    | some t =>
      match fs.rename t (.final w.key) with
      | none => (fs, w.fail rest)
      | some fs' => (fs', { w with prog := rest })
  | .remove :: rest =>
    match w.tmp with
    | none => (fs, w.fail rest)
    | some t => (fs.remove t, { w with prog := rest })
  | .unsupported _ :: rest => (fs, w.fail rest)

/-- scheduler events -/
inductive Ev where
  /-- writer `w` executes its next micro-operation -/
  | run (w : Nat)
  /-- the next call of writer `w` fails without effect (ENOSPC, EIO, EMFILE, …) -/
  | fail (w : Nat)
  /-- some process calls `fileCache.Delete(key)` -/
  | delete (key : Nat)
  deriving DecidableEq, Repr

structure Sys where
  fs : FS
  ws : Nat → Writer

def Sys.step (s : Sys) : Ev → Sys
  | .run w =>
    let (fs', w') := execOp s.fs (s.ws w)
    { fs := fs', ws := fun j => if j = w then w' else s.ws j }
  | .fail w =>
    match (s.ws w).prog with
    | [] => s
    | _ :: rest => { s with ws := fun j => if j = w then (s.ws w).fail rest else s.ws j }
  | .delete key => { s with fs := s.fs.remove (.final key) }

def Sys.run (s : Sys) (evs : List Ev) : Sys := evs.foldl Sys.step s

/-- initial system: directory `fs0`; writer `w` is going to add `(spec w).2` under key `(spec w).1` -/
def Sys.init (fs0 : FS) (spec : Nat → Nat × Bytes) : Sys :=
  { fs := fs0, ws := fun w => Writer.start (spec w).1 (spec w).2 }

def Sys.initWith (steps cleanup : List AddStep) (fs0 : FS) (spec : Nat → Nat × Bytes) : Sys :=
  { fs := fs0, ws := fun w => Writer.startWith steps cleanup (spec w).1 (spec w).2 }

/-- well-formed initial directory: inode numbers and temp nonces in use are below the allocation
counters (so `createTemp` really is fresh), and every final entry present is durable. Left-over temp files of
dead processes are allowed. -/
structure FS.WF0 (fs : FS) : Prop where
  inoBound : ∀ n i, fs.dir n = some i → i < fs.nextIno
  nonceBound : ∀ k n, fs.nextNonce ≤ n → fs.dir (.temp k n) = none
  finalsDurable : ∀ k i, fs.dir (.final k) = some i → (fs.ino i).synced = (fs.ino i).data.length

end Wz.Model.FileCache
