/-
Model of the interpreter on straight-line integer code (fragment W00): a stack of 64-bit slots and,
for every instruction, the step function REGENERATED from interpreter.go (`Wz.Gen.InterpNum`).
The specification side is the typed stack machine `specRun` built from `Wz.Spec.IntOps`.
-/
import Wz.Gen.InterpNum
import Wz.Spec.IntOps

namespace Wz.Model.InterpStraight
open Wz.Spec Wz.Go Wz.Gen.InterpNum

inductive Ty | i32 | i64
deriving DecidableEq, Repr

inductive SVal
  | i32 (v : BitVec 32)
  | i64 (v : BitVec 64)
deriving DecidableEq, Repr

/-- straight-line integer instructions -/
inductive SInstr
  | const (v : SVal)
  | bin (t : Ty) (op : IBinOp)
  | rel (t : Ty) (op : IRelOp)
  | un (t : Ty) (op : IUnOp)
  | eqz (t : Ty)
  | wrap | extendS | extendU
  | extend8S (t : Ty) | extend16S (t : Ty) | extend32S
  | drop
deriving Repr

inductive Stop
  | trap (t : Trap)
  | illTyped           -- rejected by validation; never happens on validated code
deriving DecidableEq, Repr

/-- specification: one instruction on a typed operand stack (top first) -/
def specStep : SInstr → List SVal → Except Stop (List SVal)
  | .const v, s => .ok (v :: s)
  | .bin .i32 op, .i32 b :: .i32 a :: s =>
    match op.eval a b with | .ok r => .ok (.i32 r :: s) | .error t => .error (.trap t)
  | .bin .i64 op, .i64 b :: .i64 a :: s =>
    match op.eval a b with | .ok r => .ok (.i64 r :: s) | .error t => .error (.trap t)
  | .rel .i32 op, .i32 b :: .i32 a :: s => .ok (.i32 (op.eval a b) :: s)
  | .rel .i64 op, .i64 b :: .i64 a :: s => .ok (.i32 (op.eval a b) :: s)
  | .un .i32 op, .i32 a :: s => .ok (.i32 (op.eval a) :: s)
  | .un .i64 op, .i64 a :: s => .ok (.i64 (op.eval a) :: s)
  | .eqz .i32, .i32 a :: s => .ok (.i32 (Int.ieqz a) :: s)
  | .eqz .i64, .i64 a :: s => .ok (.i32 (Int.ieqz a) :: s)
  | .wrap, .i64 a :: s => .ok (.i32 (Int.wrap a) :: s)
  | .extendS, .i32 a :: s => .ok (.i64 (Int.extendS a) :: s)
  | .extendU, .i32 a :: s => .ok (.i64 (Int.extendU a) :: s)
  | .extend8S .i32, .i32 a :: s => .ok (.i32 (Int.iextendS 8 a) :: s)
  | .extend16S .i32, .i32 a :: s => .ok (.i32 (Int.iextendS 16 a) :: s)
  | .extend8S .i64, .i64 a :: s => .ok (.i64 (Int.iextendS 8 a) :: s)
  | .extend16S .i64, .i64 a :: s => .ok (.i64 (Int.iextendS 16 a) :: s)
  | .extend32S, .i64 a :: s => .ok (.i64 (Int.iextendS 32 a) :: s)
  | .drop, _ :: s => .ok s
  | _, _ => .error .illTyped

def specRun : List SInstr → List SVal → Except Stop (List SVal)
  | [], s => .ok s
  | i :: rest, s =>
    match specStep i s with
    | .ok s' => specRun rest s'
    | .error e => .error e

/-- the interpreter's slot of a value: i32 values are kept zero-extended -/
def slot : SVal → BitVec 64
  | .i32 v => v.setWidth 64
  | .i64 v => v

/-- outcome of the interpreter model -/
inductive IOut
  | ok (stack : List (BitVec 64))
  | trap (err : String)
  | goPanic (what : String)
  | underflow        -- popped an empty stack (excluded by validation)
deriving DecidableEq, Repr

def after (r : StepRes) (s : List (BitVec 64)) : IOut :=
  match r with
  | .ok pushed => .ok (pushed.reverse ++ s)
  | .trap e => .trap e
  | .goPanic w => .goPanic w

/-- regenerated step function of a binary instruction -/
def interpBin : Ty → IBinOp → BitVec 64 → BitVec 64 → StepRes
  | .i32, .add => i32_add | .i64, .add => i64_add
  | .i32, .sub => i32_sub | .i64, .sub => i64_sub
  | .i32, .mul => i32_mul | .i64, .mul => i64_mul
  | .i32, .divS => i32_div_s | .i64, .divS => i64_div_s
  | .i32, .divU => i32_div_u | .i64, .divU => i64_div_u
  | .i32, .remS => i32_rem_s | .i64, .remS => i64_rem_s
  | .i32, .remU => i32_rem_u | .i64, .remU => i64_rem_u
  | .i32, .and => i32_and | .i64, .and => i64_and
  | .i32, .or => i32_or | .i64, .or => i64_or
  | .i32, .xor => i32_xor | .i64, .xor => i64_xor
  | .i32, .shl => i32_shl | .i64, .shl => i64_shl
  | .i32, .shrS => i32_shr_s | .i64, .shrS => i64_shr_s
  | .i32, .shrU => i32_shr_u | .i64, .shrU => i64_shr_u
  | .i32, .rotl => i32_rotl | .i64, .rotl => i64_rotl
  | .i32, .rotr => i32_rotr | .i64, .rotr => i64_rotr

def interpRel : Ty → IRelOp → BitVec 64 → BitVec 64 → StepRes
  | .i32, .eq => i32_eq | .i64, .eq => i64_eq
  | .i32, .ne => i32_ne | .i64, .ne => i64_ne
  | .i32, .ltS => i32_lt_s | .i64, .ltS => i64_lt_s
  | .i32, .ltU => i32_lt_u | .i64, .ltU => i64_lt_u
  | .i32, .gtS => i32_gt_s | .i64, .gtS => i64_gt_s
  | .i32, .gtU => i32_gt_u | .i64, .gtU => i64_gt_u
  | .i32, .leS => i32_le_s | .i64, .leS => i64_le_s
  | .i32, .leU => i32_le_u | .i64, .leU => i64_le_u
  | .i32, .geS => i32_ge_s | .i64, .geS => i64_ge_s
  | .i32, .geU => i32_ge_u | .i64, .geU => i64_ge_u

def interpUn : Ty → IUnOp → BitVec 64 → StepRes
  | .i32, .clz => i32_clz | .i64, .clz => i64_clz
  | .i32, .ctz => i32_ctz | .i64, .ctz => i64_ctz
  | .i32, .popcnt => i32_popcnt | .i64, .popcnt => i64_popcnt

/-- one instruction of the interpreter model on the slot stack (top first); the operation pops its
operands in the order the Go code does (`pop0` is the top of the stack) -/
def interpStep : SInstr → List (BitVec 64) → IOut
  | .const v, s => .ok (slot v :: s)
  | .bin t op, b :: a :: s => after (interpBin t op b a) s
  | .rel t op, b :: a :: s => after (interpRel t op b a) s
  | .un t op, a :: s => after (interpUn t op a) s
  | .eqz _, a :: s => after (ieqz a) s
  | .wrap, a :: s => after (i32_wrap_i64 a) s
  | .extendS, a :: s => after (i64_extend_i32_s a) s
  | .extendU, a :: s => after (i64_extend_i32_u a) s
  | .extend8S .i32, a :: s => after (i32_extend8_s a) s
  | .extend16S .i32, a :: s => after (i32_extend16_s a) s
  | .extend8S .i64, a :: s => after (i64_extend8_s a) s
  | .extend16S .i64, a :: s => after (i64_extend16_s a) s
  | .extend32S, a :: s => after (i64_extend32_s a) s
  | .drop, _ :: s => .ok s
  | _, _ => .underflow

def interpRun : List SInstr → List (BitVec 64) → IOut
  | [], s => .ok s
  | i :: rest, s =>
    match interpStep i s with
    | .ok s' => interpRun rest s'
    | r => r

/-- how a specification outcome looks on the interpreter -/
def trapName : Trap → String
  | .divByZero => "ErrRuntimeIntegerDivideByZero"
  | .overflow => "ErrRuntimeIntegerOverflow"

def expected : Except Stop (List SVal) → Option IOut
  | .ok s => some (.ok (s.map slot))
  | .error (.trap t) => some (.trap (trapName t))
  | .error .illTyped => none

end Wz.Model.InterpStraight
