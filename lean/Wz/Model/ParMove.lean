/-
C01, compiler back end: block arguments are a PARALLEL assignment.

`compiler.lowerBlockArguments` (backend/compiler_lower.go) turns `Jump blk, a0, a1, …` into moves
`param_i := a_i`.  It emits them one after the other when no destination register is also a source register
of any edge ("separated"), and goes through fresh temporaries otherwise.
-/
namespace Wz.Model.ParMove

abbrev Env := Nat → Nat

def upd (ρ : Env) (k v : Nat) : Env := fun x => if x = k then v else ρ x

/-- the moves as emitted in the separated case: one after the other, each reading the CURRENT registers -/
def seqMoves : List (Nat × Nat) → Env → Env
  | [], ρ => ρ
  | (s, d) :: es, ρ => seqMoves es (upd ρ d (ρ s))

/-- the meaning of the jump: every destination receives the value its source had BEFORE the jump -/
def parMoves (es : List (Nat × Nat)) (ρ : Env) : Env := fun r =>
  match es.find? (fun e => e.2 == r) with
  | some e => ρ e.1
  | none => ρ r

/-- the test of `lowerBlockArguments`: no destination is the source of ANY edge (earlier or later) -/
def separated (es : List (Nat × Nat)) : Bool :=
  es.all (fun e => !(es.any (fun e' => e'.1 == e.2)))

/-- destinations are the target block's parameters: pairwise distinct registers -/
def distinctDsts : List (Nat × Nat) → Prop
  | [] => True
  | e :: es => (∀ e' ∈ es, e'.2 ≠ e.2) ∧ distinctDsts es

theorem seq_eq_par_aux (es : List (Nat × Nat)) (ρ : Env)
    (hsep : ∀ e ∈ es, ∀ e' ∈ es, e'.1 ≠ e.2) (hd : distinctDsts es) :
    seqMoves es ρ = parMoves es ρ := by
  induction es generalizing ρ with
  | nil => funext r; simp [seqMoves, parMoves]
  | cons e es ih =>
    obtain ⟨s, d⟩ := e
    have hsep' : ∀ e ∈ es, ∀ e' ∈ es, e'.1 ≠ e.2 :=
      fun a ha b hb => hsep a (List.mem_cons_of_mem _ ha) b (List.mem_cons_of_mem _ hb)
    simp only [seqMoves]
    rw [ih (upd ρ d (ρ s)) hsep' hd.2]
    funext r
    simp only [parMoves, List.find?_cons]
    by_cases hr : d = r
    · subst hr
      have hnone : es.find? (fun e => e.2 == d) = none := by
        rw [List.find?_eq_none]
        intro e' he'
        simpa using hd.1 e' he'
      simp [hnone, upd]
    · have hb : ((s, d).2 == r) = false := by simpa using hr
      simp only [hb]
      cases hf : es.find? (fun e => e.2 == r) with
      | none => simp [upd, Ne.symm hr]
      | some e' =>
        have hm : e' ∈ es := List.mem_of_find?_eq_some hf
        have hne : e'.1 ≠ d := hsep (s, d) (List.mem_cons_self ..) e' (List.mem_cons_of_mem _ hm)
        simp [upd, hne]

theorem separated_spec (es : List (Nat × Nat)) (h : separated es = true) :
    ∀ e ∈ es, ∀ e' ∈ es, e'.1 ≠ e.2 := by
  intro e he e' he' heq
  simp only [separated, List.all_eq_true, Bool.not_eq_true', List.any_eq_false, beq_iff_eq] at h
  exact h e he e' he' heq

/-- When the test of `lowerBlockArguments` succeeds, emitting the moves one after the other implements the
parallel assignment - for every list of edges with distinct destinations and every register file. -/
theorem seq_eq_par (es : List (Nat × Nat)) (ρ : Env) (hs : separated es = true) (hd : distinctDsts es) :
    seqMoves es ρ = parMoves es ρ :=
  seq_eq_par_aux es ρ (separated_spec es hs) hd

end Wz.Model.ParMove
