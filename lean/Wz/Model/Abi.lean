/-
Model of `backend.FunctionABI` (internal/engine/wazevo/backend/abi.go: `Init`, `setABIArgs`,
`AlignedArgResultStackSlotSize`, `ABIInfoAsUint64`), of `GoFunctionCallRequiredStackSize`
(backend/go_call.go) and of the Go-call stack view the trampolines build (isa/*/abi_go_call.go:
`offsetInGoSlice`), for property C08.  The register lists are parameters; the lists of the real back
ends are regenerated into `Wz.Gen.AbiRegs` (tie A).  Checked field by field against the real
`FunctionABI.Init` by the harness (tie B).
-/
namespace Wz.Model.Abi

/-- `ssa.Type` restricted to the types a signature can carry. -/
inductive Ty where
  | i32 | i64 | f32 | f64 | v128
deriving DecidableEq, Repr

def Ty.isInt : Ty → Bool
  | .i32 | .i64 => true
  | _ => false

def Ty.bits : Ty → Nat
  | .i32 | .f32 => 32
  | .i64 | .f64 => 64
  | .v128 => 128

/-- `ssa.Type.Size()` in bytes. -/
def Ty.size (t : Ty) : Nat := t.bits / 8

/-- Stack slot size `setABIArgs` uses: 8 bytes, 16 for vectors. -/
def Ty.slotSize (t : Ty) : Nat := if t.isInt then 8 else if t.bits == 128 then 16 else 8

/-- Location of one argument/result: `ABIArgKindReg` with the real register, or `ABIArgKindStack` with its offset. -/
inductive Loc where
  | reg (isInt : Bool) (r : Nat)
  | stack (off : Nat)
deriving DecidableEq, Repr

structure Arg where
  index : Nat
  ty : Ty
  loc : Loc
deriving DecidableEq, Repr

/-- Loop state of `setABIArgs`: `intParamIndex`, `floatParamIndex`, `stackOffset`. -/
structure St where
  ii : Nat
  fi : Nat
  off : Nat
deriving DecidableEq, Repr

/-- One iteration of the loop in `setABIArgs`. `ints[ii]? = none` is `intParamIndex >= il`. -/
def place (ints floats : List Nat) (st : St) (t : Ty) : Loc × St :=
  if t.isInt then
    match ints[st.ii]? with
    | none => (.stack st.off, { st with off := st.off + 8 })
    | some r => (.reg true r, { st with ii := st.ii + 1 })
  else
    match floats[st.fi]? with
    | none => (.stack st.off, { st with off := st.off + (if t.bits == 128 then 16 else 8) })
    | some r => (.reg false r, { st with fi := st.fi + 1 })

/-- The loop of `setABIArgs` from state `st`, numbering from `i`. -/
def assign (ints floats : List Nat) : St → Nat → List Ty → List Arg
  | _, _, [] => []
  | st, i, t :: ts =>
    let p := place ints floats st t
    ⟨i, t, p.1⟩ :: assign ints floats p.2 (i + 1) ts

def finalSt (ints floats : List Nat) : St → List Ty → St
  | st, [] => st
  | st, t :: ts => finalSt ints floats (place ints floats st t).2 ts

def st0 : St := ⟨0, 0, 0⟩

/-- `setABIArgs`: locations and the returned stack size. -/
def setABIArgs (ints floats : List Nat) (tys : List Ty) : List Arg × Nat :=
  (assign ints floats st0 0 tys, (finalSt ints floats st0 tys).off)

def isRegInt (a : Arg) : Bool := match a.loc with | .reg _ _ => a.ty.isInt | _ => false
def isRegFloat (a : Arg) : Bool := match a.loc with | .reg _ _ => !a.ty.isInt | _ => false

/-- `FunctionABI` after `Init`. The four counters are Go `byte`s. -/
structure FunctionABI where
  args : List Arg
  rets : List Arg
  argStackSize : Nat
  retStackSize : Nat
  argIntRealRegs : Nat
  argFloatRealRegs : Nat
  retIntRealRegs : Nat
  retFloatRealRegs : Nat
deriving Repr

def abiInit (ints floats : List Nat) (params results : List Ty) : FunctionABI :=
  let r := setABIArgs ints floats results
  let a := setABIArgs ints floats params
  { args := a.1, rets := r.1, argStackSize := a.2, retStackSize := r.2,
    argIntRealRegs := (a.1.filter isRegInt).length % 256,
    argFloatRealRegs := (a.1.filter isRegFloat).length % 256,
    retIntRealRegs := (r.1.filter isRegInt).length % 256,
    retFloatRealRegs := (r.1.filter isRegFloat).length % 256 }

/-- `AlignedArgResultStackSlotSize`: `(ret+arg+15) &^ 15` (panics above 2^32-1: `none`). -/
def FunctionABI.alignedSlotSize (a : FunctionABI) : Option Nat :=
  let s := (a.retStackSize + a.argStackSize + 15) / 16 * 16
  if s > 0xFFFFFFFF then none else some s

/-- `ABIInfoAsUint64`. -/
def FunctionABI.info (a : FunctionABI) : Option Nat :=
  a.alignedSlotSize.map fun s =>
    a.argIntRealRegs * 2^56 + a.argFloatRealRegs * 2^48 + a.retIntRealRegs * 2^40 + a.retFloatRealRegs * 2^32 + s

/-! ### Go-call stack view -/

/-- uint64 slots a value occupies in the Go `[]uint64` view. -/
def Ty.goSlots : Ty → Nat
  | .v128 => 2
  | _ => 1

/-- Slot index at which the trampoline stores parameter `i` / loads result `i` (`offsetInGoSlice / 8`). -/
def slotIndex (tys : List Ty) (i : Nat) : Nat := ((tys.take i).map Ty.goSlots).sum

def totalSlots (tys : List Ty) : Nat := (tys.map Ty.goSlots).sum

/-- Inverse map: which value (and which half of it) lives in slot `s`. -/
def slotOwner : List Ty → Nat → Option (Nat × Nat)
  | [], _ => none
  | t :: ts, s =>
    if s < t.goSlots then some (0, s)
    else (slotOwner ts (s - t.goSlots)).map fun p => (p.1 + 1, p.2)

/-- `GoFunctionCallRequiredStackSize(sig, argBegin)` on the parameters after `argBegin`: (aligned, unaligned) bytes. -/
def goCallRequiredStackSize (params results : List Ty) : Nat × Nat :=
  let need (tys : List Ty) : Nat := (tys.map fun t => if t.size < 8 then 8 else t.size).sum
  let p := need params
  let r := need results
  let m := if p > r then p else r
  ((m + 15) / 16 * 16, m)

end Wz.Model.Abi
