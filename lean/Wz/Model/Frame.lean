/-
C03 — model of the section framing of `binary.DecodeModule` (internal/wasm/binary/decoder.go,
section.go, custom.go, value.go `decodeUTF8`) and of the memory each section decoder reserves BEFORE it
reads the elements (`make([]T, vs)` right after the vector count).

What is modelled: magic + version; per section the id byte, the LEB128 size, for the nine vector
sections the LEB128 element count (read from the REST OF THE INPUT — the decoder does not confine a
section to its declared size, it only compares the number of bytes consumed with the declared size
afterwards), the memory-section count (≤ 1), for custom sections the name length and the payload buffer.
The element decoders themselves are not modelled: the walk continues as if the elements had been decoded
and had consumed exactly the declared size (the real decoder rejects the module otherwise), and it stops
where the real decoder necessarily fails (declared size beyond the input; more elements than bytes in the
section).  Consequently: model rejects ⇒ code rejects; code accepts ⇒ model accepts with the same
sections and counts (both checked on every fuzz input by hc03).

Finding switch (DESIGN §8): `Variant.asIs` reserves `count` units as the pinned decoder does (finding
F3a); `Variant.capped` reserves `min count (bytes left)` as the repaired decoder does
(repo_patches/C03-fix-F3a.diff).  Units are elements (or bytes for byte vectors).
-/
import Wz.Model.Leb128
namespace Wz.Model.Frame
open Wz.Model.Leb128

inductive Variant | asIs | capped
deriving DecidableEq, Repr

structure Sec where
  id : Nat
  size : Nat
  count : Nat          -- vector count (vector sections, memory), 0 otherwise
deriving DecidableEq, Repr

structure Out where
  secs : List Sec := []
  alloc : Nat := 0     -- units reserved before reading elements
  verdict : String := "ok"
  stopId : Nat := 255  -- id of the section at which the walk stopped (255 = not stopped in a section)
deriving Repr

/-- units reserved for a vector that declares `n` elements when `remaining` bytes are left -/
def reserve (v : Variant) (n remaining : Nat) : Nat :=
  match v with
  | .asIs => n
  | .capped => min n remaining

def vectorSection (id : Nat) : Bool :=
  id == 1 || id == 2 || id == 3 || id == 4 || id == 6 || id == 7 || id == 9 || id == 10 || id == 11

def nameBytes : List Byte := [0x6e#8, 0x61#8, 0x6d#8, 0x65#8]

/-- outcome of decoding one section header: stop with a verdict, or go on after the section -/
inductive Step
  | stop (o : Out)
  | next (rest : List Byte) (o : Out)

/-- the body of a section of declared `size` starts at `body`: walk past it, or stop where the real
decoder cannot succeed (the declared size exceeds the input) -/
def past (id size : Nat) (body : List Byte) (o : Out) : Step :=
  if size > body.length then .stop { o with verdict := "section-exceeds-input", stopId := id }
  else .next (body.drop size) o

/-- one iteration of the `for` loop of DecodeModule: `idb` is the section id byte, `rest` what follows -/
def step (v : Variant) (idb : Byte) (rest : List Byte) (o : Out) : Step :=
  match decodeUint32 rest with
  | .error _ => .stop { o with verdict := "section-size", stopId := idb.toNat }
  | .ok (size, n) =>
    let body := rest.drop n
    let id := idb.toNat
    if id > 12 then .stop { o with verdict := "section-id", stopId := id }
    else if vectorSection id then
      match decodeUint32 body with
      | .error _ => .stop { o with verdict := "vector-count", stopId := id }
      | .ok (cnt, cn) =>
        let o := { o with alloc := o.alloc + reserve v cnt (body.length - cn), secs := o.secs ++ [⟨id, size, cnt⟩] }
        if cn + cnt > size then .stop { o with verdict := "count-exceeds-section", stopId := id }
        else past id size body o
    else if id = 0 then
      -- custom section: decodeUTF8 (size, then `make([]byte, size)`), then the payload buffer
      match decodeUint32 body with
      | .error _ => .stop { o with verdict := "custom-name-size", stopId := id }
      | .ok (nlen, cn) =>
        let afterLen := body.length - cn
        let o := { o with alloc := o.alloc + reserve v nlen afterLen }
        if nlen > afterLen then .stop { o with verdict := "custom-name-eof", stopId := id }
        else if size < nlen + cn then .stop { o with verdict := "custom-malformed", stopId := id }
        else
          let isName := (body.drop cn).take nlen == nameBytes
          let payload := if isName then 0 else reserve v (size - (nlen + cn)) (afterLen - nlen)
          past id size body { o with alloc := o.alloc + payload, secs := o.secs ++ [⟨0, size, 0⟩] }
    else if id = 5 then
      match decodeUint32 body with
      | .error _ => .stop { o with verdict := "vector-count", stopId := id }
      | .ok (cnt, _) =>
        let o := { o with secs := o.secs ++ [⟨id, size, cnt⟩] }
        if cnt > 1 then .stop { o with verdict := "memory-count", stopId := id }
        else past id size body o
    else past id size body { o with secs := o.secs ++ [⟨id, size, 0⟩] }

/-- the section loop; `fuel` bounds the number of sections (each consumes at least two bytes) -/
def sections (v : Variant) : Nat → List Byte → Out → Out
  | 0, _, o => { o with verdict := "fuel" }
  | _ + 1, [], o => o
  | f + 1, idb :: rest, o =>
    match step v idb rest o with
    | .stop o' => o'
    | .next r o' => sections v f r o'

def magic : List Byte := [0x00#8, 0x61#8, 0x73#8, 0x6d#8]
def version : List Byte := [0x01#8, 0x00#8, 0x00#8, 0x00#8]

def frame (v : Variant) (bs : List Byte) : Out :=
  if bs.take 4 != magic then { verdict := "magic" }
  else if (bs.drop 4).take 4 != version then { verdict := "version" }
  else sections v (bs.length + 1) (bs.drop 8) {}

def allocUnits (v : Variant) (bs : List Byte) : Nat := (frame v bs).alloc

/-- the 15-byte witness of F3a: header, type section (id 1) of declared size 5, vector count 2^28 -/
def f3aWitness : List Byte :=
  magic ++ version ++ [0x01#8, 0x05#8, 0x80#8, 0x80#8, 0x80#8, 0x80#8, 0x01#8]

end Wz.Model.Frame
