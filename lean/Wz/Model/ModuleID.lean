/-
C12, part 2: module identity (`(*wasm.Module).AssignModuleID`, internal/wasm/module.go), the file-cache key
(`fileCacheKey`, internal/engine/wazevo/engine_cache.go) and the record of everything that reaches the
two compilers.

The *shape* facts (what is hashed, in which order and form; which arguments reach DecodeModule,
AssignModuleID, Engine.CompileModule, the wazevo front end and the interpreter's compiler) are
regenerated from /repo into `Wz.Gen.ModuleID` by translate/facts/c12_moduleid; the hand-written
definitions below are written for exactly the shapes `expected…`, and `Wz.C12.id_shape` /
`Wz.C12.codegen_inputs_shape` (by `decide` on the regenerated lists) tie them to the tree.

SHA-256 is an uninterpreted parameter `H`, assumed injective where a theorem needs it.
-/
import Wz.Gen.ModuleID

namespace Wz.Model.ModuleID

/-- One compile request: the binary, what the compile context carries, and the runtime settings that
are read by `runtime.CompileModule`. Listener objects are identified by a number (`none` = the factory
returned nil for this function); `listeners = none` = no factory in the context. -/
structure Req where
  bin : List Nat
  listeners : Option (List (Option Nat))
  term : Bool            -- r.ensureTermination   (WithCloseOnContextDone)
  memLimit : Nat         -- r.memoryLimitPages    (semantic; not part of identity)
  capFromMax : Bool      -- r.memoryCapacityFromMax
  debugInfo : Bool       -- !r.dwarfDisabled      (WithDebugInfoEnabled)
  customSections : Bool  -- r.storeCustomSections (WithCustomSections)
  hasDwarf : Bool        -- the binary carries parsable DWARF sections (a function of `bin`)
deriving Repr, DecidableEq

/-- the `listeners` slice handed to AssignModuleID / Engine.CompileModule (nil without a factory) -/
def Req.lst (r : Req) : List (Option Nat) := r.listeners.getD []

/-- per-function listener presence (`l != nil`) -/
def Req.presence (r : Req) : List Bool := r.lst.map Option.isSome

def le32 (i : Nat) : List Nat := [i % 256, i / 256 % 256, i / 65536 % 256, i / 16777216 % 256]
def b2n (b : Bool) : Nat := if b then 1 else 0

/-- the per-function records: index (32-bit LE) then the presence byte -/
def encL : Nat → List Bool → List Nat
  | _, [] => []
  | i, p :: ps => le32 i ++ [b2n p] ++ encL (i + 1) ps

/-- The shape of `AssignModuleID` this model is written for. -/
def expectedIdHashed : List String :=
  ["wasm:raw", "[each listeners", "listeners:index", "listeners:nonnil", "]", "withEnsureTermination:bool"]
def expectedIdCallArgs : List String := ["binary", "listeners", "r.ensureTermination"]
def expectedFileKeyHashed : List String := ["m.ID[:]", "magic", "platform.CpuFeatures.Raw()"]

/-- The byte string fed to SHA-256 by `AssignModuleID`. -/
def preimage (r : Req) : List Nat := r.bin ++ (encL 0 r.presence ++ [b2n r.term])

/-- `Module.ID`. -/
def moduleID (H : List Nat → Nat) (r : Req) : Nat := H (preimage r)

def magic : List Nat := [87, 65, 90, 69, 86, 79]  -- "WAZEVO"

/-- wazevo's `fileCacheKey`: SHA-256 (ID ‖ magic ‖ CPU feature word). The 32 ID bytes are abstracted to
one list element (the ID as a number). -/
def fileKey (H : List Nat → Nat) (cpu : Nat) (r : Req) : Nat := H (moduleID H r :: (magic ++ [cpu]))

/-- Everything that reaches the two compilers (`CodegenInputs`): the decoded module (binary + the decode
options), the termination flag, the listener-derived booleans, the source-info flag. -/
structure CodegenInputs where
  bin : List Nat
  term : Bool
  withListener : Bool          -- len(listeners) > 0
  needListener : List Bool     -- per function: listeners[i] != nil
  needSourceInfo : Bool        -- module.DWARFLines != nil  (debug info enabled ∧ binary has DWARF)
  memLimit : Nat               -- via module.MemorySection (sizer)
  capFromMax : Bool            -- via module.MemorySection.Cap
  customSections : Bool        -- via module.CustomSections
deriving Repr, DecidableEq

def expectedEngineCallArgs : List String := ["ctx", "internal", "listeners", "r.ensureTermination"]
def expectedDecodeCallArgs : List String :=
  ["binary", "r.enabledFeatures", "r.memoryLimitPages", "r.memoryCapacityFromMax", "!r.dwarfDisabled", "r.storeCustomSections"]
def expectedFrontendArgs : List String :=
  ["module", "ssaBuilder", "&cm.offsets", "ensureTermination", "withListener", "needSourceInfo"]
def expectedLocalFuncArgs : List String := ["ctx", "module", "wasm.Index(i)", "fe", "ssaBuilder", "be", "needListener"]
def expectedDerivedInputs : List String :=
  ["needListener := len(listeners) > 0 && listeners[i] != nil", "needSourceInfo := module.DWARFLines != nil",
   "withListener := len(listeners) > 0"]
def expectedInterpCompilerArgs : List String := ["e.enabledFeatures", "callFrameStackSize", "module", "ensureTermination"]

def codegenInputs (r : Req) : CodegenInputs :=
  { bin := r.bin, term := r.term, withListener := !r.lst.isEmpty, needListener := r.presence,
    needSourceInfo := r.debugInfo && r.hasDwarf, memLimit := r.memLimit, capFromMax := r.capFromMax,
    customSections := r.customSections }

/-- The inputs on which the *semantics* of the generated code may depend: the binary, per-function
listener presence and the termination flag. `needSourceInfo` only adds source-offset side tables,
memory sizing lives in the instance (both engines call `MemoryInstance.Grow`), custom sections are
not read by the compilers — these three are the modelling assumption of this part, checked
behaviourally by the option-lattice run, not proved. -/
def codegenRelevant (r : Req) : List Nat × List Bool × Bool := (r.bin, r.presence, r.term)

/-- canonical rendering of a key class for the oracle -/
def keyClass (r : Req) : String :=
  let ps := String.ofList (r.presence.map (fun b => if b then '1' else '0'))
  s!"p[{ps}]t{b2n r.term}"

end Wz.Model.ModuleID
