def hello := "world"
