example : String.Pos.Raw.atEnd "i32.add" ⟨3⟩ = false := by decide
example : String.Pos.Raw.get "i32.add" ⟨3⟩ = '.' := by decide
example : String.Pos.Raw.extract "i32.add" ⟨0⟩ ⟨3⟩ = "i32" := by decide
example : "i32.add".splitOn "." = ["i32", "add"] := by
  simp +decide [String.splitOn, String.splitOnAux.eq_1]
