/-
Oracle commands for the lowering model `Wz.Model.FlatLower` (C01, tie of the model to the real lowering):

  c01low lower <params> <results> <locals> <body tokens…>
      the lowered operation list in canonical one-line text (operations separated by " ")
  c01low sym   <params> <results> <locals> <body tokens…>     the same before label resolution (debugging)
  c01low wt    <params> <results> <locals> <body tokens…>     `wellTyped`: 1 / 0
  c01low run   <params> <results> <locals> <fuel> <args> <body tokens…>    `runFlat`
  c01low srun  <params> <results> <locals> <fuel> <args> <body tokens…>    `runStruct` (Wz.Spec.Wasm.invoke)

<params>, <results>, <locals>: comma separated `i32` / `i64`, or `-`;  <args>: comma separated hex, or `-`.
Body tokens are those of the `c01 func` command (Oracle/C01.lean): `i32.const:5 local.get:0 block:e … end
if:i32 … else … end loop:e … end br:1 br_if:0 br_table:0,1,2 (default last) return unreachable drop select
i32.add …`.

Canonical operation text (the Go harness renders the real `unionOperation`s the same way):
  Unreachable | Label:<H|E|C><id> | Br:<t> | BrIf:<t>,<t>,<r> | BrTable:<t>/<r>,… | Drop:<r> | Select | Pick:<d>
  | Set:<d> | ConstI32:<v> | ConstI64:<v> | <Kind>/<B1>/<B2>/<B3> for numeric operations
  with <t> an operation index or `ret`, <r> a range `s..e` or `-`.
-/
import Oracle.Util
import Wz.Model.FlatLower
namespace Oracle.C01Lower
open Oracle Wz.Spec.Wasm Wz.Model.FlatLower

def parseTy (s : String) : Option Ty :=
  match s with
  | "i32" => some .i32 | "i64" => some .i64 | _ => none

def parseTys (s : String) : Option (List Ty) :=
  if s == "-" then some [] else (s.splitOn ",").mapM parseTy

def parseBT (s : String) : Option (Option Ty) :=
  if s == "e" then some none else (parseTy s).map some

/-- parse a body up to its terminating `end` / `else` / end of input; fuel bounds the recursion -/
def parseSeq : Nat → List String → Option (List FI × List String × String)
  | 0, _ => none
  | _ + 1, [] => some ([], [], "")
  | _ + 1, "end" :: rest => some ([], rest, "end")
  | _ + 1, "else" :: rest => some ([], rest, "else")
  | fuel + 1, tok :: rest =>
    let parts := tok.splitOn ":"
    let name := parts.headD ""
    let imm := parts.getD 1 ""
    let cont (i : FI) (rest : List String) : Option (List FI × List String × String) := do
      let (is, r, t) ← parseSeq fuel rest
      pure (i :: is, r, t)
    match name with
    | "block" => do
      let bt ← parseBT imm
      let (body, r, t) ← parseSeq fuel rest
      if t != "end" then none else cont (.block bt body) r
    | "loop" => do
      let bt ← parseBT imm
      let (body, r, t) ← parseSeq fuel rest
      if t != "end" then none else cont (.loop bt body) r
    | "if" => do
      let bt ← parseBT imm
      let (th, r, t) ← parseSeq fuel rest
      if t == "else" then
        let (el, r2, t2) ← parseSeq fuel r
        if t2 != "end" then none else cont (.ite bt th el) r2
      else if t == "end" then cont (.ite bt th []) r
      else none
    | "i32.const" => do cont (.const .i32 (← parseNat imm)) rest
    | "i64.const" => do cont (.const .i64 (← parseNat imm)) rest
    | "local.get" => do cont (.localGet (← imm.toNat?)) rest
    | "local.set" => do cont (.localSet (← imm.toNat?)) rest
    | "local.tee" => do cont (.localTee (← imm.toNat?)) rest
    | "drop" => cont .drop rest
    | "select" => cont .select rest
    | "unreachable" => cont .unreachable rest
    | "return" => cont .ret rest
    | "br" => do cont (.br (← imm.toNat?)) rest
    | "br_if" => do cont (.brIf (← imm.toNat?)) rest
    | "br_table" => do
      let ls ← (imm.splitOn ",").mapM (·.toNat?)
      cont (.brTable ls.dropLast (← ls.getLast?)) rest
    | _ =>
      if (sig1 name).isSome then cont (.num1 name) rest
      else if (sig2 name).isSome then cont (.num2 name) rest
      else none

def parseFn (ps rs ls : String) (toks : List String) : Option Fn := do
  let ps ← parseTys ps
  let rs ← parseTys rs
  let ls ← parseTys ls
  match parseSeq (toks.length + 2) toks with
  | some (body, [], "") => some ⟨ps, rs, ls, body⟩
  | _ => none

/-- Kind/B1/B2/B3 of the operation the compiler emits for a numeric instruction
(`unsignedInt`: 0 = 32, 1 = 64; `unsignedType`: 0 = I32, 1 = I64; `signedInt`: 0 = Int32, 1 = Int64, 2 = Uint32,
3 = Uint64; `signedType`: 0 = Int32, 1 = Uint32, 2 = Int64, 3 = Uint64).  `i32.xor` is emitted with
`unsignedInt64` by compiler.go. -/
def numEnc (name : String) : String :=
  match name with
  | "i32.eqz" => "Eqz/0/0/0" | "i64.eqz" => "Eqz/1/0/0"
  | "i32.eq" => "Eq/0/0/0" | "i64.eq" => "Eq/1/0/0"
  | "i32.ne" => "Ne/0/0/0" | "i64.ne" => "Ne/1/0/0"
  | "i32.lt_s" => "Lt/0/0/0" | "i32.lt_u" => "Lt/1/0/0" | "i64.lt_s" => "Lt/2/0/0" | "i64.lt_u" => "Lt/3/0/0"
  | "i32.gt_s" => "Gt/0/0/0" | "i32.gt_u" => "Gt/1/0/0" | "i64.gt_s" => "Gt/2/0/0" | "i64.gt_u" => "Gt/3/0/0"
  | "i32.le_s" => "Le/0/0/0" | "i32.le_u" => "Le/1/0/0" | "i64.le_s" => "Le/2/0/0" | "i64.le_u" => "Le/3/0/0"
  | "i32.ge_s" => "Ge/0/0/0" | "i32.ge_u" => "Ge/1/0/0" | "i64.ge_s" => "Ge/2/0/0" | "i64.ge_u" => "Ge/3/0/0"
  | "i32.clz" => "Clz/0/0/0" | "i64.clz" => "Clz/1/0/0"
  | "i32.ctz" => "Ctz/0/0/0" | "i64.ctz" => "Ctz/1/0/0"
  | "i32.popcnt" => "Popcnt/0/0/0" | "i64.popcnt" => "Popcnt/1/0/0"
  | "i32.add" => "Add/0/0/0" | "i64.add" => "Add/1/0/0"
  | "i32.sub" => "Sub/0/0/0" | "i64.sub" => "Sub/1/0/0"
  | "i32.mul" => "Mul/0/0/0" | "i64.mul" => "Mul/1/0/0"
  | "i32.div_s" => "Div/0/0/0" | "i32.div_u" => "Div/1/0/0" | "i64.div_s" => "Div/2/0/0" | "i64.div_u" => "Div/3/0/0"
  | "i32.rem_s" => "Rem/0/0/0" | "i64.rem_s" => "Rem/1/0/0" | "i32.rem_u" => "Rem/2/0/0" | "i64.rem_u" => "Rem/3/0/0"
  | "i32.and" => "And/0/0/0" | "i64.and" => "And/1/0/0"
  | "i32.or" => "Or/0/0/0" | "i64.or" => "Or/1/0/0"
  | "i32.xor" => "Xor/1/0/0" | "i64.xor" => "Xor/1/0/0"
  | "i32.shl" => "Shl/0/0/0" | "i64.shl" => "Shl/1/0/0"
  | "i32.shr_s" => "Shr/0/0/0" | "i64.shr_s" => "Shr/1/0/0" | "i32.shr_u" => "Shr/2/0/0" | "i64.shr_u" => "Shr/3/0/0"
  | "i32.rotl" => "Rotl/0/0/0" | "i64.rotl" => "Rotl/1/0/0"
  | "i32.rotr" => "Rotr/0/0/0" | "i64.rotr" => "Rotr/1/0/0"
  | "i32.wrap_i64" => "I32WrapFromI64/0/0/0"
  | "i64.extend_i32_s" => "Extend/1/0/0" | "i64.extend_i32_u" => "Extend/0/0/0"
  | "i32.extend8_s" => "SignExtend32From8/0/0/0" | "i32.extend16_s" => "SignExtend32From16/0/0/0"
  | "i64.extend8_s" => "SignExtend64From8/0/0/0" | "i64.extend16_s" => "SignExtend64From16/0/0/0"
  | "i64.extend32_s" => "SignExtend64From32/0/0/0"
  | n => "?" ++ n

def showRange : DropR → String
  | none => "-"
  | some r => s!"{r.start}..{r.stop}"

def showLabel (l : Label) : String :=
  match l.kind with
  | .header => s!"H{l.id}" | .els => s!"E{l.id}" | .cont => s!"C{l.id}" | .ret => "ret"

def showAddr (t : Nat) : String := if t == retAddr then "ret" else toString t

def showOp {τ} (sh : τ → String) : Op τ → String
  | .unreachable => "Unreachable"
  | .label l => "Label:" ++ showLabel l
  | .br t => "Br:" ++ sh t
  | .brIf a b d => s!"BrIf:{sh a},{sh b},{showRange d}"
  | .brTable ts => "BrTable:" ++ ",".intercalate (ts.map (fun p => sh p.1 ++ "/" ++ showRange p.2))
  | .drop r => "Drop:" ++ showRange (some r)
  | .select => "Select"
  | .pick d => s!"Pick:{d}"
  | .set d => s!"Set:{d}"
  | .const .i32 v => s!"ConstI32:{v}"
  | .const .i64 v => s!"ConstI64:{v}"
  | .num1 n => numEnc n
  | .num2 n => numEnc n

def showOps {τ} (sh : τ → String) (ops : List (Op τ)) : String :=
  if ops.isEmpty then "-" else " ".intercalate (ops.map (showOp sh))

def hex (n : Nat) : String := String.ofList (Nat.toDigits 16 n)

def parseArgs (s : String) : Option (List Nat) :=
  if s == "-" then some [] else (s.splitOn ",").mapM parseHex

def showFlatOut : FlatOut → String
  | .values vs => "ok" ++ String.join (vs.map (fun v => " " ++ hex v))
  | .trap k => "trap:" ++ k
  | .panic w => "panic:" ++ w
  | .exhausted => "exhausted"

abbrev St := Unit
def init : St := ()

def step (st : St) (args : List String) : St × String :=
  match args with
  | "lower" :: ps :: rs :: ls :: toks =>
    match parseFn ps rs ls toks with
    | some f => (st, showOps showAddr (lower f))
    | none => (st, "bad-op")
  | "sym" :: ps :: rs :: ls :: toks =>
    match parseFn ps rs ls toks with
    | some f => (st, showOps showLabel (lowerSym f))
    | none => (st, "bad-op")
  | "wt" :: ps :: rs :: ls :: toks =>
    match parseFn ps rs ls toks with
    | some f => (st, b2s (wellTyped f))
    | none => (st, "bad-op")
  | "run" :: ps :: rs :: ls :: fuel :: as :: toks =>
    match parseFn ps rs ls toks, parseNat fuel, parseArgs as with
    | some f, some fuel, some as =>
      let as := (f.params.zip as).map (fun (p, v) => v % 2 ^ p.bits)
      (st, showFlatOut (runFlat f as fuel))
    | _, _, _ => (st, "bad-op")
  | "srun" :: ps :: rs :: ls :: fuel :: as :: toks =>
    match parseFn ps rs ls toks, parseNat fuel, parseArgs as with
    | some f, some fuel, some as =>
      let as := (f.params.zip as).map (fun (p, v) => v % 2 ^ p.bits)
      (st, showFlatOut (.ofSpec (runStruct f as fuel)))
    | _, _, _ => (st, "bad-op")
  | _ => (st, "bad-op")

end Oracle.C01Lower
