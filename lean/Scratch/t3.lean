import Wz.Spec.Num
open Wz.Spec
example : "i32.add".splitOn "." = ["i32", "add"] := by simp [String.splitOn]
