import Wz.Props.C14
